(* Props/C05.v — inline transmissions are chunked losslessly within the command size limit.
   Only statements; proofs are in Proofs/SendProofs.v.  The model (Model/SendModel.v) transcribes
   GraphicsCommand.send and TransmitCommand.split of the repaired source (absent medium = direct). *)
From Coq Require Import ZArith NArith List Bool.
From Tup Require Import Lib.ByteStr Lib.Base64 Lib.CommandTypes Gen.TmuxGen Gen.CommandGen
  Model.GraphicsCommand Model.SendModel Model.TmuxTemplate Spec.KittyProtoSpec Spec.TmuxSpec
  Proofs.CommandProofs Proofs.SendProofs.
Import ListNotations.

(* inline c: medium is direct or absent.  template n: the library's template with n tmux layers. *)

(* 1. Every escape written is no longer than max_size — for every inline transmit command (all header field
      combinations), every payload, every max_size, every number of tmux layers. *)
Theorem C05_within_limit : forall (n : nat) t (c : transmit) (max_size : Z) ws,
  template n = Some t -> inline c ->
  send (CTransmit c) t max_size = SendOk ws ->
  Forall (fun w => (Z.of_nat (length w) <= max_size)%Z) ws.
Proof.
  intros n t c max_size ws Ht Hi Hs. destruct (template_ok n) as (t' & Ht' & Hok).
  rewrite Ht in Ht'. inversion Ht'; subst t'. exact (send_within_limit t _ _ c max_size ws Hok Hi Hs).
Qed.
Print Assumptions C05_within_limit.

(* 2. Lossless + framing.  The writes correspond one to one to a list of chunk commands such that
      - removing the n tmux layers (Spec/TmuxSpec) and parsing by the protocol format (Spec/KittyProtoSpec)
        gives, for each write, distinct keys carrying exactly the protocol fields of its chunk command and
        exactly its chunk of the payload (decodes_to);
      - the chunks concatenated in order are the original data;
      - framed: every chunk but the last has more = true (m=1) and exactly max_payload raw bytes, the last has
        m = 1 iff the caller passed more=True, else m = 0;
      - the first chunk is the original command with data/more replaced (so it carries all control keys), every
        later one is a continuation command with the same image id/number and a non-empty payload;
      - max_payload is a multiple of 3 (so full chunks are unpadded: theorem 3). *)
Theorem C05_lossless_framed : forall (n : nat) t (c : transmit) (max_size : Z) ws,
  template n = Some t -> inline c -> bytes_ok (t_data c) ->
  send (CTransmit c) t max_size = SendOk ws ->
  exists cmds, Forall2 (decodes_to n) ws cmds /\
               concat (map data_of cmds) = t_data c /\
               framed (Z.to_nat (max_payload c t max_size)) c cmds /\
               (exists d m rest, cmds = CTransmit (with_data_more c d m) :: rest /\
                                 Forall (cont_ok (Z.to_nat (max_payload c t max_size)) c) rest) /\
               (Z.to_nat (max_payload c t max_size) mod 3 = 0)%nat.
Proof. exact send_decodes. Qed.
Print Assumptions C05_lossless_framed.

(* 3. A chunk of exactly k raw bytes, k a multiple of 3, encodes with no '=' and to a multiple of 4 characters. *)
Theorem C05_full_chunks_unpadded : forall d k, bytes_ok d -> length d = k -> (k mod 3 = 0)%nat ->
  ~ In 61%N (b64encode d) /\ (length (b64encode d) mod 4 = 0)%nat.
Proof. exact full_chunk_unpadded. Qed.
Print Assumptions C05_full_chunks_unpadded.

(* 4. Continuation chunks carry at most i, I and m; the m key is the text of the chunk's more flag. *)
Theorem C05_continuation_keys : forall m key, key <> 105%N -> key <> 73%N -> key <> 109%N ->
  expected_fields (CMore m) key = None.
Proof. exact continuation_keys. Qed.
Print Assumptions C05_continuation_keys.
Theorem C05_m_key : forall cmd, (exists t, cmd = CTransmit t) \/ (exists m, cmd = CMore m) ->
  expected_fields cmd 109%N = e_bool (more_of cmd).
Proof. exact m_key_of_chunk. Qed.
Print Assumptions C05_m_key.

(* 5. A limit too small for one raw byte is rejected, and the model's error result carries no write. *)
Theorem C05_too_small_rejected : forall t (c : transmit) (max_size : Z),
  (max_payload c t max_size < 1)%Z -> send (CTransmit c) t max_size = SendError.
Proof. exact send_too_small. Qed.
Print Assumptions C05_too_small_rejected.

(* non-vacuity: a 10-byte payload with max_size 40 and one tmux layer is accepted and gives several writes *)
Definition ex_c : transmit := {|
  t_image_id := Some 7%N; t_image_number := None; t_medium := None; t_data := [1; 2; 3; 4; 5; 6; 7; 8; 9; 10]%N;
  t_size := None; t_offset := None; t_quiet := None; t_more := None; t_format := None; t_compression := None;
  t_pix_width := None; t_pix_height := None; t_query := None; t_placement := None; t_omit_action := false |}.
Example C05_nonvacuous :
  inline ex_c /\ bytes_ok (t_data ex_c) /\
  (match template 1 with
   | Some t => match send (CTransmit ex_c) t 40 with SendOk ws => Nat.leb 2 (length ws) | SendError => false end
   | None => false end) = true.
Proof. split; [right; reflexivity|split; [repeat constructor|vm_compute; reflexivity]]. Qed.
