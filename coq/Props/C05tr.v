(* Props/C05tr.v — the tie of Model/SendModel.v to the SOURCE of GraphicsCommand.send: Gen/SendTr.v is the translation of
   the current text of send() (harness/gen_sendtrans.py, regenerated on every run, with whatever private helpers it calls
   inlined); these theorems say that it does, event for event, what the model about which Props/C05.v, C09.v and C11.v
   are stated says.  Only statements; proofs are in Proofs/SendTrEq.v.
     pipe  = select.PIPE_BUF (a constant of the platform's Python, not of the source)
     t     = a template "<no %>%b<no %>" (tmpl_ok: every template of the library, Proofs/SendProofs.template_ok)
     ms    = the max_size argument (None: the default), cb = a progress callback was given *)
From Coq Require Import ZArith NArith List Bool.
From Tup Require Import Lib.CommandTypes Lib.PyEff Gen.SendTr Model.GraphicsCommand Model.SendModel Model.SendOps
  Proofs.SendProofs Proofs.SendTrEq.
Import ListNotations.

(* 1. the whole trace: initial flush; a too-small limit raises before anything is written; otherwise, for every chunk
      command of Model.send_cmds in order, write(template % content), flush, callback *)
Theorem C05tr_send_trace : forall (pipe : Z) (c : command) (t pre post : list N) (ms : option Z) (cb : bool),
  tmpl_ok t pre post ->
  tr_GraphicsCommand_send pipe c t ms cb [] =
  send_trace c t (match ms with Some v => v | None => pipe end) cb.
Proof. exact tr_send_eq. Qed.
Print Assumptions C05tr_send_trace.

(* 2. in terms of Model.send: the same byte strings in the same order; a rejected limit writes nothing *)
Theorem C05tr_send_writes : forall (pipe : Z) (c : command) (t pre post : list N) (ms : option Z) (cb : bool),
  tmpl_ok t pre post ->
  let m := match ms with Some v => v | None => pipe end in
  match send c t m with
  | SendOk ws => exists evs, tr_GraphicsCommand_send pipe c t ms cb [] = EOk tt evs /\ writes_of evs = ws
  | SendError => tr_GraphicsCommand_send pipe c t ms cb [] = EExc [EvFlush]
  end.
Proof. exact tr_send_writes. Qed.
Print Assumptions C05tr_send_writes.

(* 3. every write is followed by a flush before anything else happens *)
Theorem C05tr_every_write_flushed : forall (pipe : Z) (c : command) (t pre post : list N) (ms : option Z) (cb : bool) evs,
  tmpl_ok t pre post ->
  tr_GraphicsCommand_send pipe c t ms cb [] = EOk tt evs -> write_then_flush evs = true.
Proof. exact tr_send_flushes. Qed.
Print Assumptions C05tr_every_write_flushed.

(* non-vacuity: the default template is a template of the library, and a concrete chunked send has a trace of 1 + 3*2 events *)
Example C05tr_nonvacuous :
  tmpl_ok [27; 95; 71; 37; 98; 27; 92]%N [27; 95; 71]%N [27; 92]%N /\
  (match tr_GraphicsCommand_send 4096 (CTransmit {|
      t_image_id := Some 7%N; t_image_number := None; t_medium := Some MDirect; t_data := [1; 2; 3; 4; 5; 6; 7; 8; 9; 10]%N;
      t_size := None; t_offset := None; t_quiet := None; t_more := None; t_format := None; t_compression := None;
      t_pix_width := None; t_pix_height := None; t_query := None; t_placement := None; t_omit_action := false |})
      [27; 95; 71; 37; 98; 27; 92]%N (Some 37%Z) true [] with
   | EOk _ evs => Nat.leb 7 (length evs)
   | EExc _ => false end) = true.
Proof. split; [split; [reflexivity|split; repeat constructor]|vm_compute; reflexivity]. Qed.
