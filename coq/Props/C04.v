(* Props/C04.v — images are re-uploaded exactly when the terminal may have lost the current one.
   Only statements; proofs are in Proofs/UploadProofs.v. *)
From Coq Require Import ZArith NArith List Bool.
From Tup Require Import Model.UploadModel Spec.RetentionSpec Proofs.UploadProofs.
Import ListNotations.
Open Scope Z_scope.

(* 1+2. For an assigned id (bound to description d) and a terminal t, the library answers "no upload needed"
   IF AND ONLY IF the upload table has a row for (id, t) — by the model of mark_uploaded, the latest recorded
   upload of id to t — that carried description d, and since then fewer than Nmax other rows of t are newer
   (one row per other id: PRIMARY KEY (id, terminal)), the row's size plus the newer rows' sizes is at most Bmax,
   and its age is at most Tmax.  Both directions: "only if" and "does not ask for a needless re-upload". *)
Theorem C04_no_upload_iff : forall cur up id t now Nmax Bmax Tmax d,
  cur id = Some d ->
  (needs_uploading cur up id t now Nmax Bmax Tmax = false <->
   exists r, find_row up id t = Some r /\ rdesc r = d /\
             Z.of_nat (length (newer up t (rtime r))) < Nmax /\
             rsize r + total (newer up t (rtime r)) <= Bmax /\
             now - rtime r <= Tmax).
Proof. exact needs_uploading_iff. Qed.
Print Assumptions C04_no_upload_iff.

Theorem C04_unassigned : forall cur up id t now Nmax Bmax Tmax, cur id = None ->
  needs_uploading cur up id t now Nmax Bmax Tmax = false.
Proof. exact needs_uploading_unassigned. Qed.
Print Assumptions C04_unassigned.

(* 3. The "Hence" sentence.  In the world of Spec/RetentionSpec.v — any number of terminals and ids; bindings
   changing arbitrarily (recycle, force-set, delete, re-issue); transmissions recorded with strictly increasing
   clock; each terminal evicting whatever it likes whenever ITS OWN retention condition (Nmax others / Bmax bytes /
   Tmax age, counted over what it still holds) has failed; upload-table clean-ups — for every history in which no
   id is re-sent to a terminal with a smaller size than before (no_shrink): whenever the library says "no upload
   needed" for an assigned id, terminal t still holds under id the image currently bound to id. *)
Theorem C04_never_stale_partial : forall Nmax Bmax Tmax t0 h w t id,
  run Nmax Bmax Tmax (init t0) h = Some w ->
  no_shrink (init t0) h Nmax Bmax Tmax = true ->
  cur w id <> None ->
  needs_uploading (cur w) (up w) id t (clock w) Nmax Bmax Tmax = false ->
  shows_current w t id.
Proof. exact never_stale_partial. Qed.
Print Assumptions C04_never_stale_partial.

(* Without the no_shrink premise the statement is false of the faithful model (and of the code: known finding
   F-C04b): the table keeps only the latest size per id, so re-sending id 2 with 1 byte instead of 100 makes the
   database believe image 1 (10 bytes, quota 50) is still there although the terminal was entitled to evict it
   when the 100-byte image arrived. *)
Theorem C04_never_stale_refuted :
  exists w, run 1024 50 3600 (init 0) shrink_history = Some w /\
            cur w 1%N <> None /\
            needs_uploading (cur w) (up w) 1 7 (clock w) 1024 50 3600 = false /\
            held w 7%N 1%N = false.
Proof. exact never_stale_refuted. Qed.
Print Assumptions C04_never_stale_refuted.

(* non-vacuity of theorem 3: a history with recycling and two terminals reaches a state meeting all premises *)
Example C04_nonvacuous :
  let h := [Bind 7 100; Transmit 7 1 10 1; Bind 8 200; Transmit 8 1 30 2; Transmit 7 2 10 3; Bind 8 300; Transmit 8 1 30 4] in
  exists w, run 2 50 3600 (init 0) h = Some w /\ no_shrink (init 0) h 2 50 3600 = true /\
            needs_uploading (cur w) (up w) 7 1 (clock w) 2 50 3600 = false.
Proof. eexists. split; [vm_compute; reflexivity|split; vm_compute; reflexivity]. Qed.
