(* Props/C16.v — the tracked cursor position always matches the terminal's cursor.
   Only statements; every proof is [exact <lemma from Proofs/CursorTrackProofs.v>] (witnesses by vm_compute).

   Model: Model/CursorTrack.v (GraphicsTerminal's cursor tracking, transcribed; [src_fixes] = which of the
   repairs fixes/C16a..e the source tree has, regenerated from the source on every run).
   Spec: Spec/VtCursorSpec.v (cursor of a VT/xterm terminal, byte-level). *)
From Coq Require Import ZArith NArith List Bool.
From Tup Require Import Gen.CursorGen Model.CursorTrack Spec.VtCursorSpec Proofs.VtCursorFacts Proofs.CursorTrackProofs.
Import ListNotations.
Open Scope Z_scope.

(* Hypotheses on the arguments ([op_ok], Proofs/CursorTrackProofs.v): arguments of move_cursor_abs, scroll_*,
   set_margins and absolute placeholder positions are non-negative (arguments of move_cursor are arbitrary
   integers); what the caller writes itself is [vt_plain] (complete sequences, no DECSTBM, nothing that makes
   the terminal answer); the bytes of a graphics command are [vt_null] (APC/DCS strings: no cursor effect). *)

(* For every screen size, both reset variants and every history of calls: let T be the Spec terminal after
   all bytes written so far (display and command stream); whenever the object claims a position, T's cursor
   is there.  (Also: T's parser is back in the ground state, i.e. only complete sequences were written.) *)
Theorem C16_tracked_sound : forall (W H : Z) (sc : bool) (ops : list op),
  1 <= W -> 1 <= H -> Forall op_ok ops ->
  let w := run (pst * vt) vt_feed (Cfg src_fixes W H sc) (world0 (vt_start W H)) ops in
  let T := fst (vt_feed (vt_start W H) (w_out w)) in
  fst T = PGround /\ forall p, w_tr w = Some p -> vt_cursor (snd T) = p.
Proof. exact tracked_sound_bytes. Qed.
Print Assumptions C16_tracked_sound.

(* the terminal the model talks to has received exactly the bytes written, and no answer is left unread *)
Theorem C16_terminal_fed_output : forall (W H : Z) (c : cfg) (ops : list op),
  let w := run (pst * vt) vt_feed c (world0 (vt_start W H)) ops in
  fst (vt_feed (vt_start W H) (w_out w)) = w_term w.
Proof. exact run_feeds_output. Qed.
Print Assumptions C16_terminal_fed_output.

Theorem C16_no_stale_answers : forall (W H : Z) (sc : bool) (ops : list op),
  1 <= W -> 1 <= H -> Forall op_ok ops ->
  let w := run (pst * vt) vt_feed (Cfg src_fixes W H sc) (world0 (vt_start W H)) ops in
  fst (w_term w) = PGround /\ w_in w = [] /\ forall p, w_tr w = Some p -> vt_cursor (snd (w_term w)) = p.
Proof. exact tracked_sound_src. Qed.
Print Assumptions C16_no_stale_answers.

(* the consumer: the position print_placeholder_for_put clips and positions against (what
   get_cursor_position_tracked returns) is the terminal's true cursor, after any history *)
Theorem C16_put_uses_true_cursor : forall (W H : Z) (sc : bool) (ops : list op),
  1 <= W -> 1 <= H -> Forall op_ok ops ->
  let w := run (pst * vt) vt_feed (Cfg src_fixes W H sc) (world0 (vt_start W H)) ops in
  snd (get_cursor_position_tracked (pst * vt) vt_feed w) = RPos (vx (snd (w_term w))) (vy (snd (w_term w))).
Proof. exact consumer_sees_cursor. Qed.
Print Assumptions C16_put_uses_true_cursor.

(* it forgets the position after any output whose effect it does not model (any terminal, any state) *)
Theorem C16_forgets : forall (T : Type) (tfeed : T -> list N -> T * list N) (c : cfg) (w : world T),
  (forall bs, w_tr (fst (step T tfeed c w (OWrite bs))) = None) /\
  (forall bs, w_tr (fst (step T tfeed c w (OWriteCmd bs))) = None) /\
  (forall n, w_tr (fst (step T tfeed c w (OScrollUp n))) = None) /\
  (forall n, w_tr (fst (step T tfeed c w (OScrollDown n))) = None) /\
  (forall a b, w_tr (fst (step T tfeed c w (OSetMargins a b))) = None) /\
  (forall a, fx_ph (c_fix c) = true -> snd (step T tfeed c w (OPrintPlaceholder a)) = ROk ->
             w_tr (fst (step T tfeed c w (OPrintPlaceholder a))) = None).
Proof. exact forgets. Qed.
Print Assumptions C16_forgets.

(* non-vacuity: a history with a write, margins, a query and forced-placeholder puts meets the hypotheses, and
   the object does claim a position at the end *)
Example C16_nonvacuous :
  let ops := [OReset; OWrite [104; 105; 13; 10]%N; OSetMargins 2 9; OQuery; OMove None (Some 20) None None;
              OReset; OMove (Some 77) (Some 22) None None;
              OSendPut [27; 95; 71; 97; 61; 112; 27; 92]%N (Some 7) 1 (Some 5) (Some 4) false;
              OMoveAbs (Some 0) None; OMove None None (Some 100) (Some 3)] in
  Forall op_ok ops /\
  w_tr (run (pst * vt) vt_feed (Cfg all_fixed 80 24 false) (world0 (vt_start 80 24)) ops) = Some (0, 20).
Proof.
  cbv zeta. split; [|vm_compute; reflexivity].
  repeat constructor; cbn [op_ok arg_ok]; try (vm_compute; reflexivity); try (intros v [= <-]); try (intros ? ? [=]); try apply Z.le_refl; try discriminate.
Qed.

(* The behaviour of the unrepaired code (each repair switched off in turn) violates the statement: concrete
   histories, replayed on the real code by harness/c16.py (FIXED_HISTORIES). *)
Theorem C16a_abs_zero_refuted : refutes (Fixes false true true true true) 80 24
  [OReset; OMove (Some 5) (Some 3) None None; OMoveAbs (Some 0) None].
Proof. exact refuted_a. Qed.
Print Assumptions C16a_abs_zero_refuted.
Theorem C16b_clamp_low_refuted : refutes (Fixes true false true true true) 80 24
  [OReset; OMove (Some 5) None None None; OMove None None (Some 100) None].
Proof. exact refuted_b. Qed.
Print Assumptions C16b_clamp_low_refuted.
Theorem C16c_placeholder_refuted : refutes (Fixes true true false true true) 80 24
  [OReset; OPrintPlaceholder (PhArgs 1 0 0 0 4 3 None true false)].
Proof. exact refuted_c. Qed.
Print Assumptions C16c_placeholder_refuted.
Theorem C16d_margins_refuted : refutes (Fixes true true true false true) 80 24
  [OReset; OSetMargins 2 9; OQuery; OMove None (Some 20) None None].
Proof. exact refuted_d. Qed.
Print Assumptions C16d_margins_refuted.
Theorem C16e_pending_wrap_refuted : refutes (Fixes true true true true false) 10 5
  [OReset; OWrite (repeat 120%N 10); OSendPut [27; 95; 71; 97; 61; 112; 27; 92]%N (Some 7) 1 (Some 3) (Some 1) false].
Proof. exact refuted_e. Qed.
Print Assumptions C16e_pending_wrap_refuted.
