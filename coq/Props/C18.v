(* Props/C18.v — the exported shell script reproduces exactly the bytes that were sent.
   Only statements; every proof is [exact <lemma from Proofs/>].
   The model (Model/ShellScript.v) is the exporter WITH fixes/C18a-canonical-base64.patch and
   fixes/C18b-leading-dash.patch; on the unrepaired code the statement is false (see the two
   Examples at the end and known_findings/C18.json). *)
From Coq Require Import NArith List Bool.
From Tup Require Import Lib.ByteStr Lib.Base64 Gen.ShellScriptGen Model.ShellScript Spec.PosixShSpec
  Proofs.PosixShFacts Proofs.ShellScriptProofs.
Import ListNotations.
Open Scope N_scope.

(* For every byte string and every comment (a text without newline and NUL; the library passes
   ASCII comments), a POSIX sh running what write_to_shellscript wrote prints exactly the bytes:
   binary data, quotes, backslashes, percent signs, leading dashes, base64 look-alikes included. *)
Theorem C18_script_reproduces : forall data comment : list N,
  bytes_ok data -> ~ In 10 comment -> ~ In 0 comment ->
  PosixShSpec.eval (write_to_shellscript data comment) = Some data.
Proof. exact script_reproduces'. Qed.
Print Assumptions C18_script_reproduces.

(* comments never change the output *)
Theorem C18_comments_do_not_matter : forall data c1 c2 : list N, bytes_ok data ->
  ~ In 10 c1 -> ~ In 0 c1 -> ~ In 10 c2 -> ~ In 0 c2 ->
  PosixShSpec.eval (write_to_shellscript data c1) = PosixShSpec.eval (write_to_shellscript data c2).
Proof. exact comments_do_not_matter. Qed.
Print Assumptions C18_comments_do_not_matter.

(* a whole recording: any sequence of writes (each also sent to the terminal), interleaved with
   the comment and blank lines print_placeholder adds, prints the concatenation of what was sent *)
Theorem C18_session_reproduces : forall es : list event,
  Forall (fun e => match e with
                   | Write d c => bytes_ok d /\ ~ In 10 c /\ ~ In 0 c
                   | Raw t => (exists descr, t = placeholder_comment descr /\ ~ In 10 descr /\ ~ In 0 descr)
                              \/ t = blank_line
                   end) es ->
  PosixShSpec.eval (script_of es) = Some (terminal_of es).
Proof. exact session_reproduces'. Qed.
Print Assumptions C18_session_reproduces.

(* the escaping is inverted by printf and is safe between single quotes on one line *)
Theorem C18_printf_escape_inverse : forall x : list N, bytes_ok x ->
  printf_fmt (escape_bytes x) [] = Some (x, []) /\
  Forall (fun c => c <> 39 /\ c <> 0 /\ c <> 10) (escape_bytes x).
Proof. exact printf_escape_inverse. Qed.
Print Assumptions C18_printf_escape_inverse.

(* a run is sent through `base64 -w0` only if it is exactly the RFC 4648 encoding of the bytes
   the inner printf prints *)
Theorem C18_base64_runs_canonical : forall ch b : list N, try_base64 ch = Some b ->
  exists dec, bytes_ok dec /\ b = escape_bytes dec /\ PosixShSpec.rfc_b64 dec = ch.
Proof. exact try_base64_canonical. Qed.
Print Assumptions C18_base64_runs_canonical.

(* the chunks partition the data *)
Theorem C18_chunks_partition : forall data : list N, concat (split_chunks data) = data.
Proof. exact split_chunks_concat. Qed.
Print Assumptions C18_chunks_partition.

(* the Spec's own RFC 4648 encoder agrees with the library encoder used by the model *)
Theorem C18_spec_base64_agrees : forall l : list N, bytes_ok l -> PosixShSpec.rfc_b64 l = b64encode l.
Proof. exact rfc_b64_encode. Qed.
Print Assumptions C18_spec_base64_agrees.

(* non-vacuity: data starting with "-", containing a canonical base64 run "QUJD", NUL, quote,
   percent, backslash, newline, a run "LWZvbw==" whose decoding starts with "-", and a
   non-canonical look-alike "QR=="; with an inline and with a separate-line comment *)
Example C18_nonvacuous :
  let data := [45; 81; 85; 74; 68; 45; 0; 39; 37; 92; 10; 76; 87; 90; 118; 98; 119; 61; 61; 32; 81; 82; 61; 61] in
  bytes_ok data /\
  PosixShSpec.eval (write_to_shellscript data [99]) = Some data /\
  PosixShSpec.eval (write_to_shellscript data (repeat 99 70%nat)) = Some data /\
  write_to_shellscript data [99] <> write_to_shellscript data [].
Proof.
  split; [repeat constructor|]. split; [vm_compute; reflexivity|]. split; [vm_compute; reflexivity|].
  vm_compute. discriminate.
Qed.

(* what the Spec says about the text the UNREPAIRED exporter wrote for "QR==" and for "-f":
   the first prints "QQ==", the second has no specified behaviour *)
Example C18_unrepaired_noncanonical :
  PosixShSpec.eval (cmd_open ++ [37; 115] ++ [39] ++ param [65] ++ [10]) = Some [81; 81; 61; 61].
Proof. exact old_noncanonical_prints_other. Qed.
Example C18_unrepaired_leading_dash :
  PosixShSpec.eval (cmd_open ++ [45; 102] ++ [39; 10]) = None.
Proof. exact old_dash_unspecified. Qed.
