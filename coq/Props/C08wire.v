(* Props/C08wire.v — the print half of C08's wire-level statement (see Props/C08.v, theorem 7).
   The placeholder of a print event EPrint t id rows cols, emitted by display_only for the rectangle 0..cols x 0..rows
   (rows <= 297; property C15 keeps rows <= 256), paints on the Spec terminal exactly a cols x rows rectangle of cells
   that decode to id — the id under which C08_shown_is_requested says the terminal holds the requested image. *)
From Coq Require Import ZArith NArith List Bool.
From Tup Require Import Gen.DiacriticsGen Model.PlaceholderModel Spec.TermSpec Spec.PlaceholderSpec Spec.IdFeatureSpec
  Proofs.TermPaintFacts Proofs.PlaceholderToks Proofs.PlaceholderStmt Proofs.PlaceholderMain Proofs.PlaceholderFeatures Proofs.PlaceholderProps.
From Tup Require Lib.IdSpaceTy Model.IdSpace Model.IdManager Spec.IdLayoutSpec Proofs.IdFeatureBridge Proofs.IdManagerFacts Proofs.IdManagerProofs.
Import ListNotations.
Open Scope N_scope.

Theorem C08_wire_print :
  forall (W H : Z) (st : style) (id rows cols : N) (fewer : bool) (s : simple_bg) (t0 : term),
    (0 < W)%Z -> (0 < H)%Z -> 1 <= id < 4294967296 -> 0 < cols -> 0 < rows -> rows <= 297 -> display_style st ->
    let p := mkph id 0 0 0 cols rows in
    start_ok W H t0 -> fits W H st t0 (width p) (height p) -> (forall y x, scr t0 y x = blank_cell) ->
    exists ws,
      display_only id 0 0 cols rows fewer (to_background s) (fst (display_args st)) (snd (display_args st)) [placeholder_cp] = Ok ws /\
      let t' := feed W H t0 (wire st (concat ws)) in
      forall x y, (0 <= x < W)%Z -> (0 <= y < H)%Z ->
        decode_at (scr t') (Z.to_nat W) (Z.to_nat x) y = expected_at H p (origin_x st t0) (origin_y st t0) x y.
Proof.
  intros W H st id rows cols fewer s t0 HW HH Hid Hc Hr Hr297 Hst p Hs Hf Hb.
  exact (c14_display_decodes_stmt W H st id 0 0 cols rows fewer s t0 HW HH Hid Hc Hr ltac:(reflexivity) Hst (or_intror Hr297) Hs Hf Hb).
Qed.
Print Assumptions C08_wire_print.
