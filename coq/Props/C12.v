(* Props/C12.v — a process killed mid-operation leaves the session database consistent and usable.
   Only statements; proofs are in Proofs/SqlTxnProofs.v / SqlTxnFacts.v.

   Model/SqlTxn.v: [Kill p] may occur ANYWHERE in the event list: before BEGIN IMMEDIATE, between it and the
   statements of the transaction, before COMMIT, between two calls, while other processes are inside their own
   transactions or blocked.  The killed process loses its private view and the write lock; what sqlite committed
   stays (atomic commit and WAL recovery are sqlite's, exercised at every kill point by harness/c12.py). *)
From Coq Require Import ZArith NArith List Bool.
From Tup Require Import Lib.IdSpaceTy Model.IdSpace Model.IdManager Model.UploadModel Model.SqlTxn Spec.SerialSpec Spec.IdLayoutSpec
  Proofs.IdManagerFacts Proofs.IdManagerProofs Proofs.SqlTxnProofs Proofs.SqlTxnFacts.
Import ListNotations.

(* every write operation is ONE sqlite transaction or ONE statement in the source (proof obligations over the
   generated file; the repairs 7fa58d7 and 1c50a83 made get_id and mark_uploaded so), the constructor creates 17 objects *)
Theorem C12_source_shapes :
  Gen.TxnShapeGen.get_id_one_txn = true /\ Gen.TxnShapeGen.del_id_one_txn = true /\
  Gen.TxnShapeGen.mark_uploaded_one_txn = true /\ Gen.TxnShapeGen.schema_objects = 17.
Proof. exact (conj src_get_id_one_txn (conj src_del_id_one_txn (conj src_mark_uploaded_one_txn src_schema_objects))). Qed.
Print Assumptions C12_source_shapes.

(* 1. ALL OR NOTHING, one operation: whatever the operation (allocating, force-setting, deleting, cleaning up,
      recording or forgetting an upload, ...), whatever the database, a kill after k steps (k arbitrary: before BEGIN,
      inside the transaction, before COMMIT, after it) leaves exactly the database before or the database after *)
Theorem C12_one_call_all_or_nothing : forall s c k,
  let w := run_events compile (init_world s [[c]]) (repeat (Run 0) k ++ [Kill 0]) in
  committed w = s \/ committed w = fst (exec_call c s).
Proof. exact one_call_all_or_nothing. Qed.
Print Assumptions C12_one_call_all_or_nothing.

(* 2. ... and in general, with any number of processes, calls, kills and interleavings: the committed database is the
      one-at-a-time execution of exactly the calls that reached their commit point — an interrupted call is either
      wholly in that execution or not at all; a kill itself changes neither the database nor that history *)
Theorem C12_kills_preserve_atomicity : forall s ps es,
  let w := run_events compile (init_world s ps) es in
  SerialSpec.serial_run store call result exec_call s (log w) (committed w) /\
  forall p cs, nth_error ps p = Some cs ->
    exists pr, nth_error (procs w) p = Some pr /\
               cs = map (SerialSpec.callof call result) (SerialSpec.proj call result p (log w)) ++ todo pr.
Proof.
  intros s ps es w. destruct (schedule_serial s ps es) as (H1 & _ & H2). split; [exact H1|].
  intros p cs Hp. destruct (H2 p cs Hp) as (pr & Ha & Hb & _). exists pr. split; assumption.
Qed.
Print Assumptions C12_kills_preserve_atomicity.
Theorem C12_kill_changes_nothing_committed : forall w p, committed (kill w p) = committed w /\ log (kill w p) = log w.
Proof. exact kill_committed. Qed.
Print Assumptions C12_kill_changes_nothing_committed.

(* 3. CONSISTENT: after any schedule with kills every stored id still sits in the table of its own space and is bound
      to one description (WF); a row carries a description and a timestamp by the table definition (NOT NULL, checked by
      the extractor), in the model by the type of rows *)
Theorem C12_consistent_after_kills : forall s ps es, WF (ids s) -> Forall (Forall valid_call) ps ->
  WF (ids (committed (run_events compile (init_world s ps) es))).
Proof. exact schedule_wf. Qed.
Print Assumptions C12_consistent_after_kills.

(* 4. USABLE: the dead process holds no lock; if it was the holder nobody holds the lock any more, and then every live
      process with work left can take its next step — others do not wait for the dead one *)
Theorem C12_dead_holds_no_lock : forall w p pr, nth_error (procs (kill w p)) p = Some pr -> holds_lock pr = false.
Proof. exact kill_releases. Qed.
Print Assumptions C12_dead_holds_no_lock.
Theorem C12_kill_of_holder_frees_lock : forall w0 w p pr, Inv w0 w -> nth_error (procs w) p = Some pr -> holds_lock pr = true ->
  lock_held (kill w p) = false.
Proof. exact kill_frees_lock. Qed.
Print Assumptions C12_kill_of_holder_frees_lock.
Theorem C12_others_continue : forall s ps es q qr c rest,
  let w := run_events compile (init_world s ps) es in
  lock_held w = false -> nth_error (procs w) q = Some qr -> alive qr = true -> todo qr = c :: rest ->
  mstep compile w q <> None.
Proof.
  intros s ps es q qr c rest w. apply (enabled_when_free compile (init_world s ps) w q qr c rest compile_single).
  exact (run_inv compile _ es compile_single _ (init_inv s ps)).
Qed.
Print Assumptions C12_others_continue.

(* 5. OPENS NORMALLY: a constructor killed between any two of its CREATE ... IF NOT EXISTS statements leaves a prefix
      of the schema; any later opener (interleaved with others, killed or not) loses nothing and, once it completes,
      the schema is complete *)
Theorem C12_reopen_completes_schema : forall sc n es p pr,
  let w := orun (oinit sc n) es in
  (forall x, In x sc -> In x (osch w)) /\
  (nth_error (oprocs w) p = Some pr -> oleft pr = [] -> schema_full (osch w) = true).
Proof. exact open_complete. Qed.
Print Assumptions C12_reopen_completes_schema.

(* non-vacuity: a recycling get_id on the full two-id subspace 3:5, killed after BEGIN IMMEDIATE and the statements of
   the transaction but before COMMIT: nothing changed, the lock is free, a second process then allocates *)
Definition ex12_db : store :=
  {| ids := fun sp => match sp with Sp8 => [{| iid := 3; idesc := 10; iatime := 5 |}; {| iid := 4; idesc := 11; iatime := 6 |}] | _ => [] end; ups := [] |}.
Definition ex12_ch : choice := {| hit_pick := 3; free_pick := 3; tie := fun _ => 1%N |}.
Example C12_nonvacuous :
  let ps := [[CGet 12 Sp8 (3, 5)%N 9 1024 [] ex12_ch]; [CGet 13 Sp8 (3, 5)%N 10 1024 [] ex12_ch]] in
  let w := run_events compile (init_world ex12_db ps) [Run 0; Run 0; Run 1; Kill 0] in
  map idesc (ids (committed w) Sp8) = [10; 11]%N /\ lock_held w = false /\
  map done (procs (run_events compile w [Run 1; Run 1; Run 1])) = [[]; [RGet (GotId 3)]].
Proof. vm_compute. repeat split. Qed.
