(* Props/C15.v — computed cell size stays within limits and keeps aspect ratio within one cell.
   Only statements; every proof is [exact <lemma from Proofs/CellSizeProofs.v>].

   Model: Model/CellSize.v, a transcription of get_max_cols_and_rows / get_cell_size /
   get_optimal_cols_and_rows over an abstract float type.  Clauses 1-2 hold for EVERY instance of
   that type (in particular for binary64, Model/CellSizeFloat.v): they only depend on the integer
   clamps.  Clauses 3-4 are proved for the exact-rational instance against Spec/SizingSpec.v
   (PARTIAL: the binary64 instance is compared with the rational one and with CPython case by case
   by harness/c15.py; that floats round the same way as rationals on all inputs is NOT proved).

   All theorems about get_optimal_cols_and_rows depend on Gen.caps_explicit = true, i.e. on the
   source capping explicit dimensions (fixes/C15-explicit-over-limit.patch); on the unrepaired
   source Proofs/CellSizeProofs.src_caps_explicit fails and C15_uncapped_refuted is the witness.
   They also depend on Gen.aspect_unscaled = true (a derived dimension is computed from the unscaled
   image size: repair of F-C15b, see Props/C15float.v for the binary64 witness of the old shape). *)
From Coq Require Import ZArith Bool QArith.
From Tup Require Import Gen.CellSizeGen Model.CellSize Spec.SizingSpec Proofs.CellSizeProofs.
Open Scope Z_scope.

(* ---- clause 1: limits.  get_max_cols_and_rows returns at least 1 column, 1..256 rows ... *)
Theorem C15_limits : forall cmc cmr t amc amr mc mr,
  get_max_cols_and_rows cmc cmr t amc amr = Ok (mc, mr) -> 1 <= mc /\ 1 <= mr <= 256.
Proof. exact thm_limits. Qed.
Print Assumptions C15_limits.

(* ... taken from the call, else the configuration, else the terminal size *)
Theorem C15_limit_sources : forall cmc cmr t amc amr mc mr,
  get_max_cols_and_rows cmc cmr t amc amr = Ok (mc, mr) ->
  (forall v, amc = Some v -> 1 <= v -> mc = v) /\
  (forall v, amr = Some v -> 1 <= v -> mr = Z.min 256 v) /\
  (forall v, amc = None -> cmc = Some v -> 1 <= v -> mc = v) /\
  (forall v, amr = None -> cmr = Some v -> 1 <= v -> mr = Z.min 256 v) /\
  (forall tc tl, amc = None -> cmc = None -> t_size t = Ok (Some (tc, tl)) -> 1 <= tc -> mc = tc) /\
  (forall tc tl, amr = None -> cmr = None -> t_size t = Ok (Some (tc, tl)) -> 1 <= tl -> mr = Z.min 256 tl).
Proof. exact thm_limit_sources. Qed.
Print Assumptions C15_limit_sources.

(* any float type, any rounding: unless both dimensions are explicit the answer is within the limits *)
Theorem C15_bounds : forall num of_Z mul div is_zero ceil one (cfg : config num) t w h cols rows amc amr scale C R,
  one_auto cols rows ->
  get_optimal_cols_and_rows num of_Z mul div is_zero ceil one cfg t w h cols rows amc amr scale = Ok (C, R) ->
  exists mc mr, get_max_cols_and_rows (cfg_max_cols _ cfg) (cfg_max_rows _ cfg) t amc amr = Ok (mc, mr) /\
                1 <= C <= mc /\ 1 <= R <= mr /\ mr <= 256.
Proof. exact thm_bounds. Qed.
Print Assumptions C15_bounds.

(* ---- clause 2: explicit dimensions *)
Theorem C15_explicit_verbatim : forall num of_Z mul div is_zero ceil one (cfg : config num) t w h c r amc amr scale,
  get_optimal_cols_and_rows num of_Z mul div is_zero ceil one cfg t w h (Some c) (Some r) amc amr scale = Ok (c, r).
Proof. exact thm_explicit_verbatim. Qed.
Print Assumptions C15_explicit_verbatim.

(* explicit cols within the limit are kept, unless the rows derived from them (r0) exceeded the row limit.
   The derived dimension is computed from the UNSCALED size w x h (Gen.aspect_unscaled = true: repair of F-C15b;
   in exact arithmetic the scale cancels, C15_derived_dimension_scale_free below; in binary64 it does not,
   Props/C15float.v) *)
Theorem C15_explicit_cols_kept_unless_rows_capped :
  forall num of_Z mul div is_zero ceil one (cfg : config num) t w h c amc amr scale C R mc mr,
  get_max_cols_and_rows (cfg_max_cols _ cfg) (cfg_max_rows _ cfg) t amc amr = Ok (mc, mr) ->
  c <= mc ->
  get_optimal_cols_and_rows num of_Z mul div is_zero ceil one cfg t w h (Some c) None amc amr scale = Ok (C, R) ->
  C = c \/
  exists r0, rows_from_cols num of_Z mul div is_zero ceil
               (of_Z w) (of_Z h)
               (fst (get_cell_size (cfg_cell_size _ cfg) (cfg_default_cell_size _ cfg) t))
               (snd (get_cell_size (cfg_cell_size _ cfg) (cfg_default_cell_size _ cfg) t)) c = Ok r0 /\
             mr < r0 /\ R = mr.
Proof. exact thm_cols_kept. Qed.
Print Assumptions C15_explicit_cols_kept_unless_rows_capped.

Theorem C15_explicit_rows_kept_unless_cols_capped :
  forall num of_Z mul div is_zero ceil one (cfg : config num) t w h r amc amr scale C R mc mr,
  get_max_cols_and_rows (cfg_max_cols _ cfg) (cfg_max_rows _ cfg) t amc amr = Ok (mc, mr) ->
  r <= mr ->
  get_optimal_cols_and_rows num of_Z mul div is_zero ceil one cfg t w h None (Some r) amc amr scale = Ok (C, R) ->
  R = r \/
  exists c0, cols_from_rows num of_Z mul div is_zero ceil
               (of_Z w) (of_Z h)
               (fst (get_cell_size (cfg_cell_size _ cfg) (cfg_default_cell_size _ cfg) t))
               (snd (get_cell_size (cfg_cell_size _ cfg) (cfg_default_cell_size _ cfg) t)) r = Ok c0 /\
             mc < c0 /\ C = mc.
Proof. exact thm_rows_kept. Qed.
Print Assumptions C15_explicit_rows_kept_unless_cols_capped.

(* ---- clauses 3 and 4 are named _partial: they are proved for the exact-rational instance only.
   MISSING for the full statement: the same two theorems about the binary64 instance
   (F.f_get_optimal_cols_and_rows), i.e. that IEEE rounding in width*scale, the quotients and math.ceil
   never moves a result across an integer boundary.  That part is measured by harness/c15.py, not proved. *)
(* ---- clause 3 (exact arithmetic): both automatic and no limit in the way -> the smallest cell box
   containing the scaled image (scaled cfg scale x = x * global_scale * local scale) *)
Theorem C15_auto_minimal_partial : forall (cfg : q_config) t w h amc amr scale mc mr cw ch,
  0 < w -> 0 < h ->
  get_max_cols_and_rows (cfg_max_cols _ cfg) (cfg_max_rows _ cfg) t amc amr = Ok (mc, mr) ->
  get_cell_size (cfg_cell_size _ cfg) (cfg_default_cell_size _ cfg) t = (cw, ch) -> 0 < cw -> 0 < ch ->
  (0 < q_effective_scale cfg scale)%Q ->
  forall C0 R0, smallest_containing_box (scaled cfg scale w) (scaled cfg scale h) cw ch C0 R0 ->
    C0 <= mc -> R0 <= mr ->
    q_get_optimal_cols_and_rows cfg t w h None None amc amr scale = Ok (C0, R0).
Proof. exact thm_auto_minimal. Qed.
Print Assumptions C15_auto_minimal_partial.

Theorem C15_smallest_box_exists : forall (W H : Q) cw ch, (0 < W)%Q -> (0 < H)%Q -> 0 < cw -> 0 < ch ->
  exists C R, smallest_containing_box W H cw ch C R.
Proof. exact thm_smallest_box_exists. Qed.
Print Assumptions C15_smallest_box_exists.

(* ---- clause 4 (exact arithmetic): in every case but two explicit dimensions — automatic, explicit
   within the limits, explicit ABOVE the limits, capped or not — the box has no entirely unused
   row or column when the image is fitted into it preserving the aspect ratio *)
Theorem C15_no_unused_row_or_col_partial : forall (cfg : q_config) t w h amc amr scale mc mr cw ch,
  0 < w -> 0 < h ->
  get_max_cols_and_rows (cfg_max_cols _ cfg) (cfg_max_rows _ cfg) t amc amr = Ok (mc, mr) ->
  get_cell_size (cfg_cell_size _ cfg) (cfg_default_cell_size _ cfg) t = (cw, ch) -> 0 < cw -> 0 < ch ->
  (0 < q_effective_scale cfg scale)%Q ->
  forall cols rows C R, one_auto cols rows ->
    q_get_optimal_cols_and_rows cfg t w h cols rows amc amr scale = Ok (C, R) ->
    no_unused_row_or_col (scaled cfg scale w) (scaled cfg scale h) cw ch C R.
Proof. exact thm_no_unused. Qed.
Print Assumptions C15_no_unused_row_or_col_partial.

(* the Spec's fit factor exists (the [forall f, is_fit ...] in no_unused_row_or_col is not vacuous) *)
Theorem C15_fit_exists : forall (W H BW BH : Q), (0 < W)%Q -> (0 < H)%Q ->
  is_fit W H BW BH (fit_factor W H BW BH).
Proof. exact thm_fit_exists. Qed.
Print Assumptions C15_fit_exists.

(* ---- the scale cancels (exact arithmetic): whether a dimension is derived from the unscaled size (the source since
   the repair of F-C15b) or from the scaled one (the pinned tree) makes no difference to the rational instance — the two
   shapes differ only by floating-point rounding, which is what Props/C15float.v exhibits *)
Theorem C15_derived_dimension_scale_free : forall (cfg : q_config) t w h cols rows amc amr scale,
  0 < w -> 0 < h -> (0 < q_effective_scale cfg scale)%Q ->
  (let '(cw, ch) := get_cell_size (cfg_cell_size _ cfg) (cfg_default_cell_size _ cfg) t in 0 < cw /\ 0 < ch) ->
  q_optimal_with true true cfg t w h cols rows amc amr scale = q_optimal_with true false cfg t w h cols rows amc amr scale.
Proof. exact thm_scale_free. Qed.
Print Assumptions C15_derived_dimension_scale_free.

(* ---- the unrepaired formula (explicit dimensions not capped before use): clause 4 fails.
   1x1 px image, default 8x16 cells, 80x24 terminal, rows=3, max_rows=1  ->  6 x 1 (4 columns unused) *)
Theorem C15_uncapped_refuted :
  q_optimal_with false true refute_cfg refute_term 1 1 None (Some 3) None (Some 1) None = Ok (6, 1) /\
  ~ no_unused_row_or_col 1 1 8 16 6 1.
Proof. exact thm_uncapped_refuted. Qed.
Print Assumptions C15_uncapped_refuted.

(* non-vacuity: hypotheses of clauses 3-4 are met by the same call on the repaired model,
   which answers 2 x 1; and an over-limit explicit value on a 100x333 image *)
Example C15_nonvacuous :
  get_max_cols_and_rows (cfg_max_cols _ refute_cfg) (cfg_max_rows _ refute_cfg) refute_term None (Some 1) = Ok (80, 1) /\
  get_cell_size (cfg_cell_size _ refute_cfg) (cfg_default_cell_size _ refute_cfg) refute_term = (8, 16) /\
  (0 < q_effective_scale refute_cfg None)%Q /\ one_auto None (Some 3) /\
  q_optimal_with true true refute_cfg refute_term 1 1 None (Some 3) None (Some 1) None = Ok (2, 1) /\
  q_optimal_with true true refute_cfg refute_term 100 333 (Some 300) None None None (Some (1 # 2)%Q) = Ok (15, 24) /\
  q_optimal_with true true refute_cfg refute_term 100 333 None None None None None = Ok (13, 21).
Proof.
  repeat split; try reflexivity. intros [X _]. discriminate X.
Qed.
