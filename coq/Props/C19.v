(* Props/C19.v — terminal responses are parsed completely, in order, and never invented.
   Only statements; every proof is [exact <lemma from Proofs/>].

   Model: Model/ResponseModel.v (receive = GraphicsTerminal.receive_response,
   receive_multiple = receive_multiple_responses, cursor_report = get_cursor_position) as
   functions of the bytes pending on the terminal's input; "input exhausted" = the deadline.
   Spec:  Spec/ResponseSpec.v (how a terminal writes a response / a cursor position report and
   what a reader is expected to report, from the components).
   [agrees r e] (Proofs/ResponseProofs.v): every field of the GraphicsResponse r equals the
   corresponding field of the Spec's report e and is_valid is set.
   Not covered (property level "proof, partial"): real time — deadline arithmetic, a response
   still arriving when the deadline passes, tty line discipline. *)
From Coq Require Import ZArith NArith List Bool.
From Tup Require Import Lib.ByteStr Lib.Dec Gen.ResponseGen Model.ResponseModel Spec.ResponseSpec
  Proofs.ResponseScanFacts Proofs.ResponseIntFacts Proofs.ResponseProofs.
Import ListNotations.
Open Scope N_scope.

(* One well-formed response (any non-empty list of distinct keys in any order, with or without
   "; message") after arbitrary noise that does not complete an introducer early, followed by
   anything: the call returns exactly its ids, extra keys, message, the noise as non_response,
   is_valid, and leaves `rest` unread. *)
Theorem C19_receive_wellformed : forall noise items msg rest,
  first_at_end APC_G noise -> wf_items items -> wf_msg msg ->
  exists r, receive (noise ++ enc_response items msg ++ rest) = (Got r, rest) /\
            agrees r (expected noise items msg).
Proof. exact receive_wellformed. Qed.
Print Assumptions C19_receive_wellformed.

(* ... flagged OK iff the message is OK *)
Theorem C19_ok_iff_message_OK : forall noise items msg,
  p_ok (expected noise items msg) = true <-> msg = Some OK.
Proof. exact expected_ok_iff. Qed.
Print Assumptions C19_ok_iff_message_OK.

(* Consecutive responses, one per call, in arrival order, each with the noise that preceded it;
   nothing between them is lost and what follows the last one is left unread. *)
Theorem C19_one_per_call_in_order : forall us rest, Forall wf_unit us ->
  exists rs, receive_n (length us) (enc_stream us ++ rest) = (map Got rs, rest) /\
             Forall2 agrees rs (map expected_unit us).
Proof. exact receive_n_ok. Qed.
Print Assumptions C19_one_per_call_in_order.

(* receive_multiple_responses returns exactly the k responses in order.  The final read that
   finds no complete response consumes the tail: the tail is NOT reported to the caller (the
   invalid result that carries it is dropped by the loop) — this is what the code does. *)
Theorem C19_receive_multiple : forall us tail, Forall wf_unit us -> incomplete tail ->
  exists rs, receive_multiple (enc_stream us ++ tail) = (Some rs, []) /\
             Forall2 agrees rs (map expected_unit us).
Proof. exact receive_multiple_ok. Qed.
Print Assumptions C19_receive_multiple.

(* No complete response before the deadline: invalid, and everything read is returned. *)
Theorem C19_incomplete_is_invalid : forall tail, incomplete tail ->
  exists r, receive tail = (Got r, []) /\ invalid_with r tail.
Proof. exact receive_incomplete. Qed.
Print Assumptions C19_incomplete_is_invalid.

(* In particular every proper prefix of a well-formed response (truncation at any length). *)
Theorem C19_truncated_is_invalid : forall noise items msg p q,
  first_at_end APC_G noise -> wf_items items -> wf_msg msg ->
  q <> [] -> p ++ q = noise ++ enc_response items msg ->
  exists r, receive p = (Got r, []) /\ invalid_with r p.
Proof. exact receive_truncated. Qed.
Print Assumptions C19_truncated_is_invalid.

(* For EVERY byte stream (no hypothesis): nothing is lost and nothing is invented.  An invalid
   result returns all pending bytes; a valid result is reported only when an introducer arrived,
   and the consumed bytes are exactly non_response ++ ESC _ G ++ b, the rest stays unread. *)
Theorem C19_no_bytes_lost_none_invented : forall s,
  match receive s with
  | (Got r, rest) =>
      if is_valid r then exists b, s = non_response r ++ APC_G ++ b ++ rest
      else s = non_response r /\ rest = []
  | (Raised _, rest) => exists consumed, s = consumed ++ rest
  end.
Proof. exact receive_conserves. Qed.
Print Assumptions C19_no_bytes_lost_none_invented.

(* Cursor position query: ESC [ row ; col R after junk gives exactly (col-1, row-1) and leaves
   the rest unread ... *)
Theorem C19_cursor_report : forall junk row col rest,
  first_at_end CSI junk -> num_ok row -> num_ok col ->
  cursor_report (junk ++ enc_cpr row col ++ rest)
  = (CursorAt (Z.of_N col - 1) (Z.of_N row - 1), rest).
Proof. exact cursor_report_ok. Qed.
Print Assumptions C19_cursor_report.

(* ... no report, or an unterminated one, fails with a timeout ... *)
Theorem C19_cursor_timeout : forall s junk body,
  (absent CSI s -> cursor_report s = (CursorRaised TimeoutError, [])) /\
  (first_at_end CSI junk -> ~ In 82 body ->
   cursor_report (junk ++ CSI ++ body) = (CursorRaised TimeoutError, [])).
Proof. intros s junk body. split; [exact (cursor_report_no_intro s)|exact (cursor_report_no_final junk body)]. Qed.
Print Assumptions C19_cursor_timeout.

(* ... and for EVERY byte stream a position is returned only if a report arrived, and it is
   exactly the reported one (anything else is an error). *)
Theorem C19_cursor_never_invented : forall s,
  match cursor_report s with
  | (CursorAt x y, rest) =>
      exists junk ys xs, s = junk ++ CSI ++ ys ++ [59] ++ xs ++ [82] ++ rest /\
                         py_int xs = Some (x + 1)%Z /\ py_int ys = Some (y + 1)%Z
  | (CursorRaised _, rest) => exists consumed, s = consumed ++ rest
  end.
Proof. exact cursor_report_sound. Qed.
Print Assumptions C19_cursor_never_invented.

(* the query written to the terminal is DSR 6: ESC [ 6 n *)
Theorem C19_cursor_query : cursor_query = [27; 91; 54; 110].
Proof. exact src_cur_query. Qed.
Print Assumptions C19_cursor_query.

(* int() reads every canonical decimal of at most 4300 digits exactly (all 32-bit ids) *)
Theorem C19_ids_read_exactly : forall n,
  (n < 2 ^ 32 -> num_ok n) /\ (num_ok n -> py_int (dec n) = Some (Z.of_N n)).
Proof. intros n. split; [exact (num_ok_32 n)|exact (py_int_dec n)]. Qed.
Print Assumptions C19_ids_read_exactly.

(* ------------------------------------------------------------------ non-vacuity *)
(* noise "x ESC _" ; keys  i=31, a=T, q, I=4294967295 ; message "a;b=c,é" ; rest "zz":
   the hypotheses hold and the model returns the expected fields. *)
Example C19_nonvacuous_hyps :
  first_at_end APC_G [120; 27; 95] /\
  wf_items [ImageId 31; Extra [97] (Some [84]); Extra [113] None; ImageNumber 4294967295] /\
  wf_msg (Some [97; 59; 98; 61; 99; 44; 195; 169]) /\
  wf_msg None /\ incomplete [27; 95; 71; 105; 61] /\ first_at_end CSI [27] /\ num_ok 24.
Proof. exact nonvacuous_hyps. Qed.

Example C19_nonvacuous_run :
  receive ([120; 27; 95]
           ++ enc_response [ImageId 31; Extra [97] (Some [84]); Extra [113] None; ImageNumber 4294967295]
                           (Some [79; 75])
           ++ [122; 122])
  = (Got (mkResponse (Some 31%Z) (Some 4294967295%Z) None [([97], Some [84]); ([113], None)]
                     [79; 75] true true [120; 27; 95]), [122; 122])
  /\ cursor_report ([27] ++ enc_cpr 24 80 ++ [122]) = (CursorAt 79 23, [122]).
Proof. split; vm_compute; reflexivity. Qed.
