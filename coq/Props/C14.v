(* Props/C14.v — IDs are displayed using only the terminal features their ID space allows.
   Only statements; every proof is [exact <lemma from Proofs/>].

   ID spaces by features: Spec/IdFeatureSpec.v (colour_bits in {0,8,24}, uses_3rd; membership written
   with the bytes of the ID only).  Display path: Model.display_only = get_image_placeholder_mode
   (display_mode) + get_formatting + print_placeholder, as TupimageTerminal.display_only calls them
   for an integer ID; display_style / display_args: abs_pos=None (save/restore), use_line_feeds=True,
   or abs_pos=(x,y).  Features used are read off the Spec lexer's token stream of the bytes that
   reach the terminal.  The side condition (reset_blank = ... \/ r1 <= 297) is true for every
   rectangle on the repaired source (C13_blank_row_branch_resets) and for r1 <= 297 on the pinned one. *)
From Coq Require Import ZArith NArith List Bool.
From Tup Require Import Gen.DiacriticsGen Model.PlaceholderModel Spec.TermSpec Spec.PlaceholderSpec Spec.IdFeatureSpec
  Proofs.TermPaintFacts Proofs.PlaceholderToks Proofs.PlaceholderStmt Proofs.PlaceholderMain Proofs.PlaceholderFeatures Proofs.PlaceholderProps.
From Tup Require Lib.IdSpaceTy Model.IdSpace Model.IdManager Spec.IdLayoutSpec Proofs.IdFeatureBridge Proofs.IdManagerFacts Proofs.IdManagerProofs.
Import ListNotations.
Open Scope N_scope.

(* the mode of the display path, as extracted from get_image_placeholder_mode *)
Theorem C14_display_mode : forall fewer ph,
  display_mode fewer ph = mkmode true false true 4 (if fewer then 0 else 4) ph.
Proof. exact src_display_mode. Qed.
Print Assumptions C14_display_mode.

(* For every legal space sp and every ID of sp, every rectangle, both values of fewer_diacritics,
   every background ("none" / colour string / int) and every display style:
   - a true-colour foreground (SGR 38;2) occurs only if sp has 24 colour bits,
   - otherwise (and if there is an image row at all) the 256-colour form (SGR 38;5) is used,
   - a placeholder cell carries three diacritics only if sp uses the third diacritic. *)
Theorem C14_display_features :
  forall (st : style) (sp : feature_space) (id c0 r0 c1 r1 : N) (fewer : bool) (s : simple_bg),
    legal_space sp = true -> id_in_space sp id = true ->
    c0 < c1 -> r0 < r1 -> c0 < 297 -> display_style st ->
    (reset_blank = [27; 91; 48; 109] \/ r1 <= 297) ->
    exists ws,
      display_only id c0 r0 c1 r1 fewer (to_background s) (fst (display_args st)) (snd (display_args st)) [placeholder_cp] = Ok ws /\
      let ks := tokens (wire st (concat ws)) in
      (uses_truecolor_fg ks = true -> colour_bits sp = 24) /\
      (r0 < 297 -> colour_bits sp <> 24 -> uses_256_fg ks = true) /\
      (3 <= max_diacritics ks -> uses_3rd sp = true).
Proof. exact c14_display_features_stmt. Qed.
Print Assumptions C14_display_features.

(* ... while still decoding to the full ID (C07 for the display path) *)
Theorem C14_display_decodes :
  forall (W H : Z) (st : style) (id c0 r0 c1 r1 : N) (fewer : bool) (s : simple_bg) (t0 : term),
    (0 < W)%Z -> (0 < H)%Z -> 1 <= id < 4294967296 -> c0 < c1 -> r0 < r1 -> c0 < 297 -> display_style st ->
    (reset_blank = [27; 91; 48; 109] \/ r1 <= 297) ->
    let p := mkph id 0 c0 r0 c1 r1 in
    start_ok W H t0 -> fits W H st t0 (width p) (height p) -> (forall y x, scr t0 y x = blank_cell) ->
    exists ws,
      display_only id c0 r0 c1 r1 fewer (to_background s) (fst (display_args st)) (snd (display_args st)) [placeholder_cp] = Ok ws /\
      let t' := feed W H t0 (wire st (concat ws)) in
      forall x y, (0 <= x < W)%Z -> (0 <= y < H)%Z ->
        decode_at (scr t') (Z.to_nat W) (Z.to_nat x) y = expected_at H p (origin_x st t0) (origin_y st t0) x y.
Proof. exact c14_display_decodes_stmt. Qed.
Print Assumptions C14_display_decodes.

(* non-vacuity: the five spaces are legal; ID 0x0300002A is in the 8-colour-bit space with third
   diacritic: its display stream uses the 256-colour form, no true colour, and three diacritics;
   ID 0x00010000 is in the 24-bit space without third diacritic: true colour, two diacritics *)
Example C14_nonvacuous :
  forallb legal_space [mkspace 0 true; mkspace 8 true; mkspace 24 true; mkspace 8 false; mkspace 24 false] = true /\
  id_in_space (mkspace 8 true) 50331690 = true /\ id_in_space (mkspace 24 false) 65536 = true /\
  match display_only 50331690 0 0 3 2 false BgNoneStr None false [placeholder_cp],
        display_only 65536 0 0 3 2 true (BgInt 7) None false [placeholder_cp] with
  | Ok ws1, Ok ws2 =>
      let k1 := tokens (concat ws1) in let k2 := tokens (concat ws2) in
      uses_truecolor_fg k1 = false /\ uses_256_fg k1 = true /\ max_diacritics k1 = 3 /\
      uses_truecolor_fg k2 = true /\ uses_256_fg k2 = false /\ max_diacritics k2 = 2
  | _, _ => False
  end.
Proof. vm_compute. repeat split; reflexivity. Qed.

(* The feature spaces above are exactly the ID spaces of the allocator (Spec/IdLayoutSpec.v, properties C10/C01):
   the two Specs were written independently from the byte layout and are proved equal. *)
Theorem C14_feature_space_is_id_space : forall (sp : Lib.IdSpaceTy.space) (id : N),
  legal_space (Proofs.IdFeatureBridge.feature_of sp) = true /\
  (id_in_space (Proofs.IdFeatureBridge.feature_of sp) id = true <-> Spec.IdLayoutSpec.in_space sp id).
Proof. intros sp id. split; [apply Proofs.IdFeatureBridge.feature_of_legal|apply Proofs.IdFeatureBridge.feature_space_is_id_space]. Qed.
Print Assumptions C14_feature_space_is_id_space.

(* Hence every id the library allocates in a space (C01) meets the hypothesis of C14_display_features for that space:
   an application restricted to the features of the configured space can show every image allocated in it. *)
Theorem C14_allocated_ids_are_displayable : forall d desc sp sub now mx samples ch id d',
  Proofs.IdManagerFacts.WF d -> Spec.IdLayoutSpec.valid_sub sub -> Proofs.IdManagerProofs.sound_samples sp sub samples ->
  Model.IdManager.get_id d desc sp sub now mx samples ch = (Model.IdManager.GotId id, d') ->
  legal_space (Proofs.IdFeatureBridge.feature_of sp) = true /\ id_in_space (Proofs.IdFeatureBridge.feature_of sp) id = true.
Proof.
  intros d desc sp sub now mx samples ch id d' Hw Hv Hs Hg. split; [apply Proofs.IdFeatureBridge.feature_of_legal|].
  apply Proofs.IdFeatureBridge.feature_space_is_id_space.
  exact (proj1 (Proofs.IdManagerProofs.get_id_in_subspace d desc sp sub now mx samples ch id d' Hw Hv Hs Hg)).
Qed.
Print Assumptions C14_allocated_ids_are_displayable.
