(* Props/C07.v — printed Unicode placeholders decode to exactly the requested cells.
   Only statements; every proof is [exact <lemma from Proofs/>].

   Vocabulary (Proofs/PlaceholderStmt.v, definitions only): mode_ok = the 160 constructible modes with
   the protocol's placeholder character; style / stream_of / wire = the four output styles of
   ImagePlaceholder.to_stream and the bytes that reach the terminal (line-feed style: through a tty
   with ONLCR); fits = the rectangle fits horizontally (strictly for the relative-move style; start
   column 0 for the line-feed style; also vertically for the absolute style); expected_at = the cell
   the protocol must decode at screen position (x,y) after max 0 (y0 + rows - H) lines were scrolled.
   Terminal: Spec/TermSpec.v.  Decoder: Spec/PlaceholderSpec.v (decode_at). *)
From Coq Require Import ZArith NArith List Bool.
From Tup Require Import Gen.DiacriticsGen Model.PlaceholderModel Spec.TermSpec Spec.PlaceholderSpec
  Proofs.DiacriticsFacts Proofs.TermPaintFacts Proofs.PlaceholderToks Proofs.PlaceholderStmt Proofs.PlaceholderMain Proofs.PlaceholderProps.
Import ListNotations.
Open Scope N_scope.

(* the table in the source is the protocol's table (editing one diacritic breaks this proof) *)
Theorem C07_table_is_protocol_table : rowcolumn_diacritics = protocol_diacritics.
Proof. exact src_table_is_protocol_table. Qed.
Print Assumptions C07_table_is_protocol_table.

(* For every image ID in 1..2^32-1, placement ID < 2^24, rectangle 0 <= c0 < c1, 0 <= r0 < r1 <= 297,
   c0 < 297 (any c1, also > 297), each of the 160 modes, each of the four styles, every screen W x H,
   every start state t0 (any SGR state, any saved cursor) with a blank screen and no pending wrap:
   after feeding the bytes the model emits, every screen cell decodes to exactly what the statement
   of C07 requires: (id, pid, r, c) inside the (scrolled) rectangle, nothing anywhere else. *)
Theorem C07_decodes :
  forall (W H : Z) (id pid c0 r0 c1 r1 : N) (m : mode) (st : style) (t0 : term),
    (0 < W)%Z -> (0 < H)%Z ->
    1 <= id < 4294967296 -> pid < 16777216 -> c0 < c1 -> r0 < r1 <= 297 -> c0 < 297 ->
    mode_ok m ->
    let p := mkph id pid c0 r0 c1 r1 in
    start_ok W H t0 -> fits W H st t0 (width p) (height p) -> (forall y x, scr t0 y x = blank_cell) ->
    exists ws, stream_of st p m FNone = Ok ws /\
      let t' := feed W H t0 (wire st (concat ws)) in
      forall x y, (0 <= x < W)%Z -> (0 <= y < H)%Z ->
        decode_at (scr t') (Z.to_nat W) (Z.to_nat x) y = expected_at H p (origin_x st t0) (origin_y st t0) x y.
Proof. exact c07_decodes_stmt. Qed.
Print Assumptions C07_decodes.

(* non-vacuity: a 3 x 2 rectangle of image 0x01000102 printed with save/restore from the bottom row of
   a 6 x 2 screen scrolls one line; the hypotheses hold and the decoder sees row 1, column 2 at (x,y) = (3,1) *)
Example C07_nonvacuous :
  let p := mkph 16777474 5 0 0 3 2 in
  let m := mkmode true false true 4 4 [placeholder_cp] in
  let t0 := blank_term 1 1 in
  mode_ok m /\ rect_ok p /\ start_ok 6 2 t0 /\ fits 6 2 StSaveRestore t0 (width p) (height p) /\
  match stream_of StSaveRestore p m FNone with
  | Ok ws => decode_at (scr (feed 6 2 t0 (concat ws))) 6 3 1%Z = Some (mkdecoded 16777474 5 1 2)
             /\ decode_at (scr (feed 6 2 t0 (concat ws))) 6 0 1%Z = None
  | _ => False
  end.
Proof.
  cbv zeta. split; [|split; [|split; [|split]]].
  - unfold mode_ok. cbn. repeat split; discriminate || reflexivity.
  - unfold rect_ok. cbn. repeat split; discriminate || reflexivity.
  - unfold start_ok. cbn. repeat split; discriminate || reflexivity.
  - cbn. discriminate.
  - vm_compute. split; reflexivity.
Qed.
