(* Props/C07.v — printed Unicode placeholders decode to exactly the requested cells. (in progress) *)
From Coq Require Import NArith List Bool.
From Tup Require Import Gen.DiacriticsGen Spec.PlaceholderSpec Proofs.DiacriticsFacts.
Import ListNotations.
Open Scope N_scope.

Theorem C07_table_is_protocol_table : rowcolumn_diacritics = protocol_diacritics.
Proof. exact src_table_is_protocol_table. Qed.
Print Assumptions C07_table_is_protocol_table.
