(* Props/C10.v — ID spaces partition the 32-bit IDs; enumeration, size, membership, filters agree.
   Only statements; every proof is [exact <lemma from Proofs/>].

   Spec side: Spec/IdLayoutSpec.v ([byte], [in_space], [sub_byte], [in_sub], [valid_sub],
   [nonzero_values]; bytes only, no masks or shifts).  Model side: Model/IdSpace.v, the
   transcription of tupimage/id_manager.py IDSubspace / IDSpace whose integer literals are
   regenerated from the source on every run (Gen/IdSpaceGen.v).  Every statement below is for ALL
   ids (is_id id := 0 < id < 2^32 where needed), all five spaces, all valid subspaces, all split
   counts, all lists of random draws. *)
From Coq Require Import ZArith NArith List Bool.
From Tup Require Import Lib.IdSpaceTy Spec.IdLayoutSpec Model.IdSpace
  Proofs.IdLayoutFacts Proofs.IdSpaceFacts Proofs.IdEnumFacts Proofs.IdGenFacts Proofs.IdSplitFacts Proofs.IdStringFacts.
Import ListNotations.
Open Scope N_scope.

(* 1. Every non-zero 32-bit ID belongs to exactly one of the five spaces, the one from_id computes;
      anything else is rejected. *)
Theorem C10_partition : forall id, is_id id ->
  exists sp, from_id id = Some sp /\ in_space sp id /\ forall sp', in_space sp' id -> sp' = sp.
Proof. exact partition. Qed.
Print Assumptions C10_partition.

Theorem C10_from_id_iff : forall id sp, from_id id = Some sp <-> in_space sp id.
Proof. exact from_id_spec. Qed.
Print Assumptions C10_from_id_iff.

Theorem C10_all_spaces : forall sp : space, In sp all_spaces.
Proof. exact all_spaces_complete. Qed.
Print Assumptions C10_all_spaces.

(* 2. Within a space, an ID belongs to a subspace iff its subspace byte is in the range: the SQL
      filter `(id & mask) BETWEEN begin AND end - 1`, contains_and_in_subspace and
      get_subspace_byte all agree with the byte layout. *)
Theorem C10_filter_iff : forall sp s id, valid_sub s -> in_space sp id ->
  (sql_filter sp s id = true <-> in_sub sp s id).
Proof. exact sql_filter_iff. Qed.
Print Assumptions C10_filter_iff.

(* the filter looks at the subspace byte only, whatever the other bytes are *)
Theorem C10_filter_byte : forall sp s id, 1 <= snd s ->
  (sql_filter sp s id = true <-> fst s <= sub_byte sp id < snd s).
Proof. exact sql_filter_byte. Qed.
Print Assumptions C10_filter_byte.

Theorem C10_contains_and_in_subspace : forall sp s id, is_id id ->
  exists b, contains_and_in_subspace sp id s = Some b /\ (b = true <-> in_sub sp s id).
Proof. exact contains_and_in_subspace_spec. Qed.
Print Assumptions C10_contains_and_in_subspace.

Theorem C10_contains : forall sp id, is_id id ->
  exists b, contains sp id = Some b /\ (b = true <-> in_space sp id).
Proof. exact contains_spec. Qed.
Print Assumptions C10_contains.

Theorem C10_get_subspace_byte : forall sp id, in_space sp id -> get_subspace_byte id = Some (sub_byte sp id).
Proof. exact get_subspace_byte_spec. Qed.
Print Assumptions C10_get_subspace_byte.

(* 3. Enumeration yields each member exactly once and nothing else; the reported size is that count
      (lengths in N), and is at least the number of non-zero byte values, hence at least 1. *)
Theorem C10_all_ids_spec : forall sp s, valid_sub s ->
  NoDup (all_ids sp s) /\
  (forall id, In id (all_ids sp s) <-> in_sub sp s id) /\
  N.of_nat (length (all_ids sp s)) = subspace_size sp s.
Proof.
  intros sp s H. split; [exact (all_ids_nodup sp s H)|].
  split; [intros id; exact (all_ids_member sp s id H)|exact (all_ids_length sp s H)].
Qed.
Print Assumptions C10_all_ids_spec.

Theorem C10_size_positive : forall sp s, valid_sub s -> 1 <= nonzero_values s <= subspace_size sp s.
Proof. exact subspace_size_pos. Qed.
Print Assumptions C10_size_positive.

(* 4. Random generation.  A run is determined by the values secrets.randbelow returns (the draws).
      Whenever the run completes — which it does unless the draws run out or a draw is not below the
      bound asked, C10_gen_stuck — the draws consumed were below the bounds asked and the result is
      a member; every bound asked is positive; every member is the result of some run. *)
Theorem C10_gen_sound : forall sp s ds id asked rest, valid_sub s ->
  gen_random_id sp s ds = Done id asked rest ->
  in_sub sp s id /\ exists used, ds = used ++ rest /\ Forall2 N.lt used asked.
Proof. exact gen_sound. Qed.
Print Assumptions C10_gen_sound.

Theorem C10_gen_stuck : forall sp s ds, valid_sub s ->
  match gen_random_id sp s ds with
  | Done _ _ _ => True
  | NoDraw k n => length ds = length k
  | BadDraw k n d => n <= d /\ nth_error ds (length k) = Some d
  end.
Proof. exact gen_stuck. Qed.
Print Assumptions C10_gen_stuck.

Theorem C10_gen_bounds_positive : forall sp s ds, valid_sub s ->
  Forall (fun n => 0 < n) (asked_of (gen_random_id sp s ds)).
Proof. exact gen_bounds_positive. Qed.
Print Assumptions C10_gen_bounds_positive.

Theorem C10_gen_complete : forall sp s id, valid_sub s -> in_sub sp s id ->
  exists ds asked, gen_random_id sp s ds = Done id asked [].
Proof. intros sp s id Hv Hin. exists (draws_for sp s id). exact (gen_complete sp s id Hv Hin). Qed.
Print Assumptions C10_gen_complete.

(* 5. Subspaces with disjoint byte ranges have disjoint IDs (and so disjoint enumerations). *)
Theorem C10_disjoint : forall sp s1 s2 id, snd s1 <= fst s2 \/ snd s2 <= fst s1 ->
  ~ (in_sub sp s1 id /\ in_sub sp s2 id).
Proof. exact in_sub_disjoint. Qed.
Print Assumptions C10_disjoint.

Theorem C10_disjoint_all_ids : forall sp s1 s2 id, valid_sub s1 -> valid_sub s2 ->
  snd s1 <= fst s2 \/ snd s2 <= fst s1 -> ~ (In id (all_ids sp s1) /\ In id (all_ids sp s2)).
Proof.
  intros sp s1 s2 id H1 H2 Hd [A B]. apply (in_sub_disjoint sp s1 s2 id Hd).
  split; [apply (all_ids_member sp s1 id H1), A|apply (all_ids_member sp s2 id H2), B].
Qed.
Print Assumptions C10_disjoint_all_ids.

(* 6. Splitting into k parts, 1 <= k <= number of non-zero byte values: k valid subspaces, the first
      begins at b, the last ends at e, consecutive ones abut, each has a non-zero byte value (hence,
      by C10_size_positive, at least one usable ID in every space); other counts are refused. *)
Theorem C10_split_spec : forall s k, valid_sub s -> (1 <= k <= Z.of_N (nonzero_values s))%Z ->
  exists parts, split s k = SplitOk parts /\
    Z.of_nat (length parts) = k /\
    (exists p rest, parts = p :: rest /\ fst p = fst s) /\
    snd (last parts (0, 0)) = snd s /\
    abut parts /\
    Forall (fun p => valid_sub p /\ 1 <= nonzero_values p) parts.
Proof. exact split_spec. Qed.
Print Assumptions C10_split_spec.

Theorem C10_split_errors : forall s k, valid_sub s ->
  (k <= 0 \/ Z.of_N (nonzero_values s) < k)%Z -> split s k = SplitValueError.
Proof. exact split_errors. Qed.
Print Assumptions C10_split_errors.

(* ... pointwise: every byte value of [b, e) lies in exactly one part, parts are in increasing order *)
Theorem C10_split_cover : forall s k parts, valid_sub s -> split s k = SplitOk parts ->
  (forall x, fst s <= x < snd s <-> exists p, In p parts /\ fst p <= x < snd p) /\
  (forall i j p q, nth_error parts i = Some p -> nth_error parts j = Some q -> (i < j)%nat -> snd p <= fst q).
Proof. exact split_cover. Qed.
Print Assumptions C10_split_cover.

(* names: printing then parsing a space / a valid subspace gives it back (the subspace statement is
   checked on each of the finitely many valid (b, e), 0 <= b < e <= 256, by computation) *)
Theorem C10_space_string_roundtrip : forall sp, space_from_string (space_to_string sp) = Some sp.
Proof. exact space_string_roundtrip. Qed.
Print Assumptions C10_space_string_roundtrip.

Theorem C10_subspace_string_roundtrip : forall s, valid_sub s -> sub_from_string (sub_to_string s) = Some s.
Proof. exact subspace_string_roundtrip. Qed.
Print Assumptions C10_subspace_string_roundtrip.

(* the executable Spec predicates used as oracle on the implementation's outputs decide the Spec *)
Theorem C10_oracle_decides : forall sp s id,
  (in_space_b sp id = true <-> in_space sp id) /\ (in_sub_b sp s id = true <-> in_sub sp s id) /\
  (valid_sub_b s = true <-> valid_sub s) /\ (valid_subspace s = true <-> valid_sub s).
Proof.
  intros sp s id. split; [exact (in_space_b_iff sp id)|]. split; [exact (in_sub_b_iff sp s id)|].
  split; [exact (valid_sub_b_iff s)|exact (valid_subspace_iff s)].
Qed.
Print Assumptions C10_oracle_decides.

(* non-vacuity: the hypotheses are satisfiable and the objects are what one expects *)
Example C10_nonvacuous :
  valid_sub (0, 256) /\ valid_sub (3, 4) /\ is_id 0x01020304 /\ in_sub Sp32 (1, 2) 0x01020304 /\
  from_id 0x01020304 = Some Sp32 /\ from_id 0x00000005 = Some Sp8 /\ from_id 0x07000000 = Some Sp8d /\
  from_id 0 = None /\ from_id 0x100000000 = None /\
  all_ids Sp8 (0, 4) = [1; 2; 3] /\ subspace_size Sp8 (0, 4) = 3 /\
  sql_filter Sp24 (2, 3) 0x00020000 = true /\ sql_filter Sp24 (2, 3) 0x00030000 = false /\
  gen_random_id Sp32 (1, 2) [0; 4; 2; 3] = Done 0x01020304 [1; 256; 256; 256] [] /\
  split (0, 256) 3 = SplitOk [(0, 86); (86, 171); (171, 256)] /\
  split (0, 2) 1 = SplitOk [(0, 2)] /\ split (0, 2) 2 = SplitValueError.
Proof.
  split; [apply valid_sub_b_iff; reflexivity|]. split; [apply valid_sub_b_iff; reflexivity|].
  split; [apply is_id_b_iff; reflexivity|]. split; [apply in_sub_b_iff; reflexivity|].
  repeat split; vm_compute; reflexivity.
Qed.
