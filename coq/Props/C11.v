(* Props/C11.v — tmux pass-through wrapping is exactly invertible.
   Only statements; every proof is [exact <lemma from Proofs/>]. *)
From Coq Require Import NArith List Bool.
From Coq Require Import ZArith.
From Tup Require Import Lib.ByteStr Lib.PyFmt Lib.CommandTypes Gen.TmuxGen Model.TmuxTemplate Model.GraphicsCommand Model.SendModel Spec.TmuxSpec
  Proofs.TmuxProofs Proofs.CommandProofs Proofs.SendProofs Proofs.FaultProofs.
Import ListNotations.
Open Scope N_scope.

(* For every number of layers n and every command content c without ESC (contents are
   "k=v,...;base64": C06_contents_have_no_esc in Props/C06.v, used in C11_commands below), the bytes the library emits
   with n layers configured are unwrapped by tmux's rule, n times, to exactly the bytes it
   emits with no tmux configured. *)
Theorem C11_unwrap_n : forall (n : nat) (c : list N), has_byte 27 c = false ->
  exists out out0, emit n c = Some out /\ emit 0 c = Some out0 /\ TmuxSpec.unwrapn n out = Some out0.
Proof. exact unwrapn_emit. Qed.
Print Assumptions C11_unwrap_n.

(* ... and inside every one of the n wrappers no lone ESC occurs (layers_ok also re-checks the
   unwrapping; it is the executable oracle used on the implementation's bytes). *)
Theorem C11_no_lone_esc : forall (n : nat) (c : list N), has_byte 27 c = false ->
  exists out out0, emit n c = Some out /\ emit 0 c = Some out0 /\ TmuxSpec.layers_ok n out out0 = true.
Proof. exact layers_ok_emit. Qed.
Print Assumptions C11_no_lone_esc.

(* each layer is literally ESC P tmux; <inner layer with every ESC doubled> ESC \ *)
Theorem C11_layer_shape : forall (n : nat) (c : list N), has_byte 27 c = false ->
  exists inner, emit n c = Some inner /\
                emit (S n) c = Some (TmuxSpec.dcs_prefix ++ replace1 27 [27; 27] inner ++ [27; 92]).
Proof. exact emit_layer_shape. Qed.
Print Assumptions C11_layer_shape.

(* auto-detection, both sites: on iff TMUX is set and non-empty and TERM contains "screen" or "tmux" *)
Theorem C11_detect_iff : forall env term,
  (detect_with detect_needles_terminal env term = true <->
     (exists v, env = Some v /\ v <> []) /\
     (contains_sub screen_b term = true \/ contains_sub tmux_b term = true)) /\
  (detect_with detect_needles_highlevel env term = true <->
     (exists v, env = Some v /\ v <> []) /\
     (contains_sub screen_b term = true \/ contains_sub tmux_b term = true)).
Proof. intros env term. split; apply detect_with_iff; reflexivity. Qed.
Print Assumptions C11_detect_iff.

(* for every command of the library (every type, any payload): n layers unwrap to the 0-layer bytes *)
Theorem C11_commands : forall (n : nat) (c : command), payload_ok c ->
  exists out out0, emit n (content_bytes c) = Some out /\ emit 0 (content_bytes c) = Some out0 /\
                   TmuxSpec.layers_ok n out out0 = true.
Proof. intros n c H. apply layers_ok_emit. apply content_no_esc. exact H. Qed.
Print Assumptions C11_commands.

(* non-vacuity: a real command content meets the hypothesis, and 2 layers unwrap *)
(* ---- re-configuration of a live TupimageTerminal: after `t.num_tmux_layers = n` — whatever was assigned before, "auto"
   included — the configuration reads n and every command is wrapped n times.  Rests on the setter writing the
   GraphicsTerminal too (Gen.highlevel_setter_propagates, read from the source on every run; repair 855db56 of F-C11a). *)
Theorem C11_reconfigured_terminal_wraps_n : forall ops (n : nat) s (c : list N), has_byte 27 c = false ->
  let s' := hl_run Gen.TmuxGen.highlevel_setter_propagates s (ops ++ [SetLayers n]) in
  cfg_layers s' = n /\
  exists out out0, hl_emit s' c = Some out /\ emit 0 c = Some out0 /\ TmuxSpec.unwrapn n out = Some out0.
Proof. rewrite src_highlevel_setter_propagates. exact reconfigured_wraps_n. Qed.
Print Assumptions C11_reconfigured_terminal_wraps_n.
(* the pinned tree's setter changed the configuration only: it then says 2 while the commands go out bare *)
Theorem C11_unpropagated_setter_refuted :
  let s' := hl_run false {| cfg_layers := 0; term_layers := 0 |} [SetLayers 2] in
  cfg_layers s' = 2%nat /\ hl_emit s' [97] = emit 0 [97] /\ hl_emit s' [97] <> emit 2 [97].
Proof. exact unpropagated_setter_refuted. Qed.
Print Assumptions C11_unpropagated_setter_refuted.

(* ---- a chunked transmission that stops under way (I/O error on the payload or the stream, an interrupt, a raising
   callback) after j of its writes: what has reached the command stream with n layers configured is, write for write, the
   n-fold wrapping of what reaches it with no tmux configured — in particular nothing bare and nothing extra.  The limit is
   given net of the template's length (send() subtracts it), so both runs cut the payload at the same places; j is
   arbitrary, so this covers every fault point, and the complete transmission (j >= the number of writes). *)
Theorem C11_interrupted_transmission : forall (n : nat) tn t0 (c : transmit) (m : Z) wsn ws0,
  template n = Some tn -> template 0 = Some t0 -> inline c -> bytes_ok (t_data c) ->
  send (CTransmit c) tn (m + Z.of_nat (length tn)) = SendOk wsn ->
  send (CTransmit c) t0 (m + Z.of_nat (length t0)) = SendOk ws0 ->
  length wsn = length ws0 /\
  forall j, Forall2 (fun w w0 => TmuxSpec.layers_ok n w w0 = true) (firstn j wsn) (firstn j ws0).
Proof. exact interrupted_transmission. Qed.
Print Assumptions C11_interrupted_transmission.
(* ... and a limit is refused with n layers iff it is refused with none *)
Theorem C11_rejection_independent_of_layers : forall tn t0 (c : transmit) (m : Z),
  send_cmds (CTransmit c) tn (m + Z.of_nat (length tn)) = None <-> send_cmds (CTransmit c) t0 (m + Z.of_nat (length t0)) = None.
Proof. exact rejection_independent_of_layers. Qed.
Print Assumptions C11_rejection_independent_of_layers.
Definition ex_tr : transmit := {|
  t_image_id := Some 7%N; t_image_number := None; t_medium := Some MDirect; t_data := [1; 2; 3; 4; 5; 6; 7; 8; 9; 10]%N;
  t_size := None; t_offset := None; t_quiet := None; t_more := None; t_format := None; t_compression := None;
  t_pix_width := None; t_pix_height := None; t_query := None; t_placement := None; t_omit_action := false |}.
Example C11_interrupted_nonvacuous :
  inline ex_tr /\ bytes_ok (t_data ex_tr) /\
  (match template 2, template 0 with
   | Some t2, Some t0 =>
       match send (CTransmit ex_tr) t2 (30 + Z.of_nat (length t2)), send (CTransmit ex_tr) t0 (30 + Z.of_nat (length t0)) with
       | SendOk w2, SendOk w0 => Nat.leb 2 (length w2) && Nat.eqb (length w2) (length w0)
       | _, _ => false
       end
   | _, _ => false end) = true.
Proof. split; [left; reflexivity|split; [repeat constructor|vm_compute; reflexivity]]. Qed.

Example C11_nonvacuous :
  has_byte 27 [97; 61; 84; 44; 105; 61; 49; 59; 81; 81; 61; 61] = false /\
  (match emit 2 [97; 61; 84] with Some o => TmuxSpec.unwrapn 2 o | None => None end) = emit 0 [97; 61; 84].
Proof. split; reflexivity. Qed.
