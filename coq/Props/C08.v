(* Props/C08.v — after upload-and-display the terminal shows the requested image in the cells.   PARTIAL.
   Only statements; proofs are in Proofs/SystemProofs.v, SystemPolicy.v, SystemFacts.v, SystemCodec.v.

   Model: Model/SystemModel.v (requests of TupimageTerminal over abstract images, composed with Model/IdManager.v and
   Model/UploadModel.v); Spec: Spec/SystemSpec.v (terminals that keep the last complete transmission per id and open
   announced file names themselves).  A history is any list of requests: the user writes/deletes files; calls
   assign_id / upload / upload_and_display on an image, a file name, an ImageInstance (any, also stale or invented),
   or an id (get_image_instance + upload_and_display), with arbitrary options per call: terminal, id space and
   subspace (recycling included), upload method, SSH or not, force, limits, formats, thresholds, clocks and
   allocator choices.

   What is NOT shown by these theorems (only exercised by harness/c08.py, or out of reach): that Pillow's encoders,
   decoders and resize keep the pixels; that (path, mtime) determines a file's content (premise req_ok / world_ok);
   md5 collisions; races on the user's file between the library's check and the terminal's read; several processes
   interleaving between assign, transmit, mark and print (F-C04: C03's subject); what a terminal evicts (C04);
   that the bytes on the streams are the events of the model (C05, C06, C07 + the correspondence run). *)
From Coq Require Import ZArith NArith List Bool.
From Tup Require Import Lib.IdSpaceTy Lib.CommandTypes Lib.SystemTypes Gen.SystemGen Model.IdManager Model.UploadModel
  Model.SystemModel Spec.SystemSpec Spec.KittyProtoSpec Proofs.SystemStmt Proofs.SystemFacts Proofs.SystemCodec
  Proofs.SystemProofs Proofs.SystemPolicy.
From Tup Require Lib.ByteStr Model.TmuxTemplate Model.SendModel Proofs.SendProofs Proofs.SystemWire.
Import ListNotations.
Open Scope N_scope.

(* 1. For every history from the empty database: whenever a call prints a placeholder (id, rows, cols) on a
      terminal, that terminal has received — as the LAST complete transmission under that id — the pixels of the
      image the call asked for, with a virtual placement of exactly rows x cols.  (run_ok threads the terminals'
      stores through all events of the history and judges each Print at its moment: Proofs/SystemStmt.v.)
      The model is that of the code with fixes/C08-rebind-stale-instance.patch (Gen flag
      upload_rebinds_stale_instance = true). *)
Theorem C08_shown_is_requested : forall C cd h, world_ok C -> codec_ok cd -> Forall (req_ok C) h ->
  run_ok upload_rebinds_stale_instance C cd init_sys (fun _ => None) empty_store h.
Proof. exact shown_is_requested. Qed.

(* 1'. The code without that patch (upload(ImageInstance) trusts the instance's id): the same statement holds
      exactly under the premise that whenever a call with an ImageInstance transmits nothing, the instance's id is
      still bound to the instance's description — and is false without it (F-C08b, second half). *)
Theorem C08_shown_is_requested_partial : forall C cd h, world_ok C -> codec_ok cd -> Forall (req_ok C) h ->
  premise_along cd init_sys h -> run_ok false C cd init_sys (fun _ => None) empty_store h.
Proof. exact shown_is_requested_partial. Qed.
Theorem C08_shown_is_requested_refuted :
  exists C cd h, world_ok C /\ codec_ok cd /\ Forall (req_ok C) h /\
                 ~ run_ok false C cd init_sys (fun _ => None) empty_store h.
Proof. exact shown_is_requested_refuted. Qed.

(* descr_injective, in-memory half: the description of an in-memory image (digest over mode, size and bytes; md5
   taken as collision-free) determines its pixels; with the original bytes-only digest it did not (F-C08). *)
Theorem C08_mem_descr_injective : forall a b, key_of a = key_of b -> a = b.
Proof. exact key_of_injective. Qed.
Theorem C08_old_digest_refuted :
  img_4x1 <> img_1x4 /\
  DMem (key_of_gen false img_4x1) 2 1 = DMem (key_of_gen false img_1x4) 2 1 /\
  DMem (key_of_gen true img_4x1) 2 1 <> DMem (key_of_gen true img_1x4) 2 1.
Proof. exact old_digest_refuted. Qed.

(* 2. Medium policy, for every call in every state: a transmission goes to the caller's terminal; a file name is
      announced (t=f / t=t) only if the method is "file", or "auto" outside an SSH session; t=t only for the temp
      file the library wrote in this very call; a user's path only as t=f; inline data only as t=d. *)
Theorem C08_medium_policy : forall rb cd s a subj o x,
  In (ETx x) (snd (step_gen rb cd s (RCall a subj o))) ->
  x_term x = o_term o /\ policy_ok s o (snd (step_gen rb cd s (RCall a subj o))) x.
Proof. exact medium_policy. Qed.

(* 3. The placement (r=, c=) and the id of every transmission of a call are the rows, cols and id of the
      placeholder the call prints. *)
Theorem C08_placement_matches_print : forall rb cd s a subj o x t id r c,
  In (ETx x) (snd (step_gen rb cd s (RCall a subj o))) -> In (EPrint t id r c) (snd (step_gen rb cd s (RCall a subj o))) ->
  t = x_term x /\ id = x_id x /\ r = x_rows x /\ c = x_cols x.
Proof. exact placement_matches_print. Qed.

(* 4. What the library encodes itself (temp file, inline PNG) is the image at its own size unless it exceeds the
      limit configured for the resolved method (3 bytes per pixel for RGB, 4 otherwise). *)
Theorem C08_downscaled_only_over_limit : forall rb cd s a subj o,
  (forall k c, In (EMkTemp k c) (snd (step_gen rb cd s (RCall a subj o))) -> scaled_ok o c) /\
  (forall x c, In (ETx x) (snd (step_gen rb cd s (RCall a subj o))) -> x_payload x = PData c -> scaled_ok o c).
Proof. exact downscaled_only_over_limit. Qed.

(* 5. The command object of a transmission event is a transmit-and-display (a=T) with a virtual placement (U=1),
      r/c/i of the event, q=2, f=100 and the medium letter — the protocol fields C06 proves are on the wire. *)
Theorem C08_command_fields : forall x data,
  expected_transmit (command_of x data) 97 = Some [84] /\
  expected_transmit (command_of x data) 85 = Some [49] /\
  expected_transmit (command_of x data) 105 = e_num (Some (x_id x)) /\
  expected_transmit (command_of x data) 114 = e_num (Some (x_rows x)) /\
  expected_transmit (command_of x data) 99 = e_num (Some (x_cols x)) /\
  expected_transmit (command_of x data) 116 = e_medium (Some (x_medium x)) /\
  expected_transmit (command_of x data) 113 = Some [50] /\
  expected_transmit (command_of x data) 102 = Some [49; 48; 48].
Proof. exact command_fields. Qed.

(* 6. Source ties consumed by the proofs: the temp-file prefix and the SSH variables are those of the Spec *)
Theorem C08_source_literals : temp_prefix = library_temp_prefix /\ ssh_variables = ssh_variable_names.
Proof. split; [exact src_prefix|exact src_ssh_vars]. Qed.

Print Assumptions C08_shown_is_requested.
Print Assumptions C08_shown_is_requested_partial.
Print Assumptions C08_shown_is_requested_refuted.
Print Assumptions C08_mem_descr_injective.
Print Assumptions C08_old_digest_refuted.
Print Assumptions C08_medium_policy.
Print Assumptions C08_placement_matches_print.
Print Assumptions C08_downscaled_only_over_limit.
Print Assumptions C08_command_fields.
Print Assumptions C08_source_literals.

(* non-vacuity: the hypotheses are satisfiable (a codec exists; the empty world; a history with recycling and a
   stale instance satisfies req_ok), the repaired model prints after transmitting A in the stale-instance history,
   and premise_along holds of a history with a fresh instance *)
Example C08_nonvacuous :
  codec_ok the_codec /\ world_ok (fun _ _ => None) /\ Forall (req_ok (fun _ _ => None)) stale_history /\
  snd (run_gen true the_codec init_sys stale_history) =
  [[];
   [ETx {| x_term := 1; x_id := 5; x_medium := MDirect; x_payload := PData (whole img_b); x_rows := 1; x_cols := 2 |}; EPrint 1 5 1 2];
   [ETx {| x_term := 1; x_id := 5; x_medium := MDirect; x_payload := PData (whole img_a); x_rows := 1; x_cols := 2 |}; EPrint 1 5 1 2]] /\
  premise_along the_codec init_sys
    [RCall AAssign (SImg (SMem img_a)) w_opts;
     RCall AUploadDisplay (SInst {| n_src := IMem img_a; n_cols := 2; n_rows := 1; n_id := 5 |}) w_opts].
Proof.
  split; [exact the_codec_ok|split; [intro p; reflexivity|split; [apply w_req_ok|split; [exact stale_history_repaired|]]]].
  cbn [premise_along inst_premise]. split; [exact I|split; [|exact I]]. right. left. vm_compute. reflexivity.
Qed.

(* 7. The same events at the level of BYTES (composition with C05/C06/C11 and C07/C14): what the library writes for a
      transmission event, through GraphicsCommand.send with its n-layer tmux template and any max_size, is decoded by the
      Spec terminal side (tmux unwrapping + protocol parser) to the event's control data (a=T, U=1, i, r, c) and, chunk by
      chunk, to exactly its payload; a file-name transmission is one escape carrying exactly the file name. *)
Theorem C08_wire_inline_transmission : forall (n : nat) t x data (max_size : Z) ws,
  Model.TmuxTemplate.template n = Some t -> x_medium x = MDirect -> Lib.ByteStr.bytes_ok data ->
  Model.SendModel.send (CTransmit (command_of x data)) t max_size = Model.SendModel.SendOk ws ->
  exists cmds first rest,
    cmds = first :: rest /\
    Forall2 (Proofs.SendProofs.decodes_to n) ws cmds /\
    concat (map Proofs.SendProofs.data_of cmds) = data /\
    expected_fields first 97 = Some [84] /\ expected_fields first 85 = Some [49] /\
    expected_fields first 105 = e_num (Some (x_id x)) /\
    expected_fields first 114 = e_num (Some (x_rows x)) /\ expected_fields first 99 = e_num (Some (x_cols x)) /\
    Forall (fun c => exists m, c = CMore m /\ m_image_id m = Some (x_id x)) rest.
Proof. exact Proofs.SystemWire.tx_inline_wire. Qed.
Print Assumptions C08_wire_inline_transmission.

Theorem C08_wire_filename_transmission : forall (n : nat) t x name (max_size : Z) ws,
  Model.TmuxTemplate.template n = Some t -> x_medium x <> MDirect -> Lib.ByteStr.bytes_ok name ->
  Model.SendModel.send (CTransmit (command_of x name)) t max_size = Model.SendModel.SendOk ws ->
  exists w, ws = [w] /\ Proofs.SendProofs.decodes_to n w (CTransmit (command_of x name)).
Proof. exact Proofs.SystemWire.tx_filename_wire. Qed.
Print Assumptions C08_wire_filename_transmission.

(* the print half of the wire-level statement is in Props/C08wire.v (it lives in the placeholder vocabulary) *)
