(* Props/C06.v — graphics commands serialise to well-formed escapes that decode to the same fields.
   Only statements; proofs are in Proofs/CommandProofs.v. *)
From Coq Require Import ZArith NArith List Bool.
From Tup Require Import Lib.ByteStr Lib.CommandTypes Gen.TmuxGen Gen.CommandGen Model.GraphicsCommand Model.SendModel Model.SendCommand
  Spec.KittyProtoSpec Proofs.CommandProofs Proofs.SendCommandProofs.
Import ListNotations.
Open Scope N_scope.

(* For every transmit, continuation, put or delete command c (all field subsets, all numeric values in N,
   every enum member, any byte payload): the bytes emitted with the default template are
   ESC _ G <content> ESC \ ; the protocol-format parser of Spec/KittyProtoSpec.v accepts them and returns
   a key/value list with distinct keys in which every key letter k carries exactly the text the protocol
   prescribes for the field that is set (expected_fields c k; None = key absent), and the exact payload. *)
Theorem C06_roundtrip : forall c : command, payload_ok c ->
  exists esc kvs,
    to_bytes default_template c = Some esc /\
    esc = [27; 95; 71] ++ content_bytes c ++ [27; 92] /\
    parse_escape esc = Some (kvs, expected_payload c) /\
    NoDup (map fst kvs) /\
    (forall k, sp_assoc k kvs = expected_fields c k).
Proof. exact command_roundtrip. Qed.
Print Assumptions C06_roundtrip.

(* the executable form of the same statement, which the harness evaluates on the implementation's bytes *)
Theorem C06_conforms : forall c : command, payload_ok c ->
  exists esc, to_bytes default_template c = Some esc /\ conforms c esc = true.
Proof. exact command_conforms. Qed.
Print Assumptions C06_conforms.

(* command contents never contain ESC: the hypothesis of the C11 theorems holds for every command *)
Theorem C06_contents_have_no_esc : forall c : command, payload_ok c -> has_byte 27 (content_bytes c) = false.
Proof. exact content_no_esc. Qed.
Print Assumptions C06_contents_have_no_esc.

(* ---- GraphicsTerminal.send_command, the one way the library and the CLI put commands on the command stream
   (Model/SendCommand.v).  It may rewrite a command only when asked to — force_placeholders / force_direct_transmission,
   the per-call argument deciding when it is given, the terminal's attribute otherwise. *)
(* with both switches effectively off, send_command is GraphicsCommand.send of the caller's command *)
Theorem C06_send_command_unrewritten : forall tf cp cd pid file t (m : Z) c,
  effective cp (tf_placeholders tf) = false -> effective cd (tf_direct tf) = false ->
  send_command tf cp cd pid file t m c =
    match send c t m with SendError => ScRejected | SendOk ws => ScWritten ws false end.
Proof. exact send_command_off. Qed.
Print Assumptions C06_send_command_unrewritten.
(* an explicit per-call False wins over the terminal's attribute (the `x or attr` reading is a different function) *)
Theorem C06_per_call_false_wins : forall tf pid file c,
  rewrite_command tf (Some false) (Some false) pid file c = Some (c, false).
Proof. exact per_call_false_wins. Qed.
Print Assumptions C06_per_call_false_wins.
Theorem C06_or_reading_refuted : effective (Some false) true <> effective_or (Some false) true.
Proof. exact effective_or_refuted. Qed.
Print Assumptions C06_or_reading_refuted.
(* the forced-placeholder rewrite of a put: virtual, a placement id (the caller's, else the drawn one), nothing else changed;
   a virtual put is left alone *)
Theorem C06_forced_placeholder_put : forall pid u,
  let '(c', pr) := rewrite_placeholders pid (CPut u) in
  if is_virtual (u_placement u) then c' = CPut u /\ pr = false
  else exists u', c' = CPut u' /\ pr = true /\
        u_image_id u' = u_image_id u /\ u_image_number u' = u_image_number u /\ u_quiet u' = u_quiet u /\
        p_virtual (u_placement u') = Some true /\
        p_placement_id (u_placement u') = Some (match p_placement_id (u_placement u) with Some x => x | None => pid end) /\
        same_geometry (u_placement u) (u_placement u').
Proof. exact rewrite_placeholders_put. Qed.
Print Assumptions C06_forced_placeholder_put.
(* the forced-direct rewrite touches only file-name transmissions with a non-empty name: medium direct, payload = contents *)
Theorem C06_forced_direct : forall file c c', rewrite_direct file c = Some c' ->
  c' = c \/
  exists t content, c = CTransmit t /\ (t_medium t = Some MFile \/ t_medium t = Some MTemp) /\ t_data t <> [] /\
                    file (t_data t) = Some content /\ c' = CTransmit (with_medium_data t (Some MDirect) content).
Proof. exact rewrite_direct_spec. Qed.
Print Assumptions C06_forced_direct.
(* whatever the switches, the command that is sent serialises to an escape that decodes to exactly ITS fields *)
Theorem C06_send_command_decodes : forall tf cp cd pid file c c' pr,
  (forall name content, file name = Some content -> bytes_ok content) ->
  payload_ok c -> rewrite_command tf cp cd pid file c = Some (c', pr) ->
  exists esc kvs,
    to_bytes default_template c' = Some esc /\
    parse_escape esc = Some (kvs, expected_payload c') /\
    NoDup (map fst kvs) /\
    (forall k, sp_assoc k kvs = expected_fields c' k).
Proof.
  intros tf cp cd pid file c c' pr Hf Hp Hr.
  destruct (command_roundtrip c' (rewritten_payload_ok tf cp cd pid file c c' pr Hf Hp Hr)) as (esc & kvs & H1 & _ & H3 & H4 & H5).
  exists esc, kvs. repeat split; assumption.
Qed.
Print Assumptions C06_send_command_decodes.

(* non-vacuity: a transmit-and-display command with a binary payload meets the hypothesis, and the oracle
   rejects a wrong escape *)
Definition ex_cmd : command := CTransmit {|
  t_image_id := Some 4294967295; t_image_number := None; t_medium := Some MDirect; t_data := [0; 255; 27; 59];
  t_size := None; t_offset := None; t_quiet := Some QAlways; t_more := Some false; t_format := Some FPng;
  t_compression := None; t_pix_width := None; t_pix_height := None; t_query := None;
  t_placement := Some {| p_placement_id := None; p_virtual := Some true; p_rows := Some 2; p_cols := Some 3;
                         p_do_not_move_cursor := None; p_src_x := None; p_src_y := None; p_src_w := None; p_src_h := None |};
  t_omit_action := false |}.
Example C06_nonvacuous :
  payload_ok ex_cmd /\
  (match to_bytes default_template ex_cmd with Some e => conforms ex_cmd e | None => false end) = true /\
  conforms ex_cmd [27; 95; 71; 97; 61; 116; 27; 92] = false.
Proof. split; [repeat constructor|split; vm_compute; reflexivity]. Qed.

Definition ex_put : put := {| u_image_id := Some 9; u_image_number := None; u_quiet := None;
  u_placement := {| p_placement_id := None; p_virtual := None; p_rows := Some 2; p_cols := Some 3;
                    p_do_not_move_cursor := None; p_src_x := None; p_src_y := None; p_src_w := None; p_src_h := None |} |}.
Example C06_send_command_nonvacuous :
  (* terminal forces placeholders, the call does not say: rewritten and a placeholder is to be printed *)
  (match rewrite_command {| tf_placeholders := true; tf_direct := false |} None None 77 (fun _ => None) (CPut ex_put) with
   | Some (CPut u', true) => N.eqb (match p_placement_id (u_placement u') with Some x => x | None => 0 end) 77
   | _ => false end) = true /\
  (* the call opts out: untouched *)
  rewrite_command {| tf_placeholders := true; tf_direct := true |} (Some false) (Some false) 77 (fun _ => None) (CPut ex_put) = Some (CPut ex_put, false).
Proof. split; reflexivity. Qed.
