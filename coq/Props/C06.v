(* Props/C06.v — graphics commands serialise to well-formed escapes that decode to the same fields.
   Only statements; proofs are in Proofs/CommandProofs.v. *)
From Coq Require Import NArith List Bool.
From Tup Require Import Lib.ByteStr Lib.CommandTypes Gen.TmuxGen Gen.CommandGen Model.GraphicsCommand
  Spec.KittyProtoSpec Proofs.CommandProofs.
Import ListNotations.
Open Scope N_scope.

(* For every transmit, continuation, put or delete command c (all field subsets, all numeric values in N,
   every enum member, any byte payload): the bytes emitted with the default template are
   ESC _ G <content> ESC \ ; the protocol-format parser of Spec/KittyProtoSpec.v accepts them and returns
   a key/value list with distinct keys in which every key letter k carries exactly the text the protocol
   prescribes for the field that is set (expected_fields c k; None = key absent), and the exact payload. *)
Theorem C06_roundtrip : forall c : command, payload_ok c ->
  exists esc kvs,
    to_bytes default_template c = Some esc /\
    esc = [27; 95; 71] ++ content_bytes c ++ [27; 92] /\
    parse_escape esc = Some (kvs, expected_payload c) /\
    NoDup (map fst kvs) /\
    (forall k, sp_assoc k kvs = expected_fields c k).
Proof. exact command_roundtrip. Qed.
Print Assumptions C06_roundtrip.

(* the executable form of the same statement, which the harness evaluates on the implementation's bytes *)
Theorem C06_conforms : forall c : command, payload_ok c ->
  exists esc, to_bytes default_template c = Some esc /\ conforms c esc = true.
Proof. exact command_conforms. Qed.
Print Assumptions C06_conforms.

(* command contents never contain ESC: the hypothesis of the C11 theorems holds for every command *)
Theorem C06_contents_have_no_esc : forall c : command, payload_ok c -> has_byte 27 (content_bytes c) = false.
Proof. exact content_no_esc. Qed.
Print Assumptions C06_contents_have_no_esc.

(* non-vacuity: a transmit-and-display command with a binary payload meets the hypothesis, and the oracle
   rejects a wrong escape *)
Definition ex_cmd : command := CTransmit {|
  t_image_id := Some 4294967295; t_image_number := None; t_medium := Some MDirect; t_data := [0; 255; 27; 59];
  t_size := None; t_offset := None; t_quiet := Some QAlways; t_more := Some false; t_format := Some FPng;
  t_compression := None; t_pix_width := None; t_pix_height := None; t_query := None;
  t_placement := Some {| p_placement_id := None; p_virtual := Some true; p_rows := Some 2; p_cols := Some 3;
                         p_do_not_move_cursor := None; p_src_x := None; p_src_y := None; p_src_w := None; p_src_h := None |};
  t_omit_action := false |}.
Example C06_nonvacuous :
  payload_ok ex_cmd /\
  (match to_bytes default_template ex_cmd with Some e => conforms ex_cmd e | None => false end) = true /\
  conforms ex_cmd [27; 95; 71; 97; 61; 116; 27; 92] = false.
Proof. split; [repeat constructor|split; vm_compute; reflexivity]. Qed.
