(* Props/C13.v — each placeholder line is self-contained and leaves text attributes reset.
   Only statements; every proof is [exact <lemma from Proofs/>].
   Quantifier: every legal rectangle (rect_ok: also rows >= 297, printed as blanks), each of the 160
   modes, every background-only formatting b (none / bytes / per-row function / per-cell function
   built from SGR 48;5;n and 48;2;r;g;b sequences - what TupimageTerminal.get_formatting produces).
   These theorems are about the REPAIRED to_lines (fixes/C13-blank-row-reset.patch, finding F-C13):
   they depend on Proofs/BlankRowReset.v, whose proof fails on the pinned source. *)
From Coq Require Import ZArith NArith List Bool.
From Tup Require Import Gen.DiacriticsGen Model.PlaceholderModel Spec.TermSpec Spec.PlaceholderSpec
  Proofs.TermLexFacts Proofs.TermPaintFacts Proofs.PlaceholderToks Proofs.PlaceholderStmt Proofs.PlaceholderMain
  Proofs.PlaceholderLines Proofs.BlankRowReset Proofs.PlaceholderProps13.
Import ListNotations.
Open Scope N_scope.

(* the blank-row branch of to_lines ends with the reset (false on the pinned source: F-C13) *)
Theorem C13_blank_row_branch_resets : reset_blank = [27; 91; 48; 109] /\ blank_row_resets = true.
Proof. exact (conj src_reset_blank src_blank_row_resets). Qed.
Print Assumptions C13_blank_row_branch_resets.

(* 1. every line is  ESC[0m . formatting . colours . cells . ESC[0m  (colours: only rows < 297) *)
Theorem C13_line_shape : forall p m b, rect_ok p -> mode_ok m ->
  exists lines, to_lines p m (fmt_of b) false = Ok lines /\ length lines = height p /\
    forall i, (i < height p)%nat ->
      let row := start_row p + N.of_nat i in
      nth i lines [] = [27; 91; 48; 109] ++ ser_bgs (row_bgs b row) ++ ser_toks (line_colours p m row)
                       ++ ser_toks (flat_map item_toks (line_cells p m b row)) ++ [27; 91; 48; 109].
Proof. exact c13_line_shape_stmt. Qed.
Print Assumptions C13_line_shape.

(* 2. any selection [sel] of the emitted lines (subset, reordering, repetition) written one per
   screen line, each terminated by LF, through a tty with ONLCR (what head / tail / grep / cat
   produce), from column 0 of a blank screen of any height (scrolling included): every cell decodes
   to (id, pid, row of that line, c0 + x); nothing else decodes; attributes end reset. *)
Theorem C13_lines_alone_decode :
  forall (W H : Z) p m b (t0 : term) (sel : list nat) (restn : nat),
    (0 < W)%Z -> (0 < H)%Z -> rect_ok p -> mode_ok m ->
    sel <> [] -> Forall (fun i => (i < height p)%nat) sel ->
    pend t0 = false -> cx t0 = 0%Z -> (0 <= cy t0 < H)%Z -> W = Z.of_nat (width p + restn) ->
    (forall y x, scr t0 y x = blank_cell) ->
    exists lines, to_lines p m (fmt_of b) false = Ok lines /\
      let t' := feed W H t0 (tty_onlcr (selected_bytes lines sel)) in
      sgr t' = default_attrs /\
      forall x y, (0 <= x < W)%Z -> (0 <= y < H)%Z ->
        decode_at (scr t') (Z.to_nat W) (Z.to_nat x) y = expected_selected H p sel (cy t0) x y.
Proof. exact c13_lines_alone_decode_stmt. Qed.
Print Assumptions C13_lines_alone_decode.

(* 3a. after any single line (alone, or followed by LF with or without ONLCR), from ANY terminal
   state - any cursor, pending wrap, colours, screen - foreground, underline and background are default *)
Theorem C13_attrs_reset_after_line : forall (W H : Z) p m b (t0 : term), rect_ok p -> mode_ok m ->
  exists lines, to_lines p m (fmt_of b) false = Ok lines /\
    forall i, (i < height p)%nat ->
      sgr (feed W H t0 (nth i lines [])) = default_attrs /\
      sgr (feed W H t0 (tty_onlcr (nth i lines [] ++ [10]))) = default_attrs /\
      sgr (feed W H t0 (nth i lines [] ++ [10])) = default_attrs.
Proof. exact c13_attrs_reset_after_line_stmt. Qed.
Print Assumptions C13_attrs_reset_after_line.

(* 3b. after any complete to_stream output, in each of the four styles, from ANY terminal state
   (no fit condition) *)
Theorem C13_attrs_reset_after_stream : forall (W H : Z) st p m b (t0 : term), rect_ok p -> mode_ok m ->
  exists ws, stream_of st p m (fmt_of b) = Ok ws /\ sgr (feed W H t0 (wire st (concat ws))) = default_attrs.
Proof. exact c13_attrs_reset_after_stream_stmt. Qed.
Print Assumptions C13_attrs_reset_after_stream.

(* 4. caller-supplied background applies only inside the placeholder's cells: on a screen whose
   cells all have the default background, every cell outside the (scrolled) rectangle still has it *)
Theorem C13_bg_confined : forall (W H : Z) st p m b (t0 : term), (0 < W)%Z -> (0 < H)%Z ->
  rect_ok p -> mode_ok m -> start_ok W H t0 -> fits W H st t0 (width p) (height p) ->
  (forall y x, cbg (scr t0 y x) = CDefault) ->
  exists ws, stream_of st p m (fmt_of b) = Ok ws /\
    forall x y, (0 <= y < H)%Z -> in_rect H p (origin_x st t0) (origin_y st t0) x y = false ->
      cbg (scr (feed W H t0 (wire st (concat ws))) y x) = CDefault.
Proof. exact c13_bg_confined_stmt. Qed.
Print Assumptions C13_bg_confined.

(* C07 for every rectangle (rows >= 297 decode to nothing) and every background formatting *)
Theorem C13_decodes_formatted :
  forall (W H : Z) (p : placeholder) (m : mode) (b : bgfmt) (st : style) (t0 : term),
    (0 < W)%Z -> (0 < H)%Z -> rect_ok p -> mode_ok m ->
    start_ok W H t0 -> fits W H st t0 (width p) (height p) -> (forall y x, scr t0 y x = blank_cell) ->
    exists ws, stream_of st p m (fmt_of b) = Ok ws /\
      let t' := feed W H t0 (wire st (concat ws)) in
      forall x y, (0 <= x < W)%Z -> (0 <= y < H)%Z ->
        decode_at (scr t') (Z.to_nat W) (Z.to_nat x) y = expected_at H p (origin_x st t0) (origin_y st t0) x y.
Proof. exact c13_decodes_formatted_stmt. Qed.
Print Assumptions C13_decodes_formatted.

(* non-vacuity, and the F-C13 witness on the repaired model: rows 296..298 (two of them beyond the
   table) with a red background: the hypotheses hold; the last line alone (a blank row) leaves the
   background default; the line for row 296 shown alone decodes to row 296 *)
Example C13_nonvacuous :
  let p := mkph 7 0 0 296 2 299 in
  let m := mkmode true false true 4 4 [placeholder_cp] in
  let b := BBytes [BgI 1] in
  rect_ok p /\ mode_ok m /\
  match to_lines p m (fmt_of b) false with
  | Ok lines =>
      abg (sgr (feed 4 3 (blank_term 0 0) (nth 2 lines []))) = CDefault /\
      decode_at (scr (feed 4 3 (blank_term 0 0) (tty_onlcr (selected_bytes lines [2%nat; 0%nat])))) 4 1 1%Z
        = Some (mkdecoded 7 0 296 1)
  | _ => False
  end.
Proof.
  cbv zeta. split; [|split].
  - unfold rect_ok. cbn. repeat split; discriminate || reflexivity.
  - unfold mode_ok. cbn. repeat split; discriminate || reflexivity.
  - vm_compute. split; reflexivity.
Qed.
