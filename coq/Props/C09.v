(* Props/C09.v — a failed or interrupted transmission is never recorded as uploaded.
   Only statements; proofs are in Proofs/UploadFlowProofs.v.  Model/UploadFlow.v transcribes the tail of
   TupimageTerminal.upload of the repaired source (the previous record is forgotten before transmitting). *)
From Coq Require Import ZArith NArith List Bool.
From Tup Require Import Model.UploadModel Model.UploadFlow Proofs.UploadFlowProofs.
Import ListNotations.
Open Scope Z_scope.

(* For every database state, request (forced or not), sequence of escapes ws (file-name command: one; inline:
   any number of chunks) and EVERY fault position j among the write/flush calls of the transmission
   (an I/O error raised there, or the process dying there): *)

(* 1. the failure is reported, exactly the calls before j happened, and afterwards the upload table has no row
      for (id, terminal) — all other rows are untouched *)
Theorem C09_failed_upload_not_recorded : forall cur up q ws j,
  wants cur up q = true -> (j < length (send_actions ws))%nat ->
  exists up', upload cur up q ws (Some j) = (Failed, up', firstn j (send_actions ws)) /\
              find_row up' (q_id q) (q_term q) = None /\
              (forall x, In x up' <-> In x up /\ same_key (q_id q) (q_term q) x = false).
Proof. exact failed_upload_not_recorded. Qed.
Print Assumptions C09_failed_upload_not_recorded.

(* 2. so the next request for that (still assigned) id on that terminal transmits again, in full *)
Theorem C09_next_request_retransmits : forall cur up q ws j q' ws',
  wants cur up q = true -> (j < length (send_actions ws))%nat ->
  q_id q' = q_id q -> q_term q' = q_term q -> cur (q_id q) <> None ->
  exists up' up'', upload cur up q ws (Some j) = (Failed, up', firstn j (send_actions ws)) /\
                   upload cur up' q' ws' None = (Uploaded, up'', send_actions ws') /\
                   written (send_actions ws') = ws'.
Proof. exact next_request_retransmits. Qed.
Print Assumptions C09_next_request_retransmits.

(* 3. an upload is recorded only after the last byte of the last chunk has been written and flushed *)
Theorem C09_recorded_only_after_complete : forall cur up q ws fail up' done,
  upload cur up q ws fail = (Uploaded, up', done) -> done = send_actions ws.
Proof. exact recorded_only_after_complete. Qed.
Print Assumptions C09_recorded_only_after_complete.
Theorem C09_mark_after_last_flush : forall cur up q ws,
  wants cur up q = true ->
  upload cur up q ws None =
    (Uploaded, mark_uploaded cur (unmark_uploaded up (q_id q) (q_term q)) (q_id q) (q_term q) (q_size q) (q_mark_time q),
     send_actions ws) /\
  last (send_actions ws) Flush = Flush.
Proof. exact mark_after_last_flush. Qed.
Print Assumptions C09_mark_after_last_flush.

(* non-vacuity: a forced re-upload of an already recorded image, failing at the 4th call *)
Example C09_nonvacuous :
  let cur := fun i : N => if (i =? 5)%N then Some 9%N else None in
  let up := [{| rid := 5; rterm := 1; rdesc := 9; rsize := 10; rtime := 1 |}] in
  let q := {| q_id := 5; q_term := 1; q_force := true; q_size := 10; q_now := 2; q_mark_time := 3;
              q_nmax := 1024; q_bmax := 1000; q_tmax := 3600 |} in
  wants cur up q = true /\ fst (fst (upload cur up q [[1%N]; [2%N]; [3%N]] (Some 3%nat))) = Failed.
Proof. split; vm_compute; reflexivity. Qed.
