(* Props/C15float.v — the binary64 witness of F-C15b, inside Coq.

   In exact arithmetic it makes no difference whether a dimension is derived from the scaled or from the unscaled
   image size (C15_derived_dimension_scale_free).  In binary64 it does: `size * scale` is rounded, the quotient
   rows*ch*W / (H*cw) of two rounded numbers lands a hair above an integer, math.ceil takes the next integer, and the
   box gets an entirely unused column — or, when that column is capped away at the limit, an unused row
   (re-derived with the same rounding).  The statements below evaluate Model/CellSizeFloat.v (the model that
   harness/c15.py compares with CPython on every case) on the witnesses; the Spec predicate judges the boxes.

   This file is the only one that depends on Coq's primitive floats: Print Assumptions lists the PrimFloat /
   Uint63 primitives (part of the kernel's trusted base, not axioms of this development). *)
From Coq Require Import ZArith Bool QArith.
From Coq Require PrimFloat.
From Tup Require Import Gen.CellSizeGen Model.CellSize Model.CellSizeFloat Spec.SizingSpec Proofs.CellSizeFloatFacts.
Import PrimFloat.
Open Scope Z_scope.

(* 8x8 image, local scale 0.1, global scale 0.1, 1x1 cells, limits 255 x 256, rows=255:
   the pinned tree (derive from the scaled size) answers 255 x 256, the repaired one 255 x 255 *)
(* fl_cfg = config(cell_size=(1,1), scale=0.1, global_scale=0.1, max_cols=auto, max_rows=auto), call limits max_cols=255 max_rows=256; fl_term: a 200x60 terminal;
   fl_cfg_everyday = config(cell_size=(8,16), scale=0.1, global_scale=1.0)  (Proofs/CellSizeFloatFacts.v) *)
Theorem C15_scaled_aspect_float_refuted :
  F.f_optimal_with true false fl_cfg fl_term 8 8 None (Some 255) (Some 255) (Some 256) None = Ok (255, 256) /\
  ~ no_unused_row_or_col (2 # 25) (2 # 25) 1 1 255 256.
Proof. exact thm_float_cascade. Qed.
Print Assumptions C15_scaled_aspect_float_refuted.

Theorem C15_unscaled_aspect_float_witness :
  F.f_optimal_with true true fl_cfg fl_term 8 8 None (Some 255) (Some 255) (Some 256) None = Ok (255, 255).
Proof. exact thm_float_cascade_repaired. Qed.
Print Assumptions C15_unscaled_aspect_float_witness.

(* the everyday form of the same defect: 256x256 image, scale 0.1, 8x16 cells, rows=3: 7 columns where 6 are exact *)
Theorem C15_scaled_aspect_float_everyday :
  F.f_optimal_with true false fl_cfg_everyday fl_term 256 256 None (Some 3) None None None = Ok (7, 3) /\
  F.f_optimal_with true true fl_cfg_everyday fl_term 256 256 None (Some 3) None None None = Ok (6, 3).
Proof. exact thm_float_everyday. Qed.
Print Assumptions C15_scaled_aspect_float_everyday.
