(* Props/C01.v — allocated image IDs always lie in the requested ID space and subspace.
   Only statements; proofs are in Proofs/IdManagerProofs.v (building on C10's byte-layout theorems). *)
From Coq Require Import ZArith NArith List Bool.
From Tup Require Import Lib.IdSpaceTy Model.IdSpace Model.IdManager Spec.IdLayoutSpec Proofs.IdManagerFacts Proofs.IdManagerProofs.
Import ListNotations.
Open Scope N_scope.

(* in_sub sp sub id (Spec/IdLayoutSpec.v, written with bytes only): 0 < id < 2^32, high byte non-zero iff sp uses
   the third diacritic, colour part zero / a non-zero 8-bit index / genuinely 24-bit as sp prescribes, and the
   subspace byte in [begin, end).

   For every database d that is WF (whatever it contains: empty, partly full, completely full, rows of other and
   overlapping subspaces), every description, all 5 spaces, every valid subspace, every max-ids setting, every
   choice of the environment, and samples that gen_random_id can produce (members, by C10_gen_sound): an id handed
   out lies in the requested space and subspace — also when it is recycled. *)
Theorem C01_get_id_in_subspace : forall d desc sp sub now mx samples ch id d',
  WF d -> valid_sub sub -> sound_samples sp sub samples ->
  get_id d desc sp sub now mx samples ch = (GotId id, d') -> in_sub sp sub id.
Proof. exact get_id_in_subspace. Qed.
Print Assumptions C01_get_id_in_subspace.

(* ... and so after any history of requests / force-sets / deletes / clean-ups from any WF database *)
Theorem C01_history : forall d0 ops desc sp sub now mx samples ch id d',
  WF d0 -> Forall valid_op ops -> valid_sub sub -> sound_samples sp sub samples ->
  get_id (fold_left apply_op ops d0) desc sp sub now mx samples ch = (GotId id, d') -> in_sub sp sub id.
Proof. exact history_get_id_in_subspace. Qed.
Print Assumptions C01_history.

(* the samples of the real generator are sound: whatever secrets.randbelow returns (C10) *)
Theorem C01_generated_samples_are_members : forall sp sub ds id asked rest, valid_sub sub ->
  gen_random_id sp sub ds = Done id asked rest -> in_sub sp sub id.
Proof. intros sp sub ds id asked rest Hv Hg. exact (proj1 (Proofs.IdGenFacts.gen_sound sp sub ds id asked rest Hv Hg)). Qed.
Print Assumptions C01_generated_samples_are_members.

(* the database a fresh IDManager creates is WF, and WF is preserved by every operation *)
Theorem C01_wf_reachable : forall ops, Forall valid_op ops -> WF (fold_left apply_op ops empty_db).
Proof. intros ops H. apply history_wf; [exact empty_wf|exact H]. Qed.
Print Assumptions C01_wf_reachable.

Example C01_nonvacuous :
  valid_sub (3, 5) /\ sound_samples Sp8 (3, 5) [3; 4] /\
  fst (get_id empty_db 7 Sp8 (3, 5) 1 1024 [] {| hit_pick := 0; free_pick := 4; tie := fun _ => 0 |}) = GotId 4.
Proof.
  split; [unfold valid_sub; cbn; repeat split; try discriminate; reflexivity|].
  split; [|reflexivity]. repeat constructor; unfold in_sub, in_space, is_id, sub_byte, byte; cbn; repeat split; try discriminate; try reflexivity.
Qed.
