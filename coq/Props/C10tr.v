(* Props/C10tr.v — the tie of Model/IdSpace.v to the source, as theorems.

   Gen/IdSpaceTr.v is the TRANSLATION of the pure integer methods of IDSubspace / IDSpace, regenerated from the
   current tupimage/id_manager.py on every run by harness/gen_pytrans.py (semantics of the translated subset:
   Lib/PySem.v).  The theorems below say that the hand-written model about which C10_* (and, through it, C01, C02 and
   C14) are proved computes, for every argument, exactly what the translated source computes: same value, same
   exception, same draws consumed.  A change of one of these methods that changes its meaning makes one of these
   statements false — the file no longer compiles — and a rewrite that keeps the meaning keeps them.

   Python ints are Z on the translated side, N in the model: [zsub], [zsp], [zds] embed subspaces, spaces and draws.
   Only statements here; proofs are in Proofs/IdSpaceTrEq.v. *)
From Coq Require Import ZArith NArith List Bool.
From Tup Require Import Lib.IdSpaceTy Lib.PySem Gen.IdSpaceTr Model.IdSpace Proofs.IdSpaceTrEq Proofs.IdSpaceTrSplit Proofs.IdSpaceTrAllIds.
Import ListNotations.
Open Scope Z_scope.

(* ---- IDSubspace ---- *)
(* the constructor with __post_init__, for ARBITRARY Python ints: accepted exactly when the model accepts *)
Theorem C10tr_subspace_new : forall (b e : Z) ds,
  tr_IDSubspace_new b e ds = match mk_subspace b e with Some s => Ok (zsub s) ds | None => Exc end.
Proof. exact tr_sub_new_eq. Qed.
Print Assumptions C10tr_subspace_new.
Theorem C10tr_num_byte_values : forall s ds, valid_subspace s = true ->
  tr_IDSubspace_num_byte_values (zsub s) ds = Ok (Z.of_N (num_byte_values s)) ds.
Proof. exact tr_num_byte_values_eq. Qed.
Print Assumptions C10tr_num_byte_values.
Theorem C10tr_num_nonzero_byte_values : forall s ds, valid_subspace s = true ->
  tr_IDSubspace_num_nonzero_byte_values (zsub s) ds = Ok (Z.of_N (num_nonzero_byte_values s)) ds.
Proof. exact tr_num_nonzero_byte_values_eq. Qed.
Print Assumptions C10tr_num_nonzero_byte_values.
Theorem C10tr_contains_byte : forall s (x : N) ds,
  tr_IDSubspace_contains_byte (zsub s) (Z.of_N x) ds = Ok (contains_byte s x) ds.
Proof. exact tr_contains_byte_eq. Qed.
Print Assumptions C10tr_contains_byte.
Theorem C10tr_all_byte_values : forall s ds,
  exists a b, tr_IDSubspace_all_byte_values (zsub s) ds = Ok (a, b) ds /\ all_byte_values s = range (Z.to_N a) (Z.to_N b).
Proof. exact tr_all_byte_values_eq. Qed.
Print Assumptions C10tr_all_byte_values.
Theorem C10tr_all_nonzero_byte_values : forall s ds,
  exists a b, tr_IDSubspace_all_nonzero_byte_values (zsub s) ds = Ok (a, b) ds /\ all_nonzero_byte_values s = range (Z.to_N a) (Z.to_N b).
Proof. exact tr_all_nonzero_byte_values_eq. Qed.
Print Assumptions C10tr_all_nonzero_byte_values.

(* ---- IDSpace ---- *)
Theorem C10tr_space_new : forall (cb : N) (d : bool) ds,
  tr_IDSpace_new (Z.of_N cb) d ds = match mk_space cb d with Some sp => Ok (zsp sp) ds | None => Exc end.
Proof. exact tr_space_new_eq. Qed.
Print Assumptions C10tr_space_new.
(* from_id for ARBITRARY Python ints (negative, zero, above 32 bits: ValueError on both sides) *)
Theorem C10tr_from_id : forall (z : Z) ds, tr_IDSpace_from_id z ds = res_of_space (from_id_z z) ds.
Proof. exact tr_from_id_eq_z. Qed.
Print Assumptions C10tr_from_id.
Theorem C10tr_num_nonzero_bits : forall sp ds, tr_IDSpace_num_nonzero_bits (zsp sp) ds = Ok (Z.of_N (num_nonzero_bits sp)) ds.
Proof. exact tr_num_nonzero_bits_eq. Qed.
Print Assumptions C10tr_num_nonzero_bits.
Theorem C10tr_contains : forall sp (id : N) ds,
  tr_IDSpace_contains (zsp sp) (Z.of_N id) ds = match contains sp id with Some b => Ok b ds | None => Exc end.
Proof. exact tr_contains_eq. Qed.
Print Assumptions C10tr_contains.
Theorem C10tr_contains_and_in_subspace : forall sp (id : N) s ds,
  tr_IDSpace_contains_and_in_subspace (zsp sp) (Z.of_N id) (zsub s) ds =
  match contains_and_in_subspace sp id s with Some b => Ok b ds | None => Exc end.
Proof. exact tr_contains_and_in_subspace_eq. Qed.
Print Assumptions C10tr_contains_and_in_subspace.
Theorem C10tr_subspace_byte_offset : forall sp ds,
  tr_IDSpace_subspace_byte_offset (zsp sp) ds = Ok (Z.of_N (subspace_byte_offset sp)) ds.
Proof. exact tr_subspace_byte_offset_eq. Qed.
Print Assumptions C10tr_subspace_byte_offset.
Theorem C10tr_subspace_byte_mask : forall sp ds,
  tr_IDSpace_subspace_byte_mask (zsp sp) ds = Ok (Z.of_N (subspace_byte_mask sp)) ds.
Proof. exact tr_subspace_byte_mask_eq. Qed.
Print Assumptions C10tr_subspace_byte_mask.
(* the pair that IDManager feeds to every `(id & ?) BETWEEN ? AND ?` filter *)
Theorem C10tr_subspace_masked_range : forall sp s ds,
  tr_IDSpace_subspace_masked_range (zsp sp) (zsub s) ds =
  Ok (Z.of_N (fst (subspace_masked_range sp s)), Z.of_N (snd (subspace_masked_range sp s))) ds.
Proof. exact tr_subspace_masked_range_eq. Qed.
Print Assumptions C10tr_subspace_masked_range.
Theorem C10tr_get_subspace_byte : forall (id : N) ds,
  tr_IDSpace_get_subspace_byte (Z.of_N id) ds = match get_subspace_byte id with Some b => Ok (Z.of_N b) ds | None => Exc end.
Proof. exact tr_get_subspace_byte_eq. Qed.
Print Assumptions C10tr_get_subspace_byte.
Theorem C10tr_subspace_size : forall sp s ds, valid_subspace s = true ->
  tr_IDSpace_subspace_size (zsp sp) (zsub s) ds = Ok (Z.of_N (subspace_size sp s)) ds.
Proof. exact tr_subspace_size_eq. Qed.
Print Assumptions C10tr_subspace_size.

(* ---- split: the loop `for begin in range(self.begin + remainder, self.end, size): subspaces.append(IDSubspace(begin,
   begin + size))`, the replacement of the first part, every ValueError path (count <= 0, too small, range() step 0,
   an invalid part) and the IndexError path — for ARBITRARY count *)
Theorem C10tr_split : forall s (k : Z) ds, valid_subspace s = true ->
  tr_IDSubspace_split (zsub s) k ds = res_of_split (split s k) ds.
Proof. exact tr_split_eq. Qed.
Print Assumptions C10tr_split.
(* ---- all_ids: the three `lambda:` value generators (one of them a generator expression over two ranges), the three
   nested loops and the composed id: the same ids IN THE SAME ORDER as the model's enumeration *)
Theorem C10tr_all_ids : forall sp s ds, valid_subspace s = true ->
  tr_IDSpace_all_ids (zsp sp) (zsub s) ds = Ok (zl (all_ids sp s)) ds.
Proof. exact tr_all_ids_eq. Qed.
Print Assumptions C10tr_all_ids.

(* ---- randomness: for every list of draws the translated generator and the model consume the same draws, stop for
   the same reason and produce the same id *)
Theorem C10tr_rand_byte : forall s asked ds, valid_subspace s = true ->
  sim (rand_byte s asked ds) (tr_IDSubspace_rand_byte (zsub s) (zds ds)).
Proof. exact tr_rand_byte_sim. Qed.
Print Assumptions C10tr_rand_byte.
Theorem C10tr_rand_nonzero_byte : forall s asked ds, valid_subspace s = true ->
  sim (rand_nonzero_byte s asked ds) (tr_IDSubspace_rand_nonzero_byte (zsub s) (zds ds)).
Proof. exact tr_rand_nonzero_byte_sim. Qed.
Print Assumptions C10tr_rand_nonzero_byte.
Theorem C10tr_gen_random_id : forall sp s ds, valid_subspace s = true ->
  sim (gen_random_id sp s ds) (tr_IDSpace_gen_random_id (zsp sp) (zsub s) (zds ds)).
Proof. exact tr_gen_random_id_sim. Qed.
Print Assumptions C10tr_gen_random_id.

(* non-vacuity: the translated generator on the subspace 3:5 of the 16-bit space with draws 1, 41 gives 0x0400002A,
   the translated classifier puts it into (8, True), and an out-of-range draw is reported, not used *)
Example C10tr_nonvacuous :
  tr_IDSpace_gen_random_id (8, true) (3, 5) [1; 41; 7] = Ok 67108906 [7] /\
  tr_IDSpace_from_id 67108906 [] = Ok (8, true) [] /\
  tr_IDSpace_gen_random_id (8, true) (3, 5) [2] = PySem.BadDraw /\
  tr_IDSpace_from_id 0 [] = Exc /\ tr_IDSubspace_new 0 1 [] = Exc /\
  tr_IDSubspace_split (0, 8) 3 [] = Ok [(0, 4); (4, 6); (6, 8)] [] /\ tr_IDSubspace_split (1, 3) 5 [] = Exc /\
  tr_IDSpace_all_ids (8, false) (254, 256) [] = Ok [254; 255] [].
Proof. vm_compute. repeat split. Qed.
