(* Props/C03.v — concurrent processes sharing one session database allocate IDs atomically.
   Only statements; proofs are in Proofs/SqlTxnProofs.v.

   Model/SqlTxn.v: any number of processes, each with its own connection and its own list of IDManager calls (get_id,
   set_id, del_id, cleanup, get_info, count, mark_uploaded, unmark_uploaded, cleanup_uploads, get_upload_info,
   needs_uploading — every parameter, clock value, sample and choice of the environment arbitrary).  A call is compiled
   to the sqlite transactions / autocommit statements its method consists of IN THE SOURCE (Gen/TxnShapeGen.v, read by
   harness/gen_txnshape.py on every run); BEGIN IMMEDIATE, the statements of the transaction and COMMIT are separate
   steps that any other process's steps may come between; a step that needs the write lock is not enabled while another
   live process is inside BEGIN IMMEDIATE (attempting it changes nothing).  [run_events] executes an ARBITRARY list of
   events Run p / Kill p: that is every interleaving at statement and transaction-boundary granularity, including
   attempts of blocked steps and processes dying at any point. *)
From Coq Require Import ZArith NArith List Bool.
From Tup Require Import Lib.IdSpaceTy Model.IdSpace Model.IdManager Model.UploadModel Model.SqlTxn Spec.SerialSpec Spec.IdLayoutSpec
  Proofs.IdManagerFacts Proofs.IdManagerProofs Proofs.SqlTxnProofs Proofs.SqlTxnFacts.
Import ListNotations.

(* the shapes the argument rests on — proof obligations over the generated file: reverting one of the repairs
   (7fa58d7 get_id in one transaction, 1c50a83 mark_uploaded in one transaction, 1ad155b reads in one snapshot) or
   splitting del_id makes the corresponding lemma, and with it this file, fail *)
Theorem C03_source_shapes :
  Gen.TxnShapeGen.get_id_one_txn = true /\ Gen.TxnShapeGen.del_id_one_txn = true /\
  Gen.TxnShapeGen.mark_uploaded_one_txn = true /\ Gen.TxnShapeGen.reads_in_snapshot = true /\
  Gen.TxnShapeGen.wal_switch_retried = true.
Proof. exact (conj src_get_id_one_txn (conj src_del_id_one_txn (conj src_mark_uploaded_one_txn (conj src_reads_in_snapshot src_wal_switch_retried)))). Qed.
Print Assumptions C03_source_shapes.

(* 1. MAIN: after any schedule, the log (the order in which calls reached their commit point) is a one-at-a-time
      execution: running the logged calls one after the other from the initial database gives exactly the logged
      results and exactly the committed database; and for every process the logged calls are a prefix of its program,
      in program order, with exactly the results it was given.  Calls that did not complete (blocked, interrupted,
      killed) have no effect at all. *)
Theorem C03_every_schedule_is_serial : forall s ps es,
  let w := run_events compile (init_world s ps) es in
  SerialSpec.serial_run store call result exec_call s (log w) (committed w) /\
  (forall e, In e (log w) -> SerialSpec.pidof call result e < length ps) /\
  forall p cs, nth_error ps p = Some cs ->
    exists pr, nth_error (procs w) p = Some pr /\
               cs = map (SerialSpec.callof call result) (SerialSpec.proj call result p (log w)) ++ todo pr /\
               done pr = map (SerialSpec.resof call result) (SerialSpec.proj call result p (log w)).
Proof. exact schedule_serial. Qed.
Print Assumptions C03_every_schedule_is_serial.

(* ... which is the Spec's notion of a serializable history (Spec/SerialSpec.v, generic, no model inside) *)
Theorem C03_serializable : forall s ps es,
  let w := run_events compile (init_world s ps) es in
  SerialSpec.Serializable store call result exec_call s (map (completed w) (seq 0 (length ps))) (committed w).
Proof. exact schedule_serializable. Qed.
Print Assumptions C03_serializable.

(* 2. no step of any call can fail on a key constraint or be refused: when nobody holds the write lock every live
      process with work left can take its next step (so a blocked writer always proceeds after the holder's commit or
      death); the model has no failing step at all (every INSERT of the module is an upsert: extractor-checked) *)
Theorem C03_progress_when_lock_free : forall w0 w q qr c rest,
  Inv w0 w -> lock_held w = false -> nth_error (procs w) q = Some qr -> alive qr = true -> todo qr = c :: rest ->
  mstep compile w q <> None.
Proof. intros w0 w q qr c rest. exact (enabled_when_free compile w0 w q qr c rest compile_single). Qed.
Print Assumptions C03_progress_when_lock_free.
Theorem C03_invariant_reachable : forall s ps es, Inv (init_world s ps) (run_events compile (init_world s ps) es).
Proof. intros s ps es. exact (run_inv compile _ es compile_single _ (init_inv s ps)). Qed.
Print Assumptions C03_invariant_reachable.

(* 3. an id is never bound to two descriptions, and sits in its own table: WF of the committed database after every
      schedule of valid calls (C02's WF: ids unique per table, every id in the table of its space) *)
Theorem C03_committed_wf : forall s ps es, WF (ids s) -> Forall (Forall valid_call) ps ->
  WF (ids (committed (run_events compile (init_world s ps) es))).
Proof. exact schedule_wf. Qed.
Print Assumptions C03_committed_wf.

(* 4. "two different descriptions are never given the same ID while free IDs exist": every completed get_id is the
      one-at-a-time get_id at its linearisation point, so C02 applies there — in particular a request for a new
      description in an enumerable subspace that is not full appends one row for a free id and changes nothing else *)
Theorem C03_no_displacement_at_linearisation : forall s ps es l1 l2 p desc sp sub now mx samples ch r,
  let w := run_events compile (init_world s ps) es in
  log w = l1 ++ (p, CGet desc sp sub now mx samples ch, r) :: l2 ->
  WF (ids s) -> Forall (Forall valid_call) ps -> valid_sub sub ->
  exists s1, SerialSpec.serial_run store call result exec_call s l1 s1 /\ WF (ids s1) /\
    r = RGet (fst (get_id (ids s1) desc sp sub now mx samples ch)) /\
    (no_hit (ids s1) desc sp sub -> enumerable sp sub mx ->
     (N.of_nat (length (rows_in (ids s1) sp sub)) < subspace_size sp sub)%N ->
     r = RGet GetStuck \/
     (in_sub sp sub (free_pick ch) /\ ~ In (free_pick ch) (map iid (ids s1 sp)) /\
      r = RGet (GotId (free_pick ch)) /\
      snd (get_id (ids s1) desc sp sub now mx samples ch) = upd_tbl (ids s1) sp (ids s1 sp ++ [fresh_row (free_pick ch) desc now]))).
Proof. exact get_at_linearisation. Qed.
Print Assumptions C03_no_displacement_at_linearisation.

(* 5. "concurrent requests for the same description end with one single ID bound to it": if the subspace holds at
      most one row per description at the start and the calls are get_id requests on THAT subspace, deletions,
      clean-ups and upload bookkeeping (no set_id, which may force a duplicate, and no get_id on another subspace of
      the same space, which legitimately allocates a second id there), then after every schedule it still holds at most
      one row per description — and every completed request for a description returned the id bound to it at its
      linearisation point (C02_result_maps_back) *)
Theorem C03_one_id_per_description : forall s ps es sp sub,
  WF (ids s) -> valid_sub sub -> desc_unique (ids s) sp sub ->
  Forall (Forall (fun c => valid_call c /\ confined sp sub c)) ps ->
  desc_unique (ids (committed (run_events compile (init_world s ps) es))) sp sub.
Proof. exact schedule_desc_unique. Qed.
Print Assumptions C03_one_id_per_description.

(* 6. the two shapes the pinned tree had before the repairs ARE NOT serializable: concrete schedules whose outcome no
      one-at-a-time order of the same calls produces (witnesses replayed on the real code: known_findings/C03.json) *)
Theorem C03_mark_uploaded_two_statements_refuted :
  exists s ps es, let w := run_events (compile_with true true false true) (init_world s ps) es in
    forall order, In order (merges ps) -> ups (fst (run_calls order s)) <> ups (committed w).
Proof. exact mark_two_refuted. Qed.
Print Assumptions C03_mark_uploaded_two_statements_refuted.
Theorem C03_unsnapshotted_reads_refuted :
  exists s ps es, let w := run_events (compile_with true true true false) (init_world s ps) es in
    exists p pr, nth_error (procs w) p = Some pr /\
    forall order, In order (merges ps) -> ~ In (last (done pr) RError) (snd (run_calls order s)).
Proof. exact reads_unsnapshotted_refuted. Qed.
Print Assumptions C03_unsnapshotted_reads_refuted.

(* 7. opening: any interleaving of any number of constructors (17 CREATE ... IF NOT EXISTS each), with kills, from any
      schema: nothing is lost and once one constructor has completed the schema is complete *)
Theorem C03_concurrent_first_open : forall sc n es p pr,
  let w := orun (oinit sc n) es in
  (forall x, In x sc -> In x (osch w)) /\
  (nth_error (oprocs w) p = Some pr -> oleft pr = [] -> schema_full (osch w) = true).
Proof. exact open_complete. Qed.
Print Assumptions C03_concurrent_first_open.

(* 8. the journal-mode switch that every constructor starts with: sqlite refuses it AT ONCE (no busy handler) while
      another connection holds a lock.  With the source's retry loop (7241d92; `wal_switch_retried` is read from the
      source on every run) no sequence of answers makes the constructor fail, and the first free moment completes the
      switch; the pinned tree executed the statement once and failed on the first refusal (reproduced with real
      processes: known_findings/C03.json F-C03c).  The 30 s deadline of the loop is real time: not modelled. *)
Theorem C03_first_open_switch_never_fails : forall answers,
  wal_run Gen.TxnShapeGen.wal_switch_retried answers <> WalFailed.
Proof. rewrite src_wal_switch_retried. exact wal_never_fails. Qed.
Print Assumptions C03_first_open_switch_never_fails.
Theorem C03_first_open_switch_completes : forall pre post, Forall (fun b => b = true) pre ->
  wal_run Gen.TxnShapeGen.wal_switch_retried (pre ++ false :: post) = WalDone.
Proof. rewrite src_wal_switch_retried. exact wal_done_after_free. Qed.
Print Assumptions C03_first_open_switch_completes.
Theorem C03_first_open_unretried_switch_refuted : exists answers, wal_run false answers = WalFailed.
Proof. exact wal_unretried_refuted. Qed.
Print Assumptions C03_first_open_unretried_switch_refuted.

(* non-vacuity: two processes asking for the same new description in the two-id subspace 3:5 of the 8-bit space, the
   second one attempting BEGIN IMMEDIATE while the first is inside its transaction (blocked: nothing happens), then
   proceeding after the commit: both get id 4, one row *)
Definition ex_ch : choice := {| hit_pick := 4; free_pick := 4; tie := fun _ => 1%N |}.
Definition ex_ps : list (list call) := [[CGet 5 Sp8 (3, 5)%N 100 1024 [] ex_ch]; [CGet 5 Sp8 (3, 5)%N 101 1024 [] ex_ch]].
Example C03_nonvacuous :
  let w := run_events compile (init_world {| ids := empty_db; ups := [] |} ex_ps) [Run 0; Run 1; Run 0; Run 0; Run 1; Run 1; Run 1] in
  map done (procs w) = [[RGet (GotId 4)]; [RGet (GotId 4)]] /\ length (ids (committed w) Sp8) = 1 /\
  map (fun e => SerialSpec.pidof call result e) (log w) = [0; 1].
Proof. vm_compute. repeat split. Qed.
