(* Props/C02.v — ID assignments are stable and recycled only least-recently-used first.
   Only statements; proofs are in Proofs/IdManagerProofs.v.  The model (Model/IdManager.v) transcribes IDManager
   statement by statement; the environment's nondeterminism (row returned by fetchone, secrets.choice, order among
   equal atimes, sampled ids) is the [choice]/[samples] argument and every theorem holds for ALL of them.
   WF d: ids unique per table and every id sits in the table of its own space (what every operation maintains:
   C02_wf_preserved). *)
From Coq Require Import ZArith NArith List Bool Permutation.
From Tup Require Import Lib.IdSpaceTy Model.IdSpace Model.IdManager Spec.IdLayoutSpec Proofs.IdManagerFacts Proofs.IdManagerProofs.
Import ListNotations.
Open Scope N_scope.

(* 1. asking again for a description that holds an id in the requested subspace returns such an id, refreshes its
      recency and changes no other assignment (every other row of every table is literally unchanged) *)
Theorem C02_hit_stable : forall d desc sp sub now mx samples ch,
  (exists r, In r (rows_in d sp sub) /\ idesc r = desc) ->
  fst (get_id d desc sp sub now mx samples ch) = GetStuck \/     (* the choice names no matching row: not a behaviour of the code *)
  (exists h, In h (rows_in d sp sub) /\ idesc h = desc /\ iid h = hit_pick ch /\
     get_id d desc sp sub now mx samples ch = (GotId (iid h), upd_tbl d sp (map (refresh (iid h) now) (d sp)))).
Proof. exact get_id_hit. Qed.
Print Assumptions C02_hit_stable.

(* 2. the id returned for any request maps back to exactly the requested description *)
Theorem C02_result_maps_back : forall d desc sp sub now mx samples ch id d',
  WF d -> valid_sub sub -> sound_samples sp sub samples ->
  get_id d desc sp sub now mx samples ch = (GotId id, d') ->
  find_id (d' sp) id = Some (fresh_row id desc now).
Proof. exact result_maps_back. Qed.
Print Assumptions C02_result_maps_back.

(* 3. a new description never displaces an assignment while the allocator can find a free id:
      enumerable subspace not full -> one row appended for a free member id, nothing else changes;
      larger subspace, a sample of the first round is free -> one row appended, nothing else changes *)
Theorem C02_no_displacement_enumerable : forall d desc sp sub now mx samples ch,
  WF d -> valid_sub sub -> no_hit d desc sp sub -> enumerable sp sub mx ->
  N.of_nat (length (rows_in d sp sub)) < subspace_size sp sub ->
  fst (get_id d desc sp sub now mx samples ch) = GetStuck \/
  (in_sub sp sub (free_pick ch) /\ ~ In (free_pick ch) (map iid (d sp)) /\
   get_id d desc sp sub now mx samples ch =
     (GotId (free_pick ch), upd_tbl d sp (d sp ++ [fresh_row (free_pick ch) desc now]))).
Proof. exact get_id_free. Qed.
Print Assumptions C02_no_displacement_enumerable.

Theorem C02_no_displacement_sampling : forall d desc sp sub now mx samples ch id rest,
  no_hit d desc sp sub -> ~ enumerable sp sub mx ->
  first_free (d sp) samples 8 = (Some id, rest) -> in_space sp id ->
  get_id d desc sp sub now mx samples ch = (GotId id, upd_tbl d sp (d sp ++ [fresh_row id desc now])).
Proof. exact get_id_sample_first_round. Qed.
Print Assumptions C02_no_displacement_sampling.

(* 4. a completely full enumerable subspace: exactly one row is re-bound, it lies in the requested subspace and no
      row of the subspace is strictly older *)
Theorem C02_full_recycles_exactly_one_lru : forall d desc sp sub now mx samples ch,
  WF d -> valid_sub sub -> no_hit d desc sp sub -> enumerable sp sub mx ->
  subspace_size sp sub <= N.of_nat (length (rows_in d sp sub)) ->
  exists v, In v (rows_in d sp sub) /\ (forall r, In r (rows_in d sp sub) -> age_le v r) /\
            get_id d desc sp sub now mx samples ch =
              (GotId (iid v), upd_tbl d sp (map (rebind (iid v) desc now) (d sp))).
Proof. exact get_id_full. Qed.
Print Assumptions C02_full_recycles_exactly_one_lru.

(* 5. clean-ups — explicit, and the ones inside get_id on larger subspaces — drop only rows of the requested space
      and subspace, oldest first (every dropped row is at most as recent as every kept row of the subspace), keep
      min(count, max) rows, and never touch another table or another subspace *)
Theorem C02_cleanup_lru_only : forall d sp sub mx ch, WF d -> only_lru_dropped sp sub d (cleanup d sp sub mx ch).
Proof. exact cleanup_only_lru. Qed.
Print Assumptions C02_cleanup_lru_only.
Theorem C02_cleanup_count : forall d sp sub mx ch, WF d -> (0 <= mx)%Z ->
  Z.of_nat (length (rows_in (cleanup d sp sub mx ch) sp sub)) = Z.min (Z.of_nat (length (rows_in d sp sub))) mx.
Proof. exact cleanup_count. Qed.
Print Assumptions C02_cleanup_count.
Theorem C02_sampling_drops_only_lru : forall d desc sp sub now mx samples ch,
  WF d -> no_hit d desc sp sub -> ~ enumerable sp sub mx ->
  rounds_post sp sub desc now samples d (fst (get_id d desc sp sub now mx samples ch)) (snd (get_id d desc sp sub now mx samples ch)).
Proof. exact get_id_sampling_drops_only_lru. Qed.
Print Assumptions C02_sampling_drops_only_lru.

(* 6. listing and counting report exactly the live assignments of the range, most recent first *)
Theorem C02_listing_exact : forall d sp sub ch,
  Permutation (get_all d sp sub ch) (rows_in d sp sub) /\
  sorted (rev (get_all d sp sub ch)) /\
  count d sp sub = N.of_nat (length (get_all d sp sub ch)).
Proof. exact listing_exact. Qed.
Print Assumptions C02_listing_exact.

(* 7. every operation, hence every history of operations, preserves WF — so the theorems above apply at every step
      of every history that starts from a WF database (e.g. the empty one) *)
Theorem C02_wf_preserved : forall ops d, WF d -> Forall valid_op ops -> WF (fold_left apply_op ops d).
Proof. exact history_wf. Qed.
Print Assumptions C02_wf_preserved.

(* non-vacuity: the full 8-bit subspace 3:5 (two ids) with equal timestamps, and WF of the empty database *)
Definition ex_db : db := fun sp => match sp with Sp8 => [{| iid := 3; idesc := 10; iatime := 5 |}; {| iid := 4; idesc := 11; iatime := 5 |}] | _ => [] end.
Definition ex_ch : choice := {| hit_pick := 0; free_pick := 0; tie := fun i => if i =? 4 then 0 else 1 |}.
Example C02_nonvacuous :
  WF empty_db /\ no_hit ex_db 12 Sp8 (3, 5) /\ enumerable Sp8 (3, 5) 1024 /\
  get_id ex_db 12 Sp8 (3, 5) 9 1024 [] ex_ch = (GotId 4, upd_tbl ex_db Sp8 (map (rebind 4 12 9) (ex_db Sp8))).
Proof.
  split; [exact empty_wf|]. split; [|split; [vm_compute; discriminate|reflexivity]].
  intros r Hr. vm_compute in Hr. destruct Hr as [<-|[<-|[]]]; discriminate.
Qed.
