(* Props/C17.v — configuration layers resolve by fixed precedence and round-trip through TOML.
   Only statements; every proof is [exact <lemma from Proofs/>].  The model (Model/ConfigModel.v)
   transcribes TupimageConfig as repaired by fixes/C17-normalize-by-type.patch.
   [pl] is the platform (state directory, PIPE_BUF); options are the rows of Gen.ConfigGen.options. *)
From Coq Require Import ZArith NArith List Bool.
From Tup Require Import Lib.ByteStr Lib.CfgTypes Gen.ConfigGen Model.ConfigModel Spec.ConfigSpec
  Proofs.ConfigProofs Proofs.ConfigTextProofs Proofs.ConfigDecFacts Proofs.ConfigRoundtrip.
Import ListNotations.
Open Scope N_scope.

(* 1. Precedence.  For every config file, environment, **kwargs and config_overrides: if the
   layering succeeds, then for EVERY option name the entry is the normalisation of the raw value of
   the highest-priority layer that sets it (Spec.effective over [overrides; kwargs; environment;
   file]) together with that assignment's provenance; options no layer sets keep the default entry. *)
Theorem C17_precedence : forall pl file env kw ov c,
  layers_pre_expand pl file env kw ov = Ok c ->
  forall o,
    match effective [dict_assignments (fst ov) (snd ov); dict_assignments (fst kw) (snd kw);
                     env_assignments env; file_layer file] o with
    | Some (raw, p) => exists v, normalize pl o raw = Ok v /\ c o = {| e_val := v; e_prov := Some p |}
    | None => c o = init pl o
    end.
Proof. exact precedence. Qed.
Print Assumptions C17_precedence.

(* ... and the provenance carried by an assignment names its layer: the file's path, the
   variable TUPIMAGE_<OPTION>, the dictionary's label; None values of dictionaries set nothing *)
Theorem C17_provenance_names_layer : forall path items env label ditems,
  (forall a, In a (file_assignments path items) -> snd a = prov_file path /\ In (fst (fst a), snd (fst a)) items) /\
  (forall a, In a (env_assignments env) -> snd a = prov_env (fst (fst a)) /\
                                           exists t, snd (fst a) = VStr t /\ assoc (fst (fst a)) env = Some t) /\
  (forall a, In a (dict_assignments label ditems) -> snd a = label /\ In (fst (fst a), snd (fst a)) ditems /\ snd (fst a) <> VNone).
Proof.
  intros. split; [|split]; intros a H; [apply file_layer_prov|apply env_layer_prov|apply dict_layer_prov]; exact H.
Qed.
Print Assumptions C17_provenance_names_layer.

(* the constructor = the layering followed by the 'auto' expansion, which touches nothing but
   num_tmux_layers and records where the 'auto' came from (configurations are functions; the
   statement is pointwise, no extensionality) *)
Theorem C17_constructor_is_layering_then_expansion : forall pl file env kw ov tmux c,
  construct pl file env kw ov tmux = Ok c ->
  exists c', layers_pre_expand pl file env kw ov = Ok c' /\
    forall o, c o = if beq_bytes o n_num_tmux_layers then
                      match e_val (c' n_num_tmux_layers) with
                      | VStr s => if beq_bytes s s_auto
                                  then {| e_val := VInt (if tmux then 1 else 0)%Z;
                                          e_prov := Some (prov_expanded (get_provenance c' n_num_tmux_layers)) |}
                                  else c' o
                      | _ => c' o
                      end
                    else c' o.
Proof.
  intros pl file env kw ov tmux c H. apply construct_ok_iff in H. destruct H as (c' & H & ->).
  exists c'. split; [exact H|]. intro o. apply expand_auto_spec.
Qed.
Print Assumptions C17_constructor_is_layering_then_expansion.

(* 2. The same text from every layer.  [text] is a bare TOML scalar (integer, float, true/false)
   without surrounding whitespace; a file hands the code [toml_read text], the environment hands
   it the string [text]; kwargs/config_overrides hand over either.  [normalize] does not depend on
   the layer, so it suffices to compare the two raw forms.
   (a) every option: the typed value accepted => the text accepted, same result;
   (b) options whose values are TOML scalars (Spec.scalar_ty: int, float, bool, Union[int,'auto']):
       the text accepted => the typed value accepted, same result.
   For the other options (strings, lists, names, sizes) the file form of an environment text is the
   TOML string with the same content, i.e. literally the same raw value — nothing to prove. *)
Theorem C17_same_text_every_layer : forall pl name t d text v r,
  In (name, t, d) options -> strip text = text -> str_strip text = text -> toml_read text = Some v ->
  (normalize_core pl name t v = Ok r -> normalize_core pl name t (VStr text) = Ok r) /\
  (scalar_ty t = true -> normalize_core pl name t (VStr text) = Ok r -> normalize_core pl name t v = Ok r).
Proof.
  intros pl name t d text v r Hin H1 H2 H3. split.
  - exact (same_text_forward pl name t d text v r Hin H1 H2 H3).
  - intro Hs. exact (same_text_backward pl name t d text v r Hin Hs H1 H2 H3).
Qed.
Print Assumptions C17_same_text_every_layer.

(* ... and the structured options: the text the dump writes for a typed object (ID space, subspace,
   WxH size; str(int)) is read back as that object *)
Theorem C17_object_texts_read_back :
  (forall z, py_int (show_z z) = Some z) /\
  (forall b e, sub_ok b e = true -> sub_from_string (sub_str b e) = Some (VSub b e)) /\
  (forall w h, (1 <= w)%Z -> (1 <= h)%Z -> validate_size (size_str (VInt w) (VInt h)) = Some (VTuple [VInt w; VInt h])).
Proof. split; [exact py_int_show_z|split; [exact sub_from_string_show|exact validate_size_show]]. Qed.
Print Assumptions C17_object_texts_read_back.

(* 3. Wrong types.  (a) whatever is rejected is rejected with an error whose text names the option
   (err_text is how the message starts; the correspondence run compares it with the real message);
   (b) whatever is accepted is stored as a value of the annotated type — a bool is not an int, an int
   is not a float (Spec.conforms); (c) a typed, non-string value that is not of the annotated type,
   even reading 1 as a float and 0/1 as a boolean, is rejected by the type check. *)
Theorem C17_wrong_type_rejected_naming_option : forall pl name v,
  (forall e, normalize pl name v = Err e ->
     names name (err_text e) = true /\ (e = EKey name \/ exists st, e = EValue name st)) /\
  (forall t d r, lookup_opt name options = Some (t, d) -> normalize pl name v = Ok r -> conforms t r = true) /\
  (forall t d, lookup_opt name options = Some (t, d) -> is_string v = false -> conforms_loose t v = false ->
     normalize pl name v = Err (EValue name SType)).
Proof.
  intros pl name v. split; [|split].
  - intros e H. split; [exact (normalize_err_names pl name v e H)|exact (normalize_err_kind pl name v e H)].
  - intros t d r L H. exact (normalize_ok_conforms pl name v r t d L H).
  - intros t d L Hs Hc. exact (wrong_type_rejected pl name v t d L Hs Hc).
Qed.
Print Assumptions C17_wrong_type_rejected_naming_option.

(* 4. Round trip.  [good_config]: every option holds a value that passed the type check and the
   range constraints, objects are ones Python can construct (wf_value), strings are as the
   normalisation leaves them (wf_str), nothing is None.  Then loading the dump succeeds and
   reproduces every option's value (with the file as provenance). *)
Theorem C17_toml_roundtrip : forall pl c path, good_config c ->
  exists c', load_toml pl path (to_toml c) = Ok c' /\
    forall name, In name option_names ->
      e_val (c' name) = e_val (c name) /\ e_prov (c' name) = Some (prov_file path).
Proof. exact roundtrip. Qed.
Print Assumptions C17_toml_roundtrip.

(* good_config is what the layers establish: the defaults are good, and every value the
   normalisation returns for a well-formed, non-None raw value is good *)
Theorem C17_reachable_configurations_are_good : forall pl, state_dir pl <> [] ->
  good_config (init pl) /\
  forall name t d raw v, In (name, t, d) options -> wf_value raw -> raw <> VNone ->
    normalize_core pl name t raw = Ok v -> good_value name t v.
Proof.
  intros pl H. split; [exact (good_init pl H)|].
  intros name t d raw v Hin Hw Hn Hv. exact (normalize_good pl name t d raw v Hin H Hw Hn Hv).
Qed.
Print Assumptions C17_reachable_configurations_are_good.

(* the literals the proofs depend on, as they stand in the source *)
Lemma src_bool_words : bool_true_words = [[116; 114; 117; 101]; [121; 101; 115]; [111; 110]] /\
                       bool_false_words = [[102; 97; 108; 115; 101]; [110; 111]; [111; 102; 102]].
Proof. split; reflexivity. Qed.
Lemma src_option_count : length options = 27%nat.
Proof. reflexivity. Qed.

(* non-vacuity *)
Definition pl0 : platform := {| state_dir := [47; 120]; pipe_buf := 4096 |}.
Example C17_nonvacuous :
  (* same text: TOML `100` / TUPIMAGE_MAX_COLS=100, `1` for a float and for a bool option *)
  toml_read [49; 48; 48] = Some (VInt 100) /\ strip [49; 48; 48] = [49; 48; 48] /\
  normalize pl0 n_max_cols (VInt 100) = Ok (VInt 100) /\ normalize pl0 n_max_cols (VStr [49; 48; 48]) = Ok (VInt 100) /\
  normalize pl0 [115; 99; 97; 108; 101] (VInt 1) = Ok (VFloat 1 0) /\ normalize pl0 [115; 99; 97; 108; 101] (VStr [49]) = Ok (VFloat 1 0) /\
  (* wrong type: a boolean for an integer option *)
  normalize pl0 n_max_cols (VBool true) = Err (EValue n_max_cols SType) /\
  (* precedence: overrides beat the environment *)
  (match construct pl0 None [(n_max_cols, [53])] ([], []) ([79; 86], [(n_max_cols, VInt 7)]) false with
   | Ok c => e_val (c n_max_cols) = VInt 7 /\ e_prov (c n_max_cols) = Some [79; 86]
   | Err _ => False end) /\
  (* round trip hypothesis is satisfiable *)
  good_config (init pl0).
Proof.
  do 7 (split; [reflexivity|]). split; [vm_compute; split; reflexivity|]. apply good_init. discriminate.
Qed.
