(* Lib/PyFmtD.v — Python's  bytes % (int, int, ...)  restricted to "%d" conversions of non-negative
   ints (and "%%").  The extractor checks that each template is applied to as many arguments as it
   has "%d"; a missing argument formats as nothing here (Python would raise). *)
From Coq Require Import NArith List Bool.
From Tup Require Import Lib.Dec.
Import ListNotations.
Open Scope N_scope.

Fixpoint fmt_d (t : list N) (args : list N) {struct t} : list N :=
  match t with
  | [] => []
  | c :: r =>
      if c =? 37 then
        match r with
        | d :: r' =>
            if d =? 100 then
              match args with
              | a :: args' => dec a ++ fmt_d r' args'
              | [] => fmt_d r' []
              end
            else if d =? 37 then 37 :: fmt_d r' args
            else c :: fmt_d r args
        | [] => [c]
        end
      else c :: fmt_d r args
  end.
