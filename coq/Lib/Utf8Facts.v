From Coq Require Import ZArith NArith List Bool Lia ZifyN ZifyBool ZifyNat.
From Tup Require Import Lib.Utf8.
Import ListNotations.
Open Scope N_scope.
Ltac Zify.zify_post_hook ::= Z.to_euclidean_division_equations.

(* general round trip: every scalar value below 0x110000 *)
Theorem utf8_decode_encode cp rest : cp < 1114112 ->
  utf8_decode1 (utf8_encode cp ++ rest) = Some (cp, rest).
Proof.
  intros H. unfold utf8_encode.
  destruct (cp <? 128) eqn:E1.
  { cbn [app utf8_decode1]. rewrite E1. reflexivity. }
  destruct (cp <? 2048) eqn:E2.
  { cbn [app utf8_decode1]. unfold is_cont.
    destruct (192 + cp / 64 <? 128) eqn:A1; [lia|].
    destruct (192 + cp / 64 <? 192) eqn:A2; [lia|].
    destruct (192 + cp / 64 <? 224) eqn:A3; [|lia].
    destruct ((128 <=? 128 + cp mod 64) && (128 + cp mod 64 <? 192)) eqn:A4; [|lia].
    f_equal. f_equal. lia. }
  destruct (cp <? 65536) eqn:E3.
  { cbn [app utf8_decode1]. unfold is_cont.
    destruct (224 + cp / 4096 <? 128) eqn:A1; [lia|].
    destruct (224 + cp / 4096 <? 192) eqn:A2; [lia|].
    destruct (224 + cp / 4096 <? 224) eqn:A3; [lia|].
    destruct (224 + cp / 4096 <? 240) eqn:A3'; [|lia].
    destruct ((128 <=? 128 + (cp / 64) mod 64) && (128 + (cp / 64) mod 64 <? 192) &&
              ((128 <=? 128 + cp mod 64) && (128 + cp mod 64 <? 192))) eqn:A4; [|lia].
    f_equal. f_equal. lia. }
  cbn [app utf8_decode1]. unfold is_cont.
  destruct (240 + cp / 262144 <? 128) eqn:A1; [lia|].
  destruct (240 + cp / 262144 <? 192) eqn:A2; [lia|].
  destruct (240 + cp / 262144 <? 224) eqn:A3; [lia|].
  destruct (240 + cp / 262144 <? 240) eqn:A3'; [lia|].
  destruct (240 + cp / 262144 <? 248) eqn:A3''; [|lia].
  destruct ((128 <=? 128 + (cp / 4096) mod 64) && (128 + (cp / 4096) mod 64 <? 192) &&
            ((128 <=? 128 + (cp / 64) mod 64) && (128 + (cp / 64) mod 64 <? 192)) &&
            ((128 <=? 128 + cp mod 64) && (128 + cp mod 64 <? 192))) eqn:A4; [|lia].
  f_equal. f_equal. lia.
Qed.

Lemma utf8_encode_bytes cp : cp < 1114112 -> Forall (fun b => b < 256) (utf8_encode cp).
Proof.
  intros H. unfold utf8_encode.
  destruct (cp <? 128) eqn:E1; [repeat constructor; lia|].
  destruct (cp <? 2048) eqn:E2; [repeat constructor; lia|].
  destruct (cp <? 65536) eqn:E3; repeat constructor; lia.
Qed.
