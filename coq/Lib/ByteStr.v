(* Lib/ByteStr.v — bytes are N below 256; byte strings are [list N]. *)
From Coq Require Import ZArith NArith List Bool Lia ZifyN ZifyBool ZifyNat.
Import ListNotations.
Open Scope N_scope.

Definition is_byte (b : N) : bool := b <? 256.
Definition bytes_ok (l : list N) : Prop := Forall (fun b => b < 256) l.

Definition ESC : N := 27.

(* list equality on N, boolean *)
Fixpoint beq_bytes (a b : list N) : bool :=
  match a, b with
  | [], [] => true
  | x :: a', y :: b' => (x =? y) && beq_bytes a' b'
  | _, _ => false
  end.

(* [strip_prefix p l] = Some r iff l = p ++ r *)
Fixpoint strip_prefix (p l : list N) : option (list N) :=
  match p, l with
  | [], _ => Some l
  | a :: p', b :: l' => if a =? b then strip_prefix p' l' else None
  | _ :: _, [] => None
  end.

Definition starts_with (p l : list N) : bool :=
  match strip_prefix p l with Some _ => true | None => false end.

(* substring test, as Python's [needle in haystack] for bytes/str *)
Fixpoint contains_sub (needle hay : list N) : bool :=
  starts_with needle hay ||
  match hay with
  | [] => false
  | _ :: r => contains_sub needle r
  end.

Definition no_byte (c : N) (l : list N) : Prop := ~ In c l.
Fixpoint has_byte (c : N) (l : list N) : bool :=
  match l with [] => false | b :: r => (b =? c) || has_byte c r end.
