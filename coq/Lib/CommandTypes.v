(* Lib/CommandTypes.v — plain data: the command dataclasses of graphics_command.py.
   Shared by Model/ (serialiser) and Spec/ (expected protocol fields); contains no functions. *)
From Coq Require Import NArith List.
Import ListNotations.

Inductive quietness := QVerbose | QUnlessError | QAlways.
Inductive format := FRgb | FRgba | FPng.
Inductive medium := MDirect | MFile | MTemp | MShm.
Inductive compression := CZlib.
Inductive what_delete :=
  WVisible | WById | WByNumber | WUnderCursor | WFrames | WAtPos | WAtPosZ | WAtCol | WAtRow | WAtZ.

Record placement := {
  p_placement_id : option N; p_virtual : option bool; p_rows : option N; p_cols : option N;
  p_do_not_move_cursor : option bool; p_src_x : option N; p_src_y : option N; p_src_w : option N; p_src_h : option N }.

Record transmit := {
  t_image_id : option N; t_image_number : option N; t_medium : option medium; t_data : list N;
  t_size : option N; t_offset : option N; t_quiet : option quietness; t_more : option bool;
  t_format : option format; t_compression : option compression; t_pix_width : option N; t_pix_height : option N;
  t_query : option bool; t_placement : option placement; t_omit_action : bool }.

Record moredata := { m_image_id : option N; m_image_number : option N; m_data : list N; m_more : option bool }.

Record put := { u_image_id : option N; u_image_number : option N; u_quiet : option quietness; u_placement : placement }.

Record delete := {
  d_image_id : option N; d_image_number : option N; d_placement_id : option N; d_quiet : option quietness;
  d_what : option what_delete; d_delete_data : option bool }.

Inductive command := CTransmit (c : transmit) | CMore (c : moredata) | CPut (c : put) | CDelete (c : delete).

(* field selectors: which attribute a header tuple entry reads *)
Inductive pfield := PF_placement_id | PF_virtual | PF_rows | PF_cols | PF_src_x | PF_src_y | PF_src_w | PF_src_h | PF_do_not_move_cursor.
Inductive tfield := TF_image_id | TF_image_number | TF_medium | TF_size | TF_offset | TF_quiet | TF_more | TF_format
                  | TF_compression | TF_pix_width | TF_pix_height | TF_action.
Inductive mfield := MF_image_id | MF_image_number | MF_more.
Inductive ufield := UF_action | UF_image_id | UF_image_number | UF_quiet.
Inductive dfield := DF_action | DF_image_id | DF_image_number | DF_placement_id | DF_quiet | DF_what.

(* a header value after normalize_header_value: an int, or bytes *)
Inductive hval := HInt (n : N) | HBytes (b : list N).
