From Coq Require Import ZArith NArith List Bool Lia ZifyN ZifyBool ZifyNat.
From Tup Require Import Lib.SplitJoin.
Import ListNotations.
Open Scope N_scope.

Lemma split_on_nosep sep p : Forall (fun b => b <> sep) p -> forall cur rest,
  split_on sep (p ++ rest) cur = split_on sep rest (rev p ++ cur).
Proof.
  induction 1 as [|b p Hb _ IH]; intros cur rest; cbn [app split_on rev]; [reflexivity|].
  destruct (b =? sep) eqn:E; [lia|]. rewrite IH, <- app_assoc. reflexivity.
Qed.

Theorem split_join sep parts : parts <> [] ->
  Forall (Forall (fun b => b <> sep)) parts ->
  split_on sep (join sep parts) [] = parts.
Proof.
  intros Hne Hall. induction Hall as [|p parts Hp Hall IH]; [congruence|].
  destruct parts as [|q parts].
  - cbn [join]. rewrite <- (app_nil_r p) at 1. rewrite split_on_nosep by assumption. cbn [split_on].
    rewrite app_nil_r, rev_involutive. reflexivity.
  - change (join sep (p :: q :: parts)) with (p ++ sep :: join sep (q :: parts)).
    rewrite split_on_nosep by assumption. cbn [split_on]. rewrite N.eqb_refl.
    rewrite app_nil_r, rev_involutive. f_equal. apply IH. discriminate.
Qed.

Theorem split_first_spec sep p rest : Forall (fun b => b <> sep) p ->
  split_first sep (p ++ sep :: rest) [] = (p, Some rest) /\ split_first sep p [] = (p, None).
Proof.
  intros Hp.
  assert (G : forall cur tl, split_first sep (p ++ tl) cur = split_first sep tl (rev p ++ cur)).
  { induction Hp as [|b p Hb _ IH]; intros cur tl; cbn [app split_first rev]; [reflexivity|].
    destruct (b =? sep) eqn:E; [lia|]. rewrite IH, <- app_assoc. reflexivity. }
  split.
  - rewrite G. cbn [split_first]. rewrite N.eqb_refl, app_nil_r, rev_involutive. reflexivity.
  - rewrite <- (app_nil_r p) at 1. rewrite G. cbn [split_first]. rewrite app_nil_r, rev_involutive. reflexivity.
Qed.

Lemma join_length sep parts :
  length (join sep parts) = (fold_right (fun p a => length p + a) 0 parts + (length parts - 1))%nat.
Proof.
  induction parts as [|p [|q r] IH]; [reflexivity|cbn; lia|].
  change (join sep (p :: q :: r)) with (p ++ sep :: join sep (q :: r)).
  rewrite app_length. cbn [length]. rewrite IH. cbn [fold_right length]. lia.
Qed.
