(* Lib/PySem.v — meaning of the Python subset that harness/gen_pytrans.py translates.

   The translator turns straight-line integer code (assignments, if/elif/else, return, raise,
   calls of other translated methods, secrets.randbelow) into Gallina terms over this file.
   A Python int is Z (unbounded), a bool is bool, an object of a frozen dataclass is the tuple of
   its fields, `range(a, b)` is the pair (a, b).  A computation is a function of the draws that
   secrets.randbelow will return, in call order:

     Ok v rest   normal completion with value v, [rest] = draws not consumed
     Exc         a Python exception was raised (raise statement, randbelow(n) with n <= 0)
     NoDraw      randbelow was called but the list of draws is exhausted   } never behaviours of the
     BadDraw     the offered draw d is not in [0, n)                        } real function

   No proofs here. *)
From Coq Require Import ZArith List Bool.
Import ListNotations.
Open Scope Z_scope.

Inductive res (A : Type) : Type :=
| Ok (a : A) (rest : list Z)
| Exc
| NoDraw
| BadDraw.
Arguments Ok {A}. Arguments Exc {A}. Arguments NoDraw {A}. Arguments BadDraw {A}.

Definition M (A : Type) : Type := list Z -> res A.
Definition ret {A} (a : A) : M A := fun ds => Ok a ds.
Definition raise {A} : M A := fun _ => Exc.
Definition bind {A B} (m : M A) (f : A -> M B) : M B :=
  fun ds => match m ds with
            | Ok a r => f a r
            | Exc => Exc
            | NoDraw => NoDraw
            | BadDraw => BadDraw
            end.
(* secrets.randbelow(n): ValueError unless n > 0 *)
Definition randbelow (n : Z) : M Z :=
  fun ds =>
    if n <=? 0 then Exc
    else match ds with
         | [] => NoDraw
         | d :: r => if (0 <=? d) && (d <? n) then Ok d r else BadDraw
         end.

(* operators *)
Definition py_shiftl (a b : Z) : Z := Z.shiftl a b.      (* b >= 0 at every translated site *)
Definition py_shiftr (a b : Z) : Z := Z.shiftr a b.
Definition py_floordiv (a b : Z) : Z := a / b.            (* Coq's Z.div floors like Python's // *)
Definition py_bool_to_int (b : bool) : Z := if b then 1 else 0.
Fixpoint py_in (x : Z) (l : list Z) : bool :=
  match l with [] => false | y :: r => (x =? y) || py_in x r end.

Declare Scope py_scope.
Notation "x <- m ;; f" := (bind m (fun x => f)) (at level 61, m at next level, right associativity) : py_scope.
Notation "' pat <- m ;; f" := (bind m (fun x => match x with pat => f end))
  (at level 61, pat pattern, m at next level, right associativity) : py_scope.
