(* Lib/PySem.v — meaning of the Python subset that harness/gen_pytrans.py translates.

   The translator turns straight-line integer code (assignments, if/elif/else, return, raise,
   calls of other translated methods, secrets.randbelow) into Gallina terms over this file.
   A Python int is Z (unbounded), a bool is bool, an object of a frozen dataclass is the tuple of
   its fields, `range(a, b)` is the pair (a, b).  A computation is a function of the draws that
   secrets.randbelow will return, in call order:

     Ok v rest   normal completion with value v, [rest] = draws not consumed
     Exc         a Python exception was raised (raise statement, randbelow(n) with n <= 0)
     NoDraw      randbelow was called but the list of draws is exhausted   } never behaviours of the
     BadDraw     the offered draw d is not in [0, n)                        } real function

   No proofs here. *)
From Coq Require Import ZArith List Bool.
Import ListNotations.
Open Scope Z_scope.

Inductive res (A : Type) : Type :=
| Ok (a : A) (rest : list Z)
| Exc
| NoDraw
| BadDraw.
Arguments Ok {A}. Arguments Exc {A}. Arguments NoDraw {A}. Arguments BadDraw {A}.

Definition M (A : Type) : Type := list Z -> res A.
Definition ret {A} (a : A) : M A := fun ds => Ok a ds.
Definition raise {A} : M A := fun _ => Exc.
Definition bind {A B} (m : M A) (f : A -> M B) : M B :=
  fun ds => match m ds with
            | Ok a r => f a r
            | Exc => Exc
            | NoDraw => NoDraw
            | BadDraw => BadDraw
            end.
(* secrets.randbelow(n): ValueError unless n > 0 *)
Definition randbelow (n : Z) : M Z :=
  fun ds =>
    if n <=? 0 then Exc
    else match ds with
         | [] => NoDraw
         | d :: r => if (0 <=? d) && (d <? n) then Ok d r else BadDraw
         end.

(* operators *)
Definition py_shiftl (a b : Z) : Z := Z.shiftl a b.      (* b >= 0 at every translated site *)
Definition py_shiftr (a b : Z) : Z := Z.shiftr a b.
Definition py_floordiv (a b : Z) : Z := a / b.            (* Coq's Z.div floors like Python's // *)
Definition py_bool_to_int (b : bool) : Z := if b then 1 else 0.
Fixpoint py_in (x : Z) (l : list Z) : bool :=
  match l with [] => false | y :: r => (x =? y) || py_in x r end.

(* for x in range(start, stop, step): the loop state is threaded through the body; range() with step 0 raises
   ValueError.  Fuel = the distance to run: with |step| >= 1 the loop has ended when it is used up (at fuel 0 the
   index has reached stop, so returning the state there is the loop's result, not a truncation). *)
Fixpoint for_range_up {S} (fuel : nat) (i stop step : Z) (body : Z -> S -> M S) (s : S) : M S :=
  match fuel with
  | O => ret s
  | Datatypes.S f => if i <? stop then bind (body i s) (fun s' => for_range_up f (i + step) stop step body s') else ret s
  end.
Fixpoint for_range_down {S} (fuel : nat) (i stop step : Z) (body : Z -> S -> M S) (s : S) : M S :=
  match fuel with
  | O => ret s
  | Datatypes.S f => if stop <? i then bind (body i s) (fun s' => for_range_down f (i + step) stop step body s') else ret s
  end.
Definition py_for_range {S} (start stop step : Z) (body : Z -> S -> M S) (s : S) : M S :=
  if step =? 0 then raise
  else if 0 <? step then for_range_up (Z.to_nat (stop - start)) start stop step body s
  else for_range_down (Z.to_nat (start - stop)) start stop step body s.
(* lst[k] and lst[k] = x for a constant k >= 0: IndexError when out of range *)
Definition py_getitem {A} (l : list A) (k : Z) : M A :=
  fun ds => match nth_error l (Z.to_nat k) with Some x => Ok x ds | None => Exc end.
Fixpoint set_nth {A} (l : list A) (k : nat) (x : A) : option (list A) :=
  match l, k with
  | [], _ => None
  | _ :: r, O => Some (x :: r)
  | y :: r, Datatypes.S k' => match set_nth r k' x with Some r' => Some (y :: r') | None => None end
  end.
Definition py_setitem {A} (l : list A) (k : Z) (x : A) : M (list A) :=
  fun ds => match set_nth l (Z.to_nat k) x with Some l' => Ok l' ds | None => Exc end.

(* iterating: list(range(a, b)) and `for x in <list>: ... yield ...` (a generator = the list of what it yields; the
   body of the loop may itself call things, so the loop is monadic, left to right) *)
Fixpoint range_list_fuel (fuel : nat) (a : Z) : list Z :=
  match fuel with O => [] | Datatypes.S f => a :: range_list_fuel f (a + 1) end.
Definition py_range_list (a b : Z) : list Z := range_list_fuel (Z.to_nat (b - a)) a.
Fixpoint py_for_list {A B} (l : list A) (f : A -> M (list B)) : M (list B) :=
  match l with
  | [] => ret []
  | a :: r => bind (f a) (fun xs => bind (py_for_list r f) (fun ys => ret (xs ++ ys)))
  end.

Declare Scope py_scope.
Notation "x <- m ;; f" := (bind m (fun x => f)) (at level 61, m at next level, right associativity) : py_scope.
Notation "' pat <- m ;; f" := (bind m (fun x => match x with pat => f end))
  (at level 61, pat pattern, m at next level, right associativity) : py_scope.
