(* Lib/PyFmt.v — Python's  bytes % single_bytes_argument  restricted to the conversions the
   library's templates use: "%b" (substitute the argument, at most once: a second one raises
   "not enough arguments"), "%%" (a literal percent sign).  Anything else, and a template that
   does not consume its argument, is an error (TypeError / ValueError in Python) -> None. *)
From Coq Require Import NArith List Bool.
Import ListNotations.
Open Scope N_scope.

Fixpoint pyfmt_go (t : list N) (arg : list N) (used : bool) : option (list N) :=
  match t with
  | [] => if used then Some [] else None
  | c :: r =>
      if c =? 37 then
        match r with
        | d :: r' =>
            if d =? 98 then                    (* %b *)
              if used then None else
              match pyfmt_go r' arg true with Some o => Some (arg ++ o) | None => None end
            else if d =? 37 then               (* %% *)
              match pyfmt_go r' arg used with Some o => Some (37 :: o) | None => None end
            else None
        | [] => None
        end
      else match pyfmt_go r arg used with Some o => Some (c :: o) | None => None end
  end.
Definition pyfmt (t arg : list N) : option (list N) := pyfmt_go t arg false.

(* bytes.replace(single_byte, replacement) *)
Definition replace1 (from : N) (to : list N) (l : list N) : list N :=
  flat_map (fun b => if b =? from then to else [b]) l.
