From Coq Require Import ZArith NArith List Bool Lia ZifyN ZifyBool ZifyNat.
From Tup Require Import Lib.ByteStr Lib.Base64.
Import ListNotations.
Open Scope N_scope.
Ltac Zify.zify_post_hook ::= Z.to_euclidean_division_equations.

Lemma list_ind3 {A} (P : list A -> Prop) :
  P [] -> (forall a, P [a]) -> (forall a b, P [a;b]) ->
  (forall a b c r, P r -> P (a::b::c::r)) -> forall l, P l.
Proof.
  intros H0 H1 H2 H3.
  fix IH 1. intros [|a [|b [|c r]]]; [exact H0|apply H1|apply H2|apply H3; apply IH].
Qed.

Ltac inv_bytes H :=
  repeat match type of H with
  | bytes_ok (_ :: _) => let Hb := fresh "Hb" in let Ht := fresh "Ht" in
       apply Forall_cons_iff in H; destruct H as [Hb Ht]; cbv beta in Hb; try (inv_bytes Ht)
  end.

Lemma bytes_ok_cons b l : bytes_ok (b :: l) <-> b < 256 /\ bytes_ok l.
Proof. unfold bytes_ok. rewrite Forall_cons_iff. tauto. Qed.
Lemma bytes_ok_app a b : bytes_ok (a ++ b) <-> bytes_ok a /\ bytes_ok b.
Proof. unfold bytes_ok. apply Forall_app. Qed.
Lemma bytes_ok_nil : bytes_ok []. Proof. constructor. Qed.

Theorem dec6_enc6 l : bytes_ok l -> dec6 (enc6 l) = Some l.
Proof.
  unfold PAD. induction l as [|a|a b|a b c r IH] using list_ind3; intros HF.
  - reflexivity.
  - apply bytes_ok_cons in HF. destruct HF as [Ha _]. cbn [enc6 dec6]. unfold PAD.
    destruct ((a / 4 =? 64) || (a mod 4 * 16 =? 64)) eqn:E; [lia|].
    change (64 =? 64) with true. cbv iota. f_equal. f_equal. lia.
  - apply bytes_ok_cons in HF. destruct HF as [Ha HF]. apply bytes_ok_cons in HF. destruct HF as [Hb _].
    cbn [enc6 dec6]. unfold PAD.
    destruct ((a / 4 =? 64) || (a mod 4 * 16 + b / 16 =? 64)) eqn:E; [lia|].
    destruct (b mod 16 * 4 =? 64) eqn:E2; [lia|].
    change (64 =? 64) with true. cbv iota. repeat f_equal; lia.
  - apply bytes_ok_cons in HF. destruct HF as [Ha HF]. apply bytes_ok_cons in HF. destruct HF as [Hb HF].
    apply bytes_ok_cons in HF. destruct HF as [Hc HF].
    cbn [enc6 dec6]. unfold PAD.
    destruct ((a / 4 =? 64) || (a mod 4 * 16 + b / 16 =? 64)) eqn:E; [lia|].
    destruct (b mod 16 * 4 + c / 64 =? 64) eqn:E2; [lia|].
    destruct (c mod 64 =? 64) eqn:E3; [lia|].
    rewrite (IH HF). repeat f_equal; lia.
Qed.

Lemma of_to_char s : s <= 64 -> of_char (to_char s) = Some s.
Proof.
  intros H. unfold to_char, PAD.
  repeat match goal with |- context [if ?b then _ else _] => destruct b eqn:? end;
  unfold of_char, PAD;
  repeat match goal with |- context [if ?b then _ else _] => destruct b eqn:? end;
  first [f_equal; lia | exfalso; lia].
Qed.

Lemma enc6_range l : bytes_ok l -> Forall (fun s => s <= 64) (enc6 l).
Proof.
  unfold PAD. induction l as [|a|a b|a b c r IH] using list_ind3; intros HF; cbn [enc6]; unfold PAD.
  - constructor.
  - apply bytes_ok_cons in HF. destruct HF as [Ha _]. repeat constructor; lia.
  - apply bytes_ok_cons in HF. destruct HF as [Ha HF]. apply bytes_ok_cons in HF. destruct HF as [Hb _].
    repeat constructor; lia.
  - apply bytes_ok_cons in HF. destruct HF as [Ha HF]. apply bytes_ok_cons in HF. destruct HF as [Hb HF].
    apply bytes_ok_cons in HF. destruct HF as [Hc HF].
    repeat (constructor; [lia|]). apply IH. exact HF.
Qed.

Lemma sequence_of_to l : Forall (fun s => s <= 64) l -> sequence (map of_char (map to_char l)) = Some l.
Proof.
  induction 1 as [|s l Hs _ IH]; cbn [map sequence]; [reflexivity|].
  rewrite (of_to_char s Hs). rewrite IH. reflexivity.
Qed.

Theorem b64decode_encode l : bytes_ok l -> b64decode (b64encode l) = Some l.
Proof.
  intros H. unfold b64decode, b64encode. rewrite (sequence_of_to _ (enc6_range l H)).
  apply dec6_enc6. exact H.
Qed.

(* length: 4 * ceil(n / 3), stated in N *)
Theorem b64encode_length l : N.of_nat (length (b64encode l)) = 4 * ((N.of_nat (length l) + 2) / 3).
Proof.
  unfold b64encode. rewrite map_length.
  induction l as [|a|a b|a b c r IH] using list_ind3; cbn [enc6 length]; try reflexivity.
  rewrite !Nat2N.inj_succ in *. lia.
Qed.

Lemma to_char_data s : s < 64 -> to_char s <> 61.
Proof.
  intros Hs. unfold to_char. repeat match goal with |- context [if ?b then _ else _] => destruct b eqn:? end; lia.
Qed.

(* padding appears only when the length is not a multiple of 3 *)
Theorem b64encode_unpadded l : bytes_ok l -> (N.of_nat (length l)) mod 3 = 0 -> ~ In 61 (b64encode l).
Proof.
  unfold b64encode. induction l as [|a|a b|a b c r IH] using list_ind3; intros HF Hm; cbn [enc6 length map] in *.
  - intros [].
  - exfalso. change (N.of_nat 1) with 1 in Hm. lia.
  - exfalso. change (N.of_nat 2) with 2 in Hm. lia.
  - apply bytes_ok_cons in HF. destruct HF as [Ha HF]. apply bytes_ok_cons in HF. destruct HF as [Hb HF].
    apply bytes_ok_cons in HF. destruct HF as [Hc HF].
    assert (Hr : N.of_nat (length r) mod 3 = 0) by (rewrite !Nat2N.inj_succ in Hm; lia).
    specialize (IH HF Hr).
    intros [H|[H|[H|[H|H]]]]; try (revert H; apply to_char_data; lia). contradiction.
Qed.

(* every character of an encoding is a base64 character: in particular never ESC ; , = (other than padding) *)
Lemma to_char_is_b64 s : s <= 64 -> is_b64_char (to_char s) = true.
Proof. intro H. unfold is_b64_char. rewrite (of_to_char s H). reflexivity. Qed.

Theorem b64encode_chars l : bytes_ok l -> Forall (fun c => is_b64_char c = true) (b64encode l).
Proof.
  intro H. unfold b64encode. apply Forall_map. eapply Forall_impl; [|apply (enc6_range l H)].
  intros s Hs. apply to_char_is_b64. exact Hs.
Qed.

Lemma is_b64_char_cases c : is_b64_char c = true ->
  (65 <= c <= 90) \/ (97 <= c <= 122) \/ (48 <= c <= 57) \/ c = 43 \/ c = 47 \/ c = 61.
Proof.
  unfold is_b64_char, of_char.
  destruct ((65 <=? c) && (c <=? 90)) eqn:E1; [intros _; lia|].
  destruct ((97 <=? c) && (c <=? 122)) eqn:E2; [intros _; lia|].
  destruct ((48 <=? c) && (c <=? 57)) eqn:E3; [intros _; lia|].
  destruct (c =? 43) eqn:E4; [intros _; lia|].
  destruct (c =? 47) eqn:E5; [intros _; lia|].
  destruct (c =? 61) eqn:E6; [intros _; lia|].
  discriminate.
Qed.
