From Coq Require Import ZArith NArith List Lia ZifyN ZifyBool.
Import ListNotations.
Open Scope N_scope.
From Tup Require Import Lib.Dec.
Ltac Zify.zify_post_hook ::= Z.to_euclidean_division_equations.

Fixpoint val_rev (l : list N) : N := match l with [] => 0 | d :: r => d + 10 * val_rev r end.

Lemma digits_rev_val fuel n : n < 2 ^ N.of_nat fuel -> fuel <> O -> val_rev (digits_rev fuel n) = n.
Proof.
  revert n; induction fuel as [|f IH]; intros n Hn Hf; [congruence|].
  cbn [digits_rev]. destruct (n <? 10) eqn:E.
  - cbn [val_rev]. lia.
  - cbn [val_rev]. destruct f as [|f'].
    + change (2 ^ N.of_nat 1) with 2 in Hn. lia.
    + rewrite IH; [lia| |congruence].
      rewrite Nat2N.inj_succ, N.pow_succ_r' in Hn. 
      apply N.div_lt_upper_bound; lia.
Qed.

Lemma fold_val l acc : fold_left (fun a b => a * 10 + (b - 48)) (map (fun d => d + 48) l) acc
   = fold_left (fun a d => a * 10 + d) l acc.
Proof. revert acc; induction l as [|d l IH]; intros acc; cbn [map fold_left]; [reflexivity|]. rewrite IH. f_equal. lia. Qed.

Lemma fold_rev_val l : fold_left (fun a d => a * 10 + d) (rev l) 0 = val_rev l.
Proof.
  induction l as [|d l IH]; [reflexivity|]. cbn [rev val_rev]. rewrite fold_left_app. cbn [fold_left]. rewrite IH. lia.
Qed.

Theorem undec_dec n : undec (dec n) = n.
Proof.
  unfold undec, dec. rewrite fold_val, fold_rev_val. apply digits_rev_val; [|congruence].
  rewrite Nat2N.inj_succ, N2Nat.id. destruct n as [|p]; [reflexivity|].
  pose proof (N.size_gt (N.pos p)) as H. rewrite N.pow_succ_r'. lia.
Qed.

From Coq Require Import Bool ZifyNat.

Lemma digits_rev_digit fuel n : Forall (fun d => d < 10) (digits_rev fuel n).
Proof.
  revert n; induction fuel as [|f IH]; intros n; cbn [digits_rev]; [constructor|].
  destruct (n <? 10) eqn:E.
  - constructor; [lia|constructor].
  - constructor; [apply N.mod_lt; lia|apply IH].
Qed.
Lemma dec_is_digits n : Forall (fun b => is_digit b = true) (dec n).
Proof.
  unfold dec. apply Forall_forall. intros b Hb. apply in_map_iff in Hb as (d & <- & Hd).
  apply in_rev in Hd. pose proof (digits_rev_digit (S (N.to_nat (N.size n))) n) as H.
  rewrite Forall_forall in H. specialize (H d Hd). unfold is_digit. lia.
Qed.
Lemma dec_nonempty n : dec n <> [].
Proof.
  unfold dec. cbn [digits_rev]. destruct (n <? 10); cbn [rev]; intros H;
  apply map_eq_nil in H; apply app_eq_nil in H; destruct H; discriminate.
Qed.
Lemma dec_small n : n < 10 -> dec n = [n + 48].
Proof.
  intro H. unfold dec. cbn [digits_rev]. destruct (n <? 10) eqn:E; [reflexivity|lia].
Qed.
