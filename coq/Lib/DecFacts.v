From Coq Require Import ZArith NArith List Lia ZifyN ZifyBool.
Import ListNotations.
Open Scope N_scope.
From Tup Require Import Lib.Dec.
Ltac Zify.zify_post_hook ::= Z.to_euclidean_division_equations.

Fixpoint val_rev (l : list N) : N := match l with [] => 0 | d :: r => d + 10 * val_rev r end.

Lemma digits_rev_val fuel n : n < 2 ^ N.of_nat fuel -> fuel <> O -> val_rev (digits_rev fuel n) = n.
Proof.
  revert n; induction fuel as [|f IH]; intros n Hn Hf; [congruence|].
  cbn [digits_rev]. destruct (n <? 10) eqn:E.
  - cbn [val_rev]. lia.
  - cbn [val_rev]. destruct f as [|f'].
    + change (2 ^ N.of_nat 1) with 2 in Hn. lia.
    + rewrite IH; [lia| |congruence].
      rewrite Nat2N.inj_succ, N.pow_succ_r' in Hn. 
      apply N.div_lt_upper_bound; lia.
Qed.

Lemma fold_val l acc : fold_left (fun a b => a * 10 + (b - 48)) (map (fun d => d + 48) l) acc
   = fold_left (fun a d => a * 10 + d) l acc.
Proof. revert acc; induction l as [|d l IH]; intros acc; cbn [map fold_left]; [reflexivity|]. rewrite IH. f_equal. lia. Qed.

Lemma fold_rev_val l : fold_left (fun a d => a * 10 + d) (rev l) 0 = val_rev l.
Proof.
  induction l as [|d l IH]; [reflexivity|]. cbn [rev val_rev]. rewrite fold_left_app. cbn [fold_left]. rewrite IH. lia.
Qed.

Theorem undec_dec n : undec (dec n) = n.
Proof.
  unfold undec, dec. rewrite fold_val, fold_rev_val. apply digits_rev_val; [|congruence].
  rewrite Nat2N.inj_succ, N2Nat.id. destruct n as [|p]; [reflexivity|].
  pose proof (N.size_gt (N.pos p)) as H. rewrite N.pow_succ_r'. lia.
Qed.
