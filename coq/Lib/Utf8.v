(* Lib/Utf8.v — UTF-8 encoding of Unicode scalar values (Python's str.encode("utf-8") for one code
   point) and a one-scalar decoder; arithmetic only (/ and mod), no bit operations. *)
From Coq Require Import ZArith NArith List Bool Lia ZifyN ZifyBool ZifyNat.
Import ListNotations.
Open Scope N_scope.

Definition utf8_encode (cp : N) : list N :=
  if cp <? 128 then [cp]
  else if cp <? 2048 then [192 + cp / 64; 128 + cp mod 64]
  else if cp <? 65536 then [224 + cp / 4096; 128 + (cp / 64) mod 64; 128 + cp mod 64]
  else [240 + cp / 262144; 128 + (cp / 4096) mod 64; 128 + (cp / 64) mod 64; 128 + cp mod 64].

Definition utf8_encode_str (s : list N) : list N := flat_map utf8_encode s.

Definition is_cont (b : N) : bool := (128 <=? b) && (b <? 192).

(* decode one scalar from the front of a byte string (no overlong / surrogate rejection: the
   round trip below is what the development needs) *)
Definition utf8_decode1 (l : list N) : option (N * list N) :=
  match l with
  | [] => None
  | b :: r =>
      if b <? 128 then Some (b, r)
      else if b <? 192 then None
      else if b <? 224 then
        match r with
        | c1 :: r' => if is_cont c1 then Some ((b - 192) * 64 + (c1 - 128), r') else None
        | _ => None
        end
      else if b <? 240 then
        match r with
        | c1 :: c2 :: r' =>
            if is_cont c1 && is_cont c2 then Some (((b - 224) * 64 + (c1 - 128)) * 64 + (c2 - 128), r') else None
        | _ => None
        end
      else if b <? 248 then
        match r with
        | c1 :: c2 :: c3 :: r' =>
            if is_cont c1 && is_cont c2 && is_cont c3
            then Some ((((b - 240) * 64 + (c1 - 128)) * 64 + (c2 - 128)) * 64 + (c3 - 128), r') else None
        | _ => None
        end
      else None
  end.
