(* Lib/Base64.v — RFC 4648 base64 as Python's base64.b64encode / b64decode(validate=True) compute it.
   Sextets are N below 64; 64 stands for padding. *)
From Coq Require Import ZArith NArith List Bool.
Import ListNotations.
Open Scope N_scope.

Definition PAD : N := 64.

Fixpoint enc6 (l : list N) : list N :=
  match l with
  | a :: b :: c :: r => a / 4 :: (a mod 4) * 16 + b / 16 :: (b mod 16) * 4 + c / 64 :: c mod 64 :: enc6 r
  | [a; b] => [a / 4; (a mod 4) * 16 + b / 16; (b mod 16) * 4; PAD]
  | [a] => [a / 4; (a mod 4) * 16; PAD; PAD]
  | [] => []
  end.

Definition to_char (s : N) : N :=
  if s <? 26 then 65 + s else if s <? 52 then 97 + (s - 26)
  else if s <? 62 then 48 + (s - 52) else if s =? 62 then 43 else if s =? 63 then 47 else 61.

Definition of_char (c : N) : option N :=
  if (65 <=? c) && (c <=? 90) then Some (c - 65)
  else if (97 <=? c) && (c <=? 122) then Some (c - 97 + 26)
  else if (48 <=? c) && (c <=? 57) then Some (c - 48 + 52)
  else if c =? 43 then Some 62 else if c =? 47 then Some 63 else if c =? 61 then Some PAD else None.

Definition b64encode (l : list N) : list N := map to_char (enc6 l).

(* strict decoding of sextets: padding only as the last one or two symbols of the last quantum;
   the unused low bits of the last data sextet are ignored (as CPython does) *)
Fixpoint dec6 (l : list N) : option (list N) :=
  match l with
  | [] => Some []
  | s0 :: s1 :: s2 :: s3 :: r =>
      if (s0 =? PAD) || (s1 =? PAD) then None
      else if s2 =? PAD then
        if s3 =? PAD then match r with [] => Some [s0 * 4 + s1 / 16] | _ => None end else None
      else if s3 =? PAD then
        match r with [] => Some [s0 * 4 + s1 / 16; (s1 mod 16) * 16 + s2 / 4] | _ => None end
      else match dec6 r with
           | Some d => Some (s0 * 4 + s1 / 16 :: (s1 mod 16) * 16 + s2 / 4 :: (s2 mod 4) * 64 + s3 :: d)
           | None => None
           end
  | _ => None
  end.

Fixpoint sequence (l : list (option N)) : option (list N) :=
  match l with
  | [] => Some []
  | Some x :: r => match sequence r with Some t => Some (x :: t) | None => None end
  | None :: _ => None
  end.

Definition b64decode (s : list N) : option (list N) :=
  match sequence (map of_char s) with Some l => dec6 l | None => None end.

(* characters that can occur in base64 text *)
Definition is_b64_char (c : N) : bool :=
  match of_char c with Some _ => true | None => false end.

(* What CPython 3.12's base64.b64decode(s, validate=True) (binascii.a2b_base64 with
   strict_mode=True) really accepts: everything [b64decode] accepts and, in addition, ANY number
   of '=' after a non-empty sequence of complete quanta ("QUJD=", "QUJD====" decode to "ABC").
   Found by the exhaustive comparison in harness/c18.py; [b64decode] above is the RFC-strict reading. *)
Fixpoint all_pad (l : list N) : bool :=
  match l with [] => true | s :: r => (s =? PAD) && all_pad r end.

Fixpoint dec6_py (l : list N) : option (list N) :=
  match l with
  | [] => Some []
  | s0 :: s1 :: s2 :: s3 :: r =>
      if (s0 =? PAD) || (s1 =? PAD) then None
      else if s2 =? PAD then
        if s3 =? PAD then match r with [] => Some [s0 * 4 + s1 / 16] | _ => None end else None
      else if s3 =? PAD then
        match r with [] => Some [s0 * 4 + s1 / 16; (s1 mod 16) * 16 + s2 / 4] | _ => None end
      else if all_pad r then Some [s0 * 4 + s1 / 16; (s1 mod 16) * 16 + s2 / 4; (s2 mod 4) * 64 + s3]
      else match dec6_py r with
           | Some d => Some (s0 * 4 + s1 / 16 :: (s1 mod 16) * 16 + s2 / 4 :: (s2 mod 4) * 64 + s3 :: d)
           | None => None
           end
  | _ => None
  end.

Definition b64decode_py (s : list N) : option (list N) :=
  match sequence (map of_char s) with Some l => dec6_py l | None => None end.
