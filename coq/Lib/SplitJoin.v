(* Lib/SplitJoin.v — bytes.split(sep) / sep.join(parts) / split(sep, 1) for a one-byte separator. *)
From Coq Require Import NArith List Bool.
Import ListNotations.
Open Scope N_scope.

Fixpoint split_on (sep : N) (l : list N) (cur : list N) : list (list N) :=
  match l with
  | [] => [rev cur]
  | b :: r => if b =? sep then rev cur :: split_on sep r [] else split_on sep r (b :: cur)
  end.
Fixpoint join (sep : N) (parts : list (list N)) : list N :=
  match parts with
  | [] => []
  | [p] => p
  | p :: r => p ++ sep :: join sep r
  end.
(* split(sep, 1): only at the first separator *)
Fixpoint split_first (sep : N) (l : list N) (cur : list N) : list N * option (list N) :=
  match l with
  | [] => (rev cur, None)
  | b :: r => if b =? sep then (rev cur, Some r) else split_first sep r (b :: cur)
  end.
