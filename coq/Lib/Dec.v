(* Lib/Dec.v — Python's str(int).encode() for non-negative ints, and int(bytes). *)
From Coq Require Import ZArith NArith List Lia ZifyN ZifyBool.
Import ListNotations.
Open Scope N_scope.

(* digits, most significant first; fuel-based, fuel = size in bits + 1 suffices *)
Fixpoint digits_rev (fuel : nat) (n : N) : list N :=
  match fuel with
  | O => []
  | S f => if n <? 10 then [n] else (n mod 10) :: digits_rev f (n / 10)
  end.
Definition dec (n : N) : list N := map (fun d => d + 48) (rev (digits_rev (S (N.to_nat (N.size n))) n)).
Definition undec (l : list N) : N := fold_left (fun acc b => acc * 10 + (b - 48)) l 0.


Definition is_digit (b : N) : bool := (48 <=? b) && (b <=? 57).
