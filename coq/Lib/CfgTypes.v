(* Lib/CfgTypes.v — data types shared by the generated option table (Gen/ConfigGen.v), the
   configuration model and the configuration spec.  Only data, no functions about the library.

   Strings are UTF-8 byte lists.  A float is kept as an exact decimal  m * 10^e  (no float
   arithmetic is modelled: only "is a float" and identity matter for C17); the harness turns it
   into a Python float with float("<m>e<e>") before comparing. *)
From Coq Require Import ZArith NArith List.
Import ListNotations.

(* type annotation of an option, as written in the dataclass *)
Inductive ty : Type :=
| TInt | TFloat | TBool | TStr | TNone
| TOpaque                      (* CellFormatting / RowFormatting / bytes: values not modelled *)
| TSpace | TSub | TMedium      (* IDSpace, IDSubspace, TransmissionMedium *)
| TLit (s : list N)            (* Literal["..."] *)
| TUnion (l : list ty)
| TTuple (l : list ty)
| TList (t : ty).

(* Python / TOML values an option can be given *)
Inductive value : Type :=
| VInt (z : Z)
| VFloat (m e : Z)             (* m * 10^e *)
| VBool (b : bool)
| VStr (s : list N)
| VList (l : list value)
| VTuple (l : list value)
| VSpace (color_bits : Z) (use_3rd : bool)
| VSub (b e : Z)
| VMedium (letter : list N)    (* the enum member whose .value is this letter *)
| VNone.

(* default of an option: a literal value or something only the platform knows *)
Inductive defv : Type :=
| DVal (v : value)
| DStateDir                    (* platformdirs.user_state_dir("tupimage") *)
| DPipeBuf.                    (* select.PIPE_BUF *)
