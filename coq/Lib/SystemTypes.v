(* Lib/SystemTypes.v — plain data shared by Spec/SystemSpec.v (what terminals do with what they receive) and
   Model/SystemModel.v (what the library sends).  No functions on the library's side live here.

   An image is abstract: a token for its raw pixel bytes (Image.tobytes()), its width, height and mode.  Two images
   are "the same pixels" iff all four agree.  What a decoder gets out of a file or an inline payload is a
   [content]: an image resized to c_w x c_h (c_w, c_h = the image's own size: untouched).  Pillow's encoders,
   decoders and resize are NOT modelled: a content stands for "whatever Pillow's encoding of that (resized) image
   decodes to". *)
From Coq Require Import ZArith NArith List.
From Tup Require Import Lib.CommandTypes.
Import ListNotations.

Record img := { pix : N; iw : N; ih : N; imode : N }.
Record content := { c_img : img; c_w : N; c_h : N }.
Definition whole (im : img) : content := {| c_img := im; c_w := iw im; c_h := ih im |}.

(* a user's file as the library sees it: os.path.getmtime, Image.open(...).format (a token for the lower-cased
   format name), os.path.getsize, and the decoded image *)
Record fileinfo := { f_mtime : Z; f_fmt : N; f_size : Z; f_img : img }.

(* file names: the user's paths, and the names tempfile.NamedTemporaryFile(prefix="tty-graphics-protocol-")
   hands out (TempPath k = the k-th such file of the history; fresh and distinct from every user path: trusted) *)
Inductive fpath := UserPath (p : N) | TempPath (k : N).

Inductive payload := PName (p : fpath) | PData (c : content).

(* one complete transmission (all chunks of an inline one: C05) as a terminal receives it *)
Record tx := { x_term : N; x_id : N; x_medium : medium; x_payload : payload; x_rows : N; x_cols : N }.

Inductive event :=
| EMkTemp (k : N) (c : content)          (* the library writes temp file k *)
| ETx (x : tx)
| EPrint (t id rows cols : N)             (* a placeholder for id, rows x cols, is printed on terminal t *)
| ERaise.                                 (* the call raises *)

(* descriptions, before they are turned into the JSON string stored in the database *)
Definition memkey := (N * N * N * N)%type.     (* what the digest of an in-memory image covers: mode, w, h, bytes *)
Inductive descr := DFile (p : N) (mtime : Z) (cols rows : N) | DMem (k : memkey) (cols rows : N).
Definition d_cols (d : descr) : N := match d with DFile _ _ c _ => c | DMem _ c _ => c end.
Definition d_rows (d : descr) : N := match d with DFile _ _ _ r => r | DMem _ _ r => r end.

(* json.dumps / json.loads of a description <-> the token stored in the id tables *)
Record codec := { enc : descr -> N; dec : N -> option descr }.
Definition codec_ok (cd : codec) : Prop := forall d, dec cd (enc cd d) = Some d.

(* an ImageInstance: where its pixels come from, cols, rows, id *)
Inductive isrc :=
| IFile (p : N) (mtime : Z)       (* image=None: the file at path, valid while its mtime is this one *)
| IMem (im : img)                 (* image=<PIL image> *)
| ILost (k : memkey).             (* from_description of an in-memory image: the pixels are gone *)
Record instance := { n_src : isrc; n_cols : N; n_rows : N; n_id : N }.

Inductive source := SFile (p : N) | SMem (im : img).
(* the upload_method option: "auto", "file"/"f", "direct"/"d"/"stream", anything else *)
Inductive meth := MethAuto | MethFile | MethDirect | MethOther.
Inductive subject := SImg (s : source) | SInst (i : instance) | SId (id : N).
