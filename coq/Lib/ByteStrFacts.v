From Coq Require Import ZArith NArith List Bool Lia ZifyN ZifyBool ZifyNat.
From Tup Require Import Lib.ByteStr.
Import ListNotations.
Open Scope N_scope.

Lemma beq_bytes_eq a : forall b, beq_bytes a b = true <-> a = b.
Proof.
  induction a as [|x a IH]; intros [|y b]; cbn [beq_bytes]; split; intro H; try congruence; try reflexivity.
  - apply andb_true_iff in H. destruct H as [H1 H2]. apply IH in H2. f_equal; [lia|exact H2].
  - injection H as -> ->. apply andb_true_iff. split; [lia|apply IH; reflexivity].
Qed.

Lemma strip_prefix_app p : forall r, strip_prefix p (p ++ r) = Some r.
Proof.
  induction p as [|a p IH]; intro r; cbn [strip_prefix app]; [reflexivity|].
  rewrite N.eqb_refl. apply IH.
Qed.

Lemma strip_prefix_some p : forall l r, strip_prefix p l = Some r -> l = p ++ r.
Proof.
  induction p as [|a p IH]; intros l r H; cbn [strip_prefix] in H.
  - injection H as ->. reflexivity.
  - destruct l as [|b l]; [discriminate|]. destruct (a =? b) eqn:E; [|discriminate].
    apply IH in H. subst l. cbn [app]. f_equal. lia.
Qed.

Lemma has_byte_In c l : has_byte c l = true <-> In c l.
Proof.
  induction l as [|b l IH]; cbn [has_byte In]; [split; [discriminate|tauto]|].
  rewrite orb_true_iff, IH. split; intros [H|H]; auto; left; lia.
Qed.

Lemma has_byte_app c a b : has_byte c (a ++ b) = has_byte c a || has_byte c b.
Proof. induction a as [|x a IH]; cbn [has_byte app]; [reflexivity|]. rewrite IH, orb_assoc. reflexivity. Qed.
