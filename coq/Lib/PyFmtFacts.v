From Coq Require Import ZArith NArith List Bool Lia ZifyN ZifyBool ZifyNat.
From Tup Require Import Lib.ByteStr Lib.ByteStrFacts Lib.PyFmt.
Import ListNotations.
Open Scope N_scope.

(* ---------------------------------------------------------------- pyfmt on %-free pieces *)
Definition pct_free (l : list N) : Prop := has_byte 37 l = false.

Lemma pct_free_cons b l : pct_free (b :: l) <-> b <> 37 /\ pct_free l.
Proof. unfold pct_free. cbn [has_byte]. rewrite orb_false_iff. split; intros [H1 H2]; split; auto; lia. Qed.

Lemma pct_free_app a b : pct_free (a ++ b) <-> pct_free a /\ pct_free b.
Proof. unfold pct_free. rewrite has_byte_app, orb_false_iff. tauto. Qed.

Lemma pyfmt_go_free t arg : pct_free t -> pyfmt_go t arg true = Some t.
Proof.
  induction t as [|b t IH]; intro H; [reflexivity|].
  apply pct_free_cons in H. destruct H as [Hb Ht]. cbn [pyfmt_go].
  destruct (b =? 37) eqn:E; [lia|]. rewrite (IH Ht). reflexivity.
Qed.

Lemma pyfmt_go_prefix P R c used : pct_free P ->
  pyfmt_go (P ++ R) c used = match pyfmt_go R c used with Some o => Some (P ++ o) | None => None end.
Proof.
  induction P as [|b P IH]; intro HP.
  - cbn [app]. destruct (pyfmt_go R c used); reflexivity.
  - apply pct_free_cons in HP. destruct HP as [Hb HP]. rewrite <- app_comm_cons. cbn [pyfmt_go].
    destruct (b =? 37) eqn:E; [lia|]. rewrite (IH HP). destruct (pyfmt_go R c used); reflexivity.
Qed.

Lemma pyfmt_split P Q c : pct_free P -> pct_free Q -> pyfmt (P ++ [37; 98] ++ Q) c = Some (P ++ c ++ Q).
Proof.
  intros HP HQ. unfold pyfmt. rewrite (pyfmt_go_prefix P _ c false HP).
  cbn [app pyfmt_go]. change (37 =? 37) with true. change (98 =? 98) with true. cbv iota.
  rewrite (pyfmt_go_free Q c HQ). reflexivity.
Qed.

