(* Lib/IdSpaceTy.v — the names of the five ID spaces (shared vocabulary of Spec/IdLayoutSpec.v and
   Model/IdSpace.v; the constructor names follow the strings printed by IDSpace.__str__). *)
Inductive space : Set :=
| Sp8d   (* "8bit_diacritic": 3rd diacritic only *)
| Sp16   (* "16bit": 8-bit colour + 3rd diacritic *)
| Sp32   (* "32bit": 24-bit colour + 3rd diacritic *)
| Sp8    (* "8bit": 8-bit colour *)
| Sp24.  (* "24bit": 24-bit colour *)

Definition space_eqb (a b : space) : bool :=
  match a, b with
  | Sp8d, Sp8d | Sp16, Sp16 | Sp32, Sp32 | Sp8, Sp8 | Sp24, Sp24 => true
  | _, _ => false
  end.
