(* Lib/PyEff.v — meaning of the effectful Python subset that harness/gen_sendtrans.py translates
   (GraphicsCommand.send and the helpers a rewrite may split it into).

   The only effects are calls on the output stream and of the progress callback, in program order:
     EvFlush          out.flush()
     EvWrite b        out.write(b)
     EvCallback c     callback(c)
   A computation maps the events so far to a result: EOk v tr (normal completion, events tr) or EExc tr (a Python
   exception was raised after the events tr had happened: `raise`, `template % x` with a template that is not
   "<no %>%b<no %>", a call of a callback that is None).  Nothing after an exception happens.  No proofs here. *)
From Coq Require Import ZArith NArith List Bool.
From Tup Require Import Lib.CommandTypes.
Import ListNotations.

Inductive event := EvFlush | EvWrite (b : list N) | EvCallback (c : command).

Inductive eres (A : Type) : Type :=
| EOk (a : A) (tr : list event)
| EExc (tr : list event).
Arguments EOk {A}. Arguments EExc {A}.

Definition Eff (A : Type) : Type := list event -> eres A.
Definition eret {A} (a : A) : Eff A := fun tr => EOk a tr.
Definition ethrow {A} : Eff A := fun tr => EExc tr.
Definition ebind {A B} (m : Eff A) (f : A -> Eff B) : Eff B :=
  fun tr => match m tr with EOk a tr' => f a tr' | EExc tr' => EExc tr' end.
Definition emit_ev (e : event) : Eff unit := fun tr => EOk tt (tr ++ [e]).
(* an operation that raises when it has no value (bytes % bytes with a malformed template) *)
Definition eopt {A} (o : option A) : Eff A := match o with Some a => eret a | None => ethrow end.
(* for x in <list>: body *)
Fixpoint efor {A} (l : list A) (body : A -> Eff unit) : Eff unit :=
  match l with
  | [] => eret tt
  | x :: r => ebind (body x) (fun _ => efor r body)
  end.
(* truthiness of an Optional[int]: None and 0 are false *)
Definition optint_truthy (o : option Z) : bool := match o with Some v => negb (Z.eqb v 0) | None => false end.

Declare Scope eff_scope.
Notation "x <~ m ;; f" := (ebind m (fun x => f)) (at level 61, m at next level, right associativity) : eff_scope.
