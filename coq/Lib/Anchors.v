(* Lib/Anchors.v — forces N, Z, positive and nat into every extraction so that ocaml/util.ml
   always finds the types it converts to and from. *)
From Coq Require Import ZArith NArith.
Definition anchor_z (z : Z) : Z := Z.succ z.
Definition anchor_n (n : N) : N := N.succ n.
Definition anchor_nat (n : nat) : nat := S n.
