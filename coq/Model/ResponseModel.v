(* Model/ResponseModel.v — tupimage/graphics_terminal.py:461-555
   (receive_response, receive_multiple_responses, get_cursor_position) and the GraphicsResponse
   value object (graphics_command.py:462-473), as pure functions of the bytes that are pending
   on the terminal's input.

   What is modelled: every byte that is pending is available at once (select() reports the
   descriptor ready until the input is exhausted); "input exhausted" stands for "the deadline
   passed".  What is NOT modelled: the deadline arithmetic itself (a response that is still
   arriving when the deadline passes, time spent per byte), tty line discipline.

   All byte literals come from Gen/ResponseGen.v, i.e. from the current source; the extractor
   also checks that the three functions have exactly the statement structure transcribed here. *)
From Coq Require Import ZArith NArith List Bool.
From Tup Require Import Lib.ByteStr Gen.ResponseGen.
Import ListNotations.
Open Scope N_scope.

(* ------------------------------------------------------------------ Python primitives *)

(* bytes.split(sep) for a one-byte separator *)
Fixpoint split_on (sep : N) (l : list N) (cur : list N) : list (list N) :=
  match l with
  | [] => [rev cur]
  | b :: r => if b =? sep then rev cur :: split_on sep r [] else split_on sep r (b :: cur)
  end.

(* bytes.split(sep, 1) for a one-byte separator: (head, Some tail) or (everything, None) *)
Fixpoint split_first (sep : N) (l : list N) (cur : list N) : list N * option (list N) :=
  match l with
  | [] => (rev cur, None)
  | b :: r => if b =? sep then (rev cur, Some r) else split_first sep r (b :: cur)
  end.

(* bytes.split(sep, 1) for a separator of any length: split at the first occurrence *)
Fixpoint split_sub1 (sep : list N) (l : list N) (cur : list N) : option (list N * list N) :=
  match strip_prefix sep l with
  | Some r => Some (rev cur, r)
  | None => match l with
            | [] => None
            | b :: r => split_sub1 sep r (b :: cur)
            end
  end.

(* b[:-n] *)
Definition drop_last (n : nat) (l : list N) : list N := firstn (length l - n) l.

(* int(bytes) of CPython 3.12 (base 10): optional surrounding whitespace, an optional sign,
   decimal digits with single underscores between digits, at most 4300 digits
   (sys.int_info.default_max_str_digits); anything else raises ValueError (None). *)
Definition is_space (b : N) : bool := (b =? 32) || ((9 <=? b) && (b <=? 13)).
Definition is_digit (b : N) : bool := (48 <=? b) && (b <=? 57).
Definition max_str_digits : N := 4300.

Fixpoint lstrip (l : list N) : list N :=
  match l with
  | b :: r => if is_space b then lstrip r else l
  | [] => []
  end.

(* scans digits and underscores; returns (value, number of digits, unread rest) *)
Fixpoint int_body (l : list N) (acc : N) (ndig : N) (prev_us : bool) : option (N * N * list N) :=
  match l with
  | [] => if prev_us then None else Some (acc, ndig, [])
  | b :: r =>
      if is_digit b then int_body r (acc * 10 + (b - 48)) (ndig + 1) false
      else if b =? 95 then (if prev_us then None else int_body r acc ndig true)
      else if prev_us then None else Some (acc, ndig, l)
  end.

Definition int_unsigned (l : list N) : option N :=
  match l with
  | b :: _ =>
      if is_digit b then
        match int_body l 0 0 false with
        | Some (v, nd, rest) =>
            match lstrip rest with
            | [] => if max_str_digits <? nd then None else Some v
            | _ :: _ => None
            end
        | None => None
        end
      else None
  | [] => None
  end.

Definition py_int (l : list N) : option Z :=
  match lstrip l with
  | b :: r =>
      if b =? 43 then option_map Z.of_N (int_unsigned r)
      else if b =? 45 then option_map (fun v => Z.opp (Z.of_N v)) (int_unsigned r)
      else option_map Z.of_N (int_unsigned (b :: r))
  | [] => None
  end.

(* bytes.decode("utf-8") succeeds (strict: no overlong forms, no surrogates, <= U+10FFFF) *)
Definition is_cont (b : N) : bool := (128 <=? b) && (b <=? 191).
Fixpoint utf8_ok (l : list N) : bool :=
  match l with
  | [] => true
  | b :: r =>
    if b <? 128 then utf8_ok r
    else if (194 <=? b) && (b <=? 223) then
      match r with
      | c1 :: r' => is_cont c1 && utf8_ok r'
      | _ => false
      end
    else if (224 <=? b) && (b <=? 239) then
      match r with
      | c1 :: c2 :: r' =>
          (if b =? 224 then (160 <=? c1) && (c1 <=? 191)
           else if b =? 237 then (128 <=? c1) && (c1 <=? 159)
           else is_cont c1) && is_cont c2 && utf8_ok r'
      | _ => false
      end
    else if (240 <=? b) && (b <=? 244) then
      match r with
      | c1 :: c2 :: c3 :: r' =>
          (if b =? 240 then (144 <=? c1) && (c1 <=? 191)
           else if b =? 244 then (128 <=? c1) && (c1 <=? 143)
           else is_cont c1) && is_cont c2 && is_cont c3 && utf8_ok r'
      | _ => false
      end
    else false
  end.

(* ------------------------------------------------------------------ the byte-at-a-time reader *)

(* The loop `buffer += read(1); if buffer.endswith(pat): ...`.  The buffer is kept reversed, so
   "buffer.endswith(pat)" is "rev pat is a prefix of the reversed buffer". *)
Inductive scan :=
| Found (buf_rev rest : list N)          (* stopped right after pat; rest is left unread *)
| TimedOut (buf_rev : list N).           (* input exhausted: everything was consumed *)

Fixpoint read_until (pat_rev buf_rev l : list N) : scan :=
  match l with
  | [] => TimedOut buf_rev
  | b :: r => let buf := b :: buf_rev in
              if starts_with pat_rev buf then Found buf r else read_until pat_rev buf r
  end.

(* ------------------------------------------------------------------ GraphicsResponse *)

Record response := mkResponse {
  image_id : option Z;
  image_number : option Z;
  placement_id : option Z;
  additional_data : list (list N * option (list N));   (* dict, in insertion order; str as UTF-8 *)
  message : list N;                                     (* str, as its UTF-8 encoding *)
  is_ok : bool;
  is_valid : bool;
  non_response : list N
}.

(* GraphicsResponse(is_valid=v, non_response=nr) *)
Definition response_default (v : bool) (nr : list N) : response :=
  mkResponse None None None [] [] false v nr.

Definition set_image_id (r : response) (z : Z) : response :=
  mkResponse (Some z) (image_number r) (placement_id r) (additional_data r) (message r) (is_ok r) (is_valid r) (non_response r).
Definition set_image_number (r : response) (z : Z) : response :=
  mkResponse (image_id r) (Some z) (placement_id r) (additional_data r) (message r) (is_ok r) (is_valid r) (non_response r).
Definition set_placement_id (r : response) (z : Z) : response :=
  mkResponse (image_id r) (image_number r) (Some z) (additional_data r) (message r) (is_ok r) (is_valid r) (non_response r).
Definition set_additional (r : response) (d : list (list N * option (list N))) : response :=
  mkResponse (image_id r) (image_number r) (placement_id r) d (message r) (is_ok r) (is_valid r) (non_response r).
Definition set_message (r : response) (m : list N) (ok : bool) : response :=
  mkResponse (image_id r) (image_number r) (placement_id r) (additional_data r) m ok (is_valid r) (non_response r).

(* d[k] = v on a dict: an existing key keeps its place and gets the new value *)
Fixpoint dict_set (k : list N) (v : option (list N)) (d : list (list N * option (list N)))
  : list (list N * option (list N)) :=
  match d with
  | [] => [(k, v)]
  | (k', v') :: r => if beq_bytes k k' then (k, v) :: r else (k', v') :: dict_set k v r
  end.

(* the body of `for part in ...: try: ... except ValueError: pass`
   (UnicodeDecodeError is a ValueError: an undecodable key or value skips the part) *)
Definition do_part (r : response) (part : list N) : response :=
  match strip_prefix resp_key_image_id part with
  | Some v => match py_int v with Some z => set_image_id r z | None => r end
  | None =>
  match strip_prefix resp_key_image_number part with
  | Some v => match py_int v with Some z => set_image_number r z | None => r end
  | None =>
  match strip_prefix resp_key_placement_id part with
  | Some v => match py_int v with Some z => set_placement_id r z | None => r end
  | None =>
      let '(k, ov) := split_first resp_kv_sep part [] in
      if utf8_ok k && (match ov with Some v => utf8_ok v | None => true end)
      then set_additional r (dict_set k ov (additional_data r))
      else r
  end end end.

Inductive exn := UnicodeDecodeError | ValueError | TimeoutError.
Inductive outcome := Got (r : response) | Raised (e : exn).

(* lines 482-507: parse `buffer` once the terminator has been seen *)
Definition parse_buffer (buffer : list N) : outcome :=
  match split_sub1 resp_intro buffer [] with
  | None => Raised ValueError                       (* cannot unpack; unreachable, see proofs *)
  | Some (non_resp, resp) =>
      let res := response_default true non_resp in
      let '(keys, omsg) := split_first resp_msg_sep (drop_last 2 resp) [] in
      let parts := split_on resp_key_sep keys [] in
      match omsg with
      | Some m =>
          if utf8_ok m
          then Got (fold_left do_part parts (set_message res m (beq_bytes m resp_ok)))
          else Raised UnicodeDecodeError             (* raised outside the try: propagates *)
      | None => Got (fold_left do_part parts res)
      end
  end.

(* receive_response: result and the bytes left unread *)
Definition receive (s : list N) : outcome * list N :=
  match read_until (rev resp_intro) [] s with
  | TimedOut buf => (Got (response_default false (rev buf)), [])
  | Found buf rest =>
      match read_until (rev resp_term) buf rest with
      | TimedOut buf' => (Got (response_default false (rev buf')), [])
      | Found buf' rest' => (parse_buffer (rev buf'), rest')
      end
  end.

(* receive_multiple_responses: the list returned (None = an exception propagated; the list built
   so far is lost) and the bytes left unread.  Every call of receive consumes at least one byte
   or returns invalid, so [length s + 1] iterations suffice; running out of fuel is reported as
   an exception and never happens (proved). *)
Fixpoint receive_multiple_fuel (fuel : nat) (s : list N) : option (list response) * list N :=
  match fuel with
  | O => (None, s)
  | S f =>
      match receive s with
      | (Raised _, rest) => (None, rest)
      | (Got r, rest) =>
          if is_valid r then
            match receive_multiple_fuel f rest with
            | (Some l, rest') => (Some (r :: l), rest')
            | (None, rest') => (None, rest')
            end
          else (Some [], rest)
      end
  end.
Definition receive_multiple (s : list N) : option (list response) * list N :=
  receive_multiple_fuel (S (length s)) s.

(* ------------------------------------------------------------------ get_cursor_position *)

Inductive cursor_outcome :=
| CursorAt (x y : Z)            (* returned and stored in tracked_cursor_position *)
| CursorRaised (e : exn).       (* tracked_cursor_position unchanged *)

(* what is written to out_command before reading *)
Definition cursor_query : list N := cur_query.

Definition cursor_report (s : list N) : cursor_outcome * list N :=
  match read_until (rev cur_intro) [] s with
  | TimedOut _ => (CursorRaised TimeoutError, [])
  | Found _ rest =>                                      (* buffer = b"" *)
      match read_until (rev cur_final) [] rest with
      | TimedOut _ => (CursorRaised TimeoutError, [])
      | Found buf rest' =>
          match split_on cur_sep (drop_last 1 (rev buf)) [] with
          | [y; x] =>
              match py_int x with
              | None => (CursorRaised ValueError, rest')
              | Some xv =>
                  match py_int y with
                  | None => (CursorRaised ValueError, rest')
                  | Some yv => (CursorAt (xv - 1)%Z (yv - 1)%Z, rest')
                  end
              end
          | _ => (CursorRaised ValueError, rest')
          end
      end
  end.
