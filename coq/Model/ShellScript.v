(* Model/ShellScript.v — graphics_terminal.py ShellScriptBinaryIOHelper, transcribed.
   This is the REPAIRED code: with fixes/C18a-canonical-base64.patch (a base64-looking run is sent
   through `base64 -w0` only if it is the canonical encoding of what it decodes to) and
   fixes/C18b-leading-dash.patch (a printf format operand never starts with "-").
   Python str values are modelled as byte lists: every text the exporter produces is ASCII (the
   comments the library itself passes are ASCII too; len() of a str then equals the byte count).
   All literals come from Gen/ShellScriptGen.v, i.e. from the current source.  No proofs here. *)
From Coq Require Import NArith List Bool.
From Tup Require Import Lib.ByteStr Lib.Base64 Gen.ShellScriptGen.
Import ListNotations.
Open Scope N_scope.

Definition len (l : list N) : N := N.of_nat (length l).

(* "\\{:03o}".format(byte): three octal digits (byte < 512) *)
Definition oct3 (b : N) : list N := [48 + b / 64; 48 + (b / 8) mod 8; 48 + b mod 8].

Fixpoint assoc_esc (k : N) (t : list (N * list N)) : option (list N) :=
  match t with
  | [] => None
  | (k', v) :: r => if k =? k' then Some v else assoc_esc k r
  end.

(* _escape_bytes, one iteration of the loop *)
Definition escape_byte (b : N) : list N :=
  if (esc_printable_lo <=? b) && (b <=? esc_printable_hi) && negb (has_byte b esc_excluded) then [b]
  else match assoc_esc b esc_table with
       | Some v => v
       | None => esc_octal_prefix ++ oct3 b
       end.
Definition escape_bytes (l : list N) : list N := flat_map escape_byte l.

(* _split_data_into_chunks *)
Definition is_b64_byte (b : N) : bool :=
  existsb (fun r => (fst r <=? b) && (b <=? snd r)) b64_ranges || has_byte b b64_singles.

Definition flush_chunk (cur : list N) : list (list N) :=
  match cur with [] => [] | _ => [cur] end.

(* state of the loop: current_chunk, is_base64_chunk (None before the first byte) *)
Fixpoint split_go (l : list N) (cur : list N) (kind : option bool) : list (list N) :=
  match l with
  | [] => flush_chunk cur
  | b :: r =>
      let isb := is_b64_byte b in
      let kind1 := match kind with None => isb | Some k => k end in
      if Bool.eqb isb kind1 then split_go r (cur ++ [b]) (Some kind1)
      else flush_chunk cur ++ split_go r [b] (Some isb)
  end.
Definition split_chunks (data : list N) : list (list N) := split_go data [] None.

(* _try_base64 (with the canonicity test of fix C18a); the float comparison
   len(escaped) > len(decoded) * 1.05 is the integer comparison 20*len(escaped) > 21*len(decoded)
   on the whole reachable range (checked exhaustively by harness/c18.py) *)
Definition try_base64 (chunk : list N) : option (list N) :=
  if (b64_max_len <? len chunk) || (len chunk <? b64_min_len) then None
  else match b64decode_py chunk with
       | None => None
       | Some decoded =>
           if negb (beq_bytes (b64encode decoded) chunk) then None
           else let escaped := escape_bytes decoded in
                if ratio_num * len decoded <? ratio_den * len escaped then None else Some escaped
       end.

(* _protect_leading_dash (fix C18b) *)
Definition protect_leading_dash (fmt : list N) : list N :=
  match fmt with
  | c :: r => if c =? dash_char then dash_replacement ++ r else fmt
  | [] => fmt
  end.

(* the loop of write_to_shellscript: (formatstring, params) *)
Fixpoint build (chunks : list (list N)) : list N * list (list N) :=
  match chunks with
  | [] => ([], [])
  | ch :: r =>
      let '(f, ps) := build r in
      match try_base64 ch with
      | Some b64 => (fmt_directive ++ f, (param_pre ++ protect_leading_dash b64 ++ param_post) :: ps)
      | None => (escape_bytes ch ++ f, ps)
      end
  end.

Fixpoint join (sep : list N) (l : list (list N)) : list N :=
  match l with
  | [] => []
  | [x] => x
  | x :: r => x ++ sep ++ join sep r
  end.

Definition command_of (data : list N) : list N :=
  let '(f, ps) := build (split_chunks data) in
  cmd_pre ++ protect_leading_dash f ++ cmd_post ++
  match ps with [] => [] | _ => args_lead ++ join args_sep ps end.

(* what one call write_to_shellscript(out, data, comment) writes to the script *)
Definition write_to_shellscript (data comment : list N) : list N :=
  let command := command_of data in
  match comment with
  | [] => plain_0 ++ command ++ plain_1
  | _ =>
      if len comment + len command + inline_extra <=? columns
      then inline_0 ++ command ++ inline_1 ++ comment ++ inline_2
      else separate_0 ++ comment ++ separate_1 ++ command ++ separate_2
  end.

(* A recording session of GraphicsTerminal with shellscript_out set: every byte string that goes
   to the terminal streams is also passed to write_to_shellscript (_write, writecmd, the
   send_command callback, ShellScriptBinaryIOHelper.write); print_placeholder additionally writes
   a "# Placeholder ..." line before and an empty line after. *)
Inductive event :=
| Write (data comment : list N)      (* goes to the terminal and to the script *)
| Raw (text : list N).               (* goes to the script only, verbatim *)

Definition script_of_event (e : event) : list N :=
  match e with Write d c => write_to_shellscript d c | Raw t => t end.
Definition terminal_of_event (e : event) : list N :=
  match e with Write d _ => d | Raw _ => [] end.
Definition script_of (es : list event) : list N := flat_map script_of_event es.
Definition terminal_of (es : list event) : list N := flat_map terminal_of_event es.

(* the two Raw texts print_placeholder writes *)
Definition placeholder_comment (descr : list N) : list N := [35; 32] ++ descr ++ [10].
Definition blank_line : list N := [10].
