(* Model/CellSizeFloat.v — the binary64 instance of Model/CellSize.v: Python floats are IEEE binary64
   with round-to-nearest-even, which is what Coq's primitive floats are.  Operation order is the one of
   the Python source (it is fixed by the generic model).  This instance is never extracted: the harness
   evaluates it inside coqc (vm_compute) on generated cases.  PrimFloat/Uint63/FloatOps are imported
   directly (not Floats, which would bring the float axioms into scope). *)
From Coq Require Import ZArith Bool.
From Coq Require PrimFloat Uint63 SpecFloat FloatOps.
From Tup Require Import Gen.CellSizeGen Model.CellSize.
Open Scope Z_scope.

Module F.
  Import PrimFloat SpecFloat FloatOps.
  (* math.ceil of a float through its exact decomposition m * 2^e *)
  Definition f_ceil (x : float) : ceil_res :=
    match Prim2SF x with
    | S754_zero _ => COk 0
    | S754_finite s m e =>
        let v := Z.pos m in
        let q := if 0 <=? e then v * 2 ^ e
                 else if s then v / 2 ^ (- e) else (v + 2 ^ (- e) - 1) / 2 ^ (- e) in
        COk (if s then - q else q)
    | S754_infinity _ => CInf
    | S754_nan => CNan
    end.
  (* int -> float: exact for |z| < 2^53 (round-to-nearest-even beyond, like CPython, up to 2^63) *)
  Definition f_of_Z (z : Z) : float :=
    if z <? 0 then PrimFloat.opp (PrimFloat.of_uint63 (Uint63.of_Z (- z)))
    else PrimFloat.of_uint63 (Uint63.of_Z z).
  Definition f_is_zero (x : float) : bool := PrimFloat.eqb x PrimFloat.zero.
  Definition f_config := config float.
  Definition f_get_optimal_cols_and_rows :=
    get_optimal_cols_and_rows float f_of_Z PrimFloat.mul PrimFloat.div f_is_zero f_ceil PrimFloat.one.
  Definition f_optimal_with :=
    optimal_with float f_of_Z PrimFloat.mul PrimFloat.div f_is_zero f_ceil PrimFloat.one.
End F.
