(* Model/ConfigModel.v — transcription of TupimageConfig (tupimage/tupimage_terminal.py) as
   repaired by fixes/C17-normalize-by-type.patch, and of the layering in TupimageTerminal.__init__.
   No proofs here.

   Strings are UTF-8 byte lists; floats are exact decimals m*10^e (Lib/CfgTypes.v).
   What is modelled of CPython (validated on every run against int()/float()/str methods):
     int(str)    optional ASCII-whitespace, optional sign, decimal digits with single underscores
                 between digits.            NOT modelled: non-ASCII digits / whitespace.
     float(str)  same shell; digits [. digits] [e[sign]digits] with Python's placement rules.
                 NOT modelled: inf / nan / infinity, non-ASCII, overflow to inf.
     float(int)  exact (the harness rounds m*10^e like CPython does).
   Generators are restricted accordingly (harness/c17.py says so in its ASSUMPTIONS).
   TOML text <-> TOML values is the `toml` library's job: the file layer is a list of
   (key, typed value).  [toml_read] is the *strict TOML* reading of one scalar literal and is used
   only in theorem statements ("the same text in a file"). *)
From Coq Require Import ZArith NArith List Bool.
From Tup Require Import Lib.ByteStr Lib.Dec Lib.CfgTypes Gen.ConfigGen.
Import ListNotations.
Open Scope N_scope.

(* ------------------------------------------------------------------ literals of the code *)
Definition s_auto : list N := [97; 117; 116; 111].  (* 'auto' *)
Definition s_true : list N := [116; 114; 117; 101].  (* 'true' *)
Definition s_false : list N := [102; 97; 108; 115; 101].  (* 'false' *)
Definition n_cell_size : list N := [99; 101; 108; 108; 95; 115; 105; 122; 101].
Definition n_default_cell_size : list N := [100; 101; 102; 97; 117; 108; 116; 95; 99; 101; 108; 108; 95; 115; 105; 122; 101].
Definition n_id_database_dir : list N := [105; 100; 95; 100; 97; 116; 97; 98; 97; 115; 101; 95; 100; 105; 114].
Definition n_upload_method : list N := [117; 112; 108; 111; 97; 100; 95; 109; 101; 116; 104; 111; 100].
Definition n_supported_formats : list N := [115; 117; 112; 112; 111; 114; 116; 101; 100; 95; 102; 111; 114; 109; 97; 116; 115].
Definition n_background : list N := [98; 97; 99; 107; 103; 114; 111; 117; 110; 100].
Definition n_max_cols : list N := [109; 97; 120; 95; 99; 111; 108; 115].
Definition n_max_rows : list N := [109; 97; 120; 95; 114; 111; 119; 115].
Definition n_num_tmux_layers : list N := [110; 117; 109; 95; 116; 109; 117; 120; 95; 108; 97; 121; 101; 114; 115].
Definition n_id_space : list N := [105; 100; 95; 115; 112; 97; 99; 101].
Definition n_id_subspace : list N := [105; 100; 95; 115; 117; 98; 115; 112; 97; 99; 101].
Definition n_ignore_unknown : list N := [105; 103; 110; 111; 114; 101; 95; 117; 110; 107; 110; 111; 119; 110; 95; 97; 116; 116; 114; 105; 98; 117; 116; 101; 115].
Definition m_option : list N := [79; 112; 116; 105; 111; 110; 32; 39].  (* "Option '" *)
Definition m_has_type : list N := [39; 32; 104; 97; 115; 32; 116; 121; 112; 101; 32].  (* "' has type " *)
Definition m_must_be_positive : list N := [32; 109; 117; 115; 116; 32; 98; 101; 32; 112; 111; 115; 105; 116; 105; 118; 101].  (* ' must be positive' *)
Definition m_unknown_key : list N := [85; 110; 107; 110; 111; 119; 110; 32; 99; 111; 110; 102; 105; 103; 32; 107; 101; 121; 58; 32].
Definition m_unknown_keys : list N := [85; 110; 107; 110; 111; 119; 110; 32; 99; 111; 110; 102; 105; 103; 32; 107; 101; 121; 115; 58; 32].
Definition p_default : list N := [100; 101; 102; 97; 117; 108; 116].  (* 'default' *)
Definition p_set_from_file : list N := [115; 101; 116; 32; 102; 114; 111; 109; 32; 102; 105; 108; 101; 32].
Definition p_set_via : list N := [115; 101; 116; 32; 118; 105; 97; 32; 84; 85; 80; 73; 77; 65; 71; 69; 95].  (* 'set via TUPIMAGE_' *)
Definition p_expanded : list N := [101; 120; 112; 97; 110; 100; 101; 100; 32; 102; 114; 111; 109; 32; 39; 97; 117; 116; 111; 39; 32; 40].
Definition p_close : list N := [41].
Definition s_bit : list N := [98; 105; 116].
Definition s_8bit_diacritic : list N := [56; 98; 105; 116; 95; 100; 105; 97; 99; 114; 105; 116; 105; 99].

(* ------------------------------------------------------------------ str methods *)
(* whitespace int() and float() skip (ASCII): \t \n \v \f \r and space;
   str.strip() additionally strips FS GS RS US (0x1c-0x1f), which int()/float() reject *)
Definition is_ws (b : N) : bool := ((9 <=? b) && (b <=? 13)) || (b =? 32).
Definition is_ws_str (b : N) : bool := is_ws b || ((28 <=? b) && (b <=? 31)).
Fixpoint lstrip_by (ws : N -> bool) (s : list N) : list N :=
  match s with b :: r => if ws b then lstrip_by ws r else s | [] => [] end.
Definition strip_by (ws : N -> bool) (s : list N) : list N := rev (lstrip_by ws (rev (lstrip_by ws s))).
Definition strip : list N -> list N := strip_by is_ws.          (* inside int() / float() *)
Definition str_strip : list N -> list N := strip_by is_ws_str.  (* str.strip() *)
Definition lower_ascii (s : list N) : list N := map (fun b => if (65 <=? b) && (b <=? 90) then b + 32 else b) s.
Definition upper_ascii (s : list N) : list N := map (fun b => if (97 <=? b) && (b <=? 122) then b - 32 else b) s.
Definition mem_str (s : list N) (l : list (list N)) : bool := existsb (beq_bytes s) l.

(* s.split(c) for a one-character separator: never empty *)
Fixpoint split_on (c : N) (s : list N) : list (list N) :=
  match s with
  | [] => [[]]
  | b :: r => if b =? c then [] :: split_on c r
              else match split_on c r with
                   | p :: ps => (b :: p) :: ps
                   | [] => [[b]]
                   end
  end.

(* re.split(r"[, ]+", s) *)
Definition is_sep (b : N) : bool := (b =? 44) || (b =? 32).
Fixpoint re_split_go (s : list N) (in_sep : bool) : list (list N) :=
  match s with
  | [] => [[]]
  | b :: r => if is_sep b then (if in_sep then re_split_go r true else [] :: re_split_go r true)
              else match re_split_go r false with
                   | p :: ps => (b :: p) :: ps
                   | [] => [[b]]
                   end
  end.
Definition re_split (s : list N) : list (list N) := re_split_go s false.

(* ------------------------------------------------------------------ number lexing *)
Definition is_digit (b : N) : bool := (48 <=? b) && (b <=? 57).
(* after one digit: (_? digit)* ; returns digit values and the rest *)
Fixpoint scan_digits_tail (s : list N) : list N * list N :=
  match s with
  | [] => ([], [])
  | b :: r =>
      if is_digit b then let (ds, rest) := scan_digits_tail r in ((b - 48) :: ds, rest)
      else if b =? 95 then
        match r with
        | b2 :: r2 => if is_digit b2 then let (ds, rest) := scan_digits_tail r2 in ((b2 - 48) :: ds, rest) else ([], s)
        | [] => ([], s)
        end
      else ([], s)
  end.
Definition scan_digits (s : list N) : option (list N * list N) :=
  match s with
  | b :: r => if is_digit b then let (ds, rest) := scan_digits_tail r in Some ((b - 48) :: ds, rest) else None
  | [] => None
  end.
Definition scan_sign (s : list N) : bool * list N :=
  match s with
  | b :: r => if b =? 45 then (true, r) else if b =? 43 then (false, r) else (false, s)
  | [] => (false, [])
  end.
Definition digits_val (ds : list N) : Z := fold_left (fun a d => (a * 10 + Z.of_N d)%Z) ds 0%Z.
Definition with_sign (neg : bool) (z : Z) : Z := if neg then (- z)%Z else z.

(* int(s) *)
Definition py_int (s : list N) : option Z :=
  let (neg, t) := scan_sign (strip s) in
  match scan_digits t with
  | Some (ds, []) => Some (with_sign neg (digits_val ds))
  | _ => None
  end.

Record num : Type := { n_neg : bool; n_int : list N; n_frac : option (list N); n_exp : option Z }.
(* [sign] digits [. [digits]] [e [sign] digits]   |   [sign] . digits [e ...]  ; whole string *)
Definition scan_number (t : list N) : option num :=
  let (neg, t1) := scan_sign t in
  let '(ip, t2) := match scan_digits t1 with Some (ds, r) => (ds, r) | None => ([], t1) end in
  let '(fp, t3) := match t2 with
                   | c :: r => if c =? 46
                               then match scan_digits r with Some (ds, r') => (Some ds, r') | None => (Some [], r) end
                               else (None, t2)
                   | [] => (None, t2)
                   end in
  let has_digits := match ip, fp with [], None => false | [], Some [] => false | _, _ => true end in
  if negb has_digits then None else
  match t3 with
  | [] => Some {| n_neg := neg; n_int := ip; n_frac := fp; n_exp := None |}
  | c :: r =>
      if (c =? 101) || (c =? 69) then
        let (eneg, r1) := scan_sign r in
        match scan_digits r1 with
        | Some (ds, []) => Some {| n_neg := neg; n_int := ip; n_frac := fp; n_exp := Some (with_sign eneg (digits_val ds)) |}
        | _ => None
        end
      else None
  end.

(* m*10^e with no trailing decimal zero in m; zero is (0,0) *)
Fixpoint strip_zeros (fuel : nat) (m e : Z) : Z * Z :=
  match fuel with
  | O => (m, e)
  | S f => if (m =? 0)%Z then (0%Z, 0%Z)
           else if (m mod 10 =? 0)%Z then strip_zeros f (m / 10)%Z (e + 1)%Z else (m, e)
  end.
Definition normf (m e : Z) : Z * Z := strip_zeros (S (Z.to_nat (Z.log2 (Z.abs m)))) m e.
Definition vfloat (me : Z * Z) : value := VFloat (fst me) (snd me).

Definition num_value (n : num) : Z * Z :=
  let fd := match n_frac n with Some d => d | None => [] end in
  let ex := match n_exp n with Some x => x | None => 0%Z end in
  normf (with_sign (n_neg n) (digits_val (n_int n ++ fd))) (ex - Z.of_nat (length fd))%Z.

(* float(s) *)
Definition py_float (s : list N) : option (Z * Z) :=
  match scan_number (strip s) with Some n => Some (num_value n) | None => None end.

(* strict TOML reading of one scalar literal (integer, float, boolean) *)
Definition toml_strict (n : num) : bool :=
  match n_int n with
  | [] => false
  | d :: r => ((d =? 0) && match r with [] => true | _ => false end) || negb (d =? 0)
  end && match n_frac n with Some [] => false | _ => true end.
Definition toml_read (t : list N) : option value :=
  if beq_bytes t s_true then Some (VBool true)
  else if beq_bytes t s_false then Some (VBool false)
  else match scan_number t with
       | Some n => if toml_strict n then
                     match n_frac n, n_exp n with
                     | None, None => Some (VInt (with_sign (n_neg n) (digits_val (n_int n))))
                     | _, _ => Some (vfloat (num_value n))
                     end
                   else None
       | None => None
       end.

(* TupimageConfig._parse_bool: words, else int(value) in (0, 1) *)
Definition parse_bool (s : list N) : option bool :=
  let l := lower_ascii (str_strip s) in
  if mem_str l bool_true_words then Some true
  else if mem_str l bool_false_words then Some false
  else match py_int s with
       | Some z => if (z =? 0)%Z then Some false else if (z =? 1)%Z then Some true else None
       | None => None
       end.

(* str(int) *)
Definition show_z (z : Z) : list N :=
  if (z <? 0)%Z then 45 :: dec (Z.to_N (- z)) else dec (Z.to_N z).

(* ------------------------------------------------------------------ structured option values *)
(* IDSubspace(b, e).__post_init__ *)
Definition sub_ok (b e : Z) : bool :=
  ((0 <=? b)%Z && (b <? e)%Z && (e <=? subspace_limit)%Z) && negb (e =? 1)%Z.
(* IDSubspace.from_string *)
Definition sub_from_string (s : list N) : option value :=
  match s with
  | [] => let (b, e) := subspace_default in if sub_ok b e then Some (VSub b e) else None
  | _ => match split_on 58 s with
         | [p; q] => match py_int p, py_int q with
                     | Some b, Some e => if sub_ok b e then Some (VSub b e) else None
                     | _, _ => None
                     end
         | _ => None
         end
  end.
Definition sub_str (b e : Z) : list N := show_z b ++ [58] ++ show_z e.

(* IDSpace(bits, d3).__post_init__ *)
Definition space_ok (bits : Z) (d3 : bool) : bool :=
  negb ((bits =? 0)%Z && negb d3) && existsb (Z.eqb bits) legal_color_bits.
Fixpoint find_names {A} (s : list N) (tbl : list (list (list N) * A)) : option A :=
  match tbl with
  | [] => None
  | (names, a) :: r => if mem_str s names then Some a else find_names s r
  end.
(* IDSpace.from_string *)
Definition space_from_string (s : list N) : option value :=
  match find_names s space_names with
  | Some (bits, d3) => if space_ok bits d3 then Some (VSpace bits d3) else None
  | None => None
  end.
(* IDSpace.__str__ *)
Definition space_str (bits : Z) (d3 : bool) : list N :=
  let n := ((if d3 then third_diacritic_bits else 0) + bits)%Z in
  if (n =? 8)%Z && d3 then s_8bit_diacritic else show_z n ++ s_bit.

(* TransmissionMedium.from_string *)
Definition medium_from_string (s : list N) : option value :=
  match find_names s medium_names with Some l => Some (VMedium l) | None => None end.

(* tupimage.utils.validate_size *)
Definition validate_size (s : list N) : option value :=
  match split_on 120 s with
  | [p; q] => match py_int p, py_int q with
              | Some w, Some h => if (w <? 1)%Z || (h <? 1)%Z then None else Some (VTuple [VInt w; VInt h])
              | _, _ => None
              end
  | _ => None
  end.
Definition size_str (w h : value) : list N :=
  let sh v := match v with VInt z => show_z z | _ => [] end in sh w ++ [120] ++ sh h.

(* ------------------------------------------------------------------ option table *)
Fixpoint lookup_opt (name : list N) (tbl : list (list N * ty * defv)) : option (ty * defv) :=
  match tbl with
  | [] => None
  | (n, t, d) :: r => if beq_bytes name n then Some (t, d) else lookup_opt name r
  end.
Definition option_names : list (list N) := map (fun x => fst (fst x)) options.
Definition known_name (name : list N) : bool :=
  match lookup_opt name options with Some _ => true | None => false end.

Record platform : Type := { state_dir : list N; pipe_buf : Z }.
Definition default_value (pl : platform) (d : defv) : value :=
  match d with DVal v => v | DStateDir => VStr (state_dir pl) | DPipeBuf => VInt (pipe_buf pl) end.

(* ------------------------------------------------------------------ _verify_type *)
Fixpoint verify_type (t : ty) (v : value) {struct t} : bool :=
  match t with
  | TInt => match v with VInt _ => true | _ => false end       (* a bool is not accepted (repaired) *)
  | TFloat => match v with VFloat _ _ => true | _ => false end
  | TBool => match v with VBool _ => true | _ => false end
  | TStr => match v with VStr _ => true | _ => false end
  | TNone => match v with VNone => true | _ => false end
  | TOpaque => false
  | TSpace => match v with VSpace _ _ => true | _ => false end
  | TSub => match v with VSub _ _ => true | _ => false end
  | TMedium => match v with VMedium _ => true | _ => false end
  | TLit s => match v with VStr s' => beq_bytes s' s | _ => false end
  | TUnion l => (fix any (l : list ty) : bool :=
                   match l with [] => false | a :: r => verify_type a v || any r end) l
  | TTuple l => match v with
                | VTuple vs => (fix all2 (l : list ty) (vs : list value) : bool :=
                                  match l, vs with
                                  | [], [] => true
                                  | a :: r, x :: xs => verify_type a x && all2 r xs
                                  | _, _ => false
                                  end) l vs
                | _ => false
                end
  | TList a => match v with VList vs => forallb (verify_type a) vs | _ => false end
  end.

(* ------------------------------------------------------------------ validate_and_normalize *)
Inductive stage : Type := SConv | SType | SRange.
Inductive err : Type :=
| EKey (name : list N)                  (* KeyError("Unknown config key: <name>") *)
| EUnknownKeys (names : list (list N))  (* KeyError("Unknown config keys: a, b") at the end of a file *)
| EValue (name : list N) (st : stage).  (* ValueError *)
Inductive result (A : Type) : Type := Ok (a : A) | Err (e : err).
Arguments Ok {A} a.
Arguments Err {A} e.

(* the text every error message starts with (KeyError: the message inside the quotes) *)
Definition err_text (e : err) : list N :=
  match e with
  | EKey name => m_unknown_key ++ name
  | EUnknownKeys names => m_unknown_keys ++ concat names
  | EValue name SConv => m_option ++ name ++ m_has_type
  | EValue name SType => m_option ++ name ++ m_has_type
  | EValue name SRange => name ++ m_must_be_positive
  end.

Definition is_tsub (t : ty) := match t with TSub => true | _ => false end.
Definition is_tspace (t : ty) := match t with TSpace => true | _ => false end.
Definition is_tint (t : ty) := match t with TInt => true | _ => false end.
Definition is_tfloat (t : ty) := match t with TFloat => true | _ => false end.
Definition is_tbool (t : ty) := match t with TBool => true | _ => false end.

(* one `if cond: value = f(value)` of the string block; the conditions are mutually exclusive for
   every option of the table (Proofs: conv_branches_exclusive), so [f] only ever sees the string *)
Definition step (cond : bool) (f : list N -> option value) (cur : option value) : option value :=
  if cond then match cur with Some (VStr s) => f s | Some _ => None | None => None end else cur.

Definition convert (pl : platform) (name : list N) (t : ty) (v : value) : option value :=
  match v with
  | VStr s =>
      if beq_bytes s s_auto then Some v else
      let c := Some v in
      let c := step (is_tsub t) sub_from_string c in
      let c := step (is_tspace t) space_from_string c in
      let c := step (beq_bytes name n_cell_size || beq_bytes name n_default_cell_size) validate_size c in
      let c := step (beq_bytes name n_id_database_dir)
                    (fun s => if beq_bytes s [] then Some (VStr (state_dir pl)) else Some (VStr s)) c in
      let c := step (beq_bytes name n_upload_method) medium_from_string c in
      let c := step (mem_str name int_conv_names || is_tint t)
                    (fun s => match py_int s with Some z => Some (VInt z) | None => None end) c in
      let c := step (mem_str name float_conv_names || is_tfloat t)
                    (fun s => match py_float s with Some f => Some (vfloat f) | None => None end) c in
      let c := step (is_tbool t)
                    (fun s => match parse_bool s with Some b => Some (VBool b) | None => None end) c in
      let c := step (beq_bytes name n_supported_formats)
                    (fun s => Some (VList (map VStr (re_split s)))) c in
      let c := step (beq_bytes name n_background)
                    (fun s => match py_int s with Some z => Some (VInt z) | None => Some (VStr s) end) c in
      c
  | VInt z =>
      if is_tfloat t then Some (vfloat (normf z 0))
      else if is_tbool t && ((z =? 0)%Z || (z =? 1)%Z) then Some (VBool (z =? 1)%Z)
      else Some v
  | _ => Some v
  end.

Definition constraints_ok (name : list N) (v : value) : bool :=
  match v with
  | VInt z =>
      (if beq_bytes name n_max_cols then (0 <? z)%Z else true) &&
      (if beq_bytes name n_max_rows then (0 <? z)%Z && (z <=? max_rows_limit)%Z else true)
  | VTuple (VInt a :: VInt b :: _) => (1 <=? a)%Z && (1 <=? b)%Z
  | _ => true
  end.

Definition normalize_core (pl : platform) (name : list N) (t : ty) (v : value) : result value :=
  match convert pl name t v with
  | None => Err (EValue name SConv)
  | Some v1 =>
      if negb (verify_type t v1) then Err (EValue name SType)
      else if constraints_ok name v1 then Ok v1
      else Err (EValue name SRange)
  end.
Definition normalize (pl : platform) (name : list N) (v : value) : result value :=
  match lookup_opt name options with
  | None => Err (EKey name)
  | Some (t, _) => normalize_core pl name t v
  end.

(* ------------------------------------------------------------------ configuration, layers *)
Record entry : Type := { e_val : value; e_prov : option (list N) }.
Definition config : Type := list N -> entry.

Definition init (pl : platform) : config := fun name =>
  match lookup_opt name options with
  | Some (_, d) => {| e_val := default_value pl d; e_prov := None |}
  | None => {| e_val := VNone; e_prov := None |}
  end.
(* setattr inside a layer: value and _provenance[name] = _current_provenance *)
Definition set (c : config) (name : list N) (v : value) (p : list N) : config :=
  fun n => if beq_bytes n name then {| e_val := v; e_prov := Some p |} else c n.

(* get_provenance.  Without an entry the code answers "default" when the value equals the field
   default and "set in code" otherwise; configurations built by the constructor have an entry
   exactly for the options a layer has set, all others still hold the default. *)
Definition get_provenance (c : config) (name : list N) : list N :=
  match e_prov (c name) with Some p => p | None => p_default end.

Definition assignment : Type := (list N * value * list N)%type.   (* option, raw value, provenance *)
Fixpoint apply_assignments (pl : platform) (c : config) (l : list assignment) : result config :=
  match l with
  | [] => Ok c
  | (name, raw, p) :: rest =>
      match normalize pl name raw with
      | Ok v => apply_assignments pl (set c name v p) rest
      | Err e => Err e
      end
  end.

Definition prov_file (path : list N) : list N := p_set_from_file ++ path.
Definition prov_env (name : list N) : list N := p_set_via ++ upper_ascii name.
Definition prov_expanded (p : list N) : list N := p_expanded ++ p ++ p_close.

Definition truthy (v : value) : bool := match v with VBool b => b | _ => false end.

(* override_from_toml_file / override_from_toml_string: items = toml.loads(text).items() *)
Definition file_assignments (path : list N) (items : list (list N * value)) : list assignment :=
  map (fun kv => (fst kv, snd kv, prov_file path)) (filter (fun kv => known_name (fst kv)) items).
Definition unknown_keys (items : list (list N * value)) : list (list N) :=
  map fst (filter (fun kv => negb (known_name (fst kv))) items).
Definition apply_file (pl : platform) (c : config) (path : list N) (items : list (list N * value)) : result config :=
  match apply_assignments pl c (file_assignments path items) with
  | Err e => Err e
  | Ok c' =>
      match unknown_keys items with
      | [] => Ok c'
      | ks => if truthy (e_val (c' n_ignore_unknown)) then Ok c' else Err (EUnknownKeys ks)
      end
  end.

(* override_from_env: options in declaration order, TUPIMAGE_<NAME> looked up for each.
   [env] maps option names to the variable's text. *)
Fixpoint assoc {A} (k : list N) (l : list (list N * A)) : option A :=
  match l with [] => None | (k', a) :: r => if beq_bytes k k' then Some a else assoc k r end.
Definition env_assignments (env : list (list N * list N)) : list assignment :=
  flat_map (fun o => match assoc o env with Some t => [(o, VStr t, prov_env o)] | None => [] end) option_names.

(* override_from_dict(d): label = d.get("provenance", "set from dict"); None values skipped *)
Definition is_none (v : value) : bool := match v with VNone => true | _ => false end.
Definition dict_assignments (label : list N) (items : list (list N * value)) : list assignment :=
  map (fun kv => (fst kv, snd kv, label)) (filter (fun kv => negb (is_none (snd kv))) items).

(* the 'auto' expansion of num_tmux_layers at the end of the layering *)
Definition expand_auto (tmux : bool) (c : config) : config :=
  match e_val (c n_num_tmux_layers) with
  | VStr s => if beq_bytes s s_auto
              then set c n_num_tmux_layers (VInt (if tmux then 1 else 0)%Z) (prov_expanded (get_provenance c n_num_tmux_layers))
              else c
  | _ => c
  end.

Definition bind {A B} (r : result A) (f : A -> result B) : result B :=
  match r with Ok a => f a | Err e => Err e end.

(* all assignments of one construction, lowest priority first (file; env; kwargs; config_overrides) *)
Definition layers_pre_expand (pl : platform)
    (file : option (list N * list (list N * value)))
    (env : list (list N * list N))
    (kw ov : list N * list (list N * value)) : result config :=
  bind (match file with Some (path, items) => apply_file pl (init pl) path items | None => Ok (init pl) end) (fun c1 =>
  bind (apply_assignments pl c1 (env_assignments env)) (fun c2 =>
  bind (apply_assignments pl c2 (dict_assignments (fst kw) (snd kw))) (fun c3 =>
  apply_assignments pl c3 (dict_assignments (fst ov) (snd ov))))).

(* TupimageTerminal.__init__, configuration part *)
Definition construct (pl : platform) file env kw ov (tmux : bool) : result config :=
  bind (layers_pre_expand pl file env kw ov) (fun c => Ok (expand_auto tmux c)).

(* ------------------------------------------------------------------ to_toml_string *)
(* the dictionary handed to toml.dumps, entry by entry (None values are dropped by toml) *)
Definition toml_form (name : list N) (v : value) : value :=
  match v with
  | VSub b e => if beq_bytes name n_id_subspace then VStr (sub_str b e) else v
  | VSpace bits d3 => if beq_bytes name n_id_space then VStr (space_str bits d3) else v
  | VTuple (w :: h :: _) =>
      if beq_bytes name n_cell_size || beq_bytes name n_default_cell_size then VStr (size_str w h) else v
  | VMedium l => if beq_bytes name n_upload_method then VStr l else v
  | _ => v
  end.
Definition to_toml (c : config) : list (list N * value) :=
  filter (fun kv => negb (is_none (snd kv)))
         (map (fun name => (name, toml_form name (e_val (c name)))) option_names).

(* loading a dump: a fresh configuration with the dump as its file *)
Definition load_toml (pl : platform) (path : list N) (items : list (list N * value)) : result config :=
  apply_file pl (init pl) path items.

(* all options of a configuration with their provenance, for the correspondence run *)
Definition snapshot (c : config) : list (list N * value * list N) :=
  map (fun name => (name, e_val (c name), get_provenance c name)) option_names.
