(* Model/SendOps.v — the operations on command objects that the translated GraphicsCommand.send (Gen/SendTr.v) calls:
   isinstance(c, TransmitCommand), c.split(max_payload_size=k) (Model/SendModel.split for a transmit command; the
   translated send() calls it on transmit commands only), and the events of one sent command. *)
From Coq Require Import ZArith NArith List Bool.
From Tup Require Import Lib.ByteStr Lib.CommandTypes Lib.PyFmt Lib.PyEff Model.GraphicsCommand Model.SendModel.
Import ListNotations.

Definition is_transmit (c : command) : bool := match c with CTransmit _ => true | _ => false end.

Definition split_cmd (c : command) (k : Z) : list command :=
  match c with CTransmit t => split t (Z.to_nat k) | _ => [c] end.

(* what send() does for ONE (chunk) command: write, flush, and the progress callback when there is one *)
Definition sent_events (template : list N) (cbp : bool) (c : command) : option (list event) :=
  match to_bytes template c with
  | Some w => Some ([EvWrite w; EvFlush] ++ if cbp then [EvCallback c] else [])
  | None => None
  end.

Fixpoint sent_all (template : list N) (cbp : bool) (cs : list command) : option (list event) :=
  match cs with
  | [] => Some []
  | c :: r => match sent_events template cbp c, sent_all template cbp r with
              | Some a, Some b => Some (a ++ b)
              | _, _ => None
              end
  end.

(* the specification of send() as a trace of events, from Model/SendModel.send_cmds: the stream is flushed first; a limit
   that is too small raises before anything is written; otherwise every chunk command is written, flushed and reported *)
Definition send_trace (c : command) (template : list N) (max_size : Z) (cbp : bool) : eres unit :=
  match send_cmds c template max_size with
  | None => EExc [EvFlush]
  | Some cmds => match sent_all template cbp cmds with
                 | Some evs => EOk tt (EvFlush :: evs)
                 | None => EExc [EvFlush]      (* malformed template: excluded by tmpl_ok in the theorems *)
                 end
  end.
