(* Model/SqlTxn.v — several processes (connections) using one session database, at the granularity of sqlite
   transactions and autocommit statements, with kills (C03, C12).

   Two levels:
   * the API level: [exec_call c s] is what ONE call of an IDManager method does to the database when nothing
     else runs (it only re-uses Model/IdManager.v, Model/UploadModel.v, Model/UploadFlow.v — the sequential
     semantics tied to the code by the C01/C02/C04 correspondence runs);
   * the statement level: a call is compiled to [seg]ments, one per sqlite write transaction or autocommit
     statement (or read snapshot), in the shape the extractor found in the source (Gen/TxnShapeGen.v).  A segment in
     mode [Imm] is BEGIN IMMEDIATE / body / COMMIT — three separately schedulable micro-steps, the body working on a
     private view; a segment in mode [Auto] is one micro-step on the committed database.  sqlite's write lock: a
     BEGIN IMMEDIATE or an autocommit write is not enabled while another live connection is inside BEGIN IMMEDIATE.
     Readers never block (WAL).  A killed process loses its private view and its lock; the committed database is
     untouched (atomic commit + WAL recovery: trusted, exercised by the C12 runs).

   No proofs here (Proofs/SqlTxnProofs.v). *)
From Coq Require Import ZArith NArith List Bool.
From Tup Require Import Lib.IdSpaceTy Model.IdSpace Model.IdManager Model.UploadModel Model.UploadFlow Gen.TxnShapeGen.
Import ListNotations.
Open Scope N_scope.

Record store := { ids : db; ups : utable }.

(* ------------------------------------------------------------------ API level *)
Inductive call :=
| CGet (desc : N) (sp : space) (sub : subspace) (now mx : Z) (samples : list N) (ch : choice)
| CSet (id desc : N) (t : Z)
| CDel (id : N)
| CCleanup (sp : space) (sub : subspace) (mx : Z) (ch : choice)
| CInfo (id : N)
| CCount (sp : space) (sub : subspace)
| CCountAll (sub : subspace)
| CMark (id term : N) (size time : Z) (d : option N)
| CUnmark (id term : N)
| CCleanUploads (n : Z)
| CUploadInfo (id term : N)
| CNeeds (id term : N) (now nmax bmax tmax : Z).

Inductive result :=
| RGet (r : get_result)
| RDone                                   (* the method returned None *)
| RError                                  (* ValueError (IDSpace.from_id of an id outside 1..2^32-1) *)
| RInfo (r : option irow)
| RNum (n : N)
| RUp (u : option (N * Z * Z * Z * Z))    (* description, upload_time, size, bytes_ago, uploads_ago *)
| RBool (b : bool).

(* get_info(id).description for an assigned id *)
Definition cur_of (d : db) (id : N) : option N :=
  match get_info d id with Some (Some r) => Some (idesc r) | _ => None end.

(* mark_uploaded(id, terminal, size=, upload_time=, description=): upsert on (id, terminal) *)
Definition mark_row (up : utable) (id t dsc : N) (size time : Z) : utable :=
  {| rid := id; rterm := t; rdesc := dsc; rsize := size; rtime := time |} :: filter (fun x => negb (same_key id t x)) up.

Definition count_all (d : db) (sub : subspace) : N := fold_right (fun sp acc => count d sp sub + acc) 0 all_spaces.

Definition exec_call (c : call) (s : store) : store * result :=
  match c with
  | CGet desc sp sub now mx samples ch =>
      let '(r, d') := get_id (ids s) desc sp sub now mx samples ch in ({| ids := d'; ups := ups s |}, RGet r)
  | CSet id desc t =>
      match set_id (ids s) id desc t with Some d' => ({| ids := d'; ups := ups s |}, RDone) | None => (s, RError) end
  | CDel id =>
      match del_id (ids s) id with Some d' => ({| ids := d'; ups := ups s |}, RDone) | None => (s, RError) end
  | CCleanup sp sub mx ch => ({| ids := cleanup (ids s) sp sub mx ch; ups := ups s |}, RDone)
  | CInfo id => match get_info (ids s) id with Some r => (s, RInfo r) | None => (s, RError) end
  | CCount sp sub => (s, RNum (count (ids s) sp sub))
  | CCountAll sub => (s, RNum (count_all (ids s) sub))
  | CMark id t size time d =>
      match get_info (ids s) id with
      | None => (s, RError)
      | Some None => (s, RDone)
      | Some (Some r) =>
          ({| ids := ids s; ups := mark_row (ups s) id t (match d with Some x => x | None => idesc r end) size time |}, RDone)
      end
  | CUnmark id t => ({| ids := ids s; ups := unmark_uploaded (ups s) id t |}, RDone)
  | CCleanUploads n => ({| ids := ids s; ups := cleanup_uploads (ups s) n |}, RDone)
  | CUploadInfo id t => (s, RUp (upload_info (ups s) id t))
  | CNeeds id t now nmax bmax tmax =>
      match from_id id with
      | None => (s, RError)
      | Some _ => (s, RBool (needs_uploading (cur_of (ids s)) (ups s) id t now nmax bmax tmax))
      end
  end.

(* ------------------------------------------------------------------ statement level *)
Inductive obs :=
| ODone (r : result)                       (* the call is complete with this result *)
| OInfo (r : option irow)                  (* what get_info fetched *)
| ORow (r : urow)                          (* the upload row fetched by get_upload_info *)
| OAcc (n : N).                            (* partial sum of count() over the spaces *)

Inductive mode := Auto | Imm.
Record seg := { smode : mode; swrite : bool; sfn : list obs -> store -> store * list obs }.

Definition whole (m : mode) (w : bool) (c : call) : list seg :=
  [{| smode := m; swrite := w; sfn := fun _ s => let '(s', r) := exec_call c s in (s', [ODone r]) |}].

(* mark_uploaded as two autocommit statements: SELECT (get_info), then INSERT ... ON CONFLICT *)
Definition mark_two (id t : N) (size time : Z) (d : option N) : list seg :=
  [{| smode := Auto; swrite := false;
      sfn := fun _ s => match get_info (ids s) id with
                        | None => (s, [ODone RError])
                        | Some None => (s, [ODone RDone])
                        | Some (Some r) => (s, [OInfo (Some r)])
                        end |};
   {| smode := Auto; swrite := true;
      sfn := fun o s => match o with
                        | OInfo (Some r) :: _ =>
                            ({| ids := ids s; ups := mark_row (ups s) id t (match d with Some x => x | None => idesc r end) size time |}, [ODone RDone])
                        | _ => (s, [ODone RError])
                        end |}].

(* get_upload_info as two autocommit SELECTs: the row, then COUNT/SUM of the rows newer than it *)
Definition info_of_row (up : utable) (r : urow) := (rdesc r, rtime r, rsize r, bytes_ago up r, uploads_ago up r).
Definition upinfo_two (id t : N) : list seg :=
  [{| smode := Auto; swrite := false;
      sfn := fun _ s => match find_row (ups s) id t with None => (s, [ODone (RUp None)]) | Some r => (s, [ORow r]) end |};
   {| smode := Auto; swrite := false;
      sfn := fun o s => match o with
                        | ORow r :: _ => (s, [ODone (RUp (Some (info_of_row (ups s) r)))])
                        | _ => (s, [ODone RError])
                        end |}].

(* needs_uploading as three autocommit SELECTs: get_info, the upload row, COUNT/SUM *)
Definition needs_three (id t : N) (now nmax bmax tmax : Z) : list seg :=
  [{| smode := Auto; swrite := false;
      sfn := fun _ s => match get_info (ids s) id with
                        | None => (s, [ODone RError])
                        | Some None => (s, [ODone (RBool false)])
                        | Some (Some r) => (s, [OInfo (Some r)])
                        end |};
   {| smode := Auto; swrite := false;
      sfn := fun o s => match find_row (ups s) id t with
                        | None => (s, [ODone (RBool true)])
                        | Some r => (s, ORow r :: o)
                        end |};
   {| smode := Auto; swrite := false;
      sfn := fun o s => match o with
                        | ORow r :: OInfo (Some i) :: _ =>
                            (s, [ODone (RBool (negb (rdesc r =? idesc i) || expired (ups s) r now nmax bmax tmax))])
                        | _ => (s, [ODone RError])
                        end |}].

(* count(None, subspace): one autocommit SELECT COUNT per space *)
Fixpoint count_segs (sub : subspace) (sps : list space) : list seg :=
  match sps with
  | [] => []
  | sp :: rest =>
      {| smode := Auto; swrite := false;
         sfn := fun o s =>
           let acc := match o with OAcc n :: _ => n | _ => 0 end in
           let n := acc + count (ids s) sp sub in
           (s, [match rest with [] => ODone (RNum n) | _ => OAcc n end]) |} :: count_segs sub rest
  end.

(* the segments of a call, from the transaction shape of its method in the source:
   [one_txn] — the method runs in one BEGIN IMMEDIATE transaction; [snapshot] — the multi-statement reads run
   inside one read snapshot (one micro-step: the snapshot is taken by its first SELECT) *)
Definition compile_with (get_txn del_txn mark_txn snapshot : bool) (c : call) : list seg :=
  match c with
  | CGet _ _ _ _ _ _ _ => if get_txn then whole Imm true c else []
  | CDel _ => if del_txn then whole Imm true c else whole Auto true c
  | CSet _ _ _ | CCleanup _ _ _ _ | CUnmark _ _ | CCleanUploads _ => whole Auto true c
  | CInfo _ | CCount _ _ => whole Auto false c
  | CMark id t size time d => if mark_txn then whole Imm true c else mark_two id t size time d
  | CUploadInfo id t => if snapshot then whole Auto false c else upinfo_two id t
  | CNeeds id t now nmax bmax tmax =>
      if snapshot then whole Auto false c
      else match from_id id with None => whole Auto false c | Some _ => needs_three id t now nmax bmax tmax end
  | CCountAll sub => if snapshot then whole Auto false c else count_segs sub all_spaces
  end.

Definition compile : call -> list seg :=
  compile_with get_id_one_txn del_id_one_txn mark_uploaded_one_txn reads_in_snapshot.

(* ------------------------------------------------------------------ processes and the scheduler *)
Inductive cstate :=
| Idle
| Begun (view : store)                     (* after BEGIN IMMEDIATE: holds the write lock *)
| Bodied (view : store) (o : list obs).    (* statements of the transaction done on the private view *)

Record proc := {
  todo : list call;            (* the calls not yet complete; the head is the one in progress *)
  segs : option (list seg);    (* remaining segments of the head (None: not started) *)
  acc : list obs;
  cst : cstate;
  done : list result;
  alive : bool }.

Record world := { committed : store; procs : list proc; log : list (nat * call * result) }.

Definition fresh_proc (cs : list call) : proc :=
  {| todo := cs; segs := None; acc := []; cst := Idle; done := []; alive := true |}.
Definition init_world (s : store) (ps : list (list call)) : world :=
  {| committed := s; procs := map fresh_proc ps; log := [] |}.

Definition holds_lock (pr : proc) : bool := alive pr && match cst pr with Idle => false | _ => true end.
Definition lock_held (w : world) : bool := existsb holds_lock (procs w).

Fixpoint set_nth {A} (l : list A) (n : nat) (x : A) : list A :=
  match l, n with
  | [], _ => []
  | _ :: r, O => x :: r
  | y :: r, S k => y :: set_nth r k x
  end.

Definition with_proc (w : world) (p : nat) (pr : proc) : world :=
  {| committed := committed w; procs := set_nth (procs w) p pr; log := log w |}.

(* after a segment of the head call [c] of process [p] produced [o]: the call is complete when [o] says so or no
   segment is left *)
Definition advance (w : world) (s' : store) (p : nat) (pr : proc) (c : call) (rest : list call) (o : list obs) (more : list seg) : world :=
  match o, more with
  | ODone r :: _, _ =>
      {| committed := s'; log := log w ++ [(p, c, r)];
         procs := set_nth (procs w) p {| todo := rest; segs := None; acc := []; cst := Idle; done := done pr ++ [r]; alive := true |} |}
  | _, [] =>
      {| committed := s'; log := log w ++ [(p, c, RError)];
         procs := set_nth (procs w) p {| todo := rest; segs := None; acc := []; cst := Idle; done := done pr ++ [RError]; alive := true |} |}
  | _, _ :: _ =>
      {| committed := s'; log := log w;
         procs := set_nth (procs w) p {| todo := todo pr; segs := Some more; acc := o; cst := Idle; done := done pr; alive := true |} |}
  end.

(* one micro-step of process p; None: p has nothing to do, is dead, or is blocked by the write lock *)
Definition mstep (cmp : call -> list seg) (w : world) (p : nat) : option world :=
  match nth_error (procs w) p with
  | None => None
  | Some pr =>
      if negb (alive pr) then None else
      match todo pr with
      | [] => None
      | c :: rest =>
          match (match segs pr with Some l => l | None => cmp c end) with
          | [] => None
          | sg :: more =>
              match smode sg, cst pr with
              | Auto, Idle =>
                  if swrite sg && lock_held w then None
                  else let '(s', o) := sfn sg (acc pr) (committed w) in Some (advance w s' p pr c rest o more)
              | Imm, Idle =>
                  if lock_held w then None
                  else Some (with_proc w p {| todo := todo pr; segs := Some (sg :: more); acc := acc pr; cst := Begun (committed w);
                                              done := done pr; alive := true |})
              | Imm, Begun v =>
                  let '(v', o) := sfn sg (acc pr) v in
                  Some (with_proc w p {| todo := todo pr; segs := Some (sg :: more); acc := acc pr; cst := Bodied v' o;
                                         done := done pr; alive := true |})
              | Imm, Bodied v' o => Some (advance w v' p pr c rest o more)
              | Auto, _ => None
              end
          end
      end
  end.

(* SIGKILL: the private view and the lock are gone, nothing else changes *)
Definition kill (w : world) (p : nat) : world :=
  match nth_error (procs w) p with
  | None => w
  | Some pr => with_proc w p {| todo := todo pr; segs := segs pr; acc := acc pr; cst := Idle; done := done pr; alive := false |}
  end.

Inductive event := Run (p : nat) | Kill (p : nat).
Definition apply_event (cmp : call -> list seg) (w : world) (e : event) : world :=
  match e with
  | Run p => match mstep cmp w p with Some w' => w' | None => w end
  | Kill p => kill w p
  end.
Definition run_events (cmp : call -> list seg) (w : world) (es : list event) : world := fold_left (apply_event cmp) es w.

(* for the correspondence run: which of the events were not enabled *)
Fixpoint run_trace (cmp : call -> list seg) (w : world) (es : list event) : world * list bool :=
  match es with
  | [] => (w, [])
  | e :: r =>
      let ok := match e with Run p => match mstep cmp w p with Some _ => true | None => false end | Kill _ => true end in
      let '(w', t) := run_trace cmp (apply_event cmp w e) r in (w', ok :: t)
  end.

(* ------------------------------------------------------------------ opening the database (constructor) *)
(* the constructor's statements after the PRAGMAs: CREATE TABLE / CREATE INDEX ... IF NOT EXISTS, each an autocommit
   statement; objects are numbered in source order.  The schema only grows (no DROP anywhere in the module). *)
Definition schema := list nat.
Definition create_if_absent (sc : schema) (o : nat) : schema := if existsb (Nat.eqb o) sc then sc else o :: sc.
Definition open_steps : list nat := seq 0 schema_objects.
Definition schema_full (sc : schema) : bool := forallb (fun o => existsb (Nat.eqb o) sc) open_steps.

Record oproc := { oleft : list nat; oalive : bool }.
Record oworld := { osch : schema; oprocs : list oproc }.
Definition ostep (w : oworld) (p : nat) : oworld :=
  match nth_error (oprocs w) p with
  | Some {| oleft := o :: r; oalive := true |} => {| osch := create_if_absent (osch w) o; oprocs := set_nth (oprocs w) p {| oleft := r; oalive := true |} |}
  | _ => w
  end.
Definition okill (w : oworld) (p : nat) : oworld :=
  match nth_error (oprocs w) p with
  | Some pr => {| osch := osch w; oprocs := set_nth (oprocs w) p {| oleft := oleft pr; oalive := false |} |}
  | None => w
  end.
Definition oapply (w : oworld) (e : event) : oworld := match e with Run p => ostep w p | Kill p => okill w p end.
Definition orun (w : oworld) (es : list event) : oworld := fold_left oapply es w.
Definition oinit (sc : schema) (n : nat) : oworld := {| osch := sc; oprocs := repeat {| oleft := open_steps; oalive := true |} n |}.

(* ------------------------------------------------------------------ the journal-mode switch at the head of the constructor
   `PRAGMA journal_mode=WAL` needs a lock that sqlite does NOT wait for: when another connection holds a lock at that
   moment the statement fails with SQLITE_BUSY at once, whatever the busy timeout (the busy handler is not consulted).
   [busy] is that answer, chosen by the environment at every attempt; [retried] says whether the source repeats the
   statement (Gen/TxnShapeGen.wal_switch_retried: the loop of IDManager._enable_wal) or executes it once.  The 30 s
   deadline after which the repaired loop gives up is real time and is not modelled. *)
Inductive wal_state : Set := WalTodo | WalDone | WalFailed.
Definition wal_attempt (retried busy : bool) (st : wal_state) : wal_state :=
  match st with
  | WalTodo => if busy then (if retried then WalTodo else WalFailed) else WalDone
  | _ => st
  end.
Definition wal_run (retried : bool) (answers : list bool) : wal_state :=
  fold_left (fun st b => wal_attempt retried b st) answers WalTodo.
