(* Model/PlaceholderModel.v — executable transcription of tupimage/placeholder.py
   (ImagePlaceholderMode, ImagePlaceholder.validate / to_lines / to_stream_xxx), of
   GraphicsTerminal.print_placeholder and of the display path of TupimageTerminal
   (get_image_placeholder_mode, get_formatting, display_only for an integer ID).
   Byte for byte: every bytes / int literal comes from Gen.DiacriticsGen (regenerated from the
   source on every run); Python's `bytes % ints` is Lib.PyFmtD.fmt_d, str.encode("utf-8") is
   Lib.Utf8.utf8_encode, `&` and `>>` are N.land and N.shiftr.   No proofs in this file. *)
From Coq Require Import NArith List Bool.
From Tup Require Import Lib.Dec Lib.PyFmtD Lib.Utf8 Gen.DiacriticsGen.
Import ListNotations.
Open Scope N_scope.

Record mode := mkmode {
  allow256_id : bool;          (* allow_256colors_for_image_id *)
  allow256_pid : bool;         (* allow_256colors_for_placement_id *)
  skip_pid0 : bool;            (* skip_placement_id_if_zero *)
  lvl_first : N;               (* first_column_diacritic_level.value *)
  lvl_other : N;               (* other_columns_diacritic_level.value *)
  ph_char : list N }.          (* placeholder_char, code points *)

(* __post_init__ raises ValueError for first level NONE: such a mode cannot be constructed *)
Definition mode_constructible (m : mode) : bool := negb (lvl_first m =? lvl_none).

Record placeholder := mkph {
  image_id : N; placement_id : N; start_col : N; start_row : N; end_col : N; end_row : N }.

Inductive formatting :=
| FNone
| FBytes (b : list N)
| FRow (f : N -> list N)               (* RowFormatting(func(row)) *)
| FCell (f : N -> N -> list N).        (* CellFormatting(func(col, row)) *)

Inductive result (A : Type) := Ok (a : A) | ErrValue | ErrIndex.
Arguments Ok {A} a. Arguments ErrValue {A}. Arguments ErrIndex {A}.

(* validate(): true = no exception.  (Negative values do not exist in N; the harness checks
   separately that the implementation rejects them with ValueError.) *)
Definition validate (p : placeholder) : bool :=
  negb (image_id p =? v_id_zero)
  && negb ((image_id p <? v_id_min) || (v_id_max <? image_id p))
  && negb ((placement_id p <? v_pid_min) || (v_pid_max <? placement_id p))
  && negb (start_col p <? v_col_min)
  && negb (start_row p <? v_row_min)
  && negb (end_col p <=? start_col p)
  && negb (end_row p <=? start_row p).

(* ROWCOLUMN_DIACRITICS_UTF8 and indexing into it (None = IndexError) *)
Definition diacritics_utf8 : list (list N) := map utf8_encode rowcolumn_diacritics.
Definition table_len : N := N.of_nat (length diacritics_utf8).
Definition diac (i : N) : option (list N) :=
  if i <? table_len then Some (nth (N.to_nat i) diacritics_utf8 []) else None.

Definition range (a b : N) : list N := map N.of_nat (seq (N.to_nat a) (N.to_nat b - N.to_nat a)).

Definition id_color_bytes (p : placeholder) (m : mode) : list N :=
  if allow256_id m && (N.land (image_id p) id_midmask =? id_midzero)
  then fmt_d fg256_t [N.land (image_id p) id_lomask]
  else fmt_d fg24_t [N.land (N.shiftr (image_id p) id_rshift) id_rmask;
                     N.land (N.shiftr (image_id p) id_gshift) id_gmask;
                     N.land (image_id p) id_bmask].

Definition pid_color_bytes (p : placeholder) (m : mode) : list N :=
  if negb (skip_pid0 m && (placement_id p =? pid_zero)) then
    if allow256_pid m && (N.land (placement_id p) pid_midmask =? pid_midzero)
    then fmt_d ul256_t [N.land (placement_id p) pid_lomask]
    else fmt_d ul24_t [N.land (N.shiftr (placement_id p) pid_rshift) pid_rmask;
                       N.land (N.shiftr (placement_id p) pid_gshift) pid_gmask;
                       N.land (placement_id p) pid_bmask]
  else [].

Definition line_id_colors (p : placeholder) (m : mode) (no_escape : bool) : list N :=
  if no_escape then colors_init else colors_init ++ id_color_bytes p m ++ pid_color_bytes p m.

Definition msb_of (p : placeholder) : N := N.shiftr (N.land (image_id p) msb_mask) msb_shift.

Definition first_count (p : placeholder) (m : mode) : N :=
  let c := lvl_first m in
  let c := if negb (start_col p =? startcol_zero) then N.max c first_min else c in
  if negb (msb_of p =? msb_zero) then first_msb
  else if lvl_first m =? lvl_row_column_id4thbyte_if_nonzero then first_nomsb else c.

Definition other_count (p : placeholder) (m : mode) : N :=
  let c := lvl_other m in
  if negb (msb_of p =? msb_zero)
  then (if lvl_other m =? lvl_row_column_id4thbyte_if_nonzero then other_msb else c)
  else (if lvl_other m =? lvl_row_column_id4thbyte_if_nonzero then other_nomsb else c).

Definition row_fmt (f : formatting) (row : N) : list N :=
  match f with FBytes b => b | FRow g => g row | _ => [] end.
Definition cell_fmt (f : formatting) (col row : N) : list N :=
  match f with FCell g => g col row | _ => [] end.

Definition ph_bytes (m : mode) : list N := utf8_encode_str (ph_char m).

(* a row at or beyond the table: spaces *)
Definition blank_line (p : placeholder) (f : formatting) (no_escape : bool) (row : N) : list N :=
  line_init ++ (if no_escape then [] else reset_pre) ++ row_fmt f row
  ++ flat_map (fun col => cell_fmt f col row ++ blank_cell_bytes) (range (start_col p) (end_col p))
  ++ (if no_escape then [] else reset_blank).

Definition other_cell (p : placeholder) (m : mode) (f : formatting) (row : N) (rowd msbd : list N) (col : N) : list N :=
  cell_fmt f col row ++ ph_bytes m ++
  (if th_other1 <=? other_count p m then
     rowd ++
     (if (th_other2 <=? other_count p m) && (col <? table_len) then
        match diac col with
        | Some cd => cd ++ (if th_other3 <=? other_count p m then msbd else [])
        | None => []
        end
      else [])
   else []).

(* a row below the table length; None = IndexError (start column beyond the table) *)
Definition image_line (p : placeholder) (m : mode) (f : formatting) (no_escape : bool) (msbd : list N) (row : N) : option (list N) :=
  match diac row with
  | None => None
  | Some rowd =>
      let first :=
        if th_first1 <=? first_count p m then
          if th_first2 <=? first_count p m then
            match diac (start_col p) with
            | Some cd => Some (rowd ++ cd ++ (if th_first3 <=? first_count p m then msbd else []))
            | None => None
            end
          else Some rowd
        else Some [] in
      match first with
      | None => None
      | Some fd =>
          Some (line_init ++ (if no_escape then [] else reset_pre) ++ row_fmt f row
                ++ line_id_colors p m no_escape
                ++ cell_fmt f (start_col p) row ++ ph_bytes m ++ fd
                ++ flat_map (other_cell p m f row rowd msbd) (range (start_col p + othercol_off) (end_col p))
                ++ (if no_escape then [] else reset_post))
      end
  end.

Definition line_of (p : placeholder) (m : mode) (f : formatting) (no_escape : bool) (msbd : list N) (row : N) : option (list N) :=
  if table_len <=? row then Some (blank_line p f no_escape row) else image_line p m f no_escape msbd row.

Fixpoint sequence {A : Type} (l : list (option A)) : option (list A) :=
  match l with
  | [] => Some []
  | None :: _ => None
  | Some a :: r => match sequence r with Some r' => Some (a :: r') | None => None end
  end.

Definition to_lines (p : placeholder) (m : mode) (f : formatting) (no_escape : bool) : result (list (list N)) :=
  if negb (validate p) then ErrValue else
  match diac (msb_of p) with
  | None => ErrIndex
  | Some msbd =>
      match sequence (map (line_of p m f no_escape msbd) (range (start_row p) (end_row p))) with
      | Some ls => Ok ls
      | None => ErrIndex
      end
  end.

(* ---- to_stream_*: the list of stream.write() arguments, in order *)
Definition on_lines (r : result (list (list N))) (k : list (list N) -> list (list N)) : result (list (list N)) :=
  match r with Ok ls => Ok (k ls) | ErrValue => ErrValue | ErrIndex => ErrIndex end.

Definition to_stream_with_linefeeds (p : placeholder) (m : mode) (f : formatting) (no_escape : bool) : result (list (list N)) :=
  on_lines (to_lines p m f no_escape) (flat_map (fun l => [l; lf_newline])).

Fixpoint abs_go (pos : list N) (idx : N) (ls : list (list N)) : list (list N) :=
  match ls with
  | [] => []
  | l :: r =>
      fmt_d abs_cup_t [nth (N.to_nat abs_pos_row_idx) pos 0 + idx + abs_row_off; nth (N.to_nat abs_pos_col_idx) pos 0 + abs_col_off]
      :: l :: abs_go pos (idx + 1) r
  end.
Definition to_stream_abs_position (p : placeholder) (pos : N * N) (m : mode) (f : formatting) : result (list (list N)) :=
  on_lines (to_lines p m f false) (abs_go [fst pos; snd pos] 0).

Fixpoint cursor_go (p : placeholder) (use_save use_lf : bool) (n idx : N) (ls : list (list N)) : list (list N) :=
  match ls with
  | [] => []
  | l :: r =>
      (if negb use_lf && use_save && negb (idx =? n - cur_last_off1) then [cur_save] else [])
      ++ [l]
      ++ (if negb (idx =? n - cur_last_off2) then
            if use_lf then [cur_newline]
            else (if use_save then [cur_restore] else [fmt_d cur_left_t [end_col p - start_col p]]) ++ [cur_index]
          else [])
      ++ cursor_go p use_save use_lf n (idx + 1) r
  end.
Definition to_stream_at_cursor (p : placeholder) (m : mode) (f : formatting) (use_save use_lf : bool) : result (list (list N)) :=
  on_lines (to_lines p m f false) (fun ls => cursor_go p use_save use_lf (N.of_nat (length ls)) 0 ls).

Definition to_stream (p : placeholder) (pos : option (N * N)) (m : mode) (f : formatting) (use_save use_lf : bool) : result (list (list N)) :=
  match pos with
  | Some xy => if use_lf then ErrValue else to_stream_abs_position p xy m f
  | None => to_stream_at_cursor p m f use_save use_lf
  end.

(* ---- GraphicsTerminal.print_placeholder: copy, override the given fields, to_stream(out_display) *)
Definition ov (o : option N) (d : N) : N := match o with Some v => v | None => d end.
Definition print_placeholder (base : option placeholder) (o_id o_pid o_c0 o_r0 o_c1 o_r1 : option N)
    (pos : option (N * N)) (m : mode) (f : formatting) (use_save use_lf : bool) : result (list (list N)) :=
  let b := match base with Some b => b | None => mkph 0 0 0 0 0 0 end in
  to_stream (mkph (ov o_id (image_id b)) (ov o_pid (placement_id b)) (ov o_c0 (start_col b)) (ov o_r0 (start_row b))
                  (ov o_c1 (end_col b)) (ov o_r1 (end_row b))) pos m f use_save use_lf.

(* ---- TupimageTerminal: mode and formatting of the display path *)
Definition display_mode (fewer_diacritics : bool) (config_ph_char : list N) : mode :=
  mkmode dm_allow256_id dm_allow256_pid dm_skip_pid0 dm_first
         (if fewer_diacritics then dm_other_fewer else dm_other_full) config_ph_char.

Inductive background :=
| BgNoneStr                       (* the string "none" (any case) *)
| BgColorStr (r g b : N)          (* any other string; r g b = PIL.ImageColor.getrgb(s) (Pillow is not modelled) *)
| BgInt (n : N)
| BgOther (f : formatting).       (* anything else is passed through *)
Definition get_formatting (bg : background) : formatting :=
  match bg with
  | BgNoneStr => FNone
  | BgColorStr r g b => FBytes (fmt_d bg24_t [r; g; b])
  | BgInt n => FBytes (fmt_d bg256_t [n])
  | BgOther f => f
  end.

(* display_only(id: int, start_col, start_row, end_col, end_row, fewer_diacritics, background,
   abs_pos, use_line_feeds): the bytes written to the display stream by its print_placeholder call *)
Definition display_only (id c0 r0 c1 r1 : N) (fewer : bool) (bg : background) (abs_pos : option (N * N))
    (use_lf : bool) (config_ph_char : list N) : result (list (list N)) :=
  print_placeholder None (Some id) (Some 0) (Some c0) (Some r0) (Some c1) (Some r1) abs_pos
    (display_mode fewer config_ph_char) (get_formatting bg) true use_lf.
