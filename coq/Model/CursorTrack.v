(* Model/CursorTrack.v — executable transcription of the cursor tracking of
   tupimage/graphics_terminal.py (GraphicsTerminal: _write, write, writecmd, print_placeholder,
   print_placeholder_for_put, send_command's forced-placeholder path, get_cursor_position(_tracked),
   reset, clear_line, clear_screen, set_tracked_cursor_position, move_cursor, move_cursor_abs,
   set_margins, scroll_up/down) and of ImagePlaceholder.to_lines (default mode, no formatting) /
   to_stream* in tupimage/placeholder.py.  No proofs here.

   The terminal is a parameter: a type T of terminal states and [tfeed], which consumes the bytes
   written (display and command stream go to the same terminal) and returns what the terminal answers;
   the answer is appended to the unread input [w_in].  Props/C16.v instantiates it with
   Spec.VtCursorSpec; nothing of the Spec is used here.

   The five repairs fixes/C16a..e are switchable ([fixes]); Gen/CursorGen.v says which of them the
   source tree has, so that the model describes the code as it is on either tree. *)
From Coq Require Import ZArith NArith List Bool.
From Tup Require Import Lib.ByteStr Lib.Dec Gen.CursorGen.
Import ListNotations.
Open Scope Z_scope.

(* ------------------------------------------------------------------ Python helpers *)
(* b"%d" % z *)
Definition pyd (z : Z) : list N := if z <? 0 then 45%N :: dec (Z.to_N (- z)) else dec (Z.to_N z).

(* template % args, templates with %d conversions only (missing arguments: TypeError, not modelled) *)
Fixpoint fmt_d (t : list N) (args : list Z) : list N :=
  match t with
  | [] => []
  | c :: r =>
      if (c =? 37)%N then
        match r with
        | d :: r' =>
            if (d =? 100)%N then
              match args with a :: args' => pyd a ++ fmt_d r' args' | [] => [] end
            else c :: fmt_d r args
        | [] => [c]
        end
      else c :: fmt_d r args
  end.

(* int(b) for the replies a terminal sends: ASCII digits only (other spellings int() accepts are not modelled) *)
Definition all_digits (l : list N) : bool := forallb (fun b => (48 <=? b)%N && (b <=? 57)%N) l.
Definition pyint (l : list N) : option Z :=
  match l with [] => None | _ => if all_digits l then Some (Z.of_N (undec l)) else None end.

(* the rest of l after the first occurrence of p *)
Fixpoint after_sub (p l : list N) : option (list N) :=
  match strip_prefix p l with
  | Some r => Some r
  | None => match l with [] => None | _ :: tl => after_sub p tl end
  end.
Fixpoint until_byte (c : N) (l : list N) : option (list N * list N) :=
  match l with
  | [] => None
  | x :: r => if (x =? c)%N then Some ([], r)
              else match until_byte c r with Some (a, b) => Some (x :: a, b) | None => None end
  end.
Fixpoint split_byte (c : N) (l : list N) : list (list N) :=
  match l with
  | [] => [[]]
  | x :: r => if (x =? c)%N then [] :: split_byte c r
              else match split_byte c r with h :: t => (x :: h) :: t | [] => [[x]] end
  end.
Definition single (l : list N) : N := match l with [c] => c | _ => 0%N end.

Definition truthy (o : option Z) : bool := match o with Some v => negb (v =? 0) | None => false end.
Definition or0 (o : option Z) : Z := match o with Some v => v | None => 0 end.
Definition zrange (a : Z) (n : nat) : list Z := map (fun i => a + Z.of_nat i) (seq 0 n).

(* ------------------------------------------------------------------ configuration, results, operations *)
Record fixes := Fixes {
  fx_abs : bool;    (* C16a: move_cursor_abs uses `is not None` instead of `col or old` *)
  fx_low : bool;    (* C16b: set_tracked_cursor_position clamps at 0 *)
  fx_ph : bool;     (* C16c: print_placeholder forgets the position *)
  fx_marg : bool;   (* C16d: margins_maybe_set flag *)
  fx_pend : bool    (* C16e: print_placeholder_for_put cancels a pending wrap *)
}.
Definition src_fixes : fixes :=
  Fixes cg_fix_abs_zero cg_fix_clamp_low cg_fix_ph_forgets cg_fix_margins cg_fix_pending_wrap.
Definition all_fixed : fixes := Fixes true true true true true.
Definition none_fixed : fixes := Fixes false false false false false.

Record cfg := Cfg {
  c_fix : fixes;
  cW : Z; cH : Z;        (* what get_size() returns: (columns, lines) *)
  c_scroll : bool        (* reset_by_scrolling *)
}.

Inductive res := ROk | RPos (x y : Z) | RValueError | RIndexError | RTimeout.

Record phargs := PhArgs {
  ph_image : Z; ph_placement : Z;
  ph_sc : Z; ph_sr : Z; ph_ec : Z; ph_er : Z;
  ph_pos : option (Z * Z);
  ph_save : bool; ph_lf : bool
}.

Inductive op :=
| OMove (right down left up : option Z)      (* move_cursor(right=, down=, left=, up=) *)
| OMoveAbs (col row : option Z)              (* move_cursor_abs(col=, row=) or pos=(col,row) *)
| OReset
| OScrollUp (n : Z) | OScrollDown (n : Z)
| OSetMargins (top bottom : Z)
| OWrite (bs : list N)                       (* write(bytes) *)
| OWriteCmd (bs : list N)                    (* writecmd(bytes) *)
| OClearLine | OClearScreen
| OPrintPlaceholder (a : phargs)             (* print_placeholder(..., default mode, no formatting) *)
| OQuery                                     (* get_cursor_position() *)
| OQueryTracked                              (* get_cursor_position_tracked() *)
| OSendPut (g : list N) (image : option Z) (placement : Z) (cols rows : option Z) (dnm : bool).
    (* send_command(put / transmit+placement) with force_placeholders: g = the bytes command.send() wrote
       to out_command; then print_placeholder_for_put(put_command) *)

(* ------------------------------------------------------------------ ImagePlaceholder.to_lines, default mode *)
Definition sgr0 : list N := [27; 91; 48; 109]%N.
Definition ndiac : Z := Z.of_nat (length cg_diacritics).
Definition diac (i : Z) : option (list N) := nth_error cg_diacritics (Z.to_nat i).
Definition diac0 (i : Z) : list N := match diac i with Some d => d | None => [] end.

Definition id_colors (image placement : Z) : list N :=
  (if (image / 256) mod 65536 =? 0                                          (* image_id & 0xFFFF00 == 0 *)
   then [27; 91; 51; 56; 59; 53; 59]%N ++ pyd (image mod 256) ++ [109]%N   (* ESC[38;5;%dm *)
   else [27; 91; 51; 56; 59; 50; 59]%N ++ pyd ((image / 65536) mod 256) ++ [59]%N ++
        pyd ((image / 256) mod 256) ++ [59]%N ++ pyd (image mod 256) ++ [109]%N)   (* ESC[38;2;%d;%d;%dm *)
  ++
  (if placement =? 0 then []                                                 (* skip_placement_id_if_zero *)
   else [27; 91; 53; 56; 59; 50; 59]%N ++ pyd ((placement / 65536) mod 256) ++ [59]%N ++
        pyd ((placement / 256) mod 256) ++ [59]%N ++ pyd (placement mod 256) ++ [109]%N).  (* ESC[58;2;%d;%d;%dm *)

(* default mode: both diacritic levels are ROW_COLUMN_ID4THBYTE_IF_NONZERO -> 3 diacritics iff the 4th byte
   of the image id is non-zero, else 2 *)
Definition fourth (image : Z) : Z := (image / 16777216) mod 256.
Definition tail4 (image : Z) : list N := if fourth image =? 0 then [] else diac0 (fourth image).

Definition first_cell (image row sc : Z) : option (list N) :=
  match diac sc with                                   (* ROWCOLUMN_DIACRITICS_UTF8[self.start_col]: IndexError *)
  | Some dc => Some (cg_placeholder_char ++ diac0 row ++ dc ++ tail4 image)
  | None => None
  end.
Definition other_cell (image row col : Z) : list N :=
  cg_placeholder_char ++ diac0 row ++ (if col <? ndiac then diac0 col ++ tail4 image else []).

Definition ph_line (image placement sc ec row : Z) : option (list N) :=
  if ndiac <=? row then Some (sgr0 ++ repeat 32%N (Z.to_nat (ec - sc)))
  else match first_cell image row sc with
       | None => None
       | Some fc => Some (sgr0 ++ id_colors image placement ++ fc ++
                          concat (map (other_cell image row) (zrange (sc + 1) (Z.to_nat (ec - sc - 1)))) ++ sgr0)
       end.

Definition ph_valid (a : phargs) : bool :=
  negb (ph_image a =? 0) && (0 <=? ph_image a) && (ph_image a <=? 4294967295) &&
  (0 <=? ph_placement a) && (ph_placement a <=? 16777215) &&
  (0 <=? ph_sc a) && (0 <=? ph_sr a) && (ph_sc a <? ph_ec a) && (ph_sr a <? ph_er a).

Fixpoint all_some {A} (l : list (option A)) : option (list A) :=
  match l with
  | [] => Some []
  | None :: _ => None
  | Some x :: r => match all_some r with Some r' => Some (x :: r') | None => None end
  end.
Definition ph_lines (a : phargs) : option (list (list N)) :=
  all_some (map (ph_line (ph_image a) (ph_placement a) (ph_sc a) (ph_ec a))
                (zrange (ph_sr a) (Z.to_nat (ph_er a - ph_sr a)))).

(* to_stream_at_cursor *)
Fixpoint stream_at_cursor (lines : list (list N)) (use_save use_lf : bool) (width : Z) : list N :=
  match lines with
  | [] => []
  | [l] => l
  | l :: rest =>
      (if negb use_lf && use_save then cg_ph_save else []) ++ l ++
      (if use_lf then cg_ph_lf
       else (if use_save then cg_ph_restore else fmt_d cg_ph_back [width]) ++ cg_ph_ind) ++
      stream_at_cursor rest use_save use_lf width
  end.
(* to_stream_abs_position *)
Fixpoint stream_abs (lines : list (list N)) (px py : Z) : list N :=
  match lines with
  | [] => []
  | l :: rest => fmt_d cg_ph_cup [py + 1; px + 1] ++ l ++ stream_abs rest px (py + 1)
  end.

(* ------------------------------------------------------------------ the terminal object *)
Section WithTerminal.
Variable T : Type.
Variable tfeed : T -> list N -> T * list N.

Record world := World {
  w_term : T;                    (* the terminal everything is written to *)
  w_in : list N;                 (* answers of the terminal not yet read from in_response *)
  w_out : list N;                (* everything written so far *)
  w_tr : option (Z * Z);         (* tracked_cursor_position *)
  w_mflag : bool                 (* margins_maybe_set (C16d) *)
}.
Definition set_tr (w : world) (tr : option (Z * Z)) := World (w_term w) (w_in w) (w_out w) tr (w_mflag w).
Definition set_in (w : world) (i : list N) := World (w_term w) i (w_out w) (w_tr w) (w_mflag w).
Definition set_mflag (w : world) (b : bool) := World (w_term w) (w_in w) (w_out w) (w_tr w) b.

(* _write / out_command.write: the terminal consumes the bytes *)
Definition wr (w : world) (bs : list N) : world :=
  let '(t', rep) := tfeed (w_term w) bs in
  World t' (w_in w ++ rep) (w_out w ++ bs) (w_tr w) (w_mflag w).

Variable c : cfg.
Let fx := c_fix c.

Definition set_tracked (w : world) (x y : Z) : world :=
  let lo v := if fx_low fx then Z.max 0 v else v in
  set_tr w (Some (lo (Z.min x (cW c - 1)), lo (Z.min y (cH c - 1)))).

Definition get_cursor_position (w : world) : world * res :=
  let w := wr w cg_cpr_query in
  match after_sub cg_cpr_intro (w_in w) with
  | None => (set_in w [], RTimeout)
  | Some r =>
      match until_byte (single cg_cpr_final) r with
      | None => (set_in w [], RTimeout)
      | Some (body, rest) =>
          let w := set_in w rest in
          match split_byte (single cg_cpr_sep) body with
          | [ys; xs] =>
              match pyint xs, pyint ys with
              | Some x, Some y => (set_tr w (Some (x - 1, y - 1)), RPos (x - 1) (y - 1))
              | _, _ => (w, RValueError)
              end
          | _ => (w, RValueError)
          end
      end
  end.

Definition get_cursor_position_tracked (w : world) : world * res :=
  match w_tr w with
  | None => get_cursor_position w
  | Some (x, y) => (w, RPos x y)
  end.

(* move_cursor after up/left have been folded into down/right *)
Definition move_core (w : world) (vdown vright : option Z) : world :=
  let w := if truthy vdown then
             (if 0 <? or0 vdown then wr w (fmt_d cg_cud [or0 vdown]) else wr w (fmt_d cg_cuu [- or0 vdown]))
           else w in
  let w := if truthy vright then
             (if 0 <? or0 vright then wr w (fmt_d cg_cuf [or0 vright]) else wr w (fmt_d cg_cub [- or0 vright]))
           else w in
  let w := if fx_marg fx && truthy vdown && w_mflag w then set_tr w None else w in
  match w_tr w with
  | Some (tx, ty) => set_tracked w (tx + or0 vright) (ty + or0 vdown)
  | None => w
  end.

Definition move_cursor (w : world) (aright adown aleft aup : option Z) : world * res :=
  match (match aup with Some u => match adown with Some _ => None | None => Some (Some (- u)) end
                      | None => Some adown end) with
  | None => (w, RValueError)
  | Some vdown =>
  match (match aleft with Some l => match aright with Some _ => None | None => Some (Some (- l)) end
                        | None => Some aright end) with
  | None => (w, RValueError)
  | Some vright => (move_core w vdown vright, ROk)
  end end.

Definition pick_abs (arg : option Z) (old : Z) : Z :=
  match arg with
  | Some v => if fx_abs fx then v else (if v =? 0 then old else v)     (* `col or old` *)
  | None => old
  end.

Definition move_cursor_abs (w : world) (col row : option Z) : world :=
  let w := match row with Some r => wr w (fmt_d cg_vpa [r + 1]) | None => w end in
  let w := match col with Some k => wr w (fmt_d cg_cha [k + 1]) | None => w end in
  match w_tr w with
  | Some (tx, ty) => set_tracked w (pick_abs col tx) (pick_abs row ty)
  | None => match col, row with Some k, Some r => set_tracked w k r | _, _ => w end
  end.

Definition scroll_up (w : world) (n : Z) : world := set_tr (wr w (fmt_d cg_su [n])) None.
Definition scroll_down (w : world) (n : Z) : world := set_tr (wr w (fmt_d cg_sd [n])) None.

Definition set_margins (w : world) (top bottom : Z) : world :=
  let w := set_tr (wr w (fmt_d cg_decstbm [top + 1; bottom + 1])) None in
  if fx_marg fx then set_mflag w true else w.

Definition reset (w : world) : world :=
  if c_scroll c then
    let w := wr w cg_reset_sgr in
    let w := wr w cg_reset_margins in
    let w := if fx_marg fx then set_mflag w false else w in
    let w := scroll_up w (cH c) in
    move_cursor_abs w (Some 0) (Some 0)
  else
    let w := set_tr (wr w cg_reset_ris) (Some (0, 0)) in
    if fx_marg fx then set_mflag w false else w.

Definition print_placeholder (w : world) (a : phargs) : world * res :=
  match ph_pos a, ph_lf a with
  | Some _, true => (w, RValueError)
  | _, _ =>
      if negb (ph_valid a) then (w, RValueError) else
      match ph_lines a with
      | None => (w, RIndexError)
      | Some lines =>
          let bytes := match ph_pos a with
                       | Some (px, py) => stream_abs lines px py
                       | None => stream_at_cursor lines (ph_save a) (ph_lf a) (ph_ec a - ph_sc a)
                       end in
          let w := wr w bytes in
          (if fx_ph fx then set_tr w None else w, ROk)
      end
  end.

(* print_placeholder_for_put, in three pieces (same statements, same order as the Python) *)
(* 1. make room: clip the rows (do_not_move_cursor) or scroll and move up *)
Definition put_prepare (w : world) (cur_y prows : Z) (dnm : bool) : world * Z :=
  if cH c - cur_y <? prows then
    if dnm then (w, cH c - cur_y)
    else
      let newlines := prows - (cH c - cur_y) in
      let w := wr w (fmt_d cg_put_scroll [newlines]) in
      (fst (move_cursor w None None None (Some newlines)), prows)
  else (w, prows).

(* 3. where the cursor is left *)
Definition put_finish (w : world) (cur_x cur_y cols rows : Z) (dnm : bool) : world :=
  let w :=
    if dnm then move_cursor_abs w (Some cur_x) (Some cur_y)
    else if cW c <=? cur_x + cols then set_tracked (wr w cg_put_nel) 0 (cur_y + rows)
    else set_tracked w (cur_x + cols) (cur_y + rows - 1) in
  if fx_marg fx && w_mflag w && negb dnm then set_tr w None else w.

(* 2. ask where the cursor is, print the placeholder there *)
Definition put_print (w : world) (image placement cols rows : Z) (dnm : bool) : world * res :=
  match get_cursor_position w with
  | (w, RPos cur_x cur_y) =>
      let w := if fx_pend fx then wr w (fmt_d cg_put_cha [cur_x + 1]) else w in
      let w := set_tr w None in
      match print_placeholder w (PhArgs image placement 0 0 cols rows None true false) with
      | (w, ROk) => (put_finish w cur_x cur_y cols rows dnm, ROk)
      | r => r
      end
  | r => r
  end.

Definition print_placeholder_for_put (w : world) (image : option Z) (placement : Z)
           (pcols prows : option Z) (dnm : bool) : world * res :=
  match prows, pcols, image with
  | Some prows, Some pcols, Some image =>
      match get_cursor_position_tracked w with
      | (w, RPos cur_x cur_y) =>
          let cols := Z.min pcols (cW c - cur_x) in
          let '(w, rows) := put_prepare w cur_y prows dnm in
          if (cols <=? 0) || (rows <=? 0) then (w, ROk) else put_print w image placement cols rows dnm
      | r => r
      end
  | _, _, _ => (w, RValueError)
  end.

Definition step (w : world) (o : op) : world * res :=
  match o with
  | OMove r d l u => move_cursor w r d l u
  | OMoveAbs col row => (move_cursor_abs w col row, ROk)
  | OReset => (reset w, ROk)
  | OScrollUp n => (scroll_up w n, ROk)
  | OScrollDown n => (scroll_down w n, ROk)
  | OSetMargins t b => (set_margins w t b, ROk)
  | OWrite bs => (set_tr (wr w bs) None, ROk)
  | OWriteCmd bs => (set_tr (wr w bs) None, ROk)
  | OClearLine => (wr w cg_clear_line, ROk)
  | OClearScreen => (wr w cg_clear_screen, ROk)
  | OPrintPlaceholder a => print_placeholder w a
  | OQuery => get_cursor_position w
  | OQueryTracked => get_cursor_position_tracked w
  | OSendPut g image placement cols rows dnm =>
      print_placeholder_for_put (wr w g) image placement cols rows dnm
  end.

Fixpoint run (w : world) (ops : list op) : world :=
  match ops with
  | [] => w
  | o :: r => run (fst (step w o)) r
  end.
End WithTerminal.

Arguments World {T}.
Arguments w_term {T}. Arguments w_in {T}. Arguments w_out {T}. Arguments w_tr {T}. Arguments w_mflag {T}.
Definition world0 {T} (t : T) : world T := World t [] [] None false.
