(* Model/SendCommand.v — GraphicsTerminal.send_command (graphics_terminal.py): the two rewrites a terminal object may
   apply to a command before it is sent — a classic placement turned into a Unicode-placeholder placement
   (force_placeholders), a file-name transmission turned into an inline one (force_direct_transmission) — each
   governed by the per-call argument when it is given and by the terminal's attribute otherwise; then
   GraphicsCommand.send with the terminal's template and size limit.
   pid   = the value random.randint(1, 2^24-1) returns (drawn only when a placement id is missing)
   file  = the contents of the file a name denotes (None: open() raises) *)
From Coq Require Import ZArith NArith List Bool.
From Tup Require Import Lib.ByteStr Lib.CommandTypes Model.GraphicsCommand Model.SendModel.
Import ListNotations.

Definition effective (call : option bool) (attr : bool) : bool :=
  match call with Some b => b | None => attr end.

(* `not placement.virtual`: None and False are both "not virtual" *)
Definition is_virtual (p : placement) : bool := match p_virtual p with Some true => true | _ => false end.

Definition make_virtual (pid : N) (p : placement) : placement :=
  {| p_placement_id := match p_placement_id p with Some x => Some x | None => Some pid end;
     p_virtual := Some true; p_rows := p_rows p; p_cols := p_cols p; p_do_not_move_cursor := p_do_not_move_cursor p;
     p_src_x := p_src_x p; p_src_y := p_src_y p; p_src_w := p_src_w p; p_src_h := p_src_h p |}.

Definition with_placement (c : transmit) (p : option placement) : transmit :=
  {| t_image_id := t_image_id c; t_image_number := t_image_number c; t_medium := t_medium c; t_data := t_data c;
     t_size := t_size c; t_offset := t_offset c; t_quiet := t_quiet c; t_more := t_more c; t_format := t_format c;
     t_compression := t_compression c; t_pix_width := t_pix_width c; t_pix_height := t_pix_height c;
     t_query := t_query c; t_placement := p; t_omit_action := t_omit_action c |}.

Definition with_medium_data (c : transmit) (m : option medium) (d : list N) : transmit :=
  {| t_image_id := t_image_id c; t_image_number := t_image_number c; t_medium := m; t_data := d;
     t_size := t_size c; t_offset := t_offset c; t_quiet := t_quiet c; t_more := t_more c; t_format := t_format c;
     t_compression := t_compression c; t_pix_width := t_pix_width c; t_pix_height := t_pix_height c;
     t_query := t_query c; t_placement := t_placement c; t_omit_action := t_omit_action c |}.

(* -> (command, a placeholder is to be printed afterwards) *)
Definition rewrite_placeholders (pid : N) (c : command) : command * bool :=
  match c with
  | CTransmit t =>
      match t_placement t with
      | Some p => if is_virtual p then (c, false) else (CTransmit (with_placement t (Some (make_virtual pid p))), true)
      | None => (c, false)
      end
  | CPut u =>
      if is_virtual (u_placement u) then (c, false)
      else (CPut {| u_image_id := u_image_id u; u_image_number := u_image_number u; u_quiet := u_quiet u;
                    u_placement := make_virtual pid (u_placement u) |}, true)
  | _ => (c, false)
  end.

(* None: opening the named file raised *)
Definition rewrite_direct (file : list N -> option (list N)) (c : command) : option command :=
  match c with
  | CTransmit t =>
      match t_medium t with
      | Some MFile | Some MTemp =>
          match t_data t with
          | [] => Some c
          | name => match file name with
                    | Some content => Some (CTransmit (with_medium_data t (Some MDirect) content))
                    | None => None
                    end
          end
      | _ => Some c
      end
  | _ => Some c
  end.

Record term_flags := { tf_placeholders : bool; tf_direct : bool }.

Definition rewrite_command (tf : term_flags) (call_ph call_direct : option bool) (pid : N)
           (file : list N -> option (list N)) (c : command) : option (command * bool) :=
  let '(c1, print) := if effective call_ph (tf_placeholders tf) then rewrite_placeholders pid c else (c, false) in
  if effective call_direct (tf_direct tf) then
    match rewrite_direct file c1 with Some c2 => Some (c2, print) | None => None end
  else Some (c1, print).

Inductive send_command_result :=
| ScOpenFailed                       (* the file to be inlined could not be opened: nothing written *)
| ScRejected                         (* ValueError of send(): nothing written *)
| ScWritten (writes : list (list N)) (print_placeholder : bool).

Definition send_command (tf : term_flags) (call_ph call_direct : option bool) (pid : N)
           (file : list N -> option (list N)) (template : list N) (max_size : Z) (c : command) : send_command_result :=
  match rewrite_command tf call_ph call_direct pid file c with
  | None => ScOpenFailed
  | Some (c', print) =>
      match send c' template max_size with
      | SendError => ScRejected
      | SendOk ws => ScWritten ws print
      end
  end.
