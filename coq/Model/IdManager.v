(* Model/IdManager.v — IDManager (id_manager.py:365-690): the five ids_<space> tables and the methods
   get_info, get_all, count, set_id, del_id, get_id, cleanup.
   Every method is a short fixed sequence of SQL statements; each sqlite write transaction (or autocommit
   statement) is one atomic step of the model.  The code's nondeterminism — which matching row fetchone()
   returns, secrets.choice among the free ids, sqlite's order among equal atimes, the ids gen_random_id draws —
   is made explicit as a [choice] argument: the functions are deterministic given the choice, the theorems
   quantify over ALL choices, and the correspondence harness infers the choice from what it observes.
   Descriptions are opaque tokens (N); atimes are Z (microseconds; the code compares ISO strings whose order is
   time order). *)
From Coq Require Import ZArith NArith List Bool.
From Tup Require Import Lib.IdSpaceTy Gen.IdSpaceGen Gen.IdManagerGen Model.IdSpace.
Import ListNotations.
Open Scope N_scope.

Record irow := { iid : N; idesc : N; iatime : Z }.
Definition db := space -> list irow.

Definition upd_tbl (d : db) (sp : space) (l : list irow) : db := fun s => if space_eqb s sp then l else d s.
Definition in_range (sp : space) (sub : subspace) (r : irow) : bool := sql_filter sp sub (iid r).

(* SELECT ... WHERE (id & ?) BETWEEN ? AND ? *)
Definition rows_in (d : db) (sp : space) (sub : subspace) : list irow := filter (in_range sp sub) (d sp).
Definition has_id (l : list irow) (id : N) : bool := existsb (fun r => iid r =? id) l.
Definition find_id (l : list irow) (id : N) : option irow := find (fun r => iid r =? id) l.

(* INSERT ... ON CONFLICT(id) DO UPDATE SET description, atime  — into ONE table *)
Definition upsert (l : list irow) (r : irow) : list irow :=
  if has_id l (iid r) then map (fun x => if iid x =? iid r then r else x) l else l ++ [r].

(* set_id: the table is the one of from_id(id); an id outside 1..2^32-1 raises ValueError *)
Definition set_id (d : db) (id desc : N) (t : Z) : option db :=
  match from_id id with
  | None => None
  | Some sp => Some (upd_tbl d sp (upsert (d sp) {| iid := id; idesc := desc; iatime := t |}))
  end.

Definition del_id (d : db) (id : N) : option db :=
  match from_id id with
  | None => None
  | Some sp => Some (upd_tbl d sp (filter (fun r => negb (iid r =? id)) (d sp)))
  end.

Definition get_info (d : db) (id : N) : option (option irow) :=
  match from_id id with None => None | Some sp => Some (find_id (d sp) id) end.

Definition count (d : db) (sp : space) (sub : subspace) : N := N.of_nat (length (rows_in d sp sub)).

(* --- the choice made by the environment *)
Record choice := {
  hit_pick : N;        (* which of the rows matching the description fetchone() returned (its id) *)
  free_pick : N;       (* which free id secrets.choice returned *)
  tie : N -> N         (* sqlite's order among rows with equal atime: smaller first *)
}.

(* ORDER BY atime ASC, ties broken by the choice *)
Definition older (ch : choice) (a b : irow) : bool :=
  (iatime a <? iatime b)%Z || ((iatime a =? iatime b)%Z && (tie ch (iid a) <=? tie ch (iid b))).
Fixpoint insert_sorted (ch : choice) (r : irow) (l : list irow) : list irow :=
  match l with
  | [] => [r]
  | x :: rest => if older ch r x then r :: x :: rest else x :: insert_sorted ch r rest
  end.
Definition sort_by_age (ch : choice) (l : list irow) : list irow := fold_right (insert_sorted ch) [] l.

(* cleanup: DELETE ... WHERE id IN (SELECT id ... ORDER BY atime ASC LIMIT MAX(COUNT( * ) - max, 0)) *)
Definition cleanup (d : db) (sp : space) (sub : subspace) (max_ids : Z) (ch : choice) : db :=
  let rows := rows_in d sp sub in
  let n := Z.to_nat (Z.max (Z.of_nat (length rows) - max_ids) 0) in
  let victims := firstn n (sort_by_age ch rows) in
  upd_tbl d sp (filter (fun r => negb (has_id victims (iid r))) (d sp)).

Inductive get_result := GotId (id : N) | GetFailed (* RuntimeError *) | GetStuck (* the choice does not fit *).

(* one sampling transaction: up to [sample_tries] ids, the first one absent from table sp is inserted *)
Fixpoint first_free (l : list irow) (samples : list N) (tries : nat) : option N * list N :=
  match tries, samples with
  | O, _ => (None, samples)
  | S k, [] => (None, [])
  | S k, s :: rest => if has_id l s then first_free l rest k else (Some s, rest)
  end.

(* min(int(size * frac), max_ids) with frac = num/den *)
Definition cleanup_target (size : N) (frac : N * N) (max_ids : Z) : Z :=
  Z.min (Z.of_N (size * fst frac / snd frac)) max_ids.

Fixpoint sample_rounds (d : db) (desc : N) (sp : space) (sub : subspace) (now : Z) (size : N) (max_ids : Z)
         (samples : list N) (fracs : list (option (N * N))) (ch : choice) : get_result * db :=
  match fracs with
  | [] => (GetFailed, d)
  | f :: more =>
      match first_free (d sp) samples sample_tries with
      | (Some id, _) =>
          match set_id d id desc now with Some d' => (GotId id, d') | None => (GetStuck, d) end
      | (None, rest) =>
          match f with
          | None => (GetFailed, d)                       (* frac == 0: break *)
          | Some fr => sample_rounds (cleanup d sp sub (cleanup_target size fr max_ids) ch) desc sp sub now size max_ids rest more ch
          end
      end
  end.

Definition get_id (d : db) (desc : N) (sp : space) (sub : subspace) (now : Z) (max_ids : Z)
           (samples : list N) (ch : choice) : get_result * db :=
  let rows := rows_in d sp sub in
  let hits := filter (fun r => idesc r =? desc) rows in
  match hits with
  | _ :: _ =>
      (* UPDATE atime of the row fetchone() returned *)
      if has_id hits (hit_pick ch)
      then (GotId (hit_pick ch), upd_tbl d sp (map (fun x => if iid x =? hit_pick ch then {| iid := iid x; idesc := idesc x; iatime := now |} else x) (d sp)))
      else (GetStuck, d)
  | [] =>
      let size := subspace_size sp sub in
      if (Z.of_N size <=? Z.min enumerate_limit max_ids)%Z then
        if (size <=? N.of_nat (length rows)) then
          (* full: SELECT id ... ORDER BY atime ASC LIMIT 1, then set_id *)
          match sort_by_age ch rows with
          | v :: _ => match set_id d (iid v) desc now with Some d' => (GotId (iid v), d') | None => (GetStuck, d) end
          | [] => (GetStuck, d)     (* size >= 1: not reachable *)
          end
        else
          let free := filter (fun i => negb (has_id rows i)) (all_ids sp sub) in
          (* available_ids.remove(row_id) raises KeyError for a row that is not a member: not reachable when WF *)
          if negb (forallb (fun r => existsb (N.eqb (iid r)) (all_ids sp sub)) rows) then (GetStuck, d)
          else match free with
               | _ :: _ =>
                   if existsb (N.eqb (free_pick ch)) free
                   then match set_id d (free_pick ch) desc now with Some d' => (GotId (free_pick ch), d') | None => (GetStuck, d) end
                   else (GetStuck, d)
               | [] =>
                   match sort_by_age ch rows with
                   | v :: _ => match set_id d (iid v) desc now with Some d' => (GotId (iid v), d') | None => (GetStuck, d) end
                   | [] => (GetStuck, d)
                   end
               end
      else sample_rounds d desc sp sub now size max_ids samples cleanup_fracs ch
  end.

(* get_all(space, subspace): rows in range, most recent first (ties in the order of the choice) *)
Definition get_all (d : db) (sp : space) (sub : subspace) (ch : choice) : list irow := rev (sort_by_age ch (rows_in d sp sub)).
