(* Model/UploadModel.v — the `upload` table of id_manager.py and the methods that use it
   (get_upload_info :691, needs_uploading :741 + UploadInfo.needs_uploading :351, mark_uploaded :765,
   cleanup_uploads :797).  Descriptions and terminal names are opaque tokens (N); sizes and times are Z
   (times: microseconds; the code stores ISO strings whose order is time order).  The id tables enter only
   through [cur : id -> option description] (get_info). *)
From Coq Require Import ZArith NArith List Bool.
Import ListNotations.
Open Scope Z_scope.

Record urow := { rid : N; rterm : N; rdesc : N; rsize : Z; rtime : Z }.
Definition utable := list urow.

Definition same_key (id t : N) (x : urow) : bool := (rid x =? id)%N && (rterm x =? t)%N.
(* SELECT ... WHERE id=? AND terminal=?   (PRIMARY KEY (id, terminal): at most one row) *)
Definition find_row (up : utable) (id t : N) : option urow := find (same_key id t) up.
(* SELECT COUNT( * ), SUM(size) FROM upload WHERE terminal = ? AND upload_time > ? *)
Definition newer (up : utable) (t : N) (time : Z) : utable := filter (fun x => (rterm x =? t)%N && (time <? rtime x)) up.
Fixpoint total (s : utable) : Z := match s with [] => 0 | x :: r => rsize x + total r end.
Definition uploads_ago (up : utable) (r : urow) : Z := 1 + Z.of_nat (length (newer up (rterm r) (rtime r))).
Definition bytes_ago (up : utable) (r : urow) : Z := rsize r + total (newer up (rterm r) (rtime r)).

(* UploadInfo.needs_uploading *)
Definition expired (up : utable) (r : urow) (now Nmax Bmax Tmax : Z) : bool :=
  (Bmax <? bytes_ago up r) || (Nmax <? uploads_ago up r) || (Tmax <? now - rtime r).

(* IDManager.needs_uploading *)
Definition needs_uploading (cur : N -> option N) (up : utable) (id t : N) (now Nmax Bmax Tmax : Z) : bool :=
  match cur id with
  | None => false
  | Some d => match find_row up id t with
              | None => true
              | Some r => negb (rdesc r =? d)%N || expired up r now Nmax Bmax Tmax
              end
  end.

(* IDManager.mark_uploaded: no-op for an unassigned id, else upsert on (id, terminal) with the CURRENT description *)
Definition mark_uploaded (cur : N -> option N) (up : utable) (id t : N) (size time : Z) : utable :=
  match cur id with
  | None => up
  | Some d => {| rid := id; rterm := t; rdesc := d; rsize := size; rtime := time |}
              :: filter (fun x => negb (same_key id t x)) up
  end.

(* IDManager.cleanup_uploads(n): keep the n most recent rows (all terminals together).  With pairwise distinct
   times that is: keep a row iff fewer than n rows are strictly newer. *)
Definition cleanup_uploads (up : utable) (n : Z) : utable :=
  filter (fun x => Z.of_nat (length (filter (fun y => rtime x <? rtime y) up)) <? n) up.

(* what get_upload_info returns, for the correspondence run *)
Definition upload_info (up : utable) (id t : N) : option (N * Z * Z * Z * Z) :=
  match find_row up id t with
  | None => None
  | Some r => Some (rdesc r, rtime r, rsize r, bytes_ago up r, uploads_ago up r)
  end.
