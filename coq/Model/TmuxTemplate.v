(* Model/TmuxTemplate.v — graphics_terminal.py:273-277 (get_graphics_command_template),
   graphics_command.py to_bytes (template % content), and the two tmux detection sites.
   All byte literals come from Gen/TmuxGen.v, i.e. from the current source. *)
From Coq Require Import NArith List Bool.
From Tup Require Import Lib.ByteStr Lib.PyFmt Gen.TmuxGen.
Import ListNotations.
Open Scope N_scope.

(* one iteration of the loop body:
     template = b"\033Ptmux;%b\033\\" % template.replace(b"\033", b"\033\033")   *)
Definition layer (t : list N) : option (list N) :=
  pyfmt tmux_wrapper (replace1 esc_from esc_to t).

Fixpoint template (n : nat) : option (list N) :=
  match n with
  | O => Some base_template
  | S k => match template k with Some t => layer t | None => None end
  end.

(* GraphicsCommand.to_bytes / send: template % content *)
Definition emit (n : nat) (content : list N) : option (list N) :=
  match template n with Some t => pyfmt t content | None => None end.

(* detection: os.environ.get("TMUX") and ("screen" in term or "tmux" in term) *)
Definition detect_with (needles : list (list N)) (tmux_env : option (list N)) (term : list N) : bool :=
  match tmux_env with
  | None => false
  | Some [] => false
  | Some _ => existsb (fun nd => contains_sub nd term) needles
  end.
(* GraphicsTerminal.detect_tmux: layers := max 1 layers, or 0 *)
Definition detect_terminal (tmux_env : option (list N)) (term : list N) (layers : nat) : nat :=
  if detect_with detect_needles_terminal tmux_env term then Nat.max 1 layers else 0%nat.
(* TupimageTerminal.__init__ with num_tmux_layers = "auto" *)
Definition detect_highlevel (tmux_env : option (list N)) (term : list N) : nat :=
  if detect_with detect_needles_highlevel tmux_env term then 1%nat else 0%nat.

(* ------------------------------------------------------------------ re-configuration of a live high-level terminal
   The layer count lives in two places: the configuration of the TupimageTerminal (what `t.num_tmux_layers` reads back)
   and the GraphicsTerminal `t.term` that wraps the commands.  `t.num_tmux_layers = v` is [SetLayers] / [SetAuto];
   [propagates] says whether the setter also writes the GraphicsTerminal (Gen.highlevel_setter_propagates: repair of
   F-C11a; the pinned tree's setter changed the configuration only; its "auto" stayed the string "auto", modelled as
   an unchanged count since nothing downstream reads it). *)
Record hl := { cfg_layers : nat; term_layers : nat }.
Inductive reconf :=
| SetLayers (n : nat)
| SetAuto (tmux_env : option (list N)) (term : list N).
Definition hl_step (propagates : bool) (s : hl) (op : reconf) : hl :=
  match op with
  | SetLayers n => {| cfg_layers := n; term_layers := if propagates then n else term_layers s |}
  | SetAuto env term =>
      if propagates then let n := detect_terminal env term 0 in {| cfg_layers := n; term_layers := n |}
      else s
  end.
Definition hl_run (propagates : bool) (s : hl) (ops : list reconf) : hl := fold_left (hl_step propagates) ops s.
(* what the terminal emits for a command: wrapped with the GraphicsTerminal's count *)
Definition hl_emit (s : hl) (content : list N) : option (list N) := emit (term_layers s) content.
