(* Model/UploadFlow.v — TupimageTerminal.upload for an image instance whose id is already assigned
   (tupimage_terminal.py upload(): decision, forget, _upload -> send_command -> GraphicsCommand.send, mark_uploaded),
   as a trace-producing program over the command stream with a fault oracle.
   The writes [ws] (one per escape; computed by Model/SendModel.v, property C05) are a parameter. *)
From Coq Require Import ZArith NArith List Bool.
From Tup Require Import Model.UploadModel Gen.UploadFlowGen.
Import ListNotations.
Open Scope Z_scope.

Inductive io := Flush | Write (w : list N).

(* GraphicsCommand.send: out.flush(); then for each chunk: out.write(...); out.flush() *)
Definition send_actions (ws : list (list N)) : list io := Flush :: flat_map (fun w => [Write w; Flush]) ws.

(* run the actions against a stream whose [fail]-th call (0-based, writes and flushes counted together) raises
   OSError — or at which the process dies; None = no fault.  Returns the calls that completed, and success. *)
Fixpoint exec (acts : list io) (fail : option nat) : list io * bool :=
  match acts with
  | [] => ([], true)
  | a :: r =>
      match fail with
      | Some O => ([], false)
      | Some (S j) => let '(t, ok) := exec r (Some j) in (a :: t, ok)
      | None => let '(t, ok) := exec r None in (a :: t, ok)
      end
  end.

(* IDManager.unmark_uploaded: DELETE FROM upload WHERE id=? AND terminal=? *)
Definition unmark_uploaded (up : utable) (id t : N) : utable := filter (fun x => negb (same_key id t x)) up.

Inductive outcome := Skipped | Uploaded | Failed.

Record request := {
  q_id : N; q_term : N; q_force : bool;
  q_size : Z;                  (* what _upload returns: size of the file / PNG stream *)
  q_now : Z;                   (* clock read by needs_uploading *)
  q_mark_time : Z;             (* clock read by mark_uploaded *)
  q_nmax : Z; q_bmax : Z; q_tmax : Z }.

Definition upload (cur : N -> option N) (up : utable) (q : request) (ws : list (list N)) (fail : option nat)
  : outcome * utable * list io :=
  if q_force q || needs_uploading cur up (q_id q) (q_term q) (q_now q) (q_nmax q) (q_bmax q) (q_tmax q) then
    let up1 := if upload_unmarks_first then unmark_uploaded up (q_id q) (q_term q) else up in
    let '(done, ok) := exec (send_actions ws) fail in
    if ok then (Uploaded, mark_uploaded cur up1 (q_id q) (q_term q) (q_size q) (q_mark_time q), done)
    else (Failed, up1, done)
  else (Skipped, up, []).

(* the bytes that reached the stream *)
Fixpoint written (l : list io) : list (list N) :=
  match l with [] => [] | Write w :: r => w :: written r | Flush :: r => written r end.
