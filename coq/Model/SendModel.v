(* Model/SendModel.v — GraphicsCommand.send and TransmitCommand.split (graphics_command.py:161-205, 309-334).
   A seekable stream is its contents; read(n) returns min n remaining bytes. *)
From Coq Require Import ZArith NArith List Bool.
From Tup Require Import Lib.ByteStr Lib.Dec Lib.Base64 Lib.SplitJoin Lib.PyFmt Lib.CommandTypes Gen.CommandGen Model.GraphicsCommand.
Import ListNotations.

Definition with_data_more (c : transmit) (d : list N) (m : option bool) : transmit :=
  {| t_image_id := t_image_id c; t_image_number := t_image_number c; t_medium := t_medium c; t_data := d;
     t_size := t_size c; t_offset := t_offset c; t_quiet := t_quiet c; t_more := m; t_format := t_format c;
     t_compression := t_compression c; t_pix_width := t_pix_width c; t_pix_height := t_pix_height c;
     t_query := t_query c; t_placement := t_placement c; t_omit_action := t_omit_action c |}.

(* original_more or bool(next_chunk) *)
Definition more_flag (orig : option bool) (next : list N) : option bool :=
  match orig with
  | Some true => Some true
  | _ => Some (match next with [] => false | _ => true end)
  end.

(* the while loop: cur = next; next = read(k); yield MoreData(cur, more) — fuelled by the data length *)
Fixpoint more_chunks (fuel : nat) (k : nat) (c : transmit) (cur rest : list N) : list command :=
  match fuel with
  | O => []
  | S f =>
      match cur with
      | [] => []
      | _ =>
        let next := firstn k rest in
        CMore {| m_image_id := t_image_id c; m_image_number := t_image_number c; m_data := cur;
                 m_more := more_flag (t_more c) next |}
        :: more_chunks f k c next (skipn k rest)
      end
  end.

Definition is_split (c : transmit) : bool :=
  match t_medium c with
  | Some MDirect => true
  | None => split_when_medium_absent
  | Some _ => false
  end.

Definition split (c : transmit) (k : nat) : list command :=
  if is_split c then
    let data := t_data c in
    let cur := firstn k data in
    let rest := skipn k data in
    let next := firstn k rest in
    CTransmit (with_data_more c cur (more_flag (t_more c) next))
    :: more_chunks (S (length data)) k c next (skipn k rest)
  else [CTransmit c].

Inductive send_result :=
| SendError                              (* ValueError before anything is written *)
| SendOk (writes : list (list N)).       (* one entry per out.write call *)

Fixpoint all_some {A} (l : list (option A)) : option (list A) :=
  match l with
  | [] => Some []
  | Some x :: r => match all_some r with Some t => Some (x :: t) | None => None end
  | None :: _ => None
  end.

Definition max_payload (c : transmit) (template : list N) (max_size : Z) : Z :=
  let max_b64 := (max_size - Z.of_nat (length template) - Z.of_nat (length (header_bytes (CTransmit c))) - send_reserve)%Z in
  ((max_b64 / send_b64_quantum) * send_raw_quantum)%Z.

Definition send_cmds (c : command) (template : list N) (max_size : Z) : option (list command) :=
  match c with
  | CTransmit t =>
      let mp := max_payload t template max_size in
      if (mp <? send_min_payload)%Z then None else Some (split t (Z.to_nat mp))
  | _ => Some [c]
  end.

Definition send (c : command) (template : list N) (max_size : Z) : send_result :=
  match send_cmds c template max_size with
  | None => SendError
  | Some cmds =>
      match all_some (map (to_bytes template) cmds) with
      | Some ws => SendOk ws
      | None => SendError          (* malformed template: not reachable with the library's templates *)
      end
  end.
