(* Model/SystemModel.v — TupimageTerminal's request level (tupimage_terminal.py): assign_id, upload,
   upload_and_display, get_image_instance + upload_and_display, for images that are abstract tokens.
   Composes the id tables (Model/IdManager.get_id, set_id), the upload table (Model/UploadModel.needs_uploading,
   Model/UploadFlow.unmark_uploaded, mark_uploaded with the transmitted description), the decision table of
   _upload / _transmit_file, and display_only's choice of id, rows and cols.  What it produces per call: the new
   state and the list of events (temp file written, complete transmission, placeholder printed, exception).

   Not computed here, taken as inputs of a call (the environment's part): cols x rows of the instance (property
   C15), the size Pillow is asked to resize to when the image exceeds the limit (float sqrt/floor), the byte count
   of Pillow's PNG encoding, the clocks, get_id's random choices.  force_id=, check_response=True, abs_pos etc.
   are not modelled.  ImageInstance ids are taken to be valid ids (1..2^32-1); an invalid one raises here as it
   does in the repaired code (get_info), the unrepaired code may transmit first when force_upload is set.
   Literals and branch structure come from Gen/SystemGen.v (harness/gen_system.py) and Gen/UploadFlowGen.v. *)
From Coq Require Import ZArith NArith List Bool.
From Tup Require Import Lib.IdSpaceTy Lib.CommandTypes Lib.SystemTypes Gen.SystemGen Gen.UploadFlowGen
  Model.IdSpace Model.IdManager Model.UploadModel Model.UploadFlow.
Import ListNotations.
Open Scope N_scope.

Record opts := {
  o_term : N;                       (* self._terminal_id *)
  o_method : meth;                  (* upload_method as given / configured *)
  o_ssh : bool;                     (* self.inside_ssh *)
  o_force : bool;
  o_space : space; o_sub : subspace; o_max_ids : Z;
  o_cols : N; o_rows : N;           (* as passed or as computed by build_image_instance *)
  o_auto : bool;                    (* cols or rows not given: build_image_instance opens the image to compute them *)
  o_formats : list N;               (* get_supported_formats(), as tokens of lower-cased names *)
  o_file_max : Z; o_stream_max : Z;
  o_fit : N * N;                    (* (width, height) after max(1, floor(. * ratio)) *)
  o_enc_size : Z;                   (* f.tell() / bytesio.tell() of the encoded image *)
  o_now : Z; o_check_now : Z; o_mark_now : Z; o_nmax : Z; o_bmax : Z; o_tmax : Z;
  o_samples : list N; o_choice : choice }.

Record sys := { s_db : db; s_up : utable; s_fs : N -> option fileinfo; s_ntemp : N }.
Definition with_db (s : sys) (d : db) : sys := {| s_db := d; s_up := s_up s; s_fs := s_fs s; s_ntemp := s_ntemp s |}.
Definition init_sys : sys := {| s_db := fun _ => []; s_up := []; s_fs := fun _ => None; s_ntemp := 0 |}.

(* IDManager.get_info(id).description *)
Definition cur_of (d : db) (id : N) : option N :=
  match get_info d id with Some (Some r) => Some (idesc r) | _ => None end.

(* _get_image_path_and_mtime, in-memory branch: what the md5 covers.  The repaired code hashes
   "<mode>:<w>x<h>:" + tobytes(), the original one tobytes() only. *)
Definition key_of_gen (covers_shape : bool) (im : img) : memkey :=
  if covers_shape then (imode im, iw im, ih im, pix im) else (0, 0, 0, pix im).
Definition key_of : img -> memkey := key_of_gen digest_covers_shape.

(* ImageInstance.get_description *)
Definition descr_of (i : instance) : descr :=
  match n_src i with
  | IFile p m => DFile p m (n_cols i) (n_rows i)
  | IMem im => DMem (key_of im) (n_cols i) (n_rows i)
  | ILost k => DMem k (n_cols i) (n_rows i)
  end.
(* ImageInstance.from_description *)
Definition inst_of (d : descr) (id : N) : instance :=
  match d with
  | DFile p m c r => {| n_src := IFile p m; n_cols := c; n_rows := r; n_id := id |}
  | DMem k c r => {| n_src := ILost k; n_cols := c; n_rows := r; n_id := id |}
  end.

(* ---------------------------------------------------------------- _upload *)
(* "auto" -> DIRECT inside ssh, FILE otherwise; a string goes through TransmissionMedium.from_string *)
Definition resolve_method (m : meth) (ssh : bool) : option medium :=
  match m with
  | MethAuto => Some (if ssh then auto_ssh_medium else auto_plain_medium)
  | MethFile => Some MFile
  | MethDirect => Some MDirect
  | MethOther => None          (* "t", "s", unknown strings: ValueError *)
  end.

Definition max_upload_size (o : opts) (um : medium) : Z :=
  match um with MDirect => o_stream_max o | _ => o_file_max o end.

Definition supported (o : opts) (fmt : N) : bool := existsb (N.eqb fmt) (o_formats o).

(* image_bytes > max_upload_size with image_bytes = width * height * (bits / 8); mode token 0 = "RGB" *)
Definition over_limit (im : img) (maxsz : Z) : bool :=
  (8 * maxsz <? Z.of_N (iw im * ih im) * (if (imode im =? 0)%N then rgb_bits else other_bits))%Z.

Definition mk_tx (straight : bool) (o : opts) (i : instance) (m : medium) (p : payload) : tx :=
  {| x_term := o_term o; x_id := n_id i; x_medium := m; x_payload := p;
     x_rows := if straight then n_rows i else n_cols i;
     x_cols := if straight then n_cols i else n_rows i |}.

(* _transmit_file(filename, inst, upload_method); [own] = what open(inst.path) gives (None: it raises) *)
Definition transmit_file (o : opts) (i : instance) (name : fpath) (um : medium) (own : option content) : option (list event) :=
  match um with
  | MFile | MTemp => Some [ETx (mk_tx byname_rows_cols_straight o i um (PName name))]
  | MDirect => match own with
               | Some c => Some [ETx (mk_tx byname_rows_cols_straight o i inline_medium (PData c))]
               | None => None
               end
  | MShm => Some []
  end.

Inductive up_result := UpOk (evs : list event) (size : Z) (ntemp : N) | UpRaise (evs : list event) (ntemp : N).

(* the part of _upload after the "own file as it is" branch: resize if over the limit, then temp file or inline *)
Definition convert (s : sys) (o : opts) (i : instance) (um : medium) (im : img) (own : option content) : up_result :=
  let c := if over_limit im (max_upload_size o um)
           then {| c_img := im; c_w := fst (o_fit o); c_h := snd (o_fit o) |} else whole im in
  match um with
  | MFile =>
      let k := s_ntemp s in
      match transmit_file o i (TempPath k) temp_file_medium own with
      | Some evs => UpOk (EMkTemp k c :: evs) (o_enc_size o) (k + 1)
      | None => UpRaise [EMkTemp k c] (k + 1)
      end
  | MDirect => UpOk [ETx (mk_tx inline_rows_cols_straight o i inline_medium (PData c))] (o_enc_size o) (s_ntemp s)
  | _ => UpRaise [] (s_ntemp s)
  end.

Definition upload_by (s : sys) (o : opts) (i : instance) (um : medium) : up_result :=
  match n_src i with
  | IMem im => convert s o i um im None
  | ILost _ => UpRaise [] (s_ntemp s)                      (* is_file_available() is false *)
  | IFile p m =>
      match s_fs s p with
      | Some fi =>
          if (f_mtime fi =? m)%Z then
            if supported o (f_fmt fi) && (f_size fi <=? max_upload_size o um)%Z
            then match transmit_file o i (UserPath p) (user_file_medium um) (Some (whole (f_img fi))) with
                 | Some evs => UpOk evs (f_size fi) (s_ntemp s)
                 | None => UpRaise [] (s_ntemp s)
                 end
            else convert s o i um (f_img fi) (Some (whole (f_img fi)))
          else UpRaise [] (s_ntemp s)
      | None => UpRaise [] (s_ntemp s)
      end
  end.

Definition do_upload (s : sys) (o : opts) (i : instance) : up_result :=
  match resolve_method (o_method o) (o_ssh o) with
  | Some MFile => upload_by s o i MFile
  | Some MDirect => upload_by s o i MDirect
  | _ => UpRaise [] (s_ntemp s)                               (* ValueError: unsupported upload method *)
  end.

(* IDManager.mark_uploaded(id, terminal, size=, description=d): no-op for an unassigned id *)
Definition mark_described (cur : N -> option N) (up : utable) (id t d : N) (size time : Z) : utable :=
  match cur id with
  | None => up
  | Some _ => {| rid := id; rterm := t; rdesc := d; rsize := size; rtime := time |}
              :: filter (fun x => negb (same_key id t x)) up
  end.

(* the tail of upload(): decision, forget, transmit, record.  Returns (state, events, completed without raising) *)
Definition upload_tail (cd : codec) (s : sys) (o : opts) (i : instance) : sys * list event * bool :=
  let cur := cur_of (s_db s) in
  let id := n_id i in
  let t := o_term o in
  if o_force o || needs_uploading cur (s_up s) id t (o_check_now o) (o_nmax o) (o_bmax o) (o_tmax o) then
    let up1 := if upload_unmarks_first then unmark_uploaded (s_up s) id t else s_up s in
    match do_upload s o i with
    | UpOk evs size nt =>
        let up2 := if mark_records_transmitted
                   then mark_described cur up1 id t (enc cd (descr_of i)) size (o_mark_now o)
                   else mark_uploaded cur up1 id t size (o_mark_now o) in
        ({| s_db := s_db s; s_up := up2; s_fs := s_fs s; s_ntemp := nt |}, evs, true)
    | UpRaise evs nt =>
        ({| s_db := s_db s; s_up := up1; s_fs := s_fs s; s_ntemp := nt |}, evs ++ [ERaise], false)
    end
  else (s, [], true).

(* display_only(inst): the placeholder of inst.id with inst.cols x inst.rows *)
Definition print_event (o : opts) (i : instance) : event :=
  EPrint (o_term o) (n_id i)
         (if print_rows_cols_straight then n_rows i else n_cols i)
         (if print_rows_cols_straight then n_cols i else n_rows i).

Inductive action := AAssign | AUpload | AUploadDisplay.

Definition finish (a : action) (o : opts) (i : instance) (r : sys * list event * bool) : sys * list event :=
  let '(s', evs, ok) := r in
  match a with
  | AUploadDisplay => if ok then (s', evs ++ [print_event o i]) else (s', evs)
  | _ => (s', evs)
  end.

(* upload(ImageInstance): the repaired code binds the id to the instance's description again when it is bound to
   something else or to nothing (rebind = true); the original code goes straight to the decision *)
Definition rebind_step (rebind : bool) (cd : codec) (s : sys) (o : opts) (i : instance) : option sys :=
  if rebind then
    match cur_of (s_db s) (n_id i) with
    | Some dn => if dn =? enc cd (descr_of i) then Some s
                 else option_map (with_db s) (set_id (s_db s) (n_id i) (enc cd (descr_of i)) (o_now o))
    | None => option_map (with_db s) (set_id (s_db s) (n_id i) (enc cd (descr_of i)) (o_now o))
    end
  else Some s.

Definition call_inst (rebind : bool) (cd : codec) (s : sys) (a : action) (o : opts) (i : instance) : sys * list event :=
  match a with
  | AAssign => (s, [ERaise])                     (* assign_id takes an image or a file name *)
  | _ =>
      match from_id (n_id i) with
      | None => (s, [ERaise])
      | Some _ =>
          match rebind_step rebind cd s o i with
          | Some s1 => finish a o i (upload_tail cd s1 o i)
          | None => (s, [ERaise])
          end
      end
  end.

Inductive request :=
| RWrite (p : N) (fi : option fileinfo)          (* the user writes / replaces / deletes a file *)
| RCall (a : action) (subj : subject) (o : opts).

Definition step_gen (rebind : bool) (cd : codec) (s : sys) (r : request) : sys * list event :=
  match r with
  | RWrite p fi =>
      ({| s_db := s_db s; s_up := s_up s; s_fs := fun q => if q =? p then fi else s_fs s q; s_ntemp := s_ntemp s |}, [])
  | RCall a subj o =>
      match subj with
      | SImg src =>
          (* build_image_instance + get_description + get_id *)
          let isrc := match src with
                      | SMem im => IMem im
                      | SFile p => match s_fs s p with Some fi => IFile p (f_mtime fi) | None => IFile p 0%Z end
                      end in
          let i0 := {| n_src := isrc; n_cols := o_cols o; n_rows := o_rows o; n_id := 0 |} in
          if o_auto o && match src with SFile p => match s_fs s p with None => true | Some _ => false end | SMem _ => false end
          then (s, [ERaise])                 (* Image.open(path) raises FileNotFoundError before any id is assigned *)
          else
          match get_id (s_db s) (enc cd (descr_of i0)) (o_space o) (o_sub o) (o_now o) (o_max_ids o) (o_samples o) (o_choice o) with
          | (GotId id, d') =>
              let i := {| n_src := isrc; n_cols := o_cols o; n_rows := o_rows o; n_id := id |} in
              match a with
              | AAssign => (with_db s d', [])
              | _ => finish a o i (upload_tail cd (with_db s d') o i)
              end
          | (_, d') => (with_db s d', [ERaise])
          end
      | SInst i => call_inst rebind cd s a o i
      | SId id =>
          (* get_image_instance(id), then upload_and_display(inst) as the CLI does *)
          match cur_of (s_db s) id with
          | Some dn => match dec cd dn with
                       | Some d => call_inst rebind cd s a o (inst_of d id)
                       | None => (s, [ERaise])
                       end
          | None => (s, [ERaise])
          end
      end
  end.

Definition step : codec -> sys -> request -> sys * list event := step_gen upload_rebinds_stale_instance.

(* a history: all events, call by call *)
Fixpoint run_gen (rebind : bool) (cd : codec) (s : sys) (h : list request) : sys * list (list event) :=
  match h with
  | [] => (s, [])
  | r :: h' => let '(s1, evs) := step_gen rebind cd s r in
               let '(s2, rest) := run_gen rebind cd s1 h' in (s2, evs :: rest)
  end.

(* the TransmitCommand object behind a transmission event (what Model/GraphicsCommand.v serialises: C06, C05) *)
Definition command_of (x : tx) (name_or_data : list N) : transmit :=
  {| t_image_id := Some (x_id x); t_image_number := None; t_medium := Some (x_medium x); t_data := name_or_data;
     t_size := None; t_offset := None; t_quiet := Some tx_quiet; t_more := None; t_format := Some tx_format;
     t_compression := None; t_pix_width := None; t_pix_height := None; t_query := None;
     t_placement := Some {| p_placement_id := None; p_virtual := Some tx_virtual; p_rows := Some (x_rows x);
                            p_cols := Some (x_cols x); p_do_not_move_cursor := None; p_src_x := None; p_src_y := None;
                            p_src_w := None; p_src_h := None |};
     t_omit_action := false |}.
