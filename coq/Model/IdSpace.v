(* Model/IdSpace.v — executable transcription of tupimage/id_manager.py, classes IDSubspace
   (lines 11-103) and IDSpace (lines 106-331), and of the SQL range filter
   `(id & ?) BETWEEN ? AND ?` fed with (subspace_byte_mask, begin, end - 1) by IDManager.

   Integer literals come from Gen/IdSpaceGen.v, i.e. from the current source (harness/gen_idspace.py
   also checks the shape of every method).  No proofs here (Proofs/IdSpaceFacts.v ...).

   Conventions.  IDs, bytes and subspace bounds are N (Python ints that are never negative once the
   constructors have accepted them); a subspace is the pair (begin, end).  A Python exception is
   [None] (ValueError unless said otherwise).  `secrets.randbelow` is modelled by an explicit list of
   draws, see [rnd].  A space is one of the five constructors of Lib/IdSpaceTy.v; [mk_space] is the
   dataclass constructor IDSpace(color_bits, use_3rd_diacritic) with its __post_init__. *)
From Coq Require Import ZArith NArith List Bool.
From Tup Require Import Lib.ByteStr Lib.Dec Lib.IdSpaceTy Gen.IdSpaceGen.
Import ListNotations.
Open Scope N_scope.

(* ------------------------------------------------------------------ Python range() *)
Fixpoint nrange (a : N) (n : nat) : list N :=
  match n with O => [] | S k => a :: nrange (a + 1) k end.
(* range(a, b) *)
Definition range (a b : N) : list N := nrange a (N.to_nat (b - a)).
(* range(start, stop, step) for step > 0; fuel = stop - start always suffices *)
Fixpoint range_step (fuel : nat) (start stop step : Z) : list Z :=
  match fuel with
  | O => []
  | S f => if (start <? stop)%Z then start :: range_step f (start + step)%Z stop step else []
  end.

(* ------------------------------------------------------------------ IDSubspace *)
Definition subspace : Set := (N * N)%type.          (* (begin, end) *)
Definition sub_begin (s : subspace) : N := fst s.
Definition sub_end (s : subspace) : N := snd s.

(* IDSubspace(begin, end) with __post_init__ (lines 28-32); arguments are arbitrary Python ints *)
Definition mk_subspace (b e : Z) : option subspace :=
  if negb ((Z.of_N sub_min <=? b) && (b <? e) && (e <=? Z.of_N sub_max))%Z then None
  else if (e =? Z.of_N sub_bad_end)%Z then None
  else Some (Z.to_N b, Z.to_N e).
Definition valid_subspace (s : subspace) : bool :=
  match mk_subspace (Z.of_N (sub_begin s)) (Z.of_N (sub_end s)) with Some _ => true | None => false end.
(* IDSubspace() *)
Definition default_subspace : subspace := (sub_default_begin, sub_default_end).

Definition num_byte_values (s : subspace) : N := sub_end s - sub_begin s.
Definition num_nonzero_byte_values (s : subspace) : N :=
  if sub_begin s <=? 0 then sub_end s - 1 else sub_end s - sub_begin s.
Definition all_byte_values (s : subspace) : list N := range (sub_begin s) (sub_end s).
Definition all_nonzero_byte_values (s : subspace) : list N :=
  if sub_begin s <=? 0 then range 1 (sub_end s) else range (sub_begin s) (sub_end s).
Definition contains_byte (s : subspace) (b : N) : bool := (sub_begin s <=? b) && (b <? sub_end s).

(* ---- split (lines 86-103) *)
Inductive split_result : Set :=
| SplitOk (parts : list subspace)
| SplitValueError
| SplitIndexError.    (* subspaces[0] on an empty list; shown unreachable *)

Fixpoint mk_subspaces (begins : list Z) (size : Z) : option (list subspace) :=
  match begins with
  | [] => Some []
  | b :: r =>
      match mk_subspace b (b + size) with
      | None => None
      | Some s => match mk_subspaces r size with None => None | Some l => Some (s :: l) end
      end
  end.

Definition split (s : subspace) (count : Z) : split_result :=
  if (count <=? 0)%Z then SplitValueError
  else if (count =? 1)%Z then SplitOk [s]
  else if (Z.of_N (num_nonzero_byte_values s) <? count)%Z then SplitValueError
  else
    let size := (Z.of_N (num_nonzero_byte_values s) / count)%Z in
    let remainder := (Z.of_N (num_byte_values s) - size * count)%Z in
    if (size =? 0)%Z then SplitValueError      (* range() arg 3 must not be zero *)
    else
      let start := (Z.of_N (sub_begin s) + remainder)%Z in
      let stop := Z.of_N (sub_end s) in
      match mk_subspaces (range_step (Z.to_nat (stop - start)) start stop size) size with
      | None => SplitValueError
      | Some [] => SplitIndexError
      | Some (s0 :: rest) =>
          match mk_subspace (Z.of_N (sub_begin s)) (Z.of_N (sub_end s0)) with
          | None => SplitValueError
          | Some s0' => SplitOk (s0' :: rest)
          end
      end.

(* ---- strings: __str__ (line 35) and from_string (lines 38-50) *)
Definition sub_to_string (s : subspace) : list N := dec (sub_begin s) ++ [58] ++ dec (sub_end s).

(* int(str) for ASCII text: surrounding whitespace, an optional sign, decimal digits with single
   underscores between digits.  (Non-ASCII digits/whitespace are outside the model; the harness
   only feeds ASCII.) *)
Definition is_space (c : N) : bool := (c =? 32) || ((9 <=? c) && (c <=? 13)).   (* Py_ISSPACE; an ASCII str is not normalised first *)
Fixpoint lstrip (l : list N) : list N :=
  match l with c :: r => if is_space c then lstrip r else l | [] => [] end.
Definition strip (l : list N) : list N := rev (lstrip (rev (lstrip l))).
Definition is_digit (c : N) : bool := (48 <=? c) && (c <=? 57).
Fixpoint digits_us (l : list N) (acc : Z) (prev_digit : bool) : option Z :=
  match l with
  | [] => if prev_digit then Some acc else None
  | c :: r =>
      if is_digit c then digits_us r (acc * 10 + Z.of_N (c - 48))%Z true
      else if (c =? 95) && prev_digit then digits_us r acc false
      else None
  end.
Definition py_int (l : list N) : option Z :=
  match strip l with
  | [] => None
  | c :: r =>
      if c =? 45 then match digits_us r 0%Z false with Some z => Some (- z)%Z | None => None end
      else if c =? 43 then digits_us r 0%Z false
      else digits_us (c :: r) 0%Z false
  end.
(* s.split(sep) for a one-character separator *)
Fixpoint split_on (sep : N) (l : list N) : list (list N) :=
  match l with
  | [] => [[]]
  | c :: r =>
      if c =? sep then [] :: split_on sep r
      else match split_on sep r with
           | w :: ws => (c :: w) :: ws
           | [] => [[c]]
           end
  end.
Definition sub_from_string (s : list N) : option subspace :=
  match s with
  | [] => Some default_subspace
  | _ =>
      match split_on 58 s with
      | [sb; se] =>
          match py_int sb, py_int se with
          | Some b, Some e => mk_subspace b e
          | _, _ => None
          end
      | _ => None
      end
  end.

(* ------------------------------------------------------------------ IDSpace *)
Definition color_bits (sp : space) : N :=
  match sp with Sp8d => 0 | Sp16 | Sp8 => 8 | Sp32 | Sp24 => 24 end.
Definition use_3rd (sp : space) : bool :=
  match sp with Sp8d | Sp16 | Sp32 => true | Sp8 | Sp24 => false end.

(* IDSpace(color_bits, use_3rd_diacritic) with __post_init__ (lines 128-138).  The last three tests
   only name the accepted pair; a colour depth that __post_init__ accepts but that is not one of
   0/8/24 has no constructor and is an error here (it would make all_spaces_src fail). *)
Definition mk_space (cb : N) (d : bool) : option space :=
  if (cb =? 0) && negb d then None
  else if negb (existsb (N.eqb cb) [valid_cb_a; valid_cb_b; valid_cb_c]) then None
  else if cb =? 0 then Some Sp8d
  else if cb =? 8 then Some (if d then Sp16 else Sp8)
  else if cb =? 24 then Some (if d then Sp32 else Sp24)
  else None.

(* all_values (lines 324-331), same order *)
Definition all_spaces : list space :=
  flat_map (fun d =>
    flat_map (fun cb =>
      if (cb =? 0) && negb d then []
      else match mk_space cb d with Some sp => [sp] | None => [] end)
    [av_cb_a; av_cb_b; av_cb_c])
  [true; false].

(* from_id (lines 161-173) *)
Definition from_id (id : N) : option space :=
  if (id <=? 0) || (fid_max <? id) then None
  else
    let use_3rd_diacritic := negb (N.land id fid_mask3 =? 0) in
    let color_bits :=
      if negb (N.land id fid_mask012 =? 0) then
        if negb (N.land id fid_mask12 =? 0) then fid_cb24 else fid_cb8
      else fid_cb0 in
    mk_space color_bits use_3rd_diacritic.
(* the same for an arbitrary Python int (negative: `id <= 0`) *)
Definition from_id_z (id : Z) : option space :=
  if (id <=? 0)%Z then None else from_id (Z.to_N id).

Definition num_nonzero_bits (sp : space) : N :=
  (if use_3rd sp then nzb_3rd else 0) + color_bits sp.

(* __str__ (lines 140-144), namespace_name (lines 179-185) *)
Definition str_8bit_diacritic : list N := [56; 98; 105; 116; 95; 100; 105; 97; 99; 114; 105; 116; 105; 99].
Definition str_bit : list N := [98; 105; 116].
Definition str_ids_ : list N := [105; 100; 115; 95].
Definition space_to_string (sp : space) : list N :=
  let bits := num_nonzero_bits sp in
  if (bits =? 8) && use_3rd sp then str_8bit_diacritic else dec bits ++ str_bit.
Definition namespace_name (sp : space) : list N := str_ids_ ++ space_to_string sp.

(* from_string (lines 147-159): first row of the table that lists s *)
Fixpoint lookup_name (s : list N) (t : list (list (list N) * (N * bool))) : option (N * bool) :=
  match t with
  | [] => None
  | (names, v) :: r => if existsb (beq_bytes s) names then Some v else lookup_name s r
  end.
Definition space_from_string (s : list N) : option space :=
  match lookup_name s from_string_table with
  | Some (cb, d) => mk_space cb d
  | None => None
  end.

(* contains (line 188): from_id raises on an invalid id *)
Definition contains (sp : space) (id : N) : option bool :=
  match from_id id with Some sp' => Some (space_eqb sp' sp) | None => None end.

(* lines 293-316 *)
Definition subspace_byte_offset (sp : space) : N :=
  if use_3rd sp then off_3rd else if color_bits sp =? 24 then off_24 else off_else.
Definition subspace_byte_mask (sp : space) : N := N.shiftl byte_mask (subspace_byte_offset sp).
Definition subspace_masked_range (sp : space) (s : subspace) : N * N :=
  let offset := subspace_byte_offset sp in
  (N.shiftl (sub_begin s) offset, N.shiftl (sub_end s) offset).

(* contains_and_in_subspace (lines 190-194) *)
Definition contains_and_in_subspace (sp : space) (id : N) (s : subspace) : option bool :=
  let '(b, e) := subspace_masked_range sp s in
  match contains sp id with
  | None => None
  | Some c => Some (c && ((b <=? N.land id (subspace_byte_mask sp)) && (N.land id (subspace_byte_mask sp) <? e)))
  end.

(* get_subspace_byte (lines 318-322) *)
Definition get_subspace_byte (id : N) : option N :=
  match from_id id with
  | Some sp => Some (N.land (N.shiftr id (subspace_byte_offset sp)) gsb_mask)
  | None => None
  end.

(* the WHERE clause `(id & ?) BETWEEN ? AND ?` with parameters
   (id_space.subspace_byte_mask(), begin, end - 1), begin/end = subspace_masked_range(subspace) *)
Definition sql_filter (sp : space) (s : subspace) (id : N) : bool :=
  let '(b, e) := subspace_masked_range sp s in
  let x := N.land id (subspace_byte_mask sp) in
  (b <=? x) && (x <=? e - 1).

(* subspace_size (lines 268-291) *)
Definition subspace_counts (sp : space) (s : subspace) : N * N * N :=   (* (byte_3_cnt, byte_12_cnt, byte_0_cnt) *)
  if use_3rd sp then
    let c3 := num_nonzero_byte_values s in
    if color_bits sp =? 8 then (c3, 1, sz_16_b0)
    else if color_bits sp =? 24 then (c3, sz_32_b12, sz_32_b0)
    else (c3, 1, 1)
  else
    if color_bits sp =? 8 then (1, 1, num_nonzero_byte_values s)
    else if color_bits sp =? 24 then
      let c12 := num_byte_values s * sz_24_mul in
      (1, (if sub_begin s <=? 0 then c12 - sz_24_dec else c12), sz_24_b0)
    else (1, 1, 1).
Definition subspace_size (sp : space) (s : subspace) : N :=
  let '(c3, c12, c0) := subspace_counts sp s in c3 * c12 * c0.

(* all_ids (lines 239-266): the three value generators, then the triple loop *)
Definition byte3_vals (sp : space) (s : subspace) : list N :=
  if use_3rd sp then all_nonzero_byte_values s else [0].
Definition byte12_vals (sp : space) (s : subspace) : list N :=
  if use_3rd sp then
    if color_bits sp =? 8 then [0]
    else if color_bits sp =? 24 then range ai_32_b12_lo ai_32_b12_hi
    else [0]
  else
    if color_bits sp =? 8 then [0]
    else if color_bits sp =? 24 then
      flat_map (fun b2 =>
        map (fun b1 => N.lor (N.shiftl b2 ai_24_sh2) b1)
            (range (if b2 =? 0 then ai_24_b1_lo_z else ai_24_b1_lo) ai_24_b1_hi))
        (all_byte_values s)
    else [0].
Definition byte0_vals (sp : space) (s : subspace) : list N :=
  if use_3rd sp then
    if color_bits sp =? 8 then range ai_16_b0_lo ai_16_b0_hi
    else if color_bits sp =? 24 then range ai_32_b0_lo ai_32_b0_hi
    else [0]
  else
    if color_bits sp =? 8 then all_nonzero_byte_values s
    else if color_bits sp =? 24 then range ai_24_b0_lo ai_24_b0_hi
    else [0].
Definition compose_id (b3 b12 b0 : N) : N := N.lor (N.lor (N.shiftl b3 ai_sh3) (N.shiftl b12 ai_sh12)) b0.
Definition ids_loop (r3 r12 r0 : list N) : list N :=
  flat_map (fun b3 => flat_map (fun b12 => map (fun b0 => compose_id b3 b12 b0) r0) r12) r3.
Definition all_ids (sp : space) (s : subspace) : list N :=
  ids_loop (byte3_vals sp s) (byte12_vals sp s) (byte0_vals sp s).
(* a window of the enumeration that can be evaluated without building the rest (used only by the
   correspondence run on the spaces that are too big to enumerate): the i3-th value of byte_3,
   [n] values of byte_1_2 starting at index [lo], every value of byte_0.  Which slice of all_ids
   this is (offset (i3 * |byte_1_2| + lo) * |byte_0|) is computed by the harness, not proved. *)
Definition all_ids_block (sp : space) (s : subspace) (i3 lo n : nat) : list N :=
  ids_loop (firstn 1 (skipn i3 (byte3_vals sp s))) (firstn n (skipn lo (byte12_vals sp s))) (byte0_vals sp s).

(* ------------------------------------------------------------------ randomness
   A computation that calls secrets.randbelow is a function of the bounds asked so far (a log, in
   call order) and the draws still available.  randbelow n takes the next draw d; a behaviour of
   the real function always has d < n, anything else is reported, never used. *)
Inductive outcome (A : Type) : Type :=
| Done (a : A) (asked : list N) (rest : list N)
| NoDraw (asked : list N) (n : N)          (* randbelow n called with no draw left *)
| BadDraw (asked : list N) (n d : N).      (* the draw d offered for randbelow n is not below n *)
Arguments Done {A}. Arguments NoDraw {A}. Arguments BadDraw {A}.
Definition rnd (A : Type) : Type := list N -> list N -> outcome A.
Definition ret {A} (a : A) : rnd A := fun asked ds => Done a asked ds.
Definition bind {A B} (m : rnd A) (f : A -> rnd B) : rnd B :=
  fun asked ds =>
    match m asked ds with
    | Done a asked' ds' => f a asked' ds'
    | NoDraw k n => NoDraw k n
    | BadDraw k n d => BadDraw k n d
    end.
Definition randbelow (n : N) : rnd N :=
  fun asked ds =>
    match ds with
    | [] => NoDraw asked n
    | d :: r => if d <? n then Done d (asked ++ [n]) r else BadDraw asked n d
    end.
Local Notation "x <- m ;; f" := (bind m (fun x => f)) (at level 61, m at next level, right associativity).

(* rand_byte, rand_nonzero_byte (lines 52-60) *)
Definition rand_byte (s : subspace) : rnd N :=
  r <- randbelow (sub_end s - sub_begin s) ;; ret (r + sub_begin s).
Definition rand_nonzero_byte (s : subspace) : rnd N :=
  if sub_begin s <=? 0 then r <- randbelow (sub_end s - 1) ;; ret (r + 1)
  else rand_byte s.

(* gen_random_id (lines 196-237) *)
Definition compose_bytes (b3 b2 b1 b0 : N) : N :=
  N.lor (N.lor (N.lor (N.shiftl b3 gr_sh3) (N.shiftl b2 gr_sh2)) (N.shiftl b1 gr_sh1)) b0.
Definition gen_random_id_m (sp : space) (s : subspace) : rnd N :=
  if use_3rd sp then
    b3 <- rand_nonzero_byte s ;;
    if color_bits sp =? 8 then
      r <- randbelow gr_16_b0 ;;
      ret (compose_bytes b3 0 0 (r + 1))
    else if color_bits sp =? 24 then
      b0 <- randbelow gr_32_b0 ;;
      b2 <- randbelow gr_32_b2 ;;
      if b2 =? 0 then
        r <- randbelow gr_32_b1nz ;;
        ret (compose_bytes b3 b2 (r + 1) b0)
      else
        b1 <- randbelow gr_32_b1 ;;
        ret (compose_bytes b3 b2 b1 b0)
    else ret (compose_bytes b3 0 0 0)
  else
    if color_bits sp =? 8 then
      b0 <- rand_nonzero_byte s ;;
      ret (compose_bytes 0 0 0 b0)
    else if color_bits sp =? 24 then
      b0 <- randbelow gr_24_b0 ;;
      b2 <- rand_byte s ;;
      if b2 =? 0 then
        r <- randbelow gr_24_b1nz ;;
        ret (compose_bytes 0 b2 (r + 1) b0)
      else
        b1 <- randbelow gr_24_b1 ;;
        ret (compose_bytes 0 b2 b1 b0)
    else ret (compose_bytes 0 0 0 0).
Definition gen_random_id (sp : space) (s : subspace) (draws : list N) : outcome N :=
  gen_random_id_m sp s [] draws.
