(* Model/CellSize.v — tupimage_terminal.py get_cell_size (481-487), get_max_cols_and_rows (489-507),
   get_optimal_cols_and_rows (509-565); graphics_terminal.py _get_sizes / get_size / get_cell_size
   (609-642).  Written once over an abstract number type [num] (Python's float) and instantiated
   twice: exact rationals (QArith; end of this file) and binary64 (PrimFloat; Model/CellSizeFloat.v).
   Integer literals come from Gen/CellSizeGen.v, i.e. from the current source; so does
   [caps_explicit] (whether the source caps an explicitly given dimension at its limit before the
   other one is derived from it — fixes/C15-explicit-over-limit.patch).  No proofs here. *)
From Coq Require Import ZArith Bool QArith Qround.
From Tup Require Import Gen.CellSizeGen.
Open Scope Z_scope.

(* Python exceptions that can leave these functions *)
Inductive err := EValue | EZeroDivision | EOverflow.
Inductive res (A : Type) := Ok (a : A) | Err (e : err).
Arguments Ok {A} a.
Arguments Err {A} e.
Definition bind {A B} (x : res A) (f : A -> res B) : res B :=
  match x with Ok a => f a | Err e => Err e end.

(* result of math.ceil on a float: an int, or OverflowError (inf), or ValueError (nan) *)
Inductive ceil_res := COk (z : Z) | CInf | CNan.

(* ---------------------------------------------------------------- graphics_terminal.py *)
(* what TIOCGWINSZ reports (struct "HHHH": lines, cols, xpixel, ypixel; all 0 on OSError) *)
Record winsize := { ws_lines : Z; ws_cols : Z; ws_xpx : Z; ws_ypx : Z }.

(* get_size: (cols, lines) of the first descriptor with lines != 0 and cols != 0, else ValueError.
   (One window size: in every run all descriptors are the same tty or not a tty at all.) *)
Definition gt_get_size (ws : winsize) : res (option (Z * Z)) :=
  if negb (ws_lines ws =? 0) && negb (ws_cols ws =? 0) then Ok (Some (ws_cols ws, ws_lines ws))
  else Err EValue.

(* get_cell_size: (width // cols, height // lines) when all four are non-zero, else None *)
Definition gt_get_cell_size (ws : winsize) : option (Z * Z) :=
  if negb (ws_lines ws =? 0) && negb (ws_cols ws =? 0) && negb (ws_xpx ws =? 0) && negb (ws_ypx ws =? 0)
  then Some (ws_xpx ws / ws_cols ws, ws_ypx ws / ws_lines ws) else None.

(* the two things TupimageTerminal asks of self.term *)
Record term := { t_size : res (option (Z * Z)); t_cell : option (Z * Z) }.
Definition term_of_winsize (ws : winsize) : term :=
  {| t_size := gt_get_size ws; t_cell := gt_get_cell_size ws |}.

(* `x or d` on Optional[int]: None and 0 are falsy *)
Definition py_or (o : option Z) (d : Z) : Z :=
  match o with Some v => if v =? 0 then d else v | None => d end.
Definition is_none {A} (o : option A) : bool := match o with None => true | Some _ => false end.
Definition is_some {A} (o : option A) : bool := negb (is_none o).
(* `if arg is None and config != "auto": arg = config` *)
Definition arg_or_config (arg cfg : option Z) : option Z :=
  match arg with Some _ => arg | None => cfg end.

(* get_max_cols_and_rows(max_cols=amc, max_rows=amr) with config values cmc/cmr (None = "auto") *)
Definition get_max_cols_and_rows (cmc cmr : option Z) (t : term) (amc amr : option Z) : res (Z * Z) :=
  let max_rows := arg_or_config amr cmr in
  let max_cols := arg_or_config amc cmc in
  bind (if is_none max_rows || is_none max_cols then
          bind (t_size t) (fun ts =>
            match ts with
            | None => Ok (py_or max_cols nosize_max_cols, py_or max_rows nosize_max_rows)
            | Some (tc, tl) => Ok (py_or max_cols tc, py_or max_rows (Z.min tl term_rows_cap))
            end)
        else Ok (match max_cols with Some v => v | None => 0 end, match max_rows with Some v => v | None => 0 end))
       (fun '(max_cols, max_rows) =>
          let max_rows := Z.max min_max_rows max_rows in
          let max_cols := Z.max min_max_cols max_cols in
          let max_rows := Z.min hard_max_rows max_rows in
          Ok (max_cols, max_rows)).

(* TupimageTerminal.get_cell_size; ccell = config.cell_size (None = "auto"), dcell = default_cell_size *)
Definition get_cell_size (ccell : option (Z * Z)) (dcell : Z * Z) (t : term) : Z * Z :=
  match ccell with
  | Some c => c
  | None => match t_cell t with Some c => c | None => dcell end
  end.

Section Sizing.
  (* Python float and the operations the function performs on it *)
  Variable num : Type.
  Variable of_Z : Z -> num.                (* int -> float conversion in mixed arithmetic *)
  Variable mul : num -> num -> num.
  Variable div : num -> num -> num.        (* only called with a non-zero divisor *)
  Variable is_zero : num -> bool.          (* x == 0 (falsy float; zero divisor) *)
  Variable ceil : num -> ceil_res.         (* math.ceil *)
  Variable one : num.                      (* the literal 1.0 *)

  Definition pydiv (x y : num) : res num := if is_zero y then Err EZeroDivision else Ok (div x y).
  Definition pyceil (x : num) : res Z :=
    match ceil x with COk z => Ok z | CInf => Err EOverflow | CNan => Err EValue end.

  (* math.ceil(rows * cell_height * width / (height * cell_width)) *)
  Definition cols_from_rows (W H : num) (cw ch r : Z) : res Z :=
    bind (pydiv (mul (of_Z (r * ch)) W) (mul H (of_Z cw))) pyceil.
  (* math.ceil(cols * cell_width * height / (width * cell_height)) *)
  Definition rows_from_cols (W H : num) (cw ch c : Z) : res Z :=
    bind (pydiv (mul (of_Z (c * cw)) H) (mul W (of_Z ch))) pyceil.

  (* lines 538-565, on the scaled size W x H, cell size cw x ch, resolved limits mc, mr;
     at most one of cols/rows is Some here.  Wa x Ha is the size from which a dimension is DERIVED from the
     other one (the aspect ratio): the scaled size in the pinned tree, the unscaled size since the repair of
     F-C15b (Gen.aspect_unscaled) — the scale cancels in exact arithmetic, not in floats *)
  Definition optimal_core (W H Wa Ha : num) (cw ch : Z) (cols rows : option Z) (mc mr : Z) : res (Z * Z) :=
    let cols_auto := is_none cols in
    let rows_auto := is_none rows in
    bind (match cols, rows with
          | None, None =>
              bind (bind (pydiv W (of_Z cw)) pyceil) (fun c =>
              bind (bind (pydiv H (of_Z ch)) pyceil) (fun r => Ok (c, r)))
          | None, Some r => bind (cols_from_rows Wa Ha cw ch r) (fun c => Ok (c, r))
          | Some c, None => bind (rows_from_cols Wa Ha cw ch c) (fun r => Ok (c, r))
          | Some c, Some r => Ok (c, r)
          end) (fun '(c, r) =>
    bind (if cols_auto && (mc <? c) then bind (rows_from_cols Wa Ha cw ch mc) (fun r' => Ok (mc, r'))
          else Ok (c, r)) (fun '(c, r) =>
    bind (if rows_auto && (mr <? r) then bind (cols_from_rows Wa Ha cw ch mr) (fun c' => Ok (c', mr))
          else Ok (c, r)) (fun '(c, r) =>
    Ok (Z.max final_min_cols (Z.min c mc), Z.max final_min_rows (Z.min r mr))))).

  (* the part of self._config the function reads *)
  Record config := {
    cfg_cell_size : option (Z * Z);       (* None = "auto" *)
    cfg_default_cell_size : Z * Z;
    cfg_scale : option num;
    cfg_global_scale : num;
    cfg_max_cols : option Z;              (* None = "auto" *)
    cfg_max_rows : option Z }.

  (* local_scale = scale or config.scale; effective = global_scale * (local_scale if not None else 1.0) *)
  Definition effective_scale (cfg : config) (scale : option num) : num :=
    let local_scale := match scale with
                       | Some s => if is_zero s then cfg_scale cfg else Some s
                       | None => cfg_scale cfg
                       end in
    mul (cfg_global_scale cfg) (match local_scale with Some s => s | None => one end).

  (* get_optimal_cols_and_rows(width=w, height=h, cols=, rows=, max_cols=amc, max_rows=amr, scale=);
     [cap] = the source caps explicit dimensions (Gen.caps_explicit); [asp] = a derived dimension is computed
     from the unscaled size (Gen.aspect_unscaled) *)
  Definition optimal_with (cap asp : bool) (cfg : config) (t : term) (w h : Z)
             (cols rows amc amr : option Z) (scale : option num) : res (Z * Z) :=
    match cols, rows with
    | Some c, Some r => Ok (c, r)
    | _, _ =>
      if (match cols with Some c => c <=? 0 | None => false end) then Err EValue else
      if (match rows with Some r => r <=? 0 | None => false end) then Err EValue else
      bind (get_max_cols_and_rows (cfg_max_cols cfg) (cfg_max_rows cfg) t amc amr) (fun '(mc, mr) =>
        let cols := if cap then option_map (fun c => Z.min c mc) cols else cols in
        let rows := if cap then option_map (fun r => Z.min r mr) rows else rows in
        let '(cw, ch) := get_cell_size (cfg_cell_size cfg) (cfg_default_cell_size cfg) t in
        let s := effective_scale cfg scale in
        optimal_core (mul (of_Z w) s) (mul (of_Z h) s)
                     (if asp then of_Z w else mul (of_Z w) s) (if asp then of_Z h else mul (of_Z h) s)
                     cw ch cols rows mc mr)
    end.

  Definition get_optimal_cols_and_rows := optimal_with caps_explicit aspect_unscaled.
End Sizing.

(* ---------------------------------------------------------------- exact instance: rationals *)
Definition q_is_zero (x : Q) : bool := Qnum x =? 0.
Definition q_ceil (x : Q) : ceil_res := COk (Qceiling x).
Definition q_config := config Q.
Definition q_optimal_core := optimal_core Q inject_Z Qmult Qdiv q_is_zero q_ceil.
Definition q_effective_scale := effective_scale Q Qmult q_is_zero 1%Q.
Definition q_optimal_with := optimal_with Q inject_Z Qmult Qdiv q_is_zero q_ceil 1%Q.
Definition q_get_optimal_cols_and_rows := get_optimal_cols_and_rows Q inject_Z Qmult Qdiv q_is_zero q_ceil 1%Q.

