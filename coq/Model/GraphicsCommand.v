(* Model/GraphicsCommand.v — graphics_command.py: header tuples, normalisation, header_to_bytes,
   content_to_bytes, to_bytes.  Key tables and enum values come from Gen/CommandGen.v. *)
From Coq Require Import NArith List Bool.
From Tup Require Import Lib.ByteStr Lib.Dec Lib.Base64 Lib.SplitJoin Lib.PyFmt Lib.CommandTypes Gen.CommandGen.
Import ListNotations.
Open Scope N_scope.

(* normalize_header_value on the value kinds that occur *)
Definition hv_int (o : option N) : option hval := option_map HInt o.
Definition hv_bool (o : option bool) : option hval := option_map (fun b : bool => HInt (if b then 1 else 0)) o.
Definition hv_bytes (o : option (list N)) : option hval := option_map HBytes o.

(* str.upper() on ASCII *)
Definition upper_byte (c : N) : N := if (97 <=? c) && (c <=? 122) then c - 32 else c.
Definition upper_hval (v : hval) : hval := match v with HBytes b => HBytes (map upper_byte b) | HInt n => HInt n end.

Definition placement_field (p : placement) (f : pfield) : option hval :=
  match f with
  | PF_placement_id => hv_int (p_placement_id p)
  | PF_virtual => hv_bool (p_virtual p)
  | PF_rows => hv_int (p_rows p)
  | PF_cols => hv_int (p_cols p)
  | PF_src_x => hv_int (p_src_x p)
  | PF_src_y => hv_int (p_src_y p)
  | PF_src_w => hv_int (p_src_w p)
  | PF_src_h => hv_int (p_src_h p)
  | PF_do_not_move_cursor => hv_bool (p_do_not_move_cursor p)
  end.

(* action = None if omit_action else "q" if query else "t" if placement is None else "T" *)
Definition transmit_action (c : transmit) : option (list N) :=
  if t_omit_action c then None
  else match t_query c with
       | Some true => Some [113]
       | _ => match t_placement c with None => Some [116] | Some _ => Some [84] end
       end.

Definition transmit_field (c : transmit) (f : tfield) : option hval :=
  match f with
  | TF_image_id => hv_int (t_image_id c)
  | TF_image_number => hv_int (t_image_number c)
  | TF_medium => option_map medium_value (t_medium c)
  | TF_size => hv_int (t_size c)
  | TF_offset => hv_int (t_offset c)
  | TF_quiet => option_map quietness_value (t_quiet c)
  | TF_more => hv_bool (t_more c)
  | TF_format => option_map format_value (t_format c)
  | TF_compression => option_map compression_value (t_compression c)
  | TF_pix_width => hv_int (t_pix_width c)
  | TF_pix_height => hv_int (t_pix_height c)
  | TF_action => hv_bytes (transmit_action c)
  end.

Definition more_field (c : moredata) (f : mfield) : option hval :=
  match f with
  | MF_image_id => hv_int (m_image_id c)
  | MF_image_number => hv_int (m_image_number c)
  | MF_more => hv_bool (m_more c)
  end.

Definition put_field (c : put) (f : ufield) : option hval :=
  match f with
  | UF_action => Some (HBytes put_action)
  | UF_image_id => hv_int (u_image_id c)
  | UF_image_number => hv_int (u_image_number c)
  | UF_quiet => option_map quietness_value (u_quiet c)
  end.

(* what_str = what.value, upper-cased if delete_data is truthy *)
Definition delete_what (c : delete) : option hval :=
  match d_what c with
  | None => None
  | Some w => Some (match d_delete_data c with Some true => upper_hval (what_delete_value w) | _ => what_delete_value w end)
  end.

Definition delete_field (c : delete) (f : dfield) : option hval :=
  match f with
  | DF_action => Some (HBytes delete_action)
  | DF_image_id => hv_int (d_image_id c)
  | DF_image_number => hv_int (d_image_number c)
  | DF_placement_id => hv_int (d_placement_id c)
  | DF_quiet => option_map quietness_value (d_quiet c)
  | DF_what => delete_what c
  end.

(* normalize_header_tuple: drop None, keep order *)
Definition items {F} (get : F -> option hval) (tbl : list (N * F)) : list (N * hval) :=
  flat_map (fun kf => match get (snd kf) with Some v => [(fst kf, v)] | None => [] end) tbl.

Definition placement_items (p : placement) : list (N * hval) := items (placement_field p) placement_keys.

Definition header_tuple (c : command) : list (N * hval) :=
  match c with
  | CTransmit t => items (transmit_field t) transmit_keys ++
                   match t_placement t with Some p => placement_items p | None => [] end
  | CMore m => items (more_field m) more_keys
  | CPut u => items (put_field u) put_keys ++ placement_items (u_placement u)
  | CDelete d => items (delete_field d) delete_keys
  end.

(* header_to_bytes: b",".join(k + b"=" + (v if bytes else str(v).encode())) *)
Definition ser_val (v : hval) : list N := match v with HInt n => dec n | HBytes b => b end.
Definition ser_item (it : N * hval) : list N := fst it :: 61 :: ser_val (snd it).
Definition header_bytes (c : command) : list N := join 44 (map ser_item (header_tuple c)).

Definition raw_payload (c : command) : option (list N) :=
  match c with
  | CTransmit t => Some (t_data t)
  | CMore m => Some (m_data m)
  | CPut _ => None
  | CDelete _ => None
  end.

Definition content_bytes (c : command) : list N :=
  match raw_payload c with
  | None => header_bytes c
  | Some d => header_bytes c ++ 59 :: b64encode d
  end.

(* to_bytes(template) = template % content *)
Definition to_bytes (template : list N) (c : command) : option (list N) := pyfmt template (content_bytes c).
