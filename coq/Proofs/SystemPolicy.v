(* Proofs/SystemPolicy.v — clause 2 (medium policy), clause 3 (placement = printed rows x cols), "downscaled only
   when over the limit", the fields of the emitted command, and the refutation witnesses (stale ImageInstance with
   the unrepaired upload(); bytes-only digest) *)
From Coq Require Import ZArith NArith List Bool Lia ZifyN ZifyBool ZifyNat.
From Tup Require Import Lib.IdSpaceTy Lib.CommandTypes Lib.SystemTypes Gen.SystemGen Gen.UploadFlowGen
  Model.IdSpace Model.IdManager Model.UploadModel Model.UploadFlow Model.SystemModel
  Spec.IdLayoutSpec Spec.SystemSpec Spec.KittyProtoSpec Proofs.IdManagerProofs Proofs.SystemStmt Proofs.SystemFacts Proofs.SystemProofs Proofs.SystemCodec.
Import ListNotations.
Open Scope N_scope.

(* the events of one upload_tail: nothing, an exception, or one of the four emitted shapes *)
Definition tail_shape (s : sys) (o : opts) (i : instance) (evs : list event) : Prop :=
  evs = [] \/ evs = [ERaise] \/
  exists um c, (um = MFile \/ um = MDirect) /\ resolve_method (o_method o) (o_ssh o) = Some um /\
               emitted s o i um evs (Some c) /\ scaled_ok o c.

Lemma untouched_whole im : untouched (whole im).
Proof. split; reflexivity. Qed.

Lemma upload_tail_events cd s o i s' evs ok : upload_tail cd s o i = (s', evs, ok) -> tail_shape s o i evs.
Proof.
  unfold upload_tail. intro H.
  destruct (o_force o || needs_uploading (cur_of (s_db s)) (s_up s) (n_id i) (o_term o) (o_check_now o) (o_nmax o) (o_bmax o) (o_tmax o));
    [|inversion H; left; reflexivity].
  destruct (do_upload_cases s o i) as [(um & Hum & Hres & Hdo)|Hdo]; rewrite Hdo in H.
  - destruct (upload_by s o i um) as [evs0 size nt|evs0 nt] eqn:Eu.
    + inversion H; subst. right. right. destruct (upload_by_ok s o i um evs size nt Hum Eu) as (c & Hem & _ & Hc).
      exists um, c. split; [exact Hum|split; [exact Hres|split; [exact Hem|]]].
      destruct (n_src i) as [p m|im|k].
      * destruct Hc as (fi & _ & _ & [->| ->]); [left; apply untouched_whole|apply converted_scaled; exact Hres].
      * subst c. apply converted_scaled. exact Hres.
      * contradiction.
    + destruct (upload_by_raise s o i um evs0 nt Hum Eu) as [-> ->]. inversion H. right. left. reflexivity.
  - inversion H. right. left. reflexivity.
Qed.

Lemma emitted_ext s s1 o i um evs c : s_fs s1 = s_fs s -> s_ntemp s1 = s_ntemp s -> emitted s1 o i um evs c -> emitted s o i um evs c.
Proof.
  intros Hf Hn H. destruct H as [p fi Hum Hsrc Hfs|p fi Hum Hsrc Hfs|c' Hum|c' Hum].
  - rewrite Hf in Hfs. eapply EmUserName; eauto.
  - rewrite Hf in Hfs. eapply EmUserInline; eauto.
  - rewrite Hn. apply EmTemp. exact Hum.
  - apply EmInline. exact Hum.
Qed.
Lemma tail_shape_ext s s1 o i evs : s_fs s1 = s_fs s -> s_ntemp s1 = s_ntemp s -> tail_shape s1 o i evs -> tail_shape s o i evs.
Proof.
  intros Hf Hn [H|[H|(um & c & H1 & H2 & H3 & H4)]]; [left; exact H|right; left; exact H|right; right].
  exists um, c. split; [exact H1|split; [exact H2|split; [eapply emitted_ext; eauto|exact H4]]].
Qed.

(* the events of a whole call: a tail for some instance, possibly followed by the placeholder of that instance *)
Definition call_shape (s : sys) (o : opts) (evs : list event) : Prop :=
  exists i evs0, tail_shape s o i evs0 /\
                 (evs = evs0 \/ evs = evs0 ++ [EPrint (o_term o) (n_id i) (n_rows i) (n_cols i)]).

Lemma finish_shape cd a s s1 o i s' evs : s_fs s1 = s_fs s -> s_ntemp s1 = s_ntemp s ->
  finish a o i (upload_tail cd s1 o i) = (s', evs) -> call_shape s o evs.
Proof.
  intros Hf Hn H. destruct (upload_tail cd s1 o i) as [[s2 evs0] ok] eqn:Eu.
  pose proof (tail_shape_ext s s1 o i evs0 Hf Hn (upload_tail_events cd s1 o i s2 evs0 ok Eu)) as Hs.
  exists i, evs0. split; [exact Hs|]. unfold finish in H. destruct a; try (inversion H; left; reflexivity).
  destruct ok; inversion H; [right; rewrite print_event_eq; reflexivity|left; reflexivity].
Qed.

Lemma raise_shape s o : call_shape s o [ERaise].
Proof. exists {| n_src := ILost (0, 0, 0, 0); n_cols := 0; n_rows := 0; n_id := 0 |}, [ERaise]. split; [right; left; reflexivity|left; reflexivity]. Qed.
Lemma nil_shape s o : call_shape s o [].
Proof. exists {| n_src := ILost (0, 0, 0, 0); n_cols := 0; n_rows := 0; n_id := 0 |}, []. split; [left; reflexivity|left; reflexivity]. Qed.

Lemma call_inst_shape rb cd s a o i s' evs : call_inst rb cd s a o i = (s', evs) -> call_shape s o evs.
Proof.
  unfold call_inst. intro H.
  destruct a; [inversion H; apply raise_shape| |];
    (destruct (from_id (n_id i)); [|inversion H; apply raise_shape];
     destruct (rebind_step rb cd s o i) as [s1|] eqn:Er; [|inversion H; apply raise_shape];
     assert (Hfr : s_fs s1 = s_fs s /\ s_ntemp s1 = s_ntemp s);
     [unfold rebind_step in Er; destruct rb; [|inversion Er; auto];
      destruct (cur_of (s_db s) (n_id i)) as [dn|];
      [destruct (dn =? enc cd (descr_of i)); [inversion Er; auto|]|];
      (destruct (set_id (s_db s) (n_id i) (enc cd (descr_of i)) (o_now o)); cbn [option_map] in Er; [inversion Er; auto|discriminate])
     |eapply finish_shape; [exact (proj1 Hfr)|exact (proj2 Hfr)|exact H]]).
Qed.

Lemma step_shape rb cd s a subj o : call_shape s o (snd (step_gen rb cd s (RCall a subj o))).
Proof.
  destruct (step_gen rb cd s (RCall a subj o)) as [s' evs] eqn:E. cbn [snd]. cbn [step_gen] in E.
  destruct subj as [src|i|id].
  - match type of E with (if ?b then _ else _) = _ => destruct b end; [inversion E; apply raise_shape|].
    match type of E with (match ?g with _ => _ end) = _ => destruct g as [res d'] end.
    destruct res; try (inversion E; apply raise_shape).
    destruct a; [inversion E; apply nil_shape| |]; (eapply finish_shape; [| |exact E]; reflexivity).
  - eapply call_inst_shape. exact E.
  - destruct (cur_of (s_db s) id); [|inversion E; apply raise_shape].
    destruct (dec cd n); [|inversion E; apply raise_shape]. eapply call_inst_shape. exact E.
Qed.

(* facts about the four shapes *)
Lemma emitted_tx s o i um evs c x : emitted s o i um evs (Some c) -> In (ETx x) evs ->
  exists m p, x = tx_of o i m p /\
    ((m = MFile /\ um = MFile /\ exists u, p = PName (UserPath u)) \/
     (m = MTemp /\ um = MFile /\ p = PName (TempPath (s_ntemp s)) /\ In (EMkTemp (s_ntemp s) c) evs) \/
     (m = MDirect /\ um = MDirect /\ p = PData c)).
Proof.
  intros H Hin. remember (Some c) as oc eqn:Eoc.
  destruct H as [p fi Hum Hsrc Hfs|p fi Hum Hsrc Hfs|c' Hum|c' Hum]; inversion Eoc; subst.
  - destruct Hin as [Hi|[]]. inversion Hi. eexists _, _. split; [reflexivity|]. left. eauto.
  - destruct Hin as [Hi|[]]. inversion Hi. eexists _, _. split; [reflexivity|]. right. right. auto.
  - destruct Hin as [Hi|[Hi|[]]]; [discriminate|]. inversion Hi. eexists _, _. split; [reflexivity|]. right. left.
    split; [reflexivity|split; [reflexivity|split; [reflexivity|left; reflexivity]]].
  - destruct Hin as [Hi|[]]. inversion Hi. eexists _, _. split; [reflexivity|]. right. right. auto.
Qed.

Lemma in_app_last {A} (l : list A) a x : In x (l ++ [a]) -> In x l \/ x = a.
Proof. intro H. apply in_app_or in H. destruct H as [H|[H|[]]]; auto. Qed.

Lemma tx_in_call s o evs x : call_shape s o evs -> In (ETx x) evs ->
  exists i evs0 um c, (evs = evs0 \/ evs = evs0 ++ [EPrint (o_term o) (n_id i) (n_rows i) (n_cols i)]) /\
     (um = MFile \/ um = MDirect) /\ resolve_method (o_method o) (o_ssh o) = Some um /\
     emitted s o i um evs0 (Some c) /\ scaled_ok o c /\ In (ETx x) evs0.
Proof.
  intros (i & evs0 & Hs & He) Hin.
  assert (Hin0 : In (ETx x) evs0).
  { destruct He as [->| ->]; [exact Hin|]. apply in_app_last in Hin. destruct Hin as [H|H]; [exact H|discriminate]. }
  destruct Hs as [->|[->|(um & c & H1 & H2 & H3 & H4)]]; [destruct Hin0|destruct Hin0 as [H|[]]; discriminate|].
  exists i, evs0, um, c. auto 10.
Qed.

(* ---- 2. medium policy *)
Theorem medium_policy rb cd s a subj o x :
  In (ETx x) (snd (step_gen rb cd s (RCall a subj o))) ->
  x_term x = o_term o /\ policy_ok s o (snd (step_gen rb cd s (RCall a subj o))) x.
Proof.
  intro Hin. pose proof (step_shape rb cd s a subj o) as Hs.
  destruct (tx_in_call s o _ x Hs Hin) as (i & evs0 & um & c & He & Hum & Hres & Hem & _ & Hin0).
  destruct (emitted_tx s o i um evs0 c x Hem Hin0) as (m & p & -> & Hcase).
  split; [reflexivity|]. unfold policy_ok. cbn [tx_of x_medium x_payload].
  assert (Hsub : forall e, In e evs0 -> In e (snd (step_gen rb cd s (RCall a subj o)))).
  { intros e Hi. destruct He as [->| ->]; [exact Hi|apply in_or_app; left; exact Hi]. }
  destruct Hcase as [(-> & -> & u & ->)|[(-> & -> & -> & Hmk)|(-> & -> & ->)]].
  - split; [intros _; apply resolve_file_names_allowed; exact Hres|].
    split; [discriminate|]. split; [reflexivity|]. split; [discriminate|discriminate].
  - split; [intros _; apply resolve_file_names_allowed; exact Hres|].
    split; [intros _; exists c; split; [reflexivity|apply Hsub; exact Hmk]|].
    split; [discriminate|]. split; [reflexivity|discriminate].
  - split; [intros [H|H]; discriminate|]. split; [discriminate|]. split; [discriminate|]. split; [discriminate|reflexivity].
Qed.

(* ---- 3. the placement of every transmission of a call has the rows x cols (and the id) of the placeholder printed by it *)
Theorem placement_matches_print rb cd s a subj o x t id r c :
  In (ETx x) (snd (step_gen rb cd s (RCall a subj o))) -> In (EPrint t id r c) (snd (step_gen rb cd s (RCall a subj o))) ->
  t = x_term x /\ id = x_id x /\ r = x_rows x /\ c = x_cols x.
Proof.
  intros Hin Hp. pose proof (step_shape rb cd s a subj o) as Hs.
  destruct (tx_in_call s o _ x Hs Hin) as (i & evs0 & um & c0 & He & Hum & Hres & Hem & _ & Hin0).
  destruct (emitted_tx s o i um evs0 c0 x Hem Hin0) as (m & p & -> & _).
  assert (Hnp : forall t id r c, ~ In (EPrint t id r c) evs0).
  { intros t' id' r' c' Hi. remember (Some c0) as oc. destruct Hem; cbn [In] in Hi; intuition discriminate. }
  destruct He as [E|E]; rewrite E in Hp.
  - exfalso. eapply Hnp. exact Hp.
  - apply in_app_last in Hp. destruct Hp as [Hp|Hp]; [exfalso; eapply Hnp; exact Hp|]. inversion Hp. cbn [tx_of x_term x_id x_rows x_cols]. auto.
Qed.

(* ---- what the library encodes itself (temp file, inline data) is the image untouched unless over the limit *)
Theorem downscaled_only_over_limit rb cd s a subj o :
  (forall k c, In (EMkTemp k c) (snd (step_gen rb cd s (RCall a subj o))) -> scaled_ok o c) /\
  (forall x c, In (ETx x) (snd (step_gen rb cd s (RCall a subj o))) -> x_payload x = PData c -> scaled_ok o c).
Proof.
  pose proof (step_shape rb cd s a subj o) as Hs. split.
  - intros k c Hin. destruct Hs as (i & evs0 & Ht & He).
    assert (Hin0 : In (EMkTemp k c) evs0).
    { destruct He as [E|E]; rewrite E in Hin; [exact Hin|]. apply in_app_last in Hin. destruct Hin as [H|H]; [exact H|discriminate]. }
    destruct Ht as [->|[->|(um & c0 & H1 & H2 & H3 & H4)]]; [destruct Hin0|destruct Hin0 as [H|[]]; discriminate|].
    remember (Some c0) as oc eqn:Eoc. destruct H3; inversion Eoc; subst; cbn [In] in Hin0; try (intuition discriminate).
    destruct Hin0 as [H|[H|[]]]; [inversion H; subst; exact H4|discriminate].
  - intros x c Hin Hp. destruct (tx_in_call s o _ x Hs Hin) as (i & evs0 & um & c0 & He & Hum & Hres & Hem & Hsc & Hin0).
    destruct (emitted_tx s o i um evs0 c0 x Hem Hin0) as (m & p & -> & Hcase). cbn [tx_of x_payload] in Hp.
    destruct Hcase as [(_ & _ & u & ->)|[(_ & _ & -> & _)|(_ & _ & ->)]]; try discriminate. inversion Hp; subst. exact Hsc.
Qed.

(* ---- the command object of a transmission carries a=T, U=1, r=, c=, i=, q=2, f=100 and the medium letter *)
Theorem command_fields x data :
  expected_transmit (command_of x data) 97 = Some [84] /\            (* a=T *)
  expected_transmit (command_of x data) 85 = Some [49] /\            (* U=1 *)
  expected_transmit (command_of x data) 105 = e_num (Some (x_id x)) /\
  expected_transmit (command_of x data) 114 = e_num (Some (x_rows x)) /\
  expected_transmit (command_of x data) 99 = e_num (Some (x_cols x)) /\
  expected_transmit (command_of x data) 116 = e_medium (Some (x_medium x)) /\
  expected_transmit (command_of x data) 113 = Some [50] /\
  expected_transmit (command_of x data) 102 = Some [49; 48; 48].
Proof. repeat split; reflexivity. Qed.

(* ---- refutation witnesses *)
Definition w_choice : choice := {| hit_pick := 5; free_pick := 5; tie := fun _ => 1 |}.
Definition w_opts : opts := {|
  o_term := 1; o_method := MethDirect; o_ssh := false; o_force := false;
  o_space := Sp8; o_sub := (5, 6); o_max_ids := 1024%Z; o_cols := 2; o_rows := 1; o_auto := false; o_formats := [1];
  o_file_max := 1000000%Z; o_stream_max := 1000000%Z; o_fit := (1, 1); o_enc_size := 100%Z;
  o_now := 10%Z; o_check_now := 11%Z; o_mark_now := 12%Z; o_nmax := 1024%Z; o_bmax := 1000000%Z; o_tmax := 1000000%Z;
  o_samples := []; o_choice := w_choice |}.
Definition img_a : img := {| pix := 7; iw := 4; ih := 1; imode := 0 |}.
Definition img_b : img := {| pix := 8; iw := 2; ih := 2; imode := 0 |}.
(* a = assign_id(A) -> id 5 (subspace of one id); upload_and_display(B) recycles 5 and uploads B; upload_and_display(a) *)
Definition stale_history : list request :=
  [RCall AAssign (SImg (SMem img_a)) w_opts;
   RCall AUploadDisplay (SImg (SMem img_b)) w_opts;
   RCall AUploadDisplay (SInst {| n_src := IMem img_a; n_cols := 2; n_rows := 1; n_id := 5 |}) w_opts].

Lemma w_req_ok C : Forall (req_ok C) stale_history.
Proof.
  assert (H : valid_sub (5, 6) /\ sound_samples Sp8 (5, 6) []).
  { split; [unfold valid_sub; cbn [fst snd]; lia|constructor]. }
  unfold stale_history. constructor; [exact H|constructor; [exact H|constructor; [exact I|constructor]]].
Qed.

(* with the unrepaired upload(ImageInstance) the unrestricted statement is false: the third call prints id 5 while
   terminal 1 holds B under 5 *)
Theorem shown_is_requested_refuted :
  exists C cd h, world_ok C /\ codec_ok cd /\ Forall (req_ok C) h /\
                 ~ run_ok false C cd init_sys (fun _ => None) empty_store h.
Proof.
  exists (fun _ _ => None), the_codec, stale_history.
  split; [intro p; reflexivity|split; [apply the_codec_ok|split; [apply w_req_ok|]]].
  intro H. vm_compute in H. destruct H as (_ & _ & ((im & Him & (e & He & Hpix & _)) & _) & _).
  inversion He; subst e. cbn in Hpix. subst im. discriminate.
Qed.

(* the same history is fine with the repaired upload(): the instance's id is bound again and A is transmitted *)
Example stale_history_repaired :
  snd (run_gen true the_codec init_sys stale_history) =
  [[];
   [ETx {| x_term := 1; x_id := 5; x_medium := MDirect; x_payload := PData (whole img_b); x_rows := 1; x_cols := 2 |}; EPrint 1 5 1 2];
   [ETx {| x_term := 1; x_id := 5; x_medium := MDirect; x_payload := PData (whole img_a); x_rows := 1; x_cols := 2 |}; EPrint 1 5 1 2]].
Proof. vm_compute. reflexivity. Qed.
Example stale_history_unrepaired :
  snd (run_gen false the_codec init_sys stale_history) =
  [[];
   [ETx {| x_term := 1; x_id := 5; x_medium := MDirect; x_payload := PData (whole img_b); x_rows := 1; x_cols := 2 |}; EPrint 1 5 1 2];
   [EPrint 1 5 1 2]].
Proof. vm_compute. reflexivity. Qed.

(* the bytes-only digest of the original code: a 4x1 and a 1x4 image with the same bytes get the same description,
   the second request finds "nothing to upload" and the terminal shows the first *)
Definition img_4x1 : img := {| pix := 7; iw := 4; ih := 1; imode := 0 |}.
Definition img_1x4 : img := {| pix := 7; iw := 1; ih := 4; imode := 0 |}.
Theorem old_digest_refuted :
  img_4x1 <> img_1x4 /\
  DMem (key_of_gen false img_4x1) 2 1 = DMem (key_of_gen false img_1x4) 2 1 /\
  DMem (key_of_gen true img_4x1) 2 1 <> DMem (key_of_gen true img_1x4) 2 1.
Proof. split; [discriminate|split; [reflexivity|discriminate]]. Qed.
