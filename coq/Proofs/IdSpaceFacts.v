(* Proofs/IdSpaceFacts.v — classification, membership tests and the SQL filter of Model/IdSpace.v
   against Spec/IdLayoutSpec.v. *)
From Coq Require Import ZArith NArith List Bool Lia ZifyN ZifyBool ZifyNat.
From Tup Require Import Lib.IdSpaceTy Gen.IdSpaceGen Spec.IdLayoutSpec Model.IdSpace Proofs.IdBits Proofs.IdLayoutFacts.
Import ListNotations.
Open Scope N_scope.
Ltac Zify.zify_post_hook ::= Z.to_euclidean_division_equations.

(* ---- the literals of the source, as the proofs need them (a changed literal breaks these) ---- *)
Lemma src_fid_max : fid_max = 0xFFFFFFFF. Proof. reflexivity. Qed.
Lemma src_fid_mask3 : fid_mask3 = N.shiftl (N.ones 8) 24. Proof. reflexivity. Qed.       (* 0xFF000000 *)
Lemma src_fid_mask012 : fid_mask012 = N.ones 24. Proof. reflexivity. Qed.               (* 0x00FFFFFF *)
Lemma src_fid_mask12 : fid_mask12 = N.shiftl (N.ones 16) 8. Proof. reflexivity. Qed.     (* 0x00FFFF00 *)
Lemma src_fid_cbs : (fid_cb0, fid_cb8, fid_cb24) = (0, 8, 24). Proof. reflexivity. Qed.
Lemma src_offsets : (off_3rd, off_24, off_else) = (24, 16, 0). Proof. reflexivity. Qed.
Lemma src_byte_mask : byte_mask = N.ones 8. Proof. reflexivity. Qed.                      (* 0xFF *)
Lemma src_gsb_mask : gsb_mask = N.ones 8. Proof. reflexivity. Qed.
Lemma all_spaces_src : all_spaces = [Sp8d; Sp16; Sp32; Sp8; Sp24]. Proof. reflexivity. Qed.

Lemma all_spaces_complete sp : In sp all_spaces.
Proof. rewrite all_spaces_src. destruct sp; cbn [In]; tauto. Qed.

Lemma space_eqb_eq a b : space_eqb a b = true <-> a = b.
Proof. destruct a, b; cbn [space_eqb]; split; intros H; try reflexivity; discriminate. Qed.

Lemma offset_cases sp : subspace_byte_offset sp = match sp with Sp8d | Sp16 | Sp32 => 24 | Sp24 => 16 | Sp8 => 0 end.
Proof. destruct sp; reflexivity. Qed.

(* ---- from_id ---- *)
Lemma mask3_zero id : id < 4294967296 -> (N.land id fid_mask3 =? 0) = (id / 16777216 =? 0).
Proof.
  intros H. rewrite src_fid_mask3, land_shifted_ones_arith.
  change (2 ^ 24) with 16777216. change (2 ^ 8) with 256. lia.
Qed.
Lemma mask012_zero id : (N.land id fid_mask012 =? 0) = (id mod 16777216 =? 0).
Proof. rewrite src_fid_mask012, N.land_ones. reflexivity. Qed.
Lemma mask12_zero id : (N.land id fid_mask12 =? 0) = ((id / 256) mod 65536 =? 0).
Proof.
  rewrite src_fid_mask12, land_shifted_ones_arith.
  change (2 ^ 16) with 65536. change (2 ^ 8) with 256. lia.
Qed.

Lemma from_id_invalid id : ~ is_id id -> from_id id = None.
Proof.
  unfold is_id, from_id. rewrite src_fid_max. change (2 ^ 32) with 4294967296. intros H.
  destruct ((id <=? 0) || (4294967295 <? id)) eqn:E; [reflexivity|lia].
Qed.

Theorem from_id_spec id sp : from_id id = Some sp <-> in_space sp id.
Proof.
  unfold from_id, in_space, is_id. rewrite src_fid_max. byte_arith.
  destruct ((id <=? 0) || (4294967295 <? id)) eqn:E0.
  - split; [discriminate|]. intros [H _]. lia.
  - assert (Hid : id < 4294967296) by lia.
    rewrite (mask3_zero id Hid), mask012_zero, mask12_zero.
    destruct (id / 16777216 =? 0) eqn:E3; destruct (id mod 16777216 =? 0) eqn:E2;
    destruct (id / 256 mod 65536 =? 0) eqn:E1; cbn [negb];
    (split; [intros H; vm_compute in H; try discriminate H; injection H as <- | destruct sp; intros H; vm_compute; try reflexivity; exfalso]); lia.
Qed.

Theorem from_id_total id : is_id id -> exists sp, from_id id = Some sp.
Proof.
  intros H. destruct (from_id id) as [sp|] eqn:E; [exists sp; reflexivity|exfalso].
  unfold from_id, is_id in *. rewrite src_fid_max in E. change (2 ^ 32) with 4294967296 in H.
  destruct ((id <=? 0) || (4294967295 <? id)) eqn:E0; [lia|].
  assert (Hid : id < 4294967296) by lia.
  rewrite (mask3_zero id Hid), mask012_zero, mask12_zero in E.
  destruct (id / 16777216 =? 0) eqn:E3; destruct (id mod 16777216 =? 0) eqn:E2;
  destruct (id / 256 mod 65536 =? 0) eqn:E1; cbn [negb] in E; vm_compute in E; try discriminate E; lia.
Qed.

(* partition: exactly one space, and it is the one from_id computes *)
Theorem partition id : is_id id ->
  exists sp, from_id id = Some sp /\ in_space sp id /\ forall sp', in_space sp' id -> sp' = sp.
Proof.
  intros H. destruct (from_id_total id H) as [sp E]. exists sp. split; [exact E|].
  apply from_id_spec in E. split; [exact E|]. intros sp' H'. apply (in_space_unique sp' sp id H' E).
Qed.

Lemma from_id_z_spec z sp : from_id_z z = Some sp <-> (0 <= z)%Z /\ in_space sp (Z.to_N z).
Proof.
  unfold from_id_z. destruct (z <=? 0)%Z eqn:E.
  - split; [discriminate|]. intros [Hz [[H _] _]]. lia.
  - rewrite from_id_spec. split; [intros H; split; [lia|exact H]|tauto].
Qed.

(* ---- contains ---- *)
Theorem contains_spec sp id : is_id id ->
  exists b, contains sp id = Some b /\ (b = true <-> in_space sp id).
Proof.
  intros H. unfold contains. destruct (partition id H) as (sp0 & E & Hin & Huniq). rewrite E.
  eexists. split; [reflexivity|]. rewrite space_eqb_eq. split; [intros <-; exact Hin|intros H'; symmetry; apply Huniq, H'].
Qed.
Lemma contains_invalid sp id : ~ is_id id -> contains sp id = None.
Proof. intros H. unfold contains. rewrite from_id_invalid by exact H. reflexivity. Qed.

(* ---- the masked byte ---- *)
Lemma sub_byte_arith sp id :
  sub_byte sp id = (id / 2 ^ subspace_byte_offset sp) mod 256.
Proof. rewrite offset_cases. destruct sp; cbn [sub_byte]; byte_arith; reflexivity. Qed.

Lemma masked_arith sp id :
  N.land id (subspace_byte_mask sp) = sub_byte sp id * 2 ^ subspace_byte_offset sp.
Proof.
  unfold subspace_byte_mask. rewrite src_byte_mask, land_shifted_ones_arith, sub_byte_arith. reflexivity.
Qed.

Lemma masked_range_arith sp s :
  subspace_masked_range sp s = (fst s * 2 ^ subspace_byte_offset sp, snd s * 2 ^ subspace_byte_offset sp).
Proof. unfold subspace_masked_range, sub_begin, sub_end. rewrite !N.shiftl_mul_pow2. reflexivity. Qed.

(* the SQL range filter selects exactly the IDs whose subspace byte is in [b, e) *)
Theorem sql_filter_byte sp s id : 1 <= snd s ->
  sql_filter sp s id = true <-> fst s <= sub_byte sp id < snd s.
Proof.
  intros He. unfold sql_filter. rewrite masked_range_arith, masked_arith.
  pose proof (N.pow_nonzero 2 (subspace_byte_offset sp) ltac:(lia)) as Hp.
  set (p := 2 ^ subspace_byte_offset sp) in *. set (x := sub_byte sp id).
  rewrite andb_true_iff, !N.leb_le. nia.
Qed.

Theorem sql_filter_iff sp s id : valid_sub s -> in_space sp id ->
  (sql_filter sp s id = true <-> in_sub sp s id).
Proof.
  intros Hv Hin. rewrite sql_filter_byte by (unfold valid_sub in Hv; lia). unfold in_sub. tauto.
Qed.

(* the Python-side test begin <= (id & mask) < end *)
Lemma masked_test_byte sp s id :
  let '(b, e) := subspace_masked_range sp s in
  ((b <=? N.land id (subspace_byte_mask sp)) && (N.land id (subspace_byte_mask sp) <? e)) = true
  <-> fst s <= sub_byte sp id < snd s.
Proof.
  rewrite masked_range_arith, masked_arith.
  pose proof (N.pow_nonzero 2 (subspace_byte_offset sp) ltac:(lia)) as Hp.
  set (p := 2 ^ subspace_byte_offset sp) in *. set (x := sub_byte sp id).
  rewrite andb_true_iff, N.leb_le, N.ltb_lt. nia.
Qed.

Theorem contains_and_in_subspace_spec sp s id : is_id id ->
  exists b, contains_and_in_subspace sp id s = Some b /\ (b = true <-> in_sub sp s id).
Proof.
  intros H. unfold contains_and_in_subspace.
  pose proof (masked_test_byte sp s id) as Ht.
  destruct (subspace_masked_range sp s) as [b e].
  destruct (contains_spec sp id H) as (c & -> & Hc).
  eexists. split; [reflexivity|]. unfold in_sub. rewrite andb_true_iff, Ht, Hc. tauto.
Qed.
Lemma contains_and_in_subspace_invalid sp s id : ~ is_id id -> contains_and_in_subspace sp id s = None.
Proof.
  intros H. unfold contains_and_in_subspace. destruct (subspace_masked_range sp s).
  rewrite contains_invalid by exact H. reflexivity.
Qed.

(* get_subspace_byte *)
Theorem get_subspace_byte_spec sp id : in_space sp id -> get_subspace_byte id = Some (sub_byte sp id).
Proof.
  intros H. unfold get_subspace_byte. apply from_id_spec in H. rewrite H.
  rewrite src_gsb_mask, shiftr_land_ones, sub_byte_arith. reflexivity.
Qed.
