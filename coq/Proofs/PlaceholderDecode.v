(* Proofs/PlaceholderDecode.v — layer (iii) of C07: the cells painted for one line decode, by the
   protocol's rules (Spec/PlaceholderSpec.v), to (id, placement id, row, start_col + j) in every
   mode; colour <-> ID lemmas; decoding a whole screen line that contains such a run of cells. *)
From Coq Require Import ZArith NArith List Bool Lia ZifyN ZifyBool ZifyNat.
From Tup Require Import Lib.Utf8 Gen.DiacriticsGen Model.PlaceholderModel
  Spec.TermSpec Spec.PlaceholderSpec Proofs.DiacriticsFacts Proofs.TermPaintFacts Proofs.TermChorFacts Proofs.PlaceholderToks Proofs.PlaceholderStreams.
Import ListNotations.
Open Scope N_scope.
Ltac Zify.zify_post_hook ::= Z.to_euclidean_division_equations.

(* ---- colours <-> IDs *)
Lemma color24_col_of allow v : v < 16777216 -> color24 (col_of allow v) = v.
Proof.
  intros H. unfold col_of, mid_zero. destruct (allow && ((v / 256) mod 65536 =? 0)) eqn:E; cbn [color24]; lia.
Qed.
Lemma color24_col_of_id allow id : id < 4294967296 ->
  (id / 16777216) * 16777216 + color24 (col_of allow id) = id.
Proof.
  intros H. unfold col_of, mid_zero. destruct (allow && ((id / 256) mod 65536 =? 0)) eqn:E; cbn [color24]; lia.
Qed.

(* ---- diacritic lists *)
Lemma leading_values_dia ds : Forall (fun d => d < 297) ds -> (length ds <= 3)%nat ->
  leading_values 3 (map dia ds) = ds.
Proof.
  intros Hd Hl.
  destruct ds as [|d1 [|d2 [|d3 [|d4 ds]]]]; cbn [length] in Hl; try lia;
    repeat match goal with H : Forall _ (_ :: _) |- _ => inversion_clear H end;
    cbn [map leading_values]; rewrite ?dia_value by assumption; reflexivity.
Qed.
Lemma diacs_first_len fc r c0 msb : (length (diacs_first fc r c0 msb) <= 3)%nat.
Proof. unfold diacs_first. destruct (1 <=? fc), (2 <=? fc), (3 <=? fc); cbn [length]; lia. Qed.
Lemma diacs_other_len oc r col msb : (length (diacs_other oc r col msb) <= 3)%nat.
Proof. unfold diacs_other. destruct (1 <=? oc), ((2 <=? oc) && (col <? 297)), (3 <=? oc); cbn [length]; lia. Qed.

Lemma is_placeholder_blank : is_placeholder blank_cell = false.
Proof. reflexivity. Qed.

(* ---- apply_bgs keeps the ID colours *)
Lemma apply_bgs_fg a l : afg (apply_bgs a l) = afg a /\ aul (apply_bgs a l) = aul a.
Proof. revert a; induction l as [|s l IH]; intros a; [split; reflexivity|]. cbn [apply_bgs fold_left]. apply (IH (apply_bg a s)). Qed.

(* ---- one image line *)
Section Row.
Variables (p : placeholder) (m : mode) (b : bgfmt) (row : N).
Hypothesis Hrow : row < 297.
Hypothesis Hc0 : start_col p < 297.
Hypothesis Hmsb : msb_of p < 297.
Hypothesis Hl1 : 1 <= lvl_first m <= 4.
Hypothesis Hl2 : lvl_other m <= 4.

Definition expi (f u : N) (col : N) : pinfo := mkpinfo f u row col (msb_of p).

Lemma first_count_cases :
  first_count p m <= 3 /\ 1 <= first_count p m /\
  (msb_of p <> 0 -> first_count p m = 3) /\ (start_col p <> 0 -> 2 <= first_count p m).
Proof.
  unfold first_count, startcol_zero, first_min, msb_zero, first_msb, lvl_row_column_id4thbyte_if_nonzero, first_nomsb. cbv zeta.
  destruct (start_col p =? 0) eqn:E1; destruct (msb_of p =? 0) eqn:E2; destruct (lvl_first m =? 4) eqn:E3; cbn [negb]; lia.
Qed.
Lemma other_count_cases : other_count p m <= 3.
Proof.
  unfold other_count, msb_zero, other_msb, other_nomsb, lvl_row_column_id4thbyte_if_nonzero. cbv zeta.
  destruct (msb_of p =? 0) eqn:E2; destruct (lvl_other m =? 4) eqn:E3; cbn [negb]; lia.
Qed.

Lemma decode_first a bgs : let a' := apply_bgs a bgs in
  decode_cell None (mkcell placeholder_cp (map dia (diacs_first (first_count p m) row (start_col p) (msb_of p))) (afg a') (aul a') (abg a'))
  = expi (color24 (afg a)) (color24 (aul a)) (start_col p).
Proof.
  cbv zeta. destruct (apply_bgs_fg a bgs) as [-> ->].
  unfold decode_cell. cbn [comb cfg cul].
  rewrite leading_values_dia by (apply diacs_first_lt || apply diacs_first_len; assumption).
  destruct first_count_cases as (F1 & F2 & F3 & F4). unfold diacs_first, expi.
  destruct (1 <=? first_count p m) eqn:E1; [|lia].
  destruct (2 <=? first_count p m) eqn:E2.
  - destruct (3 <=? first_count p m) eqn:E3; [reflexivity|].
    assert (msb_of p = 0) by (destruct (N.eq_dec (msb_of p) 0); [assumption|specialize (F3 n); lia]).
    congruence.
  - assert (msb_of p = 0) by (destruct (N.eq_dec (msb_of p) 0); [assumption|specialize (F3 n); lia]).
    assert (start_col p = 0) by (destruct (N.eq_dec (start_col p) 0); [assumption|specialize (F4 n); lia]).
    congruence.
Qed.

Lemma decode_other a bgs f u col : let a' := apply_bgs a bgs in
  color24 (afg a) = f -> color24 (aul a) = u ->
  decode_cell (Some (expi f u col))
    (mkcell placeholder_cp (map dia (diacs_other (other_count p m) row (col + 1) (msb_of p))) (afg a') (aul a') (abg a'))
  = expi f u (col + 1).
Proof.
  cbv zeta. intros Hf Hu. destruct (apply_bgs_fg a bgs) as [-> ->].
  unfold decode_cell. cbn [comb cfg cul].
  rewrite leading_values_dia by (apply diacs_other_lt || apply diacs_other_len; assumption).
  pose proof other_count_cases as O1. unfold diacs_other, expi. rewrite Hf, Hu. cbn [p_fg p_ul p_row p_col p_msb].
  destruct (1 <=? other_count p m) eqn:E1; [|rewrite ?N.eqb_refl; reflexivity].
  destruct ((2 <=? other_count p m) && (col + 1 <? 297)) eqn:E2; [|rewrite ?N.eqb_refl; reflexivity].
  destruct (3 <=? other_count p m) eqn:E3; rewrite ?N.eqb_refl; reflexivity.
Qed.

Lemma decode_others f u : forall (n s : nat) (a : attrs),
  color24 (afg a) = f -> color24 (aul a) = u ->
  decode_cells (Some (expi f u (N.of_nat s)))
    (cells_of a (map (other_item p m b row) (map N.of_nat (seq (S s) n))))
  = map (fun j => Some (expi f u (N.of_nat j))) (seq (S s) n).
Proof.
  induction n as [|n IH]; intros s a Hf Hu; [reflexivity|].
  cbn [seq map cells_of]. unfold other_item at 1, ph_item at 1. cbn [it_bg it_ch it_comb decode_cells].
  change (is_placeholder (mkcell placeholder_cp _ _ _ _)) with (placeholder_cp =? placeholder_cp). rewrite N.eqb_refl.
  replace (N.of_nat (S s)) with (N.of_nat s + 1) by lia.
  rewrite (decode_other a _ f u (N.of_nat s) Hf Hu).
  replace (N.of_nat s + 1) with (N.of_nat (S s)) by lia. f_equal.
  apply IH; match goal with |- color24 (_ (apply_bgs ?a ?l)) = _ =>
    destruct (apply_bgs_fg a l) as [B1 B2]; rewrite ?B1, ?B2; assumption end.
Qed.

Theorem row_decodes a : start_col p < end_col p ->
  decode_cells None (cells_of a (line_items p m b row))
  = map (fun j => Some (expi (color24 (afg a)) (color24 (aul a)) (N.of_nat j)))
        (seq (N.to_nat (start_col p)) (N.to_nat (end_col p) - N.to_nat (start_col p))).
Proof.
  intros Hw. unfold line_items. cbn [cells_of decode_cells]. unfold ph_item at 1. cbn [it_bg it_ch it_comb].
  change (is_placeholder (mkcell placeholder_cp _ _ _ _)) with (placeholder_cp =? placeholder_cp). rewrite N.eqb_refl.
  rewrite decode_first.
  destruct (N.to_nat (end_col p) - N.to_nat (start_col p))%nat as [|n] eqn:En; [lia|].
  cbn [seq map]. rewrite N2Nat.id. f_equal.
  unfold range. replace (N.to_nat (start_col p + 1)) with (S (N.to_nat (start_col p))) by lia.
  replace (N.to_nat (end_col p) - S (N.to_nat (start_col p)))%nat with n by lia.
  rewrite <- (N2Nat.id (start_col p)) at 1.
  rewrite (decode_others (color24 (afg a)) (color24 (aul a)) n (N.to_nat (start_col p))); [reflexivity| |];
  match goal with |- color24 (_ (apply_bgs ?a ?l)) = _ =>
    destruct (apply_bgs_fg a l) as [B1 B2]; rewrite ?B1, ?B2; reflexivity end.
Qed.
End Row.

(* a blank row (row >= 297): spaces, no placeholder cell *)
Lemma blank_row_decodes p b row : forall a prev,
  decode_cells prev (cells_of a (blank_items p b row)) = repeat None (length (blank_items p b row)).
Proof.
  unfold blank_items. generalize (range (start_col p) (end_col p)) as cols.
  induction cols as [|col cols IH]; intros a prev; [reflexivity|].
  cbn [map cells_of decode_cells length repeat it_bg it_ch it_comb].
  change (is_placeholder (mkcell 32 _ _ _ _)) with (32 =? placeholder_cp). cbn [N.eqb Pos.eqb placeholder_cp].
  rewrite IH. reflexivity.
Qed.

(* ---- a screen line: blanks, a run of cells, blanks *)
Lemma decode_cells_blanks n : forall prev rest,
  decode_cells prev (repeat blank_cell n ++ rest)
  = repeat None n ++ decode_cells (match n with O => prev | _ => None end) rest.
Proof.
  induction n as [|n IH]; intros prev rest; cbn [repeat app decode_cells]; [reflexivity|].
  rewrite is_placeholder_blank, IH. destruct n; reflexivity.
Qed.
Lemma decode_cells_app_blanks cs n : forall prev,
  decode_cells prev (cs ++ repeat blank_cell n) = decode_cells prev cs ++ repeat None n.
Proof.
  induction cs as [|c cs IH]; intros prev; cbn [app decode_cells].
  - rewrite <- (app_nil_r (repeat blank_cell n)), decode_cells_blanks. cbn [decode_cells]. rewrite app_nil_r. reflexivity.
  - destruct (is_placeholder c); rewrite IH; reflexivity.
Qed.

Lemma map_repeat' (A B : Type) (f : A -> B) (a : A) n : map f (repeat a n) = repeat (f a) n.
Proof. induction n as [|n IH]; [reflexivity|]. cbn [repeat map]. rewrite IH. reflexivity. Qed.

Open Scope Z_scope.

Lemma row_cells_split (s : Z -> Z -> cell) y (x0 w rest : nat) (line : list cell) :
  length line = w ->
  (forall x, 0 <= x < Z.of_nat (x0 + w + rest) ->
     s y x = if (Z.of_nat x0 <=? x) && (x <? Z.of_nat x0 + Z.of_nat w)
             then nth (Z.to_nat (x - Z.of_nat x0)) line blank_cell else blank_cell) ->
  row_cells s y (x0 + w + rest) = repeat blank_cell x0 ++ line ++ repeat blank_cell rest.
Proof.
  intros Hl Hs. unfold row_cells.
  apply nth_ext with (d := blank_cell) (d' := blank_cell).
  - rewrite map_length, seq_length, !app_length, !repeat_length, Hl. lia.
  - intros n Hn. rewrite map_length, seq_length in Hn.
    rewrite (nth_indep _ blank_cell (s y (Z.of_nat 0))) by (rewrite map_length, seq_length; exact Hn).
    rewrite (map_nth (fun i => s y (Z.of_nat i))), seq_nth by exact Hn. cbn [plus].
    rewrite Hs by lia.
    destruct ((Z.of_nat x0 <=? Z.of_nat n) && (Z.of_nat n <? Z.of_nat x0 + Z.of_nat w)) eqn:E.
    + rewrite app_nth2 by (rewrite repeat_length; lia). rewrite repeat_length.
      rewrite app_nth1 by lia. f_equal. lia.
    + destruct (Nat.ltb n x0) eqn:E2.
      * apply Nat.ltb_lt in E2. rewrite app_nth1 by (rewrite repeat_length; lia).
        symmetry. apply nth_repeat.
      * apply Nat.ltb_ge in E2. rewrite app_nth2 by (rewrite repeat_length; lia). rewrite repeat_length.
        rewrite app_nth2 by lia. symmetry. apply nth_repeat.
Qed.

Lemma row_cells_blank (s : Z -> Z -> cell) y (W : nat) :
  (forall x, 0 <= x < Z.of_nat W -> s y x = blank_cell) -> row_cells s y W = repeat blank_cell W.
Proof.
  intros Hs. unfold row_cells. apply nth_ext with (d := blank_cell) (d' := blank_cell).
  - rewrite map_length, seq_length, repeat_length. reflexivity.
  - intros n Hn. rewrite map_length, seq_length in Hn.
    rewrite (nth_indep _ blank_cell (s y (Z.of_nat 0))) by (rewrite map_length, seq_length; exact Hn).
    rewrite (map_nth (fun i => s y (Z.of_nat i))), seq_nth by exact Hn. cbn [plus].
    rewrite Hs by lia. symmetry. apply nth_repeat.
Qed.

(* the decoded line of a screen that shows [cellss] (h lines of width w printed from (x0,y0),
   sc lines scrolled) on an otherwise blank screen *)
Lemma decode_line_shown (H : Z) (s' : Z -> Z -> cell) (x0 w rest : nat) (y0 sc : Z) (cellss : list (list cell)) :
  Forall (fun c => length c = w) cellss ->
  (forall y x, 0 <= y < H -> s' y x = shown_screen H blank_screen y0 (Z.of_nat x0) w cellss sc y x) ->
  forall y, 0 <= y < H ->
  decode_line s' (x0 + w + rest) y =
    if (y0 <=? y + sc) && (y + sc <? y0 + Z.of_nat (length cellss))
    then repeat None x0 ++ map (option_map decoded_of) (decode_cells None (nth (Z.to_nat (y + sc - y0)) cellss [])) ++ repeat None rest
    else repeat None (x0 + w + rest).
Proof.
  intros Hall Hs y Hy. unfold decode_line.
  destruct ((y0 <=? y + sc) && (y + sc <? y0 + Z.of_nat (length cellss))) eqn:E.
  - set (line := nth (Z.to_nat (y + sc - y0)) cellss []).
    assert (Hlen : length line = w).
    { rewrite Forall_forall in Hall. apply Hall. apply nth_In. lia. }
    rewrite (row_cells_split s' y x0 w rest line Hlen).
    + rewrite decode_cells_blanks.
      replace (match x0 with O => None | S _ => None end) with (@None pinfo) by (destruct x0; reflexivity).
      rewrite decode_cells_app_blanks, !map_app, !map_repeat'. reflexivity.
    + intros x Hx. rewrite (Hs y x Hy). unfold shown_screen. rewrite E. cbn [andb].
      destruct ((Z.of_nat x0 <=? x) && (x <? Z.of_nat x0 + Z.of_nat w)) eqn:E2; [reflexivity|].
      unfold blank_screen. destruct (y + sc <? H); reflexivity.
  - rewrite (row_cells_blank s' y).
    + rewrite <- (app_nil_r (repeat blank_cell _)), decode_cells_blanks. cbn [decode_cells]. rewrite app_nil_r, map_repeat'. reflexivity.
    + intros x Hx. rewrite (Hs y x Hy). unfold shown_screen. rewrite E. cbn [andb].
      unfold blank_screen. destruct (y + sc <? H); reflexivity.
Qed.

Lemma nth_sandwich (A : Type) (d : A) (x0 rest : nat) (mid : list A) (x : nat) :
  nth x (repeat d x0 ++ mid ++ repeat d rest) d = if (x0 <=? x)%nat && (x <? x0 + length mid)%nat then nth (x - x0) mid d else d.
Proof.
  destruct ((x0 <=? x)%nat && (x <? x0 + length mid)%nat) eqn:E.
  - rewrite app_nth2 by (rewrite repeat_length; lia). rewrite repeat_length. rewrite app_nth1 by lia. reflexivity.
  - destruct (Nat.ltb x x0) eqn:E2.
    + apply Nat.ltb_lt in E2. rewrite app_nth1 by (rewrite repeat_length; lia). apply nth_repeat.
    + apply Nat.ltb_ge in E2. rewrite app_nth2 by (rewrite repeat_length; lia). rewrite repeat_length.
      rewrite app_nth2 by lia. apply nth_repeat.
Qed.
