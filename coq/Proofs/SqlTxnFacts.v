(* Proofs/SqlTxnFacts.v — what the one-at-a-time semantics preserves (so that it holds after every schedule), and the
   refutation witnesses for the two shapes the pinned tree had (C03). *)
From Coq Require Import ZArith NArith List Bool Lia Arith Permutation.
From Tup Require Import Lib.IdSpaceTy Model.IdSpace Model.IdManager Model.UploadModel Model.UploadFlow Gen.IdManagerGen Gen.TxnShapeGen
  Model.SqlTxn Spec.SerialSpec Spec.IdLayoutSpec Proofs.IdManagerFacts Proofs.IdManagerProofs Proofs.SqlTxnProofs.
Import ListNotations.
Open Scope nat_scope.

Notation serial_run := (@SerialSpec.serial_run store call result exec_call).

(* ------------------------------------------------------------------ WF along every schedule *)
Definition valid_call (c : call) : Prop := match c with CGet _ _ sub _ _ _ _ => valid_sub sub | _ => True end.

Lemma exec_call_wf c s : valid_call c -> WF (ids s) -> WF (ids (fst (exec_call c s))).
Proof.
  intros Hv Hw. destruct c; cbn [exec_call valid_call] in *.
  - pose proof (get_id_wf (ids s) desc sp sub now mx samples ch Hw Hv) as H.
    destruct (get_id (ids s) desc sp sub now mx samples ch) as [r d']. exact H.
  - destruct (set_id (ids s) id desc t) eqn:E; [exact (set_id_wf _ _ _ _ _ Hw E)|exact Hw].
  - destruct (del_id (ids s) id) eqn:E; [exact (del_id_wf _ _ _ Hw E)|exact Hw].
  - apply cleanup_wf. exact Hw.
  - destruct (get_info (ids s) id); exact Hw.
  - exact Hw.
  - exact Hw.
  - destruct (get_info (ids s) id) as [[r|]|]; exact Hw.
  - exact Hw.
  - exact Hw.
  - exact Hw.
  - destruct (from_id id); exact Hw.
Qed.

Theorem schedule_wf s ps es : WF (ids s) -> Forall (Forall valid_call) ps ->
  WF (ids (committed (run_events compile (init_world s ps) es))).
Proof.
  intros Hw Hok. apply (schedule_preserves (fun s => WF (ids s)) valid_call); [|exact Hok|exact Hw].
  intros c s0 Hc H0. apply exec_call_wf; assumption.
Qed.

(* ------------------------------------------------------------------ a completed call at its linearisation point *)
Lemma serial_run_split s l1 p c r l2 s' : serial_run s (l1 ++ (p, c, r) :: l2) s' ->
  exists s1, serial_run s l1 s1 /\ r = snd (exec_call c s1).
Proof.
  revert s. induction l1 as [|e l1 IH]; intros s H; cbn [app] in H.
  - inversion H; subst. exists s. split; [apply SerialSpec.sr_nil|reflexivity].
  - inversion H as [|s0 p0 c0 l0 s'' H1]; subst. destruct (IH _ H1) as (s1 & Hr & He). exists s1. split; [|exact He].
    apply SerialSpec.sr_cons. exact Hr.
Qed.

Theorem get_at_linearisation s ps es l1 l2 p desc sp sub now mx samples ch r :
  let w := run_events compile (init_world s ps) es in
  log w = l1 ++ (p, CGet desc sp sub now mx samples ch, r) :: l2 ->
  WF (ids s) -> Forall (Forall valid_call) ps -> valid_sub sub ->
  exists s1, serial_run s l1 s1 /\ WF (ids s1) /\
    r = RGet (fst (get_id (ids s1) desc sp sub now mx samples ch)) /\
    (no_hit (ids s1) desc sp sub -> enumerable sp sub mx ->
     (N.of_nat (length (rows_in (ids s1) sp sub)) < subspace_size sp sub)%N ->
     r = RGet GetStuck \/
     (in_sub sp sub (free_pick ch) /\ ~ In (free_pick ch) (map iid (ids s1 sp)) /\
      r = RGet (GotId (free_pick ch)) /\
      snd (get_id (ids s1) desc sp sub now mx samples ch) = upd_tbl (ids s1) sp (ids s1 sp ++ [fresh_row (free_pick ch) desc now]))).
Proof.
  intros w Hl Hw Hok Hv. destruct (schedule_serial s ps es) as (Hr & _). fold w in Hr. rewrite Hl in Hr.
  destruct (serial_run_split _ _ _ _ _ _ _ Hr) as (s1 & H1 & He). exists s1. split; [exact H1|].
  assert (Hw1 : WF (ids s1)).
  { eapply (serial_run_preserves (fun s => WF (ids s)) valid_call); [intros c s0 Hc H0; apply exec_call_wf; assumption|exact H1| |exact Hw].
    pose proof (log_calls_ok valid_call s ps es Hok) as Hf. fold w in Hf. rewrite Hl in Hf. apply Forall_app in Hf. exact (proj1 Hf). }
  split; [exact Hw1|]. cbn [exec_call] in He.
  destruct (get_id (ids s1) desc sp sub now mx samples ch) as [gr d'] eqn:Eg. cbn [snd fst] in *. split; [exact He|].
  intros Hn Hen Hfree. destruct (get_id_free (ids s1) desc sp sub now mx samples ch Hw1 Hv Hn Hen Hfree) as [Hs|(Ha & Hb & Hc)].
  - left. rewrite Eg in Hs. cbn in Hs. subst gr. exact He.
  - right. rewrite Eg in Hc. inversion Hc; subst. split; [exact Ha|]. split; [exact Hb|]. split; reflexivity.
Qed.

(* ------------------------------------------------------------------ one id per description *)
Definition desc_unique (d : db) (sp : space) (sub : subspace) : Prop := NoDup (map idesc (rows_in d sp sub)).

(* the calls of processes that share ONE space and subspace: requests on it, deletions, clean-ups, bookkeeping *)
Definition confined (sp : space) (sub : subspace) (c : call) : Prop :=
  match c with
  | CGet _ sp' sub' _ _ _ _ => sp' = sp /\ sub' = sub
  | CSet id _ _ => from_id id <> Some sp
  | _ => True
  end.

Lemma rows_upd_same d sp sub l : rows_in (upd_tbl d sp l) sp sub = filter (IdManager.in_range sp sub) l.
Proof. unfold rows_in. rewrite upd_same. reflexivity. Qed.
Lemma rows_upd_other d sp sp' sub l : sp <> sp' -> rows_in (upd_tbl d sp' l) sp sub = rows_in d sp sub.
Proof. intro H. unfold rows_in. rewrite upd_other by exact H. reflexivity. Qed.

Lemma nodup_map_sub {A B} (f : A -> B) (q : A -> bool) l : NoDup (map f l) -> NoDup (map f (filter q l)).
Proof. apply nodup_map_filter. Qed.

Lemma filter_comm {A} (p q : A -> bool) l : filter p (filter q l) = filter q (filter p l).
Proof.
  induction l as [|x l IH]; [reflexivity|]. cbn [filter]. destruct (q x) eqn:Eq, (p x) eqn:Ep; cbn [filter]; rewrite ?Eq, ?Ep, IH; reflexivity.
Qed.

Lemma du_filter d sp sub q : desc_unique d sp sub -> NoDup (map idesc (filter (IdManager.in_range sp sub) (filter q (d sp)))).
Proof. intro H. rewrite filter_comm. apply nodup_map_sub. exact H. Qed.

Lemma map_id_noop (id : N) (r : irow) l : ~ In id (map iid l) -> map (fun x => if (iid x =? id)%N then r else x) l = l.
Proof.
  induction l as [|x l IH]; intro H; [reflexivity|]. cbn [map]. destruct (N.eqb_spec (iid x) id) as [E|E].
  - exfalso. apply H. left. exact E.
  - f_equal. apply IH. intro Hin. apply H. right. exact Hin.
Qed.

Lemma upsert_du (p : irow -> bool) (l : list irow) (r : irow) :
  (forall x y, iid x = iid y -> p x = p y) ->
  NoDup (map iid l) -> NoDup (map idesc (filter p l)) -> (forall x, In x (filter p l) -> idesc x <> idesc r) ->
  NoDup (map idesc (filter p (upsert l r))).
Proof.
  intros Hp Hn Hd Hfresh. unfold upsert. destruct (has_id l (iid r)) eqn:Eh.
  - clear Eh. induction l as [|x l IH]; [constructor|]. cbn [map]. inversion Hn as [|? ? Hx Hn']; subst.
    destruct (N.eqb_spec (iid x) (iid r)) as [E|E].
    + rewrite (map_id_noop (iid r) r l) by (rewrite <- E; exact Hx).
      cbn [filter] in *. rewrite <- (Hp x r E). destruct (p x) eqn:Epx; cbn [map] in *.
      * inversion Hd as [|? ? Hdx Hd']; subst. constructor; [|exact Hd'].
        intro Hin. apply in_map_iff in Hin. destruct Hin as (y & Hy & Hyin). apply (Hfresh y); [right; exact Hyin|exact Hy].
      * exact Hd.
    + cbn [filter] in *. destruct (p x) eqn:Epx; cbn [map] in *.
      * inversion Hd as [|? ? Hdx Hd']; subst.
        assert (IH' := IH Hn' Hd' (fun y Hy => Hfresh y (or_intror Hy))). constructor; [|exact IH'].
        intro Hin. apply in_map_iff in Hin. destruct Hin as (y & Hy & Hyin). apply filter_In in Hyin. destruct Hyin as [Hyin Hpy].
        apply in_map_iff in Hyin. destruct Hyin as (z & Hz & Hzin). destruct (N.eqb_spec (iid z) (iid r)) as [Ez|Ez].
        -- subst y. apply (Hfresh x); [left; reflexivity|]. symmetry. exact Hy.
        -- subst y. apply Hdx. apply in_map_iff. exists z. split; [exact Hy|]. apply filter_In. split; [exact Hzin|exact Hpy].
      * apply IH; [exact Hn'|exact Hd|exact Hfresh].
  - rewrite filter_app, map_app. cbn [filter]. destruct (p r); cbn [map]; [|rewrite app_nil_r; exact Hd].
    apply nodup_snoc; [exact Hd|]. intro Hin. apply in_map_iff in Hin. destruct Hin as (y & Hy & Hyin). apply (Hfresh y Hyin Hy).
Qed.

Lemma in_range_iid sp sub x y : iid x = iid y -> IdManager.in_range sp sub x = IdManager.in_range sp sub y.
Proof. unfold IdManager.in_range. intros ->. reflexivity. Qed.

Lemma set_id_du d sp sub id desc t d' : WF d -> desc_unique d sp sub ->
  (forall x, In x (rows_in d sp sub) -> idesc x <> desc) -> set_id d id desc t = Some d' -> desc_unique d' sp sub.
Proof.
  intros Hw Hd Hf Hs. unfold set_id in Hs. destruct (from_id id) as [spi|]; [|discriminate]. inversion Hs; subst d'; clear Hs.
  unfold desc_unique. destruct (space_eq_dec sp spi) as [<-|Hne].
  - rewrite rows_upd_same. apply upsert_du; [apply in_range_iid|exact (proj1 (Hw sp))|exact Hd|exact Hf].
  - rewrite rows_upd_other by exact Hne. exact Hd.
Qed.

Lemma cleanup_rows_sub d sp sub sp' sub' mx ch x : In x (rows_in (cleanup d sp' sub' mx ch) sp sub) -> In x (rows_in d sp sub).
Proof.
  unfold cleanup. cbv zeta. destruct (space_eq_dec sp sp') as [<-|Hne].
  - rewrite rows_upd_same. intro H. apply filter_In in H. destruct H as [H Hr]. apply filter_In in H. apply filter_In. split; [exact (proj1 H)|exact Hr].
  - rewrite rows_upd_other by exact Hne. auto.
Qed.

Lemma cleanup_du d sp sub sp' sub' mx ch : desc_unique d sp sub -> desc_unique (cleanup d sp' sub' mx ch) sp sub.
Proof.
  intro Hd. unfold desc_unique, cleanup. cbv zeta. destruct (space_eq_dec sp sp') as [<-|Hne].
  - rewrite rows_upd_same. apply du_filter. exact Hd.
  - rewrite rows_upd_other by exact Hne. exact Hd.
Qed.

Lemma sample_rounds_du fracs : forall d desc sp sub now size mx samples ch, WF d -> desc_unique d sp sub ->
  (forall x, In x (rows_in d sp sub) -> idesc x <> desc) ->
  desc_unique (snd (sample_rounds d desc sp sub now size mx samples fracs ch)) sp sub.
Proof.
  induction fracs as [|f more IH]; intros d desc sp sub now size mx samples ch Hw Hd Hf; cbn [sample_rounds snd]; [exact Hd|].
  destruct (first_free (d sp) samples sample_tries) as [[id|] rest].
  - destruct (set_id d id desc now) eqn:Es; cbn [snd]; [exact (set_id_du _ _ _ _ _ _ _ Hw Hd Hf Es)|exact Hd].
  - destruct f as [fr|]; cbn [snd]; [|exact Hd]. apply IH; [apply cleanup_wf; exact Hw|apply cleanup_du; exact Hd|].
    intros x Hx. apply Hf. eapply cleanup_rows_sub. exact Hx.
Qed.

Lemma filter_nil_none {A} (q : A -> bool) l : filter q l = [] -> forall x, In x l -> q x = false.
Proof.
  induction l as [|y l IH]; intros H x Hx; [destruct Hx|]. cbn [filter] in H. destruct (q y) eqn:E; [discriminate|].
  destruct Hx as [<-|Hx]; [exact E|exact (IH H x Hx)].
Qed.

Theorem get_id_du d desc sp sub now mx samples ch : WF d -> desc_unique d sp sub ->
  desc_unique (snd (get_id d desc sp sub now mx samples ch)) sp sub.
Proof.
  intros Hw Hd. unfold get_id. cbv zeta.
  destruct (filter (fun r => (idesc r =? desc)%N) (rows_in d sp sub)) as [|h hs] eqn:Eh.
  - assert (Hf : forall x, In x (rows_in d sp sub) -> idesc x <> desc).
    { intros x Hx. pose proof (filter_nil_none _ _ Eh x Hx) as E. cbn in E. apply N.eqb_neq. exact E. }
    destruct (Z.of_N (subspace_size sp sub) <=? Z.min enumerate_limit mx)%Z.
    + destruct (subspace_size sp sub <=? N.of_nat (length (rows_in d sp sub)))%N.
      * destruct (sort_by_age ch (rows_in d sp sub)) as [|v rest]; [exact Hd|].
        destruct (set_id d (iid v) desc now) eqn:Es; cbn [snd]; [exact (set_id_du _ _ _ _ _ _ _ Hw Hd Hf Es)|exact Hd].
      * destruct (negb (forallb _ (rows_in d sp sub))); [exact Hd|].
        destruct (filter (fun i => negb (has_id (rows_in d sp sub) i)) (all_ids sp sub)) as [|f0 fs].
        -- destruct (sort_by_age ch (rows_in d sp sub)) as [|v rest]; [exact Hd|].
           destruct (set_id d (iid v) desc now) eqn:Es; cbn [snd]; [exact (set_id_du _ _ _ _ _ _ _ Hw Hd Hf Es)|exact Hd].
        -- destruct (existsb (N.eqb (free_pick ch)) (f0 :: fs)); [|exact Hd].
           destruct (set_id d (free_pick ch) desc now) eqn:Es; cbn [snd]; [exact (set_id_du _ _ _ _ _ _ _ Hw Hd Hf Es)|exact Hd].
    + apply sample_rounds_du; assumption.
  - destruct (has_id (h :: hs) (hit_pick ch)); [|exact Hd]. cbn [snd]. unfold desc_unique. rewrite rows_upd_same.
    assert (M : map idesc (filter (IdManager.in_range sp sub) (map (fun x => if (iid x =? hit_pick ch)%N then {| iid := iid x; idesc := idesc x; iatime := now |} else x) (d sp)))
                = map idesc (filter (IdManager.in_range sp sub) (d sp))).
    { induction (d sp) as [|x l IH]; [reflexivity|]. cbn [map filter].
      assert (E : IdManager.in_range sp sub (if (iid x =? hit_pick ch)%N then {| iid := iid x; idesc := idesc x; iatime := now |} else x) = IdManager.in_range sp sub x)
        by (apply in_range_iid; destruct (iid x =? hit_pick ch)%N; reflexivity).
      rewrite E. destruct (IdManager.in_range sp sub x); cbn [map]; rewrite IH; [|reflexivity].
      destruct (iid x =? hit_pick ch)%N; reflexivity. }
    rewrite M. exact Hd.
Qed.

Lemma exec_call_du sp sub c s : valid_call c /\ confined sp sub c -> WF (ids s) /\ desc_unique (ids s) sp sub ->
  WF (ids (fst (exec_call c s))) /\ desc_unique (ids (fst (exec_call c s))) sp sub.
Proof.
  intros [Hv Hc] [Hw Hd]. split; [apply exec_call_wf; assumption|]. destruct c; cbn [exec_call confined] in *.
  - destruct Hc as [-> ->]. pose proof (get_id_du (ids s) desc sp sub now mx samples ch Hw Hd) as H.
    destruct (get_id (ids s) desc sp sub now mx samples ch) as [r d']. exact H.
  - unfold set_id. destruct (from_id id) as [spi|] eqn:Ef; cbn [fst ids]; [|exact Hd].
    unfold desc_unique. rewrite rows_upd_other; [exact Hd|]. intro E. apply Hc. rewrite E. reflexivity.
  - unfold del_id. destruct (from_id id) as [spi|]; cbn [fst ids]; [|exact Hd].
    unfold desc_unique. destruct (space_eq_dec sp spi) as [<-|Hne].
    + rewrite rows_upd_same. apply du_filter. exact Hd.
    + rewrite rows_upd_other by exact Hne. exact Hd.
  - cbn [fst ids]. apply cleanup_du. exact Hd.
  - destruct (get_info (ids s) id); exact Hd.
  - exact Hd.
  - exact Hd.
  - destruct (get_info (ids s) id) as [[r|]|]; exact Hd.
  - exact Hd.
  - exact Hd.
  - exact Hd.
  - destruct (from_id id); exact Hd.
Qed.

Theorem schedule_desc_unique s ps es sp sub :
  WF (ids s) -> valid_sub sub -> desc_unique (ids s) sp sub ->
  Forall (Forall (fun c => valid_call c /\ confined sp sub c)) ps ->
  desc_unique (ids (committed (run_events compile (init_world s ps) es))) sp sub.
Proof.
  intros Hw _ Hd Hok.
  apply (schedule_preserves (fun s => WF (ids s) /\ desc_unique (ids s) sp sub) (fun c => valid_call c /\ confined sp sub c)); [|exact Hok|split; assumption].
  intros c s0 Hc H0. apply exec_call_du; assumption.
Qed.

(* ------------------------------------------------------------------ refutations of the two former shapes *)
Notation merges := (SerialSpec.merges call).
Definition run_calls (l : list call) (s : store) : store * list result :=
  fold_left (fun acc c => let '(s', r) := exec_call c (fst acc) in (s', snd acc ++ [r])) l (s, []).

(* id 4 of the 8-bit space is bound to description 5.  P0: mark_uploaded(4, T=9) [default description];
   P1: set_id(4, 6); mark_uploaded(4, T=9).  Schedule: P0 reads, P1 runs both calls, P0 inserts: the upload row says
   description 5 although P1's mark came after its set; every one-at-a-time order ends with description 6. *)
Definition w1_store : store := {| ids := fun sp => match sp with Sp8 => [{| iid := 4; idesc := 5; iatime := 50 |}] | _ => [] end; ups := [] |}.
Definition w1_ps : list (list call) := [[CMark 4 9 10 200 None]; [CSet 4 6 150; CMark 4 9 10 300 None]].
Definition w1_es : list event := [Run 0; Run 1; Run 1; Run 1; Run 0].

Definition urow_eqb (a b : urow) : bool :=
  (rid a =? rid b)%N && (rterm a =? rterm b)%N && (rdesc a =? rdesc b)%N && (rsize a =? rsize b)%Z && (rtime a =? rtime b)%Z.
Fixpoint utable_eqb (a b : utable) : bool :=
  match a, b with [], [] => true | x :: a', y :: b' => urow_eqb x y && utable_eqb a' b' | _, _ => false end.
Lemma utable_eqb_refl a : utable_eqb a a = true.
Proof. induction a as [|x a IH]; [reflexivity|]. cbn. unfold urow_eqb. rewrite !N.eqb_refl, !Z.eqb_refl, IH. reflexivity. Qed.

Theorem mark_two_refuted :
  exists s ps es, let w := run_events (compile_with true true false true) (init_world s ps) es in
    forall order, In order (merges ps) -> ups (fst (run_calls order s)) <> ups (committed w).
Proof.
  exists w1_store, w1_ps, w1_es. cbv zeta. intros order Hin Heq.
  assert (H : forallb (fun o => negb (utable_eqb (ups (fst (run_calls o w1_store)))
                (ups (committed (run_events (compile_with true true false true) (init_world w1_store w1_ps) w1_es))))) (merges w1_ps) = true)
    by (vm_compute; reflexivity).
  rewrite forallb_forall in H. specialize (H order Hin). rewrite Heq, utable_eqb_refl in H. discriminate.
Qed.

(* id 4 -> description 5 uploaded to T=9 at time 100.  P0: get_upload_info(4, 9);  P1: mark_uploaded(4, 9) at 200,
   mark_uploaded(7, 9) at 300.  Schedule: P0 reads the row (time 100), P1 runs both, P0 counts the rows newer than 100:
   uploads_ago = 3, while every one-at-a-time order gives 1 or 2. *)
Definition w2_store : store :=
  {| ids := fun sp => match sp with Sp8 => [{| iid := 4; idesc := 5; iatime := 50 |}; {| iid := 7; idesc := 6; iatime := 51 |}] | _ => [] end;
     ups := [{| rid := 4; rterm := 9; rdesc := 5; rsize := 1; rtime := 100 |}] |}.
Definition w2_ps : list (list call) := [[CUploadInfo 4 9]; [CMark 4 9 1 200 None; CMark 7 9 1 300 None]].
Definition w2_es : list event := [Run 0; Run 1; Run 1; Run 1; Run 1; Run 1; Run 1; Run 0].

Definition upinfo_ago (r : result) : Z := match r with RUp (Some (_, _, _, _, ua)) => ua | _ => 0%Z end.

Theorem reads_unsnapshotted_refuted :
  exists s ps es, let w := run_events (compile_with true true true false) (init_world s ps) es in
    exists p pr, nth_error (procs w) p = Some pr /\
    forall order, In order (merges ps) -> ~ In (last (done pr) RError) (snd (run_calls order s)).
Proof.
  exists w2_store, w2_ps, w2_es. cbv zeta. exists 0.
  eexists. split; [vm_compute; reflexivity|]. intros order Hin Hr.
  assert (H : forallb (fun o => forallb (fun r => negb (upinfo_ago r =? 3)%Z) (snd (run_calls o w2_store))) (merges w2_ps) = true)
    by (vm_compute; reflexivity).
  rewrite forallb_forall in H. specialize (H order Hin). rewrite forallb_forall in H. specialize (H _ Hr).
  vm_compute in H. discriminate.
Qed.
