(* Proofs/TermLexFacts.v — layer (i) of C07: serialising tokens and lexing them back.
   [ser] is the inverse direction of Spec.TermSpec.lex for the tokens the library can emit;
   [lex_ser_toks]: feeding the serialisation of a token list from the ground state yields exactly
   that token list (and ends in the ground state).  Proved by rewriting with one-step lemmas. *)
From Coq Require Import ZArith NArith List Bool Lia ZifyN ZifyBool ZifyNat.
From Tup Require Import Lib.Dec Lib.DecFacts Lib.Utf8 Spec.TermSpec.
Import ListNotations.
Open Scope N_scope.
Ltac Zify.zify_post_hook ::= Z.to_euclidean_division_equations.

Definition ser_params (ps : list N) : list N :=
  match ps with
  | [] => []
  | p :: r => dec p ++ flat_map (fun q => 59 :: dec q) r
  end.

Definition ser (k : tok) : list N :=
  match k with
  | TChar cp => utf8_encode cp
  | TCtl b => [b]
  | TEsc b => [27; b]
  | TCsi ps f => [27; 91] ++ ser_params ps ++ [f]
  end.
Definition ser_toks (ks : list tok) : list N := flat_map ser ks.

Definition ok_tok (k : tok) : Prop :=
  match k with
  | TChar cp => 32 <= cp < 1114112 /\ cp <> 127
  | TCtl b => (b < 32 /\ b <> 27) \/ b = 127
  | TEsc b => 48 <= b < 127 /\ b <> 80 /\ b <> 88 /\ b <> 91 /\ b <> 93 /\ b <> 94 /\ b <> 95
  | TCsi ps f => 64 <= f < 127
  end.

(* ---- dec produces digits (from the design prototype A.5) *)
Lemma digits_rev_digit fuel n : Forall (fun d => d < 10) (digits_rev fuel n).
Proof.
  revert n; induction fuel as [|f IH]; intros n; cbn [digits_rev]; [constructor|].
  destruct (n <? 10) eqn:E.
  - constructor; [lia|constructor].
  - constructor; [apply N.mod_lt; lia|apply IH].
Qed.
Lemma dec_is_digits n : Forall (fun b => is_digit b = true) (dec n).
Proof.
  unfold dec. apply Forall_forall. intros b Hb. apply in_map_iff in Hb as (d & <- & Hd).
  apply in_rev in Hd. pose proof (digits_rev_digit (S (N.to_nat (N.size n))) n) as H.
  rewrite Forall_forall in H. specialize (H d Hd). unfold is_digit. lia.
Qed.
Lemma dec_nonempty n : dec n <> [].
Proof.
  unfold dec. cbn [digits_rev]. destruct (n <? 10); cbn [rev]; intros H;
  apply map_eq_nil in H; apply app_eq_nil in H; destruct H; discriminate.
Qed.

Definition acc_digits (cur : option N) (ds : list N) : option N :=
  fold_left (fun c b => Some (match c with Some c => c * 10 + (b - 48) | None => b - 48 end)) ds cur.

Lemma acc_none_dec n : acc_digits None (dec n) = Some n.
Proof.
  pose proof (undec_dec n) as H. unfold undec in H. unfold acc_digits.
  destruct (dec n) as [|b r] eqn:E; [exfalso; eapply dec_nonempty; eauto|].
  cbn [fold_left] in *. replace (0 * 10 + (b - 48)) with (b - 48) in H by lia.
  revert H. generalize (b - 48). clear. induction r as [|c r IH]; intros a H; cbn [fold_left] in *.
  - congruence.
  - apply IH. exact H.
Qed.

(* ---- generic facts about lex *)
Lemma lex_step s b r s' o : step s b = (s', o) ->
  lex s (b :: r) = (fst (lex s' r), o ++ snd (lex s' r)).
Proof. intros H. cbn [lex]. rewrite H. destruct (lex s' r). reflexivity. Qed.

Lemma lex_app s l1 l2 :
  lex s (l1 ++ l2) = (fst (lex (fst (lex s l1)) l2), snd (lex s l1) ++ snd (lex (fst (lex s l1)) l2)).
Proof.
  revert s; induction l1 as [|b r IH]; intros s; cbn [app lex fst snd].
  - destruct (lex s l2); reflexivity.
  - destruct (step s b) as [s' o]. rewrite IH. destruct (lex s' r) as [s1 t1]. cbn [fst snd].
    destruct (lex s1 l2) as [s2 t2]. cbn [fst snd]. rewrite app_assoc. reflexivity.
Qed.

Lemma lex_digits bad done ds : Forall (fun b => is_digit b = true) ds -> forall cur rest,
  lex (Csi bad done cur) (ds ++ rest) = lex (Csi bad done (acc_digits cur ds)) rest.
Proof.
  induction 1 as [|b r Hb _ IH]; intros cur rest; [reflexivity|].
  cbn [app]. rewrite (lex_step _ _ _ (Csi bad done (Some (match cur with Some c => c * 10 + (b - 48) | None => b - 48 end))) []).
  - rewrite IH. cbn [acc_digits fold_left app]. destruct (lex _ rest); reflexivity.
  - cbn [step]. rewrite Hb. reflexivity.
Qed.

(* ---- one-step lemmas *)
Lemma step_ground_printable b : 32 <= b < 127 -> step Ground b = (Ground, [TChar b]).
Proof.
  intros H. cbn [step]. unfold step_ground.
  destruct (b =? 27) eqn:E1; [lia|]. destruct ((b <? 32) || (b =? 127)) eqn:E2; [lia|].
  destruct (b <? 128) eqn:E3; [reflexivity|lia].
Qed.
Lemma step_ground_ctl b : (b < 32 /\ b <> 27) \/ b = 127 -> step Ground b = (Ground, [TCtl b]).
Proof.
  intros H. cbn [step]. unfold step_ground.
  destruct (b =? 27) eqn:E1; [lia|]. destruct ((b <? 32) || (b =? 127)) eqn:E2; [reflexivity|lia].
Qed.
Lemma step_ground_lead2 b : 194 <= b < 224 -> step Ground b = (Utf 1 (b - 192), []).
Proof.
  intros H. cbn [step]. unfold step_ground.
  destruct (b =? 27) eqn:E1; [lia|]. destruct ((b <? 32) || (b =? 127)) eqn:E2; [lia|].
  destruct (b <? 128) eqn:E3; [lia|]. destruct (b <? 194) eqn:E4; [lia|].
  destruct (b <? 224) eqn:E5; [reflexivity|lia].
Qed.
Lemma step_ground_lead3 b : 224 <= b < 240 -> step Ground b = (Utf 2 (b - 224), []).
Proof.
  intros H. cbn [step]. unfold step_ground.
  destruct (b =? 27) eqn:E1; [lia|]. destruct ((b <? 32) || (b =? 127)) eqn:E2; [lia|].
  destruct (b <? 128) eqn:E3; [lia|]. destruct (b <? 194) eqn:E4; [lia|].
  destruct (b <? 224) eqn:E5; [lia|]. destruct (b <? 240) eqn:E6; [reflexivity|lia].
Qed.
Lemma step_ground_lead4 b : 240 <= b < 248 -> step Ground b = (Utf 3 (b - 240), []).
Proof.
  intros H. cbn [step]. unfold step_ground.
  destruct (b =? 27) eqn:E1; [lia|]. destruct ((b <? 32) || (b =? 127)) eqn:E2; [lia|].
  destruct (b <? 128) eqn:E3; [lia|]. destruct (b <? 194) eqn:E4; [lia|].
  destruct (b <? 224) eqn:E5; [lia|]. destruct (b <? 240) eqn:E6; [lia|].
  destruct (b <? 248) eqn:E7; [reflexivity|lia].
Qed.
Lemma step_utf_last acc b : 128 <= b < 192 -> step (Utf 1 acc) b = (Ground, [TChar (acc * 64 + (b - 128))]).
Proof. intros H. cbn [step]. destruct ((128 <=? b) && (b <? 192)) eqn:E; [reflexivity|lia]. Qed.
Lemma step_utf_more n acc b : 128 <= b < 192 -> step (Utf (S (S n)) acc) b = (Utf (S n) (acc * 64 + (b - 128)), []).
Proof. intros H. cbn [step]. destruct ((128 <=? b) && (b <? 192)) eqn:E; [reflexivity|lia]. Qed.

Lemma step_ground_esc : step Ground 27 = (Esc, []). Proof. reflexivity. Qed.
Lemma step_esc_csi : step Esc 91 = (Csi false [] None, []). Proof. reflexivity. Qed.
Lemma step_esc_final b : 48 <= b < 127 /\ b <> 80 /\ b <> 88 /\ b <> 91 /\ b <> 93 /\ b <> 94 /\ b <> 95 ->
  step Esc b = (Ground, [TEsc b]).
Proof.
  intros H. cbn [step].
  destruct (b =? 91) eqn:E1; [lia|]. destruct (b =? 27) eqn:E2; [lia|].
  destruct ((32 <=? b) && (b <? 48)) eqn:E3; [lia|].
  destruct ((b =? 80) || (b =? 88) || (b =? 93) || (b =? 94) || (b =? 95)) eqn:E4; [lia|reflexivity].
Qed.
Lemma step_csi_semi bad done cur :
  step (Csi bad done cur) 59 = (Csi bad (done ++ [match cur with Some c => c | None => 0 end]) None, []).
Proof. reflexivity. Qed.
Lemma step_csi_final done cur f : 64 <= f < 127 ->
  step (Csi false done cur) f = (Ground, [TCsi (csi_params done cur) f]).
Proof.
  intros H. cbn [step]. unfold is_digit.
  destruct ((48 <=? f) && (f <=? 57)) eqn:E1; [lia|]. destruct (f =? 59) eqn:E2; [lia|].
  destruct (f =? 27) eqn:E3; [lia|]. destruct (f <? 32) eqn:E4; [lia|]. destruct (f <? 64) eqn:E5; [lia|reflexivity].
Qed.

(* ---- one token *)
Lemma lex_char cp rest : 32 <= cp < 1114112 -> cp <> 127 ->
  lex Ground (utf8_encode cp ++ rest) = (fst (lex Ground rest), TChar cp :: snd (lex Ground rest)).
Proof.
  intros H H127. unfold utf8_encode.
  destruct (cp <? 128) eqn:E1.
  { cbn [app]. rewrite (lex_step _ _ _ _ _ (step_ground_printable cp ltac:(lia))). reflexivity. }
  destruct (cp <? 2048) eqn:E2.
  { cbn [app]. rewrite (lex_step _ _ _ _ _ (step_ground_lead2 (192 + cp / 64) ltac:(lia))).
    rewrite (lex_step _ _ _ _ _ (step_utf_last (192 + cp / 64 - 192) (128 + cp mod 64) ltac:(lia))). cbn [fst snd app].
    do 3 f_equal. lia. }
  destruct (cp <? 65536) eqn:E3.
  { cbn [app]. rewrite (lex_step _ _ _ _ _ (step_ground_lead3 (224 + cp / 4096) ltac:(lia))).
    rewrite (lex_step _ _ _ _ _ (step_utf_more 0 (224 + cp / 4096 - 224) (128 + (cp / 64) mod 64) ltac:(lia))).
    rewrite (lex_step _ _ _ _ _ (step_utf_last _ (128 + cp mod 64) ltac:(lia))). cbn [fst snd app].
    do 3 f_equal. lia. }
  cbn [app]. rewrite (lex_step _ _ _ _ _ (step_ground_lead4 (240 + cp / 262144) ltac:(lia))).
  rewrite (lex_step _ _ _ _ _ (step_utf_more 1 (240 + cp / 262144 - 240) (128 + (cp / 4096) mod 64) ltac:(lia))).
  rewrite (lex_step _ _ _ _ _ (step_utf_more 0 _ (128 + (cp / 64) mod 64) ltac:(lia))).
  rewrite (lex_step _ _ _ _ _ (step_utf_last _ (128 + cp mod 64) ltac:(lia))). cbn [fst snd app].
  do 3 f_equal. lia.
Qed.

Lemma lex_more_params f (Hf : 64 <= f < 127) rest : forall qs done c,
  lex (Csi false done (Some c)) (flat_map (fun q => 59 :: dec q) qs ++ f :: rest)
  = (fst (lex Ground rest), TCsi (done ++ c :: qs) f :: snd (lex Ground rest)).
Proof.
  induction qs as [|q qs IH]; intros done c.
  - cbn [flat_map app]. rewrite (lex_step _ _ _ _ _ (step_csi_final done (Some c) f Hf)). reflexivity.
  - cbn [flat_map]. rewrite <- !app_assoc. cbn [app].
    rewrite (lex_step _ _ _ _ _ (step_csi_semi false done (Some c))). cbn [app].
    rewrite lex_digits by apply dec_is_digits. rewrite acc_none_dec.
    rewrite IH. cbn [fst snd]. rewrite <- app_assoc. reflexivity.
Qed.

Lemma lex_csi ps f rest : 64 <= f < 127 ->
  lex Ground (ser (TCsi ps f) ++ rest) = (fst (lex Ground rest), TCsi ps f :: snd (lex Ground rest)).
Proof.
  intros Hf. cbn [ser]. rewrite <- !app_assoc. cbn [app].
  rewrite (lex_step _ _ _ _ _ step_ground_esc), (lex_step _ _ _ _ _ step_esc_csi). cbn [app fst snd].
  destruct ps as [|p qs]; cbn [ser_params app].
  - rewrite (lex_step _ _ _ _ _ (step_csi_final [] None f Hf)). reflexivity.
  - rewrite <- app_assoc. rewrite lex_digits by apply dec_is_digits. rewrite acc_none_dec.
    rewrite (lex_more_params f Hf rest qs [] p). reflexivity.
Qed.

Lemma lex_tok k rest : ok_tok k ->
  lex Ground (ser k ++ rest) = (fst (lex Ground rest), k :: snd (lex Ground rest)).
Proof.
  destruct k as [cp|b|b|ps f]; cbn [ok_tok]; intros H.
  - apply lex_char; lia.
  - cbn [ser app]. rewrite (lex_step _ _ _ _ _ (step_ground_ctl b H)). reflexivity.
  - cbn [ser app]. rewrite (lex_step _ _ _ _ _ step_ground_esc), (lex_step _ _ _ _ _ (step_esc_final b H)). reflexivity.
  - apply lex_csi; exact H.
Qed.

Theorem lex_ser_toks ks : Forall ok_tok ks -> lex Ground (ser_toks ks) = (Ground, ks).
Proof.
  induction 1 as [|k ks Hk _ IH]; [reflexivity|].
  unfold ser_toks in *. cbn [flat_map]. rewrite (lex_tok k _ Hk), IH. reflexivity.
Qed.

Corollary tokens_ser_toks ks : Forall ok_tok ks -> tokens (ser_toks ks) = ks.
Proof. intros H. unfold tokens. rewrite lex_ser_toks by exact H. reflexivity. Qed.

Lemma ser_toks_app a b : ser_toks (a ++ b) = ser_toks a ++ ser_toks b.
Proof. apply flat_map_app. Qed.

(* ---- ONLCR: only a serialised LF contains byte 10 *)
Lemma tty_onlcr_app a b : tty_onlcr (a ++ b) = tty_onlcr a ++ tty_onlcr b.
Proof. apply flat_map_app. Qed.
Lemma tty_onlcr_id l : Forall (fun b => b <> 10) l -> tty_onlcr l = l.
Proof.
  induction 1 as [|b l Hb _ IH]; [reflexivity|]. unfold tty_onlcr in *. cbn [flat_map].
  destruct (b =? 10) eqn:E; [lia|]. cbn [app]. rewrite IH. reflexivity.
Qed.

Lemma utf8_no_lf cp : cp <> 10 -> Forall (fun b => b <> 10) (utf8_encode cp).
Proof.
  intros H. unfold utf8_encode.
  destruct (cp <? 128); [repeat constructor; lia|].
  destruct (cp <? 2048); [repeat constructor; lia|].
  destruct (cp <? 65536); repeat constructor; lia.
Qed.
Lemma dec_no_lf n : Forall (fun b => b <> 10) (dec n).
Proof.
  pose proof (dec_is_digits n) as H. rewrite Forall_forall in *. intros b Hb. specialize (H b Hb).
  unfold is_digit in H. lia.
Qed.
Lemma ser_no_lf k : ok_tok k -> k <> TCtl 10 -> Forall (fun b => b <> 10) (ser k).
Proof.
  destruct k as [cp|b|b|ps f]; cbn [ok_tok ser]; intros H Hk.
  - apply utf8_no_lf. lia.
  - repeat constructor. intros ->. apply Hk. reflexivity.
  - repeat constructor; lia.
  - apply Forall_app. split; [repeat constructor; lia|]. apply Forall_app. split; [|repeat constructor; lia].
    destruct ps as [|p qs]; cbn [ser_params]; [constructor|].
    apply Forall_app. split; [apply dec_no_lf|]. clear Hk.
    induction qs as [|q qs IH]; cbn [flat_map]; [constructor|].
    constructor; [lia|]. apply Forall_app. split; [apply dec_no_lf|exact IH].
Qed.
Lemma tty_onlcr_ser_toks ks : Forall ok_tok ks -> Forall (fun k => k <> TCtl 10) ks ->
  tty_onlcr (ser_toks ks) = ser_toks ks.
Proof.
  intros H1 H2. apply tty_onlcr_id. unfold ser_toks.
  induction ks as [|k ks IH]; cbn [flat_map]; [constructor|].
  inversion_clear H1. inversion_clear H2. apply Forall_app. split; [apply ser_no_lf; assumption|apply IH; assumption].
Qed.
