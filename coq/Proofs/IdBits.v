(* Proofs/IdBits.v — masks, shifts and bitwise-or as arithmetic (/, mod, *, +). *)
From Coq Require Import ZArith NArith List Bool Lia ZifyN ZifyBool ZifyNat.
Open Scope N_scope.
Ltac Zify.zify_post_hook ::= Z.to_euclidean_division_equations.

(* id & (ones(w) << off)  =  ((id >> off) & ones(w)) << off *)
Lemma land_shifted_ones id w off :
  N.land id (N.shiftl (N.ones w) off) = N.shiftl (N.land (N.shiftr id off) (N.ones w)) off.
Proof.
  apply N.bits_inj. intros n. rewrite N.land_spec.
  destruct (N.ltb_spec n off) as [L|L].
  - rewrite !N.shiftl_spec_low by assumption. apply andb_false_r.
  - rewrite !N.shiftl_spec_high' by assumption. rewrite N.land_spec, N.shiftr_spec'.
    replace (n - off + off) with n by lia. reflexivity.
Qed.

Lemma land_shifted_ones_arith id w off :
  N.land id (N.shiftl (N.ones w) off) = ((id / 2 ^ off) mod 2 ^ w) * 2 ^ off.
Proof. rewrite land_shifted_ones, N.land_ones, N.shiftr_div_pow2, N.shiftl_mul_pow2. reflexivity. Qed.

Lemma shiftr_land_ones id w off : N.land (N.shiftr id off) (N.ones w) = (id / 2 ^ off) mod 2 ^ w.
Proof. rewrite N.land_ones, N.shiftr_div_pow2. reflexivity. Qed.

(* disjoint lor = sum *)
Lemma lor_add_disjoint a b : N.land a b = 0 -> N.lor a b = a + b.
Proof. intros H. rewrite <- N.lxor_lor by assumption. symmetry. apply N.add_nocarry_lxor. assumption. Qed.

Lemma land_shift_small x k y : y < 2 ^ k -> N.land (N.shiftl x k) y = 0.
Proof.
  intros Hy. apply N.bits_inj. intros n. rewrite N.land_spec, N.bits_0.
  destruct (N.ltb_spec n k) as [L|L].
  - rewrite N.shiftl_spec_low by assumption. reflexivity.
  - destruct (N.eq_dec y 0) as [->|Hy0]; [rewrite N.bits_0; apply andb_false_r|].
    assert (N.testbit y n = false) as ->; [|apply andb_false_r].
    apply N.bits_above_log2. apply N.log2_lt_pow2; [lia|].
    apply N.lt_le_trans with (2 ^ k); [assumption|]. apply N.pow_le_mono_r; lia.
Qed.

Lemma lor_shift_add x k y : y < 2 ^ k -> N.lor (N.shiftl x k) y = x * 2 ^ k + y.
Proof. intros H. rewrite lor_add_disjoint by (apply land_shift_small; exact H). rewrite N.shiftl_mul_pow2. reflexivity. Qed.

(* (a << (k+j)) | (b << k)  =  (a * 2^j + b) << k   for b < 2^j *)
Lemma lor_shl_shl a b j k : b < 2 ^ j ->
  N.lor (N.shiftl a (j + k)) (N.shiftl b k) = (a * 2 ^ j + b) * 2 ^ k.
Proof.
  intros H. rewrite <- (N.shiftl_shiftl a j k), <- N.shiftl_lor, lor_shift_add by exact H.
  apply N.shiftl_mul_pow2.
Qed.

(* b3<<24 | b12<<8 | b0 *)
Lemma compose3_sum b3 b12 b0 : b12 < 65536 -> b0 < 256 ->
  N.lor (N.lor (N.shiftl b3 24) (N.shiftl b12 8)) b0 = b3 * 16777216 + b12 * 256 + b0.
Proof.
  intros H12 H0. change 24 with (16 + 8).
  rewrite lor_shl_shl by (change (2 ^ 16) with 65536; lia).
  change (2 ^ 16) with 65536. change (2 ^ 8) with 256.
  rewrite <- (N.shiftl_mul_pow2 _ 8), lor_shift_add by (change (2 ^ 8) with 256; lia).
  change (2 ^ 8) with 256. lia.
Qed.

(* b3<<24 | b2<<16 | b1<<8 | b0 *)
Lemma compose4_sum b3 b2 b1 b0 : b2 < 256 -> b1 < 256 -> b0 < 256 ->
  N.lor (N.lor (N.lor (N.shiftl b3 24) (N.shiftl b2 16)) (N.shiftl b1 8)) b0
  = b3 * 16777216 + b2 * 65536 + b1 * 256 + b0.
Proof.
  intros H2 H1 H0. change 24 with (8 + 16).
  rewrite lor_shl_shl by (change (2 ^ 8) with 256; lia).
  change (2 ^ 8) with 256. change (2 ^ 16) with 65536.
  replace ((b3 * 256 + b2) * 65536) with (N.shiftl (b3 * 256 + b2) (8 + 8))
    by (rewrite N.shiftl_mul_pow2; reflexivity).
  rewrite lor_shl_shl by (change (2 ^ 8) with 256; lia).
  change (2 ^ 8) with 256.
  rewrite <- (N.shiftl_mul_pow2 _ 8), lor_shift_add by (change (2 ^ 8) with 256; lia).
  change (2 ^ 8) with 256. lia.
Qed.

(* b2<<8 | b1 *)
Lemma compose2_sum b2 b1 : b1 < 256 -> N.lor (N.shiftl b2 8) b1 = b2 * 256 + b1.
Proof. intros H. rewrite lor_shift_add by (change (2 ^ 8) with 256; lia). reflexivity. Qed.
