(* Proofs/PlaceholderLines.v — C13: each placeholder line is self-contained and leaves the text
   attributes reset.
     line_shape        every line is  ESC[0m . formatting . colours . cells . ESC[0m
     attrs_reset_*     after any single line and after any complete stream (any style, any start
                       state, no fit condition) foreground, underline and background are default
     bg_confined       cells outside the rectangle keep their background
     lines_alone       any selection of lines (subset, reordering, repetition), one per screen line,
                       as produced by head / tail / grep (LF-terminated, through a tty with ONLCR),
                       decodes row-wise to the right cells *)
From Coq Require Import ZArith NArith List Bool Lia ZifyN ZifyBool ZifyNat.
From Tup Require Import Lib.Utf8 Gen.DiacriticsGen Model.PlaceholderModel
  Spec.TermSpec Spec.PlaceholderSpec Proofs.DiacriticsFacts Proofs.TermLexFacts Proofs.TermPaintFacts
  Proofs.TermChorFacts Proofs.PlaceholderToks Proofs.PlaceholderStreams Proofs.PlaceholderDecode
  Proofs.PlaceholderStmt Proofs.PlaceholderMain.
Import ListNotations.
Open Scope N_scope.

(* ---- 1. shape *)
Definition line_colours (p : placeholder) (m : mode) (row : N) : list tok :=
  if row <? 297 then fg_tok m (image_id p) :: ul_toks m (placement_id p) else [].
Definition line_cells (p : placeholder) (m : mode) (b : bgfmt) (row : N) : list item :=
  if row <? 297 then line_items p m b row else blank_items p b row.

Lemma row_toks_shape p m b row :
  row_toks p m b row = [reset_tok] ++ map bg_tok (row_bgs b row) ++ line_colours p m row
                       ++ flat_map item_toks (line_cells p m b row) ++ [reset_tok].
Proof.
  unfold row_toks, line_colours, line_cells, line_toks, line_pre, blank_pre.
  destruct (297 <=? row) eqn:E; [replace (row <? 297) with false by lia|replace (row <? 297) with true by lia];
    cbn [app]; rewrite <- ?app_assoc; cbn [app]; rewrite ?app_nil_r; reflexivity.
Qed.

Lemma nth_lines_toks p m b i : (i < height p)%nat ->
  nth i (map ser_toks (lines_toks p m b)) [] = ser_toks (row_toks p m b (start_row p + N.of_nat i)).
Proof.
  intros Hi. unfold lines_toks, rows_of, range. rewrite !map_map.
  rewrite (nth_indep _ [] (ser_toks (row_toks p m b (N.of_nat 0)))) by (rewrite map_length, seq_length; exact Hi).
  rewrite (map_nth (fun k => ser_toks (row_toks p m b (N.of_nat k)))), seq_nth by exact Hi. do 2 f_equal. lia.
Qed.

Theorem line_shape p m b : rect_ok p -> blank_reset_ok p -> mode_ok m ->
  exists lines, to_lines p m (fmt_of b) false = Ok lines /\ length lines = height p /\
    forall i, (i < height p)%nat ->
      let row := start_row p + N.of_nat i in
      nth i lines [] = [27; 91; 48; 109] ++ ser_bgs (row_bgs b row) ++ ser_toks (line_colours p m row)
                       ++ ser_toks (flat_map item_toks (line_cells p m b row)) ++ [27; 91; 48; 109].
Proof.
  intros Hp Hbr (_ & _ & Hph). pose proof Hp as (_ & _ & _ & _ & P5).
  eexists. split; [apply (to_lines_toks p m b (rect_ok_validate p Hp) Hph P5 Hbr)|]. split.
  - unfold lines_toks. rewrite !map_length. apply rows_of_length.
  - intros i Hi. cbv zeta. rewrite (nth_lines_toks p m b i Hi), row_toks_shape, !ser_toks_app. reflexivity.
Qed.

(* ---- 3. attributes are reset *)
Section Sized.
Variables W H : Z.
Notation run := (run W H).

Lemma run_ends_reset t ks : sgr (run t (ks ++ [reset_tok])) = default_attrs.
Proof. rewrite run_app, run_cons, run_nil. reflexivity. Qed.

Lemma row_toks_ends p m b row : exists A, row_toks p m b row = A ++ [reset_tok].
Proof.
  rewrite row_toks_shape. eexists. rewrite !app_assoc. reflexivity.
Qed.

Lemma chor_toks_ends pre post : forall lines, lines <> [] ->
  Forall (fun l => exists A, l = A ++ [reset_tok]) lines -> exists A, chor_toks pre post lines = A ++ [reset_tok].
Proof.
  induction lines as [|l rest IH]; intros Hne Hall; [congruence|].
  inversion_clear Hall as [|zz1 zz2 Hl Hrest]. destruct rest as [|l2 rest'].
  - exact Hl.
  - destruct (IH ltac:(discriminate) Hrest) as [A HA]. rewrite chor_toks_cons, HA. eexists. rewrite app_assoc. reflexivity.
Qed.
Lemma abs_toks_ends px py : forall lines idx, lines <> [] ->
  Forall (fun l => exists A, l = A ++ [reset_tok]) lines -> exists A, abs_toks px py idx lines = A ++ [reset_tok].
Proof.
  induction lines as [|l rest IH]; intros idx Hne Hall; [congruence|].
  inversion_clear Hall as [|zz1 zz2 [B HB] Hrest]. cbn [abs_toks]. destruct rest as [|l2 rest'].
  - cbn [abs_toks]. rewrite app_nil_r, HB. exists (TCsi [py + idx + 1; px + 1] 72 :: B). reflexivity.
  - destruct (IH (idx + 1) ltac:(discriminate) Hrest) as [A HA]. rewrite HA.
    exists (TCsi [py + idx + 1; px + 1] 72 :: l ++ A). cbn [app]. rewrite app_assoc. reflexivity.
Qed.

(* the token stream of each style *)
Definition style_toks (st : style) (p : placeholder) (m : mode) (b : bgfmt) : list tok :=
  match st with
  | StSaveRestore => chor_toks sr_pre sr_post (lines_toks p m b)
  | StRelative => chor_toks [] (rel_post (width p)) (lines_toks p m b)
  | StLineFeeds _ => chor_toks [] lf_post (lines_toks p m b)
  | StAbsolute px py _ => abs_toks px py 0 (lines_toks p m b)
  end.

Lemma lines_toks_ne p m b : rect_ok p -> lines_toks p m b <> [].
Proof.
  intros (_ & _ & _ & P4 & _) E0. apply (f_equal (@length (list tok))) in E0. unfold lines_toks in E0.
  rewrite map_length, rows_of_length in E0. unfold height in E0. cbn [length] in E0. lia.
Qed.

Theorem stream_tokens st p m b : rect_ok p -> blank_reset_ok p -> mode_ok m ->
  exists ws, stream_of st p m (fmt_of b) = Ok ws /\ tokens (wire st (concat ws)) = style_toks st p m b.
Proof.
  intros Hp Hbr (Hl1 & Hl2 & Hph).
  pose proof Hp as (P1 & P2 & P3 & P4 & P5). destruct (rect_ok_msb p Hp) as [_ Hm].
  pose proof (to_lines_toks p m b (rect_ok_validate p Hp) Hph P5 Hbr) as TL.
  pose proof (lines_toks_ok p m b P5 Hm) as Hlt.
  pose proof (lines_ok_of_line_tok _ Hlt) as Hok.
  pose proof (lines_toks_ne p m b Hp) as Hne.
  assert (Hlen : N.of_nat (length (map ser_toks (lines_toks p m b))) = 0 + N.of_nat (length (lines_toks p m b)))
    by (rewrite map_length; lia).
  destruct st as [| |us|px py us]; cbn [stream_of to_stream wire style_toks].
  - unfold to_stream_at_cursor. rewrite TL. cbn [on_lines]. eexists. split; [reflexivity|].
    rewrite (cursor_go_sr p _ 0 _ Hne Hlen).
    apply tokens_ser_toks. apply chor_toks_ok; [apply sr_pre_ok|apply sr_post_ok|exact Hok].
  - unfold to_stream_at_cursor. rewrite TL. cbn [on_lines]. eexists. split; [reflexivity|].
    rewrite (cursor_go_rel p _ 0 _ Hne Hlen).
    replace (N.to_nat (end_col p - start_col p)) with (width p) by (unfold width; lia).
    apply tokens_ser_toks. apply chor_toks_ok; [constructor|apply rel_post_ok|exact Hok].
  - unfold to_stream_at_cursor. rewrite TL. cbn [on_lines]. eexists. split; [reflexivity|].
    rewrite (cursor_go_lf p us _ 0 _ Hne Hlen Hlt).
    apply tokens_ser_toks. apply chor_toks_ok; [constructor|apply lf_post_ok|exact Hok].
  - unfold to_stream_abs_position. rewrite TL. cbn [on_lines fst snd]. eexists. split; [reflexivity|].
    rewrite abs_go_toks. apply tokens_ser_toks. apply abs_toks_ok. exact Hok.
Qed.

Lemma lines_end_reset p m b : Forall (fun l => exists A, l = A ++ [reset_tok]) (lines_toks p m b).
Proof.
  unfold lines_toks. apply Forall_forall. intros l Hl. apply in_map_iff in Hl as (row & <- & _). apply row_toks_ends.
Qed.

(* after a complete stream, from ANY terminal state *)
Theorem attrs_reset_stream st p m b (t0 : term) : rect_ok p -> blank_reset_ok p -> mode_ok m ->
  exists ws, stream_of st p m (fmt_of b) = Ok ws /\ sgr (feed W H t0 (wire st (concat ws))) = default_attrs.
Proof.
  intros Hp Hbr Hm. destruct (stream_tokens st p m b Hp Hbr Hm) as (ws & Hws & Htoks).
  exists ws. split; [exact Hws|]. unfold feed. rewrite Htoks.
  pose proof (lines_toks_ne p m b Hp) as Hne. pose proof (lines_end_reset p m b) as He.
  destruct st as [| |us|px py us]; cbn [style_toks].
  - destruct (chor_toks_ends sr_pre sr_post _ Hne He) as [A ->]. apply run_ends_reset.
  - destruct (chor_toks_ends [] (rel_post (width p)) _ Hne He) as [A ->]. apply run_ends_reset.
  - destruct (chor_toks_ends [] lf_post _ Hne He) as [A ->]. apply run_ends_reset.
  - destruct (abs_toks_ends px py _ 0 Hne He) as [A ->]. apply run_ends_reset.
Qed.

(* after any single line, from ANY terminal state; also when followed by a newline *)
Theorem attrs_reset_line p m b (t0 : term) : rect_ok p -> blank_reset_ok p -> mode_ok m ->
  exists lines, to_lines p m (fmt_of b) false = Ok lines /\
    forall i, (i < height p)%nat ->
      sgr (feed W H t0 (nth i lines [])) = default_attrs /\
      sgr (feed W H t0 (tty_onlcr (nth i lines [] ++ [10]))) = default_attrs /\
      sgr (feed W H t0 (nth i lines [] ++ [10])) = default_attrs.
Proof.
  intros Hp Hbr (_ & _ & Hph). pose proof Hp as (_ & _ & _ & _ & P5). destruct (rect_ok_msb p Hp) as [_ Hm].
  eexists. split; [apply (to_lines_toks p m b (rect_ok_validate p Hp) Hph P5 Hbr)|].
  intros i Hi. rewrite (nth_lines_toks p m b i Hi).
  set (row := start_row p + N.of_nat i).
  pose proof (row_toks_ok p m b row P5 Hm) as Hlt. destruct (line_toks_ok _ Hlt) as [Hok Hno].
  destruct (row_toks_ends p m b row) as [A HA].
  split; [|split]; unfold feed.
  - rewrite tokens_ser_toks by exact Hok. rewrite HA. apply run_ends_reset.
  - rewrite tty_onlcr_app, tty_onlcr_ser_toks by assumption.
    change (tty_onlcr [10]) with (ser_toks lf_post). rewrite <- ser_toks_app.
    rewrite tokens_ser_toks by (apply Forall_app; split; [exact Hok|apply lf_post_ok]).
    rewrite run_app, HA. unfold lf_post. rewrite !run_cons, run_nil, exec_cr, exec_lf.
    pose proof (run_ends_reset t0 A) as R. unfold index_down. destruct (_ =? _)%Z; cbn [set_scr set_cursor sgr]; exact R.
  - change [10] with (ser_toks [TCtl 10]). rewrite <- ser_toks_app.
    rewrite tokens_ser_toks by (apply Forall_app; split; [exact Hok|repeat constructor; cbn [ok_tok]; lia]).
    rewrite run_app, HA. rewrite !run_cons, run_nil, exec_lf.
    pose proof (run_ends_reset t0 A) as R. unfold index_down. destruct (_ =? _)%Z; cbn [set_scr set_cursor sgr]; exact R.
Qed.

(* ---- 4. the background stays inside the rectangle *)
Hypothesis HW : (0 < W)%Z.
Hypothesis HH : (0 < H)%Z.

Definition in_rect (p : placeholder) (ox oy : Z) (x y : Z) : bool :=
  let sc := Z.max 0 (oy + Z.of_nat (height p) - H) in
  ((oy <=? y + sc) && (y + sc <? oy + Z.of_nat (height p)) && (ox <=? x) && (x <? ox + Z.of_nat (width p)))%Z.

Theorem bg_confined st p m b t0 : rect_ok p -> blank_reset_ok p -> mode_ok m ->
  start_ok W H t0 -> fits W H st t0 (width p) (height p) ->
  (forall y x, cbg (scr t0 y x) = CDefault) ->
  exists ws, stream_of st p m (fmt_of b) = Ok ws /\
    forall x y, (0 <= y < H)%Z -> in_rect p (origin_x st t0) (origin_y st t0) x y = false ->
      cbg (scr (feed W H t0 (wire st (concat ws))) y x) = CDefault.
Proof.
  intros Hp Hbr Hm Hs Hfit Hbg.
  destruct (stream_screen W H HW HH st p m b t0 Hp Hbr Hm Hs Hfit) as (ws & Hws & _ & Hscr).
  exists ws. split; [exact Hws|]. intros x y Hy Hout. rewrite (Hscr y x Hy).
  unfold chor_screen, shown_screen. unfold in_rect in Hout.
  assert (Hh : length (cellss_of p m b) = height p) by (unfold cellss_of; rewrite map_length; apply rows_of_length).
  rewrite Hh. cbv zeta in Hout. rewrite <- !andb_assoc in Hout. rewrite <- !andb_assoc. rewrite Hout.
  destruct (_ <? H)%Z; [apply Hbg|reflexivity].
Qed.

(* ---- 2. any selection of lines, one per screen line *)
(* [sel]: indices of emitted lines (any order, repetitions allowed), each followed by LF *)
Definition selected_bytes (lines : list (list N)) (sel : list nat) : list N :=
  flat_map (fun i => nth i lines [] ++ [10]) sel.

Definition expected_selected (p : placeholder) (sel : list nat) (oy : Z) (x y : Z) : option decoded :=
  let n := Z.of_nat (length sel) in
  let sc := Z.max 0 (oy + n + 1 - H) in
  let r := start_row p + N.of_nat (nth (Z.to_nat (y + sc - oy)) sel O) in
  if ((oy <=? y + sc) && (y + sc <? oy + n) && (0 <=? x) && (x <? Z.of_nat (width p)))%Z && (r <? 297)
  then Some (mkdecoded (image_id p) (placement_id p) r (start_col p + Z.to_N x)) else None.

Lemma flat_lines_post (post : list tok) : forall lines, lines <> [] ->
  flat_map (fun l => l ++ post) lines = chor_toks [] post lines ++ post.
Proof.
  induction lines as [|l rest IH]; intros Hne; [congruence|]. destruct rest as [|l2 rest'].
  - cbn [flat_map chor_toks]. rewrite app_nil_r. reflexivity.
  - rewrite chor_toks_cons. cbn [flat_map app] in *. rewrite IH by discriminate. rewrite <- !app_assoc. reflexivity.
Qed.

Lemma decode_row_cells p m b row (x0n restn x : nat) : rect_ok p -> mode_ok m ->
  nth x (repeat None x0n ++ map (option_map decoded_of) (decode_cells None (row_cells_of p m b row)) ++ repeat None restn) None
  = if (x0n <=? x)%nat && (x <? x0n + width p)%nat && (row <? 297)
    then Some (mkdecoded (image_id p) (placement_id p) row (start_col p + N.of_nat (x - x0n))) else None.
Proof.
  intros Hp (Hl1 & Hl2 & Hph). pose proof Hp as (P1 & P2 & P3 & P4 & P5). destruct (rect_ok_msb p Hp) as [Hmsb Hm].
  rewrite nth_sandwich. unfold row_cells_of. destruct (297 <=? row) eqn:E297.
  - replace (row <? 297) with false by lia. rewrite andb_false_r.
    rewrite blank_row_decodes, map_repeat', ?map_length, ?repeat_length.
    destruct ((x0n <=? x)%nat && (x <? x0n + length (blank_items p b row))%nat); [apply nth_repeat|reflexivity].
  - replace (row <? 297) with true by lia. rewrite andb_true_r.
    rewrite (row_decodes p m b row ltac:(lia) P5 Hm Hl1 Hl2 (line_attrs p m b row) P3).
    fold (width p). rewrite !map_length, seq_length.
    destruct ((x0n <=? x)%nat && (x <? x0n + width p)%nat) eqn:Ex; [|reflexivity].
    rewrite map_map.
    rewrite (nth_indep _ None (option_map decoded_of (Some (expi p row (color24 (afg (line_attrs p m b row))) (color24 (aul (line_attrs p m b row))) (N.of_nat 0)))))
      by (rewrite map_length, seq_length; lia).
    rewrite (map_nth (fun j => option_map decoded_of (Some (expi p row _ _ (N.of_nat j))))), seq_nth by lia.
    cbn [option_map]. unfold decoded_of, expi. cbn [p_msb p_fg p_ul p_row p_col].
    destruct (line_attrs_colors p m b row Hp) as [C1 C2]. rewrite Hmsb, C1, C2. do 2 f_equal. lia.
Qed.

Theorem lines_alone p m b t0 (sel : list nat) (restn : nat) :
  rect_ok p -> blank_reset_ok p -> mode_ok m ->
  sel <> [] -> Forall (fun i => (i < height p)%nat) sel ->
  pend t0 = false -> cx t0 = 0%Z -> (0 <= cy t0 < H)%Z -> W = Z.of_nat (width p + restn) ->
  (forall y x, scr t0 y x = blank_cell) ->
  exists lines, to_lines p m (fmt_of b) false = Ok lines /\
    let t' := feed W H t0 (tty_onlcr (selected_bytes lines sel)) in
    sgr t' = default_attrs /\
    forall x y, (0 <= x < W)%Z -> (0 <= y < H)%Z ->
      decode_at (scr t') (Z.to_nat W) (Z.to_nat x) y = expected_selected p sel (cy t0) x y.
Proof.
  intros Hp Hbr Hm Hne Hsel Hpend Hcx Hcy HWeq Hblank.
  pose proof Hm as (Hl1 & Hl2 & Hph). pose proof Hp as (P1 & P2 & P3 & P4 & P5). destruct (rect_ok_msb p Hp) as [_ Hmsb].
  eexists. split; [apply (to_lines_toks p m b (rect_ok_validate p Hp) Hph P5 Hbr)|].
  set (rows := map (fun i => start_row p + N.of_nat i) sel).
  set (lcs := map (fun row => (row_toks p m b row, row_cells_of p m b row)) rows).
  assert (Hfst : map fst lcs = map (row_toks p m b) rows) by (unfold lcs; rewrite map_map; reflexivity).
  assert (Hlen : length lcs = length sel) by (unfold lcs, rows; rewrite !map_length; reflexivity).
  (* bytes -> tokens *)
  assert (Htoks : tokens (tty_onlcr (selected_bytes (map ser_toks (lines_toks p m b)) sel))
                  = chor_toks [] lf_post (map fst lcs) ++ lf_post).
  { rewrite Hfst. rewrite <- (flat_lines_post lf_post) by (unfold rows; destruct sel; [congruence|discriminate]).
    assert (E : tty_onlcr (selected_bytes (map ser_toks (lines_toks p m b)) sel)
                = ser_toks (flat_map (fun l => l ++ lf_post) (map (row_toks p m b) rows))).
    { unfold selected_bytes, rows. clear Hne lcs Hfst Hlen. induction sel as [|i sel IH]; [reflexivity|].
      inversion_clear Hsel as [|zz1 zz2 Hi Hrest]. cbn [flat_map map]. rewrite !tty_onlcr_app, IH by exact Hrest.
      rewrite (nth_lines_toks p m b i Hi).
      pose proof (row_toks_ok p m b (start_row p + N.of_nat i) P5 Hmsb) as Hlt. destruct (line_toks_ok _ Hlt) as [Hok Hno].
      rewrite tty_onlcr_ser_toks by assumption. change (tty_onlcr [10]) with (ser_toks lf_post).
      rewrite !ser_toks_app. rewrite <- !app_assoc. reflexivity. }
    rewrite E. apply tokens_ser_toks. apply Forall_forall. intros k Hk. apply in_flat_map in Hk as (l & Hl & Hk).
    apply in_map_iff in Hl as (row & <- & _). apply in_app_or in Hk as [Hk|Hk].
    - pose proof (row_toks_ok p m b row P5 Hmsb) as Hlt. destruct (line_toks_ok _ Hlt) as [Hok _].
      rewrite Forall_forall in Hok. apply Hok. exact Hk.
    - pose proof lf_post_ok as Hl. rewrite Forall_forall in Hl. apply Hl. exact Hk. }
  cbv zeta. unfold feed. rewrite Htoks, run_app.
  (* the lines, then the last CR LF *)
  assert (Hall : Forall (fun lc => paints W H (fst lc) (snd lc) /\ length (snd lc) = width p) lcs).
  { unfold lcs. apply Forall_forall. intros lc Hlc. apply in_map_iff in Hlc as (row & <- & _). cbn [fst snd].
    split; [apply (row_paints W H HW p m b row Hp)|apply row_cells_of_length; exact P3]. }
  pose proof (chor_spec W H HH [] lf_post (width p) (fun x => x = 0 /\ Z.of_nat (width p) <= W)%Z
                ltac:(intros x Hx; cbv beta in Hx; lia)
                ltac:(intros l cells Hl Hlc t Hp0 Hx0 HPx Hy0; apply (lf_step W H (width p) l cells Hl Hlc t Hp0 Hx0 HPx Hy0))
                lcs t0 ltac:(unfold lcs, rows; destruct sel; [congruence|discriminate]) Hall Hpend ltac:(lia) ltac:(cbv beta; lia) Hcy) as C.
  cbv zeta in C. destruct C as (C1 & C2 & C3).
  set (t1 := run t0 (chor_toks [] lf_post (map fst lcs))) in *.
  unfold lf_post. rewrite !run_cons, run_nil, exec_cr, exec_lf.
  set (t2 := set_cursor t1 0 (cy t1) false).
  set (n := Z.of_nat (length sel)). rewrite Hlen in C2. fold n in C2.
  set (cellss := map snd lcs) in *.
  assert (Hh : length cellss = length sel) by (unfold cellss; rewrite map_length; exact Hlen).
  assert (Hscr : forall y x, (0 <= y < H)%Z ->
            scr (index_down H t2) y x = shown_screen H blank_screen (cy t0) (Z.of_nat 0) (width p) cellss (Z.max 0 (cy t0 + n + 1 - H)) y x).
  { intros y x Hy. unfold index_down, t2. cbn [set_cursor cy scr]. rewrite C2.
    destruct (Z.min (cy t0 + n - 1) (H - 1) =? H - 1)%Z eqn:E; cbn [set_scr set_cursor scr].
    - unfold scroll_up. destruct (y + 1 <? H)%Z eqn:E1.
      + rewrite C3 by lia. unfold chor_screen, shown_screen, blank_screen. rewrite Hh, Hcx, !Hblank. fold n.
        replace (Z.max 0 (cy t0 + n + 1 - H)) with (Z.max 0 (cy t0 + n - H) + 1)%Z by lia.
        replace (y + 1 + Z.max 0 (cy t0 + n - H))%Z with (y + (Z.max 0 (cy t0 + n - H) + 1))%Z by lia. reflexivity.
      + unfold shown_screen, blank_screen. rewrite Hh. fold n.
        destruct ((cy t0 <=? y + Z.max 0 (cy t0 + n + 1 - H)) && (y + Z.max 0 (cy t0 + n + 1 - H) <? cy t0 + n) &&
                  ((Z.of_nat 0 <=? x) && (x <? Z.of_nat 0 + Z.of_nat (width p))))%Z eqn:E2; [lia|].
        destruct (y + Z.max 0 (cy t0 + n + 1 - H) <? H)%Z; reflexivity.
    - rewrite C3 by lia. unfold chor_screen, shown_screen, blank_screen. rewrite Hh, Hcx, !Hblank. fold n.
      replace (Z.max 0 (cy t0 + n + 1 - H)) with (Z.max 0 (cy t0 + n - H)) by lia. reflexivity. }
  split.
  { unfold index_down, t2. destruct (_ =? _)%Z; cbn [set_scr set_cursor sgr]; exact C1. }
  intros x y Hx Hy.
  assert (Hcl : Forall (fun c => length c = width p) cellss).
  { unfold cellss. apply Forall_forall. intros c Hc. apply in_map_iff in Hc as (lc & <- & Hlc).
    rewrite Forall_forall in Hall. apply (Hall lc Hlc). }
  pose proof (decode_line_shown H (scr (index_down H t2)) 0 (width p) restn (cy t0) _ cellss Hcl Hscr y Hy) as D.
  unfold decode_at. rewrite HWeq, Nat2Z.id. cbn [plus] in D. rewrite D. unfold expected_selected. rewrite Hh. fold n.
  set (sc := Z.max 0 (cy t0 + n + 1 - H)).
  destruct ((cy t0 <=? y + sc) && (y + sc <? cy t0 + n))%Z eqn:Erow; cbn [andb].
  2:{ rewrite nth_repeat. reflexivity. }
  set (k := Z.to_nat (y + sc - cy t0)).
  assert (Hk : (k < length sel)%nat) by (unfold k, n in *; lia).
  assert (Hrow : nth k cellss [] = row_cells_of p m b (start_row p + N.of_nat (nth k sel O))).
  { unfold cellss, lcs, rows. rewrite !map_map. cbn [snd].
    rewrite (nth_indep _ [] (row_cells_of p m b (start_row p + N.of_nat O))) by (rewrite map_length; exact Hk).
    apply (map_nth (fun i => row_cells_of p m b (start_row p + N.of_nat i))). }
  rewrite Hrow. rewrite (decode_row_cells p m b _ 0 restn (Z.to_nat x) Hp Hm).
  destruct ((0 <=? x) && (x <? Z.of_nat (width p)))%Z eqn:Ex.
  - destruct ((0 <=? Z.to_nat x)%nat && (Z.to_nat x <? 0 + width p)%nat) eqn:Ex'; [|lia]. cbn [andb].
    destruct (_ <? 297); [|reflexivity]. do 3 f_equal. lia.
  - destruct ((0 <=? Z.to_nat x)%nat && (Z.to_nat x <? 0 + width p)%nat) eqn:Ex'; [lia|reflexivity].
Qed.

End Sized.
