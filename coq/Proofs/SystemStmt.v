(* Proofs/SystemStmt.v — the vocabulary in which the C08 theorems are stated: what is assumed of the world and of a
   request, what is judged after each call.  No proofs. *)
From Coq Require Import ZArith NArith List Bool.
From Tup Require Import Lib.IdSpaceTy Lib.CommandTypes Lib.SystemTypes Model.IdManager Model.UploadModel
  Model.SystemModel Spec.IdLayoutSpec Spec.SystemSpec Proofs.IdManagerProofs.
Import ListNotations.
Open Scope N_scope.

(* C: "(path, mtime) determines the content" — the trusted-base assumption about the user's files, made visible:
   every file the user ever writes has the content C assigns to its (path, mtime); and nothing has mtime = epoch 0
   (the value the library uses for "no such file" and for in-memory images). *)
Definition world_ok (C : N -> Z -> option img) : Prop := forall p, C p 0%Z = None.

Definition req_ok (C : N -> Z -> option img) (r : request) : Prop :=
  match r with
  | RWrite p (Some fi) => C p (f_mtime fi) = Some (f_img fi)
  | RWrite p None => True
  | RCall a (SImg _) o => valid_sub (o_sub o) /\ sound_samples (o_space o) (o_sub o) (o_samples o)
  | RCall _ _ _ => True
  end.

(* the image a call asks for, judged in the state before the call *)
Definition want_of (C : N -> Z -> option img) (cd : codec) (s : sys) (r : request) : img -> Prop :=
  match r with
  | RCall _ subj _ => requested C key_of (dec cd) (s_fs s) (cur_of (s_db s)) subj
  | RWrite _ _ => fun _ => False
  end.

(* every call of the history, with the terminals fed by its events: all prints are of the requested image *)
Fixpoint run_ok (rebind : bool) (C : N -> Z -> option img) (cd : codec) (s : sys) (tmp : N -> option content) (st : store)
         (h : list request) : Prop :=
  match h with
  | [] => True
  | r :: h' =>
      let se := step_gen rebind cd s r in
      prints_ok (s_fs s) tmp st (want_of C cd s r) (snd se) /\
      run_ok rebind C cd (fst se) (fst (after (s_fs s) tmp st (snd se))) (snd (after (s_fs s) tmp st (snd se))) h'
  end.

(* "the instance's id is still bound to its description" *)
Definition bound (cd : codec) (s : sys) (i : instance) : Prop :=
  exists dn, cur_of (s_db s) (n_id i) = Some dn /\ dec cd dn = Some (descr_of i).

(* the premise of the partial theorem about the unrepaired upload(ImageInstance): whenever a call with an
   ImageInstance transmits nothing, the instance's id is still bound to the instance's description *)
Definition inst_premise (cd : codec) (s : sys) (r : request) : Prop :=
  match r with
  | RCall _ (SInst i) o =>
      o_force o = true \/
      needs_uploading (cur_of (s_db s)) (s_up s) (n_id i) (o_term o) (o_check_now o) (o_nmax o) (o_bmax o) (o_tmax o) = true \/
      bound cd s i
  | _ => True
  end.
Fixpoint premise_along (cd : codec) (s : sys) (h : list request) : Prop :=
  match h with
  | [] => True
  | r :: h' => inst_premise cd s r /\ premise_along cd (fst (step_gen false cd s r)) h'
  end.

(* per-transmission policy *)
Definition policy_ok (s : sys) (o : opts) (evs : list event) (x : tx) : Prop :=
  ((x_medium x = MFile \/ x_medium x = MTemp) -> names_allowed (o_method o) (o_ssh o) = true) /\
  (x_medium x = MTemp -> exists c, x_payload x = PName (TempPath (s_ntemp s)) /\ In (EMkTemp (s_ntemp s) c) evs) /\
  (forall p, x_payload x = PName (UserPath p) -> x_medium x = MFile) /\
  (forall k, x_payload x = PName (TempPath k) -> x_medium x = MTemp) /\
  (forall c, x_payload x = PData c -> x_medium x = MDirect).

(* what the library encodes itself is the image as it is, unless it exceeds the limit of the resolved method *)
Definition scaled_ok (o : opts) (c : content) : Prop :=
  untouched c \/ exists um, resolve_method (o_method o) (o_ssh o) = Some um /\ exceeds (c_img c) (max_upload_size o um).
