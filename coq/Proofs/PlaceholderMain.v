(* Proofs/PlaceholderMain.v — glue: bytes of the model -> tokens (lexer) -> screen (painting +
   choreography) -> decoded cells.  Main results:
     stream_screen : for every style, the screen after feeding the model's bytes, pointwise, and
                     the SGR state at the end (default);
     stream_decodes: on an initially blank screen every cell decodes as the protocol requires. *)
From Coq Require Import ZArith NArith List Bool Lia ZifyN ZifyBool ZifyNat.
From Tup Require Import Lib.Utf8 Gen.DiacriticsGen Model.PlaceholderModel
  Spec.TermSpec Spec.PlaceholderSpec Proofs.DiacriticsFacts Proofs.TermLexFacts Proofs.TermPaintFacts
  Proofs.TermChorFacts Proofs.PlaceholderToks Proofs.PlaceholderStreams Proofs.PlaceholderDecode Proofs.PlaceholderStmt.
Import ListNotations.
Open Scope N_scope.
Ltac Zify.zify_post_hook ::= Z.to_euclidean_division_equations.

Lemma rect_ok_validate p : rect_ok p -> validate p = true.
Proof.
  intros (H1 & H2 & H3 & H4 & H5). unfold validate, v_id_zero, v_id_min, v_id_max, v_pid_min, v_pid_max, v_col_min, v_row_min.
  lia.
Qed.
Lemma rect_ok_msb p : rect_ok p -> msb_of p = image_id p / 16777216 /\ msb_of p < 297.
Proof. intros (H1 & _). rewrite src_msb_of by lia. split; [reflexivity|lia]. Qed.

(* ---- the cells of one row *)
Definition ul_color (m : mode) (pid : N) : color :=
  if pid_shown m pid then col_of (allow256_pid m) pid else CDefault.
Definition line_attrs (p : placeholder) (m : mode) (b : bgfmt) (row : N) : attrs :=
  mkattrs (col_of (allow256_id m) (image_id p)) (ul_color m (placement_id p))
          (abg (apply_bgs default_attrs (row_bgs b row))).
Definition blank_attrs (b : bgfmt) (row : N) : attrs := apply_bgs default_attrs (row_bgs b row).
Definition row_cells_of (p : placeholder) (m : mode) (b : bgfmt) (row : N) : list cell :=
  if 297 <=? row then cells_of (blank_attrs b row) (blank_items p b row)
  else cells_of (line_attrs p m b row) (line_items p m b row).
Lemma range_length a b : length (range a b) = (N.to_nat b - N.to_nat a)%nat.
Proof. unfold range. rewrite map_length, seq_length. reflexivity. Qed.
Lemma row_cells_of_length p m b row : start_col p < end_col p -> length (row_cells_of p m b row) = width p.
Proof.
  intros Hw. unfold row_cells_of, width. destruct (297 <=? row); rewrite cells_of_length.
  - unfold blank_items. rewrite map_length, range_length. reflexivity.
  - unfold line_items. cbn [length]. rewrite map_length, range_length. lia.
Qed.

Lemma sgrs_after_app a l1 l2 : sgrs_after a (l1 ++ l2) = sgrs_after (sgrs_after a l1) l2.
Proof. unfold sgrs_after. apply fold_left_app. Qed.
Lemma sgrs_after_bgs : forall l a, sgrs_after a (map bg_tok l) = apply_bgs a l.
Proof.
  induction l as [|s l IH]; intros a; [reflexivity|].
  cbn [map]. unfold sgrs_after in *. cbn [fold_left sgr_of bg_tok]. rewrite sgr_bg. apply IH.
Qed.
Lemma sgr_fg a allow v : sgr_csi a (col_params 38 allow v) = mkattrs (col_of allow v) (aul a) (abg a).
Proof. unfold col_params, col_of. destruct (allow && mid_zero v); reflexivity. Qed.
Lemma sgr_ul a allow v : sgr_csi a (col_params 58 allow v) = mkattrs (afg a) (col_of allow v) (abg a).
Proof. unfold col_params, col_of. destruct (allow && mid_zero v); reflexivity. Qed.

Lemma line_pre_attrs p m b row a : sgrs_after a (line_pre p m b row) = line_attrs p m b row.
Proof.
  unfold line_pre. change (reset_tok :: ?l) with ([reset_tok] ++ l).
  rewrite sgrs_after_app. change (sgrs_after a [reset_tok]) with default_attrs.
  rewrite sgrs_after_app, sgrs_after_bgs.
  set (a0 := apply_bgs default_attrs (row_bgs b row)).
  destruct (apply_bgs_fg default_attrs (row_bgs b row)) as [A1 A2]. fold a0 in A1, A2. cbn [afg aul default_attrs] in A1, A2.
  unfold sgrs_after. cbn [fold_left sgr_of fg_tok]. rewrite sgr_fg. unfold ul_toks, line_attrs, ul_color. fold a0.
  destruct (pid_shown m (placement_id p)); cbn [fold_left sgr_of]; rewrite ?sgr_ul; cbn [afg aul abg]; rewrite ?A2; reflexivity.
Qed.
Lemma blank_pre_attrs b row a : sgrs_after a (blank_pre b row) = blank_attrs b row.
Proof.
  unfold blank_pre. change (reset_tok :: ?l) with ([reset_tok] ++ l).
  rewrite sgrs_after_app. change (sgrs_after a [reset_tok]) with default_attrs. apply sgrs_after_bgs.
Qed.

Lemma is_sgr_bgs l : Forall is_sgr (map bg_tok l).
Proof. apply Forall_forall. intros k Hk. apply in_map_iff in Hk as (s & <- & _). eexists. reflexivity. Qed.
Lemma is_sgr_reset : is_sgr reset_tok. Proof. eexists. reflexivity. Qed.

Lemma ph_item_ok bgs ds : Forall (fun d => d < 297) ds -> item_ok (ph_item bgs ds).
Proof.
  intros Hd. unfold item_ok, ph_item. cbn [it_ch it_comb]. split; [apply placeholder_not_zero_width|].
  split; [discriminate|]. apply Forall_forall. intros cp Hcp. apply in_map_iff in Hcp as (d & <- & Hdin).
  rewrite Forall_forall in Hd. apply dia_zero_width. apply Hd. exact Hdin.
Qed.

Section Sized.
Variables W H : Z.
Hypothesis HW : (0 < W)%Z.
Hypothesis HH : (0 < H)%Z.

Notation fits := (fits W H).
Notation start_ok := (start_ok W H).
Notation expected_at := (expected_at H).

Lemma row_paints p m b row : rect_ok p ->
  paints W H (row_toks p m b row) (row_cells_of p m b row).
Proof.
  intros Hp. pose proof Hp as (H1 & H2 & H3 & H4 & H5). destruct (rect_ok_msb p Hp) as [_ Hm].
  unfold row_toks, row_cells_of. destruct (297 <=? row) eqn:E.
  - apply (line_paints W H HW).
    + constructor; [apply is_sgr_reset|apply is_sgr_bgs].
    + intros a. apply blank_pre_attrs.
    + unfold blank_items. apply Forall_forall. intros it Hit. apply in_map_iff in Hit as (col & <- & _).
      unfold item_ok. cbn [it_ch it_comb]. split; [vm_compute; reflexivity|]. split; [discriminate|constructor].
    + unfold blank_items. intros E0. apply (f_equal (@length item)) in E0. rewrite map_length, range_length in E0. cbn [length] in E0. lia.
  - assert (Hr : row < 297) by lia. apply (line_paints W H HW).
    + unfold line_pre. constructor; [apply is_sgr_reset|]. apply Forall_app. split; [apply is_sgr_bgs|].
      constructor; [eexists; reflexivity|]. unfold ul_toks. destruct (pid_shown m (placement_id p)); repeat constructor. eexists; reflexivity.
    + intros a. apply line_pre_attrs.
    + unfold line_items. constructor.
      * apply ph_item_ok. apply diacs_first_lt; assumption.
      * apply Forall_forall. intros it Hit. apply in_map_iff in Hit as (col & <- & _).
        apply ph_item_ok. apply diacs_other_lt; assumption.
    + unfold line_items. discriminate.
Qed.

(* ---- output styles *)
Definition cellss_of (p : placeholder) (m : mode) (b : bgfmt) : list (list cell) :=
  map (row_cells_of p m b) (rows_of p).
Definition lcs_of (p : placeholder) (m : mode) (b : bgfmt) : list (list tok * list cell) :=
  map (fun row => (row_toks p m b row, row_cells_of p m b row)) (rows_of p).

Lemma lcs_fst p m b : map fst (lcs_of p m b) = lines_toks p m b.
Proof. unfold lcs_of, lines_toks. rewrite map_map. reflexivity. Qed.
Lemma lcs_snd p m b : map snd (lcs_of p m b) = cellss_of p m b.
Proof. unfold lcs_of, cellss_of. rewrite map_map. reflexivity. Qed.
Lemma rows_of_length p : length (rows_of p) = height p.
Proof. unfold rows_of, height. apply range_length. Qed.
Lemma lcs_all p m b : rect_ok p ->
  Forall (fun lc => paints W H (fst lc) (snd lc) /\ length (snd lc) = width p) (lcs_of p m b).
Proof.
  intros Hp. apply Forall_forall. intros lc Hlc. unfold lcs_of in Hlc. apply in_map_iff in Hlc as (row & <- & _).
  cbn [fst snd]. split; [apply row_paints; exact Hp|apply row_cells_of_length; apply Hp].
Qed.

Theorem stream_screen (st : style) p m b t0 :
  rect_ok p -> blank_reset_ok p -> mode_ok m -> start_ok t0 -> fits st t0 (width p) (height p) ->
  exists ws, stream_of st p m (fmt_of b) = Ok ws /\
    let t' := feed W H t0 (wire st (concat ws)) in
    sgr t' = default_attrs /\
    forall y x, (0 <= y < H)%Z ->
      scr t' y x = chor_screen H (scr t0) (origin_y st t0) (origin_x st t0) (width p) (cellss_of p m b) y x.
Proof.
  intros Hp Hbr (Hl1 & Hl2 & Hph) (Hpend & Hcx & Hcy) Hfit.
  pose proof Hp as (P1 & P2 & P3 & P4 & P5). destruct (rect_ok_msb p Hp) as [_ Hm].
  pose proof (to_lines_toks p m b (rect_ok_validate p Hp) Hph P5 Hbr) as TL.
  pose proof (lines_toks_ok p m b P5 Hm) as Hlt.
  pose proof (lines_ok_of_line_tok _ Hlt) as Hok.
  assert (Hne : lines_toks p m b <> []).
  { intros E0. apply (f_equal (@length (list tok))) in E0. unfold lines_toks in E0. rewrite map_length, rows_of_length in E0.
    unfold height in E0. cbn [length] in E0. lia. }
  assert (Hne' : lcs_of p m b <> []).
  { intros E0. apply (f_equal (map fst)) in E0. rewrite lcs_fst in E0. cbn [map] in E0. congruence. }
  assert (Hw : (0 < width p)%nat) by (unfold width; lia).
  assert (Hlen : N.of_nat (length (map ser_toks (lines_toks p m b))) = 0 + N.of_nat (length (lines_toks p m b)))
    by (rewrite map_length; lia).
  destruct st as [| |us|px py us]; cbn [stream_of to_stream fits wire origin_x origin_y] in *.
  - (* save / restore *)
    unfold to_stream_at_cursor. rewrite TL. cbn [on_lines]. eexists. split; [reflexivity|].
    rewrite (cursor_go_sr p _ 0 _ Hne Hlen). unfold feed.
    rewrite tokens_ser_toks by (apply chor_toks_ok; [apply sr_pre_ok|apply sr_post_ok|exact Hok]).
    rewrite <- lcs_fst, <- lcs_snd.
    apply (chor_spec_scr W H HH sr_pre sr_post (width p) (fun x => x + Z.of_nat (width p) <= W)%Z).
    + intros x Hx. exact Hx.
    + intros l cells Hl Hlc t Hp0 Hx0 HPx Hy0. apply (sr_step W H (width p) l cells Hl Hlc t Hp0 Hx0 HPx Hy0).
    + exact Hne'.
    + apply lcs_all. exact Hp.
    + exact Hpend.
    + lia.
    + exact Hfit.
    + exact Hcy.
  - (* relative *)
    unfold to_stream_at_cursor. rewrite TL. cbn [on_lines]. eexists. split; [reflexivity|].
    rewrite (cursor_go_rel p _ 0 _ Hne Hlen). unfold feed.
    rewrite tokens_ser_toks by (apply chor_toks_ok; [constructor|apply rel_post_ok|exact Hok]).
    rewrite <- lcs_fst, <- lcs_snd.
    replace (N.to_nat (end_col p - start_col p)) with (width p) by (unfold width; lia).
    apply (chor_spec_scr W H HH [] (rel_post (width p)) (width p) (fun x => x + Z.of_nat (width p) < W)%Z).
    + intros x Hx. lia.
    + intros l cells Hl Hlc t Hp0 Hx0 HPx Hy0. apply (rel_step W H (width p) l cells Hw Hl Hlc t Hp0 Hx0 HPx Hy0).
    + exact Hne'.
    + apply lcs_all. exact Hp.
    + exact Hpend.
    + lia.
    + exact Hfit.
    + exact Hcy.
  - (* line feeds through ONLCR *)
    unfold to_stream_at_cursor. rewrite TL. cbn [on_lines]. eexists. split; [reflexivity|].
    rewrite (cursor_go_lf p us _ 0 _ Hne Hlen Hlt). unfold feed.
    rewrite tokens_ser_toks by (apply chor_toks_ok; [constructor|apply lf_post_ok|exact Hok]).
    rewrite <- lcs_fst, <- lcs_snd.
    apply (chor_spec_scr W H HH [] lf_post (width p) (fun x => x = 0 /\ Z.of_nat (width p) <= W)%Z).
    + intros x Hx. lia.
    + intros l cells Hl Hlc t Hp0 Hx0 HPx Hy0. apply (lf_step W H (width p) l cells Hl Hlc t Hp0 Hx0 HPx Hy0).
    + exact Hne'.
    + apply lcs_all. exact Hp.
    + exact Hpend.
    + lia.
    + exact Hfit.
    + exact Hcy.
  - (* absolute position *)
    unfold to_stream_abs_position. rewrite TL. cbn [on_lines fst snd]. eexists. split; [reflexivity|].
    rewrite abs_go_toks. unfold feed.
    rewrite tokens_ser_toks by (apply abs_toks_ok; exact Hok).
    rewrite <- lcs_fst.
    destruct Hfit as [Hfx Hfy].
    pose proof (abs_spec W H HW HH (width p) px py Hw Hfx (lcs_of p m b) 0 t0 (lcs_all p m b Hp)) as A.
    assert (Hh : length (lcs_of p m b) = height p) by (unfold lcs_of; rewrite map_length; apply rows_of_length).
    rewrite Hh in A. specialize (A ltac:(lia)). cbv zeta in A. destruct A as [A1 A2].
    split; [apply A1; exact Hne'|].
    intros y x Hy. rewrite A2. rewrite lcs_snd. unfold abs_screen, chor_screen.
    assert (Hh' : length (cellss_of p m b) = height p) by (unfold cellss_of; rewrite map_length; apply rows_of_length).
    rewrite Hh'. replace (Z.max 0 (Z.of_N py + Z.of_nat (height p) - H))%Z with 0%Z by lia.
    unfold shown_screen. rewrite Hh', !Z.add_0_r.
    destruct ((Z.of_N py <=? y)%Z && (y <? Z.of_N py + Z.of_nat (height p))%Z &&
              ((Z.of_N px <=? x)%Z && (x <? Z.of_N px + Z.of_nat (width p))%Z)); [reflexivity|].
    destruct (y <? H)%Z eqn:E; [reflexivity|lia].
Qed.

(* ---- decoding *)
Lemma line_attrs_colors p m b row : rect_ok p ->
  (image_id p / 16777216) * 16777216 + color24 (afg (line_attrs p m b row)) = image_id p /\
  color24 (aul (line_attrs p m b row)) = placement_id p.
Proof.
  intros (H1 & H2 & _). unfold line_attrs. cbn [afg aul]. split; [apply color24_col_of_id; lia|].
  unfold ul_color, pid_shown. destruct (skip_pid0 m && (placement_id p =? 0)) eqn:E; cbn [negb].
  - cbn [color24]. lia.
  - apply color24_col_of. exact H2.
Qed.

Theorem stream_decodes (st : style) p m b t0 (x0n restn : nat) :
  rect_ok p -> blank_reset_ok p -> mode_ok m -> start_ok t0 -> fits st t0 (width p) (height p) ->
  (forall y x, scr t0 y x = blank_cell) ->
  origin_x st t0 = Z.of_nat x0n -> W = Z.of_nat (x0n + width p + restn) ->
  exists ws, stream_of st p m (fmt_of b) = Ok ws /\
    let t' := feed W H t0 (wire st (concat ws)) in
    forall x y, (0 <= x < W)%Z -> (0 <= y < H)%Z ->
      decode_at (scr t') (Z.to_nat W) (Z.to_nat x) y = expected_at p (origin_x st t0) (origin_y st t0) x y.
Proof.
  intros Hp Hbr Hm Hs Hfit Hblank Hox HWeq.
  destruct (stream_screen st p m b t0 Hp Hbr Hm Hs Hfit) as (ws & Hws & Hscr). exists ws. split; [exact Hws|].
  cbv zeta in *. destruct Hscr as [_ Hscr]. set (t' := feed W H t0 (wire st (concat ws))) in *.
  pose proof Hp as (P1 & P2 & P3 & P4 & P5). destruct Hm as (Hl1 & Hl2 & Hph). destruct (rect_ok_msb p Hp) as [Hmsb Hm].
  intros x y Hx Hy.
  assert (Hall : Forall (fun c => length c = width p) (cellss_of p m b)).
  { unfold cellss_of. apply Forall_forall. intros c Hc. apply in_map_iff in Hc as (row & <- & _). apply row_cells_of_length. exact P3. }
  assert (Hh : length (cellss_of p m b) = height p) by (unfold cellss_of; rewrite map_length; apply rows_of_length).
  assert (Hscr' : forall y x, (0 <= y < H)%Z -> scr t' y x = chor_screen H blank_screen (origin_y st t0) (Z.of_nat x0n) (width p) (cellss_of p m b) y x).
  { intros y' x' Hy'. rewrite Hscr by exact Hy'. rewrite Hox. unfold chor_screen, shown_screen, blank_screen. rewrite !Hblank. reflexivity. }
  pose proof (decode_line_shown H (scr t') x0n (width p) restn (origin_y st t0) _ (cellss_of p m b) Hall Hscr' y Hy) as D.
  rewrite Hh in D.
  unfold decode_at. rewrite HWeq, Nat2Z.id, D. unfold expected_at. rewrite Hox.
  set (oy := origin_y st t0) in *. set (sc := Z.max 0 (oy + Z.of_nat (height p) - H)) in *.
  destruct ((oy <=? y + sc)%Z && (y + sc <? oy + Z.of_nat (height p))%Z) eqn:Erow; cbn [andb].
  2:{ rewrite nth_repeat. reflexivity. }
  set (i := Z.to_nat (y + sc - oy)).
  assert (Hi : (i < height p)%nat) by (unfold i; lia).
  assert (Hrow : nth i (cellss_of p m b) [] = row_cells_of p m b (start_row p + N.of_nat i)).
  { unfold cellss_of, rows_of, range. rewrite map_map.
    rewrite (nth_indep _ [] (row_cells_of p m b (N.of_nat 0))) by (rewrite map_length, seq_length; exact Hi).
    rewrite (map_nth (fun k => row_cells_of p m b (N.of_nat k))), seq_nth by exact Hi. f_equal. lia. }
  rewrite Hrow. replace (Z.to_N (y + sc - oy)) with (N.of_nat i) by (unfold i; lia).
  set (row := start_row p + N.of_nat i).
  rewrite nth_sandwich.
  unfold row_cells_of. destruct (297 <=? row) eqn:E297.
  - (* blank row *)
    replace (row <? 297) with false by lia. rewrite andb_false_r.
    rewrite blank_row_decodes, map_repeat', ?map_length, ?repeat_length.
    destruct ((x0n <=? Z.to_nat x)%nat && (Z.to_nat x <? x0n + length (blank_items p b row))%nat); [apply nth_repeat|reflexivity].
  - replace (row <? 297) with true by lia. rewrite andb_true_r.
    rewrite (row_decodes p m b row ltac:(lia) P5 Hm Hl1 Hl2 (line_attrs p m b row) P3).
    fold (width p). rewrite !map_length, seq_length.
    destruct ((Z.of_nat x0n <=? x)%Z && (x <? Z.of_nat x0n + Z.of_nat (width p))%Z) eqn:Ex.
    + destruct ((x0n <=? Z.to_nat x)%nat && (Z.to_nat x <? x0n + width p)%nat) eqn:Ex'; [|lia].
      rewrite map_map.
      rewrite (nth_indep _ None (option_map decoded_of (Some (expi p row (color24 (afg (line_attrs p m b row))) (color24 (aul (line_attrs p m b row))) (N.of_nat 0)))))
        by (rewrite map_length, seq_length; lia).
      rewrite (map_nth (fun j => option_map decoded_of (Some (expi p row _ _ (N.of_nat j))))), seq_nth by lia.
      cbn [option_map]. unfold decoded_of, expi. cbn [p_msb p_fg p_ul p_row p_col].
      destruct (line_attrs_colors p m b row Hp) as [C1 C2]. rewrite Hmsb, C1, C2. do 2 f_equal. lia.
    + destruct ((x0n <=? Z.to_nat x)%nat && (Z.to_nat x <? x0n + width p)%nat) eqn:Ex'; [lia|reflexivity].
Qed.

(* the same without the auxiliary split of the screen width *)
Corollary stream_decodes_all (st : style) p m b t0 :
  rect_ok p -> blank_reset_ok p -> mode_ok m -> start_ok t0 -> fits st t0 (width p) (height p) ->
  (forall y x, scr t0 y x = blank_cell) ->
  exists ws, stream_of st p m (fmt_of b) = Ok ws /\
    let t' := feed W H t0 (wire st (concat ws)) in
    forall x y, (0 <= x < W)%Z -> (0 <= y < H)%Z ->
      decode_at (scr t') (Z.to_nat W) (Z.to_nat x) y = expected_at p (origin_x st t0) (origin_y st t0) x y.
Proof.
  intros Hp Hbr Hm Hs Hfit Hblank.
  assert (Hox : (0 <= origin_x st t0 /\ origin_x st t0 + Z.of_nat (width p) <= W)%Z).
  { destruct Hs as (_ & Hcx & _). destruct st; cbn [origin_x PlaceholderStmt.fits] in *; lia. }
  apply (stream_decodes st p m b t0 (Z.to_nat (origin_x st t0)) (Z.to_nat (W - origin_x st t0 - Z.of_nat (width p)))); try assumption; lia.
Qed.

End Sized.
