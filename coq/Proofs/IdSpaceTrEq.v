(* Proofs/IdSpaceTrEq.v — the hand-written Model/IdSpace.v equals the functions that
   harness/gen_pytrans.py TRANSLATES from the current source (Gen/IdSpaceTr.v), method by method.

   Python ints are Z on the translated side and N in the model; [zsub]/[zsp] embed the model's
   subspaces and spaces.  Every statement is for all arguments the Python method can be called
   with through the library (valid subspaces, the five spaces, arbitrary ids/draws).

   The tactics below deliberately do not mention the shape of the translated terms: they unfold,
   split on every boolean test and close the arithmetic with lia, so a rewrite of a method that
   keeps its meaning (e.g. `begin <= 0` -> `begin == 0`, reordered branches, renamed locals,
   literals written differently) keeps these proofs. *)
From Coq Require Import ZArith NArith List Bool Lia ZifyN ZifyBool ZifyNat.
From Tup Require Import Lib.IdSpaceTy Lib.PySem Gen.IdSpaceGen Gen.IdSpaceTr Spec.IdLayoutSpec Model.IdSpace
  Proofs.IdSplitFacts.
Import ListNotations.
Open Scope Z_scope.

Definition zsub (s : subspace) : Z * Z := (Z.of_N (sub_begin s), Z.of_N (sub_end s)).
Definition zsp (sp : space) : Z * bool := (Z.of_N (color_bits sp), use_3rd sp).

(* ---- N <-> Z for the bit operations (not in the 8.16 standard library) ---- *)
Lemma of_N_land a b : Z.of_N (N.land a b) = Z.land (Z.of_N a) (Z.of_N b).
Proof.
  apply Z.bits_inj'. intros n Hn. rewrite Z.land_spec, <- (Z2N.id n) by lia.
  now rewrite !Z.testbit_of_N, N.land_spec.
Qed.
Lemma of_N_lor a b : Z.of_N (N.lor a b) = Z.lor (Z.of_N a) (Z.of_N b).
Proof.
  apply Z.bits_inj'. intros n Hn. rewrite Z.lor_spec, <- (Z2N.id n) by lia.
  now rewrite !Z.testbit_of_N, N.lor_spec.
Qed.
Lemma of_N_shiftl a n : Z.of_N (N.shiftl a n) = Z.shiftl (Z.of_N a) (Z.of_N n).
Proof. rewrite N.shiftl_mul_pow2, Z.shiftl_mul_pow2 by lia. now rewrite N2Z.inj_mul, N2Z.inj_pow. Qed.
Lemma of_N_shiftr a n : Z.of_N (N.shiftr a n) = Z.shiftr (Z.of_N a) (Z.of_N n).
Proof. rewrite N.shiftr_div_pow2, Z.shiftr_div_pow2 by lia. now rewrite N2Z.inj_div, N2Z.inj_pow. Qed.

(* split on the first boolean test of the goal *)
Ltac split_if :=
  match goal with
  | |- context [if ?c then _ else _] =>
      lazymatch c with
      | context [if _ then _ else _] => fail
      | _ => destruct c eqn:?
      end
  end.
Ltac unf :=
  cbv [PySem.ret PySem.bind PySem.raise py_in py_bool_to_int
       zsub zsp sub_begin sub_end fst snd
       tr_IDSubspace_post_init tr_IDSubspace_new tr_IDSubspace_rand_byte tr_IDSubspace_rand_nonzero_byte
       tr_IDSubspace_all_byte_values tr_IDSubspace_all_nonzero_byte_values tr_IDSubspace_num_byte_values
       tr_IDSubspace_num_nonzero_byte_values tr_IDSubspace_contains_byte
       tr_IDSpace_post_init tr_IDSpace_new tr_IDSpace_num_nonzero_bits
       tr_IDSpace_subspace_byte_offset].

Lemma valid_sub_facts s : valid_subspace s = true ->
  (N.lt (fst s) (snd s) /\ N.le (snd s) 256 /\ snd s <> 1%N).
Proof. intros H. apply valid_subspace_iff in H. exact H. Qed.

(* ------------------------------------------------------------------ IDSubspace *)
Theorem tr_sub_new_eq (b e : Z) ds :
  tr_IDSubspace_new b e ds = match mk_subspace b e with Some s => Ok (zsub s) ds | None => Exc end.
Proof.
  unfold mk_subspace. unf.
  cbv [sub_min sub_max sub_bad_end].
  repeat split_if; try reflexivity; try lia.
  f_equal. f_equal; lia.
Qed.

Theorem tr_num_byte_values_eq s ds : valid_subspace s = true ->
  tr_IDSubspace_num_byte_values (zsub s) ds = Ok (Z.of_N (num_byte_values s)) ds.
Proof.
  intros V. apply valid_sub_facts in V. destruct s as [b e]. cbn [fst snd] in V.
  unfold num_byte_values. unf. f_equal. lia.
Qed.

Theorem tr_num_nonzero_byte_values_eq s ds : valid_subspace s = true ->
  tr_IDSubspace_num_nonzero_byte_values (zsub s) ds = Ok (Z.of_N (num_nonzero_byte_values s)) ds.
Proof.
  intros V. apply valid_sub_facts in V. destruct s as [b e]. cbn [fst snd] in V.
  unfold num_nonzero_byte_values. unf.
  repeat split_if; f_equal; lia.
Qed.

Theorem tr_contains_byte_eq s (x : N) ds :
  tr_IDSubspace_contains_byte (zsub s) (Z.of_N x) ds = Ok (contains_byte s x) ds.
Proof.
  destruct s as [b e]. unfold contains_byte. unf. f_equal.
  destruct (N.leb b x) eqn:?, (N.ltb x e) eqn:?; cbn [andb]; lia.
Qed.

(* all_byte_values / all_nonzero_byte_values return range(a, b): the model's list is that range *)
Theorem tr_all_byte_values_eq s ds :
  exists a b, tr_IDSubspace_all_byte_values (zsub s) ds = Ok (a, b) ds /\
              all_byte_values s = range (Z.to_N a) (Z.to_N b).
Proof.
  destruct s as [b e]. unf. eexists _, _. split; [reflexivity|].
  unfold all_byte_values. cbn [sub_begin sub_end fst snd]. now rewrite !N2Z.id.
Qed.

Theorem tr_all_nonzero_byte_values_eq s ds :
  exists a b, tr_IDSubspace_all_nonzero_byte_values (zsub s) ds = Ok (a, b) ds /\
              all_nonzero_byte_values s = range (Z.to_N a) (Z.to_N b).
Proof.
  destruct s as [b e]. unfold all_nonzero_byte_values. unf.
  destruct (N.leb b 0) eqn:E1; destruct (Z.of_N b <=? 0) eqn:E2; try lia;
    (eexists _, _; split; [reflexivity|]); cbn [sub_begin sub_end fst snd]; now rewrite ?N2Z.id.
Qed.

(* ------------------------------------------------------------------ IDSpace *)
Ltac n_subst :=
  repeat match goal with
         | H : N.eqb ?a _ = true |- _ => apply N.eqb_eq in H; try subst a
         | H : Z.eqb (Z.of_N ?a) _ = true |- _ => apply Z.eqb_eq in H
         end.

Theorem tr_space_new_eq (cb : N) (d : bool) ds :
  tr_IDSpace_new (Z.of_N cb) d ds = match mk_space cb d with Some sp => Ok (zsp sp) ds | None => Exc end.
Proof.
  unfold mk_space. unf. cbv [valid_cb_a valid_cb_b valid_cb_c existsb].
  destruct d; cbn [negb andb orb];
    repeat split_if; try reflexivity; try (exfalso; lia); n_subst; try reflexivity; try (exfalso; lia).
Qed.

Theorem tr_num_nonzero_bits_eq sp ds :
  tr_IDSpace_num_nonzero_bits (zsp sp) ds = Ok (Z.of_N (num_nonzero_bits sp)) ds.
Proof. destruct sp; reflexivity. Qed.

Theorem tr_subspace_byte_offset_eq sp ds :
  tr_IDSpace_subspace_byte_offset (zsp sp) ds = Ok (Z.of_N (subspace_byte_offset sp)) ds.
Proof. destruct sp; reflexivity. Qed.

Theorem tr_subspace_byte_mask_eq sp ds :
  tr_IDSpace_subspace_byte_mask (zsp sp) ds = Ok (Z.of_N (subspace_byte_mask sp)) ds.
Proof. destruct sp; reflexivity. Qed.

Theorem tr_subspace_masked_range_eq sp s ds :
  tr_IDSpace_subspace_masked_range (zsp sp) (zsub s) ds =
  Ok (Z.of_N (fst (subspace_masked_range sp s)), Z.of_N (snd (subspace_masked_range sp s))) ds.
Proof.
  destruct s as [b e]. unfold tr_IDSpace_subspace_masked_range, PySem.bind.
  rewrite tr_subspace_byte_offset_eq. unfold subspace_masked_range, PySem.ret, py_shiftl.
  cbn [fst snd zsub sub_begin sub_end]. now rewrite !of_N_shiftl.
Qed.

Lemma land_of_N_l id (m : Z) : 0 <= m -> Z.land (Z.of_N id) m = Z.of_N (N.land id (Z.to_N m)).
Proof. intros H. rewrite of_N_land, Z2N.id by exact H. reflexivity. Qed.
Lemma of_N_eqb0 x : (Z.of_N x =? 0) = (x =? 0)%N.
Proof. destruct (N.eqb_spec x 0); lia. Qed.
Lemma bind_ret_r {A} (m : M A) ds : PySem.bind m (fun x => PySem.ret x) ds = m ds.
Proof. unfold PySem.bind, PySem.ret. destruct (m ds); reflexivity. Qed.

Theorem tr_space_new_eq_z (z : Z) (d : bool) ds : 0 <= z ->
  tr_IDSpace_new z d ds = match mk_space (Z.to_N z) d with Some sp => Ok (zsp sp) ds | None => Exc end.
Proof. intros H. rewrite <- (Z2N.id z) at 1 by exact H. apply tr_space_new_eq. Qed.

Definition res_of_space (o : option space) ds : res (Z * bool) :=
  match o with Some sp => Ok (zsp sp) ds | None => Exc end.

(* a literal mask of contiguous ones, as arithmetic *)
Lemma land_mask_arith x a b m : 0 <= x -> m = Z.shiftl (Z.ones a) b -> 0 <= a -> 0 <= b ->
  Z.land x m = ((x / 2 ^ b) mod 2 ^ a) * 2 ^ b.
Proof.
  intros Hx -> Ha Hb.
  apply Z.bits_inj'. intros n Hn.
  rewrite Z.land_spec, Z.shiftl_spec by lia.
  rewrite <- Z.shiftl_mul_pow2 by lia. rewrite (Z.shiftl_spec (_ mod _)) by lia.
  destruct (Z.ltb_spec n b) as [L|L].
  - rewrite !(Z.testbit_neg_r _ (n - b)) by lia. now rewrite andb_false_r.
  - destruct (Z.ltb_spec (n - b) a) as [L2|L2].
    + rewrite Z.ones_spec_low by lia. rewrite andb_true_r.
      rewrite Z.mod_pow2_bits_low by lia. rewrite <- Z.shiftr_div_pow2 by lia. rewrite Z.shiftr_spec by lia. f_equal. lia.
    + rewrite Z.ones_spec_high by lia. rewrite andb_false_r.
      rewrite Z.mod_pow2_bits_high by lia. reflexivity.
Qed.
Lemma nland_eqb0 a b : (N.land a b =? 0)%N = (Z.land (Z.of_N a) (Z.of_N b) =? 0).
Proof. rewrite <- of_N_land. symmetry. apply of_N_eqb0. Qed.

Ltac Zify.zify_post_hook ::= Z.to_euclidean_division_equations.
Ltac pow2_literals :=
  repeat match goal with
  | |- context [2 ^ ?k] => let v := eval vm_compute in (2 ^ k) in change (2 ^ k) with v
  end.
Ltac land_to_arith :=
  repeat match goal with
  | |- context [Z.land ?x ?m] =>
      first [ rewrite (land_mask_arith x 8 24 m) by first [lia | reflexivity]
            | rewrite (land_mask_arith x 24 0 m) by first [lia | reflexivity]
            | rewrite (land_mask_arith x 16 8 m) by first [lia | reflexivity]
            | rewrite (land_mask_arith x 8 0 m) by first [lia | reflexivity]
            | rewrite (land_mask_arith x 8 8 m) by first [lia | reflexivity]
            | rewrite (land_mask_arith x 8 16 m) by first [lia | reflexivity]
            | rewrite (land_mask_arith x 16 0 m) by first [lia | reflexivity]
            | rewrite (land_mask_arith x 16 16 m) by first [lia | reflexivity]
            | rewrite (land_mask_arith x 32 0 m) by first [lia | reflexivity] ]
  | |- context [py_shiftr ?x ?k] => unfold py_shiftr; rewrite (Z.shiftr_div_pow2 x k) by lia
  end.
Ltac split_all := repeat (split_if; try (exfalso; lia)).
Ltac decide_eqbs :=
  repeat match goal with
         | |- context [Z.eqb ?a ?b] => destruct (Z.eqb a b) eqn:?; try (exfalso; lia)
         end.

Theorem tr_from_id_eq_z (z : Z) ds : tr_IDSpace_from_id z ds = res_of_space (from_id_z z) ds.
Proof.
  unfold from_id_z. destruct (z <=? 0) eqn:Hz.
  - unfold tr_IDSpace_from_id. cbv zeta. split_all; reflexivity.
  - remember (Z.to_N z) as id eqn:Hid. replace z with (Z.of_N id) by lia. clear Hid Hz z.
    unfold tr_IDSpace_from_id, from_id.
    rewrite !nland_eqb0.
    cbv [fid_max fid_mask3 fid_mask012 fid_mask12 fid_cb24 fid_cb8 fid_cb0].
    repeat match goal with
           | |- context [Z.of_N (N.pos ?p)] => change (Z.of_N (N.pos p)) with (Z.pos p)
           | |- context [Z.of_N 0%N] => change (Z.of_N 0%N) with 0
           end.
    land_to_arith. pow2_literals. cbv zeta.
    split_all; try reflexivity;
      rewrite ?bind_ret_r, ?tr_space_new_eq_z by lia; cbv [Z.to_N];
      decide_eqbs; reflexivity.
Qed.

Theorem tr_from_id_eq (id : N) ds : tr_IDSpace_from_id (Z.of_N id) ds = res_of_space (from_id id) ds.
Proof.
  rewrite tr_from_id_eq_z. unfold from_id_z. destruct (Z.of_N id <=? 0) eqn:E.
  - assert (id = 0%N) by lia. subst. reflexivity.
  - now rewrite N2Z.id.
Qed.

Lemma zsp_eqb sp sp' :
  ((fst (zsp sp') =? fst (zsp sp)) && Bool.eqb (snd (zsp sp')) (snd (zsp sp))) = space_eqb sp' sp.
Proof. destruct sp, sp'; reflexivity. Qed.

Theorem tr_contains_eq sp (id : N) ds :
  tr_IDSpace_contains (zsp sp) (Z.of_N id) ds =
  match contains sp id with Some b => Ok b ds | None => Exc end.
Proof.
  unfold tr_IDSpace_contains, contains, PySem.bind. rewrite tr_from_id_eq.
  destruct (from_id id) as [sp'|]; cbn [res_of_space]; [|reflexivity].
  unfold PySem.ret. now rewrite zsp_eqb.
Qed.

Theorem tr_contains_and_in_subspace_eq sp (id : N) s ds :
  tr_IDSpace_contains_and_in_subspace (zsp sp) (Z.of_N id) (zsub s) ds =
  match contains_and_in_subspace sp id s with Some b => Ok b ds | None => Exc end.
Proof.
  unfold tr_IDSpace_contains_and_in_subspace, contains_and_in_subspace, PySem.bind.
  rewrite tr_subspace_masked_range_eq.
  destruct (subspace_masked_range sp s) as [b e]. cbn [fst snd].
  rewrite tr_contains_eq. destruct (contains sp id) as [c|]; [|reflexivity].
  destruct c; cbn [andb]; [|reflexivity].
  unfold PySem.bind. rewrite tr_subspace_byte_mask_eq. unfold PySem.ret.
  rewrite <- of_N_land. f_equal.
  destruct (N.leb b _) eqn:?, (N.ltb _ e) eqn:?; cbn [andb]; lia.
Qed.

Theorem tr_get_subspace_byte_eq (id : N) ds :
  tr_IDSpace_get_subspace_byte (Z.of_N id) ds =
  match get_subspace_byte id with Some b => Ok (Z.of_N b) ds | None => Exc end.
Proof.
  unfold tr_IDSpace_get_subspace_byte, get_subspace_byte, PySem.bind. rewrite tr_from_id_eq.
  destruct (from_id id) as [sp|]; cbn [res_of_space]; [|reflexivity].
  rewrite tr_subspace_byte_offset_eq. unfold PySem.ret, py_shiftr.
  rewrite <- of_N_shiftr. cbv [gsb_mask]. rewrite (land_of_N_l _ 255) by lia. reflexivity.
Qed.

Theorem tr_subspace_size_eq sp s ds : valid_subspace s = true ->
  tr_IDSpace_subspace_size (zsp sp) (zsub s) ds = Ok (Z.of_N (subspace_size sp s)) ds.
Proof.
  intros V. pose proof (valid_sub_facts s V) as F.
  pose proof (tr_num_nonzero_byte_values_eq s) as Hnz. pose proof (tr_num_byte_values_eq s) as Hn.
  unfold subspace_size, subspace_counts, tr_IDSpace_subspace_size, PySem.bind.
  destruct sp; cbn [zsp color_bits use_3rd fst snd]; cbv zeta;
    repeat (first [rewrite Hnz by exact V | rewrite Hn by exact V | split_if]);
    try (exfalso; lia); unfold PySem.ret; f_equal;
    cbv [sz_16_b0 sz_32_b0 sz_32_b12 sz_24_b0 sz_24_mul sz_24_dec];
    unfold num_nonzero_byte_values, num_byte_values, zsub, sub_begin, sub_end in *;
    destruct s as [b e]; cbn [fst snd] in *;
    repeat split_if; lia.
Qed.

(* ------------------------------------------------------------------ randomness: rand_byte, rand_nonzero_byte, gen_random_id
   The model threads a log of the bounds asked (for gen_complete / gen_bounds_positive); the translated code only
   consumes draws.  [sim o r]: same outcome, same value, same draws left. *)
Definition zds (ds : list N) : list Z := map Z.of_N ds.
Definition sim (o : outcome N) (r : res Z) : Prop :=
  match o with
  | Done a _ rest => r = Ok (Z.of_N a) (zds rest)
  | IdSpace.NoDraw _ _ => r = PySem.NoDraw
  | IdSpace.BadDraw _ _ _ => r = PySem.BadDraw
  end.

Lemma sim_randbelow (n : N) asked ds : (0 < n)%N ->
  sim (IdSpace.randbelow n asked ds) (PySem.randbelow (Z.of_N n) (zds ds)).
Proof.
  intros Hn. unfold IdSpace.randbelow, PySem.randbelow.
  destruct (Z.of_N n <=? 0) eqn:E; [lia|].
  destruct ds as [|d r]; cbn [zds map sim]; [reflexivity|].
  destruct (N.ltb d n) eqn:E1; destruct ((0 <=? Z.of_N d) && (Z.of_N d <? Z.of_N n)) eqn:E2; cbn [sim]; try reflexivity; lia.
Qed.

Lemma sim_bind (m : rnd N) (m' : M Z) (f : N -> rnd N) (f' : Z -> M Z) asked ds :
  sim (m asked ds) (m' (zds ds)) ->
  (forall a asked' rest, sim (f a asked' rest) (f' (Z.of_N a) (zds rest))) ->
  sim (IdSpace.bind m f asked ds) (PySem.bind m' f' (zds ds)).
Proof.
  intros Hm Hf. unfold IdSpace.bind, PySem.bind.
  destruct (m asked ds) as [a k rest|k n|k n d]; cbn [sim] in Hm; rewrite Hm; [apply Hf|reflexivity|reflexivity].
Qed.

Lemma sim_ret (a : N) (z : Z) asked ds : z = Z.of_N a -> sim (IdSpace.ret a asked ds) (PySem.ret z (zds ds)).
Proof. intros ->. reflexivity. Qed.

Theorem tr_rand_byte_sim s asked ds : valid_subspace s = true ->
  sim (rand_byte s asked ds) (tr_IDSubspace_rand_byte (zsub s) (zds ds)).
Proof.
  intros V. apply valid_sub_facts in V. destruct s as [b e]. cbn [fst snd] in V.
  unfold rand_byte, tr_IDSubspace_rand_byte. cbn [zsub sub_begin sub_end fst snd].
  replace (Z.of_N e - Z.of_N b) with (Z.of_N (e - b)) by lia.
  apply sim_bind; [apply sim_randbelow; lia|]. intros a k rest. apply sim_ret. lia.
Qed.

Theorem tr_rand_nonzero_byte_sim s asked ds : valid_subspace s = true ->
  sim (rand_nonzero_byte s asked ds) (tr_IDSubspace_rand_nonzero_byte (zsub s) (zds ds)).
Proof.
  intros V. pose proof (valid_sub_facts s V) as F. pose proof (tr_rand_byte_sim s asked ds V) as RB.
  destruct s as [b e]. cbn [fst snd] in F.
  unfold rand_nonzero_byte, tr_IDSubspace_rand_nonzero_byte. cbn [zsub sub_begin sub_end fst snd] in *.
  destruct (N.leb b 0) eqn:E1; destruct (Z.of_N b <=? 0) eqn:E2; try lia.
  - replace (Z.of_N e - 1) with (Z.of_N (e - 1)) by lia.
    apply sim_bind; [apply sim_randbelow; lia|]. intros a k rest. apply sim_ret. lia.
  - change (tr_IDSubspace_rand_byte (Z.of_N b, Z.of_N e)) with (tr_IDSubspace_rand_byte (zsub (b, e))).
    unfold PySem.bind. destruct (rand_byte (b, e) asked ds) as [a k rest|k n|k n d]; cbn [sim] in RB |- *;
      cbn [zsub sub_begin sub_end fst snd] in RB; rewrite RB; reflexivity.
Qed.

Lemma compose_bytes_z b3 b2 b1 b0 :
  Z.lor (Z.lor (Z.lor (py_shiftl (Z.of_N b3) 24) (py_shiftl (Z.of_N b2) 16)) (py_shiftl (Z.of_N b1) 8)) (Z.of_N b0)
  = Z.of_N (compose_bytes b3 b2 b1 b0).
Proof.
  unfold compose_bytes, py_shiftl. cbv [gr_sh3 gr_sh2 gr_sh1].
  rewrite !of_N_lor, !of_N_shiftl. reflexivity.
Qed.

(* monad laws, pointwise (no functional extensionality): used to bring a translated term in which a rewrite of the source
   has extracted a helper method (unfolded through the hint database tr_helpers) back to the shape bind-by-bind *)
Lemma bind_assoc_pt {A B C} (m : M A) (g : A -> M B) (f : B -> M C) ds :
  PySem.bind (PySem.bind m g) f ds = PySem.bind m (fun x => PySem.bind (g x) f) ds.
Proof. unfold PySem.bind. destruct (m ds); reflexivity. Qed.
Lemma bind_ret_pt {A B} (a : A) (f : A -> M B) ds : PySem.bind (PySem.ret a) f ds = f a ds.
Proof. reflexivity. Qed.
Lemma bind_if_pt {A B} (c : bool) (m1 m2 : M A) (f : A -> M B) ds :
  PySem.bind (if c then m1 else m2) f ds = (if c then PySem.bind m1 f else PySem.bind m2 f) ds.
Proof. destruct c; reflexivity. Qed.
Lemma if_app_pt {A} (c : bool) (m1 m2 : M A) ds : (if c then m1 else m2) ds = if c then m1 ds else m2 ds.
Proof. destruct c; reflexivity. Qed.
Ltac tr_normalize :=
  autounfold with tr_helpers;
  repeat first [ rewrite bind_if_pt | rewrite bind_assoc_pt | rewrite bind_ret_pt ].

Ltac sim_leaf := apply sim_ret; rewrite <- compose_bytes_z; repeat f_equal; lia.
Ltac sim_step V :=
  cbv zeta; tr_normalize;
  first
    [ apply sim_bind;
      [ first [ apply tr_rand_nonzero_byte_sim; exact V
              | apply tr_rand_byte_sim; exact V
              | apply sim_randbelow; reflexivity ]
      | intros ? ? ? ]
    | rewrite of_N_eqb0; match goal with |- context [(?b =? 0)%N] => destruct (b =? 0)%N end
    | sim_leaf ].

Theorem tr_gen_random_id_sim sp s ds : valid_subspace s = true ->
  sim (gen_random_id sp s ds) (tr_IDSpace_gen_random_id (zsp sp) (zsub s) (zds ds)).
Proof.
  intros V. unfold gen_random_id. generalize (@nil N) as asked. intros asked.
  unfold gen_random_id_m, tr_IDSpace_gen_random_id.
  destruct sp; cbn [zsp color_bits use_3rd fst snd]; cbv zeta;
    change (Z.of_N 0) with 0; change (Z.of_N 8) with 8; change (Z.of_N 24) with 24;
    cbn [Z.eqb Pos.eqb N.eqb]; repeat sim_step V.
Qed.
