(* Proofs/PosixShFacts.v — facts about Spec/PosixShSpec.v alone (and its base64 encoder against
   Lib/Base64): how the printf interpreter, the tokenizer and the line splitter behave on the
   pieces a command line  printf 'F' "$(printf 'B1' | base64 -w0)" ... [# comment]  is made of. *)
From Coq Require Import ZArith NArith List Bool Lia ZifyN ZifyBool ZifyNat.
From Tup Require Import Lib.ByteStr Lib.ByteStrFacts Lib.Base64 Lib.Base64Facts Spec.PosixShSpec.
Import ListNotations.
Open Scope N_scope.
Ltac Zify.zify_post_hook ::= Z.to_euclidean_division_equations.

(* ------------------------------------------------------------------ RFC 4648 encoder = Lib encoder *)
Definition range64 : list N := map N.of_nat (seq 0 64).
Lemma sym_tab : forallb (fun s => sym s =? to_char s) range64 = true.
Proof. vm_compute. reflexivity. Qed.
Lemma in_range64 s : s < 64 -> In s range64.
Proof.
  intro H. unfold range64. rewrite <- (N2Nat.id s). apply in_map. apply in_seq. lia.
Qed.
Lemma sym_to_char s : s < 64 -> sym s = to_char s.
Proof.
  intro H. pose proof sym_tab as T. rewrite forallb_forall in T.
  specialize (T s (in_range64 s H)). lia.
Qed.

Ltac list_eq := repeat match goal with
  | |- _ :: _ = _ :: _ => f_equal
  | |- to_char _ = to_char _ => f_equal; lia
  end.

Theorem rfc_b64_encode l : bytes_ok l -> rfc_b64 l = b64encode l.
Proof.
  unfold b64encode, rfc_pad.
  induction l as [|a|a b|a b c r IH] using list_ind3; intros HF; cbn [rfc_b64 enc6 map].
  - reflexivity.
  - apply bytes_ok_cons in HF. destruct HF as [Ha _].
    cbv zeta. rewrite !sym_to_char by lia. unfold PAD. change (to_char 64) with 61.
    list_eq.
  - apply bytes_ok_cons in HF. destruct HF as [Ha HF]. apply bytes_ok_cons in HF. destruct HF as [Hb _].
    cbv zeta. rewrite !sym_to_char by lia. unfold PAD. change (to_char 64) with 61.
    list_eq.
  - apply bytes_ok_cons in HF. destruct HF as [Ha HF]. apply bytes_ok_cons in HF. destruct HF as [Hb HF].
    apply bytes_ok_cons in HF. destruct HF as [Hc HF].
    cbv zeta. rewrite !sym_to_char by lia. rewrite (IH HF).
    list_eq.
Qed.

(* base64 text has no newline and no NUL: command substitution returns it unchanged *)
Lemma strip_nl_id l : ~ In 10 l -> strip_nl l = l.
Proof.
  induction l as [|c r IH]; intro H; cbn [strip_nl]; [reflexivity|].
  rewrite IH by (intro; apply H; right; assumption).
  destruct r; [|reflexivity].
  destruct (c =? 10) eqn:E; [|reflexivity]. exfalso. apply H. left. lia.
Qed.
Lemma has_nul_false l : ~ In 0 l -> has_nul l = false.
Proof.
  induction l as [|c r IH]; intro H; cbn [has_nul]; [reflexivity|].
  rewrite IH by (intro; apply H; right; assumption).
  destruct (c =? 0) eqn:E; [|reflexivity]. exfalso. apply H. left. lia.
Qed.
Lemma b64_chars_not l c : Forall (fun x => is_b64_char x = true) l -> is_b64_char c = false -> ~ In c l.
Proof.
  intros HF Hc Hin. rewrite Forall_forall in HF. specialize (HF c Hin). congruence.
Qed.

(* ------------------------------------------------------------------ printf_fmt, one directive at a time *)
Definition emit' (b : N) (k : option (list N * list (list N))) : option (list N * list (list N)) :=
  match k with Some (o, a) => Some (b :: o, a) | None => None end.
Lemma emit_byte v k : v < 256 -> emit v k = emit' v k.
Proof. intro H. unfold emit, emit'. destruct (v <? 256) eqn:E; [reflexivity|lia]. Qed.

Lemma printf_fmt_plain c rest args : c <> 92 -> c <> 37 ->
  printf_fmt (c :: rest) args = emit c (printf_fmt rest args).
Proof.
  intros H1 H2. cbn [printf_fmt].
  destruct (c =? 92) eqn:E1; [lia|]. destruct (c =? 37) eqn:E2; [lia|]. reflexivity.
Qed.

Lemma printf_fmt_oct3 e f g rest args : is_oct e = true -> is_oct f = true -> is_oct g = true ->
  printf_fmt (92 :: e :: f :: g :: rest) args = emit (ov e * 64 + ov f * 8 + ov g) (printf_fmt rest args).
Proof.
  intros He Hf Hg. cbn [printf_fmt]. rewrite N.eqb_refl, He, Hf, Hg. reflexivity.
Qed.

Lemma printf_fmt_escape e v rest args : is_oct e = false -> simple_escape e = Some v ->
  printf_fmt (92 :: e :: rest) args = emit v (printf_fmt rest args).
Proof.
  intros He Hv. cbn [printf_fmt]. rewrite N.eqb_refl, He, Hv. reflexivity.
Qed.

Lemma printf_fmt_percent rest args :
  printf_fmt (37 :: 37 :: rest) args = emit 37 (printf_fmt rest args).
Proof. reflexivity. Qed.

Lemma printf_fmt_s a rest args :
  printf_fmt (37 :: 115 :: rest) (a :: args) =
  match printf_fmt rest args with Some (o, u) => Some (a ++ o, u) | None => None end.
Proof. reflexivity. Qed.

(* ------------------------------------------------------------------ lines *)
Lemma split_lines_one a : forall cur, ~ In 10 a -> split_lines cur a = [cur ++ a].
Proof.
  induction a as [|c r IH]; intros cur H; cbn [split_lines].
  - rewrite app_nil_r. reflexivity.
  - destruct (c =? 10) eqn:E; [exfalso; apply H; left; lia|].
    rewrite IH by (intro; apply H; right; assumption). rewrite <- app_assoc. reflexivity.
Qed.

Lemma split_lines_nl a : forall cur,
  exists L, split_lines cur (a ++ [10]) = L ++ [[]] /\
            forall s2, split_lines cur (a ++ 10 :: s2) = L ++ split_lines [] s2.
Proof.
  induction a as [|c r IH]; intros cur.
  - exists [cur]. split; [reflexivity|]. intros s2. reflexivity.
  - cbn [app split_lines]. destruct (c =? 10).
    + destruct (IH []) as [L [H1 H2]]. exists (cur :: L). split.
      * rewrite H1. reflexivity.
      * intros s2. rewrite H2. reflexivity.
    + destruct (IH (cur ++ [c])) as [L [H1 H2]]. exists L. split; [exact H1|exact H2].
Qed.

Definition oapp (x y : option (list N)) : option (list N) :=
  match x, y with Some a, Some b => Some (a ++ b) | _, _ => None end.

Lemma eval_lines_app L M : eval_lines (L ++ M) = oapp (eval_lines L) (eval_lines M).
Proof.
  induction L as [|l L IH]; cbn [app eval_lines].
  - unfold oapp. cbn [eval_lines]. destruct (eval_lines M); reflexivity.
  - rewrite IH. unfold oapp. destruct (eval_line l), (eval_lines L), (eval_lines M); try reflexivity.
    rewrite app_assoc. reflexivity.
Qed.

Lemma eval_line_nil : eval_line [] = Some [].
Proof. reflexivity. Qed.

(* a script whose first part ends with a newline: outputs concatenate *)
Theorem eval_app_nl a s2 : eval ((a ++ [10]) ++ s2) = oapp (eval (a ++ [10])) (eval s2).
Proof.
  unfold eval. destruct (split_lines_nl a []) as [L [H1 H2]].
  rewrite <- app_assoc. cbn [app]. rewrite H2, H1. rewrite !eval_lines_app.
  cbn [eval_lines]. rewrite eval_line_nil. unfold oapp.
  destruct (eval_lines L), (eval_lines (split_lines [] s2)); try reflexivity.
  cbn [app]. rewrite app_nil_r. reflexivity.
Qed.

(* a first line without newline inside *)
Lemma split_lines_first a : forall cur s2, ~ In 10 a ->
  split_lines cur (a ++ 10 :: s2) = (cur ++ a) :: split_lines [] s2.
Proof.
  induction a as [|c r IH]; intros cur s2 H; cbn [app split_lines].
  - rewrite app_nil_r. reflexivity.
  - destruct (c =? 10) eqn:E; [exfalso; apply H; left; lia|].
    rewrite IH by (intro; apply H; right; assumption). rewrite <- app_assoc. reflexivity.
Qed.

Lemma eval_first_line a s2 : ~ In 10 a -> eval (a ++ 10 :: s2) = oapp (eval_line a) (eval s2).
Proof.
  intro H. unfold eval. rewrite split_lines_first by exact H. cbn [app eval_lines]. reflexivity.
Qed.

Lemma eval_nil : eval [] = Some [].
Proof. reflexivity. Qed.

Lemma eval_single_line a : ~ In 10 a -> eval (a ++ [10]) = eval_line a.
Proof.
  intro H. rewrite eval_first_line by exact H. rewrite eval_nil. unfold oapp.
  destruct (eval_line a); [rewrite app_nil_r|]; reflexivity.
Qed.

(* ------------------------------------------------------------------ the tokenizer on a command line *)
Lemma run_line_app s a b :
  run_line s (a ++ b) = match run_line s a with Some s' => run_line s' b | None => None end.
Proof.
  revert s. induction a as [|c r IH]; intros s; cbn [app run_line]; [reflexivity|].
  destruct (step s c); [apply IH|reflexivity].
Qed.

(* text that may stand between single quotes on one line *)
Definition quotable (l : list N) : Prop := Forall (fun c => c <> 39 /\ c <> 0 /\ c <> 10) l.

Lemma quotable_app a b : quotable (a ++ b) <-> quotable a /\ quotable b.
Proof. unfold quotable. apply Forall_app. Qed.
Lemma quotable_no_nl l : quotable l -> ~ In 10 l.
Proof. intros H Hin. unfold quotable in H. rewrite Forall_forall in H. destruct (H _ Hin) as [_ [_ E]]. congruence. Qed.

Lemma run_MQ body : forall ws w its ic, quotable body ->
  run_line (mk_st MQ ws (Some w) its ic) body = Some (mk_st MQ ws (Some (w ++ body)) its ic).
Proof.
  induction body as [|c r IH]; intros ws w its ic H; cbn [run_line].
  - rewrite app_nil_r. reflexivity.
  - apply Forall_cons_iff in H. destruct H as [[H1 [H2 H3]] Hr]. cbn [step].
    destruct (c =? 0) eqn:E0; [lia|]. destruct (c =? 39) eqn:E1; [lia|].
    cbn [add]. rewrite IH by exact Hr. rewrite <- app_assoc. reflexivity.
Qed.

Lemma run_MIQ body : forall ws cur its w, quotable body ->
  run_line (mk_st MIQ ws cur its (Some w)) body = Some (mk_st MIQ ws cur its (Some (w ++ body))).
Proof.
  induction body as [|c r IH]; intros ws cur its w H; cbn [run_line].
  - rewrite app_nil_r. reflexivity.
  - apply Forall_cons_iff in H. destruct H as [[H1 [H2 H3]] Hr]. cbn [step].
    destruct (c =? 0) eqn:E0; [lia|]. destruct (c =? 39) eqn:E1; [lia|].
    cbn [add]. rewrite IH by exact Hr. rewrite <- app_assoc. reflexivity.
Qed.

Lemma run_MC l : forall ws cur its ic, ~ In 0 l ->
  run_line (mk_st MC ws cur its ic) l = Some (mk_st MC ws cur its ic).
Proof.
  induction l as [|c r IH]; intros ws cur its ic H; cbn [run_line]; [reflexivity|].
  cbn [step]. destruct (c =? 0) eqn:E0; [exfalso; apply H; left; lia|].
  apply IH. intro; apply H; right; assumption.
Qed.

(* the fixed pieces of text *)
Definition cmd_open : list N := w_printf ++ [32; 39].                                  (* printf ' *)
Definition sub_open : list N := [32; 34; 36; 40] ++ w_printf ++ [32; 39].              (* blank, dquote, dollar, paren, printf, blank, quote *)
Definition sub_close : list N := [39; 32; 124; 32] ++ w_base64 ++ [32] ++ w_w0 ++ [41; 34].  (* quote, blank, bar, blank, base64 -w0, paren, dquote *)
Definition param (body : list N) : list N := sub_open ++ body ++ sub_close.
Definition cmdline (F : list N) (bodies : list (list N)) : list N :=
  cmd_open ++ F ++ [39] ++ flat_map param bodies.

Lemma run_cmd_open : run_line init cmd_open = Some (mk_st MQ [w_printf] (Some []) [] None).
Proof. reflexivity. Qed.

Lemma run_quote_close ws w : run_line (mk_st MQ ws (Some w) [] None) [39] = Some (mk_st MU ws (Some w) [] None).
Proof. reflexivity. Qed.

Lemma run_sub_open ws w :
  run_line (mk_st MU ws (Some w) [] None) sub_open = Some (mk_st MIQ (ws ++ [w]) (Some []) [IWord w_printf] (Some [])).
Proof. reflexivity. Qed.

Lemma run_sub_close ws w body out :
  printf_utility [body] = Some out -> has_nul (rfc_b64 out) = false ->
  run_line (mk_st MIQ ws (Some w) [IWord w_printf] (Some body)) sub_close =
  Some (mk_st MU ws (Some (w ++ strip_nl (rfc_b64 out))) [] None).
Proof.
  intros H1 H2. unfold sub_close, w_base64, w_w0.
  cbn -[printf_utility rfc_b64 strip_nl has_nul]. rewrite H1.
  cbn -[printf_utility rfc_b64 strip_nl has_nul]. rewrite H2. reflexivity.
Qed.

(* what one parameter contributes as a word *)
Definition param_ok (body out : list N) : Prop :=
  quotable body /\ exists r, printf_utility [body] = Some r /\ out = rfc_b64 r /\ ~ In 0 out /\ ~ In 10 out.

Lemma run_param ws w body out : param_ok body out ->
  run_line (mk_st MU ws (Some w) [] None) (param body) = Some (mk_st MU (ws ++ [w]) (Some out) [] None).
Proof.
  intros [Hq [r [Hr [Ho [H0 H10]]]]]. unfold param.
  rewrite run_line_app, run_sub_open. rewrite run_line_app, run_MIQ by exact Hq. cbn [app].
  rewrite (run_sub_close _ _ _ r Hr) by (rewrite <- Ho; apply has_nul_false; exact H0).
  rewrite <- Ho, strip_nl_id by exact H10. reflexivity.
Qed.

Fixpoint shift (ws : list (list N)) (w : list N) (outs : list (list N)) : list (list N) * list N :=
  match outs with
  | [] => (ws, w)
  | o :: r => shift (ws ++ [w]) o r
  end.
Lemma shift_push outs : forall ws w, push (fst (shift ws w outs)) (Some (snd (shift ws w outs))) = ws ++ w :: outs.
Proof.
  induction outs as [|o r IH]; intros ws w; cbn [shift]; [reflexivity|].
  rewrite IH. rewrite <- app_assoc. reflexivity.
Qed.

Lemma run_params bodies : forall outs ws w, Forall2 param_ok bodies outs ->
  run_line (mk_st MU ws (Some w) [] None) (flat_map param bodies) =
  Some (mk_st MU (fst (shift ws w outs)) (Some (snd (shift ws w outs))) [] None).
Proof.
  induction bodies as [|b r IH]; intros outs ws w H; inversion H; subst; cbn [flat_map shift run_line]; [reflexivity|].
  rewrite run_line_app, (run_param _ _ _ _ H2). apply IH. assumption.
Qed.

Lemma run_cmdline F bodies outs : quotable F -> Forall2 param_ok bodies outs ->
  exists s, run_line init (cmdline F bodies) = Some s /\ st_mode s = MU /\
            st_itoks s = [] /\ st_icur s = None /\ st_cur s <> None /\
            push (st_words s) (st_cur s) = w_printf :: F :: outs.
Proof.
  intros HF HB. unfold cmdline.
  rewrite run_line_app, run_cmd_open. rewrite run_line_app, run_MQ by exact HF. change ([] ++ F) with F.
  rewrite run_line_app, run_quote_close. rewrite (run_params _ outs) by exact HB.
  eexists. split; [reflexivity|]. cbn [st_mode st_itoks st_icur st_cur st_words].
  repeat split; try discriminate. rewrite shift_push. reflexivity.
Qed.

(* a comment after the command does not change the words *)
Definition comment_tail (tail : list N) : Prop :=
  tail = [] \/ exists c, tail = [32; 35] ++ c /\ ~ In 0 c.

Theorem eval_line_cmdline F bodies outs tail : quotable F -> Forall2 param_ok bodies outs -> comment_tail tail ->
  eval_line (cmdline F bodies ++ tail) = printf_utility (F :: outs).
Proof.
  intros HF HB HT. destruct (run_cmdline F bodies outs HF HB) as [s [Hs [Hm [Hi [Hic [Hc Hp]]]]]].
  unfold eval_line. rewrite run_line_app, Hs.
  destruct s as [m ws cur its ic]. cbn [st_mode st_itoks st_icur st_cur st_words] in *. subst m its ic.
  destruct cur as [w|]; [|congruence].
  destruct HT as [->|[c [-> H0]]].
  - cbn [run_line st_mode st_words st_cur]. rewrite Hp. reflexivity.
  - cbn [app run_line step]. change (32 =? 0) with false. change (is_blank 32) with true. cbv iota.
    cbn [step]. change (35 =? 0) with false. change (is_blank 35) with false. change (35 =? 35) with true. cbv iota.
    rewrite run_MC by exact H0. cbn [st_mode st_words st_cur]. cbn [push] in Hp |- *. rewrite Hp. reflexivity.
Qed.

(* a line that is only a comment writes nothing *)
Lemma eval_line_comment c : ~ In 0 c -> eval_line (35 :: c) = Some [].
Proof.
  intro H. unfold eval_line. cbn [run_line step init]. change (35 =? 0) with false.
  change (is_blank 35) with false. change (35 =? 35) with true. cbv iota.
  rewrite run_MC by exact H. reflexivity.
Qed.

Lemma cmdline_no_nl F bodies : quotable F -> Forall quotable bodies -> ~ In 10 (cmdline F bodies).
Proof.
  intros HF HB. unfold cmdline. rewrite !in_app_iff. intros [H|[H|[H|H]]].
  - revert H. vm_compute. intuition discriminate.
  - exact (quotable_no_nl _ HF H).
  - cbn in H. intuition discriminate.
  - apply in_flat_map in H. destruct H as [b [Hb H]]. rewrite Forall_forall in HB. specialize (HB b Hb).
    unfold param in H. rewrite !in_app_iff in H. destruct H as [H|[H|H]].
    + revert H. vm_compute. intuition discriminate.
    + exact (quotable_no_nl _ HB H).
    + revert H. vm_compute. intuition discriminate.
Qed.
