(* Proofs/CellSizeProofs.v — C15: lemmas about Model/CellSize.v.
   Part 1: facts about any instance of the generic model (only integer comparisons are involved).
   Part 2: the rational instance computes Proofs/CellSizeFacts.optimalZ.
   Part 3: the integer tightness predicate implies Spec/SizingSpec's fitting statements.
   Part 4: the theorems quoted by Props/C15.v. *)
From Coq Require Import ZArith List Bool Lia ZifyBool QArith Qround Lqa.
From Tup Require Import Gen.CellSizeGen Model.CellSize Spec.SizingSpec Proofs.CellSizeFacts.
Open Scope Z_scope.
Ltac Zify.zify_post_hook ::= Z.to_euclidean_division_equations.

(* ---- the source literals the proofs rely on (a changed literal breaks these) *)
Lemma src_hard_max_rows : hard_max_rows = 256. Proof. reflexivity. Qed.
Lemma src_min_max_rows : min_max_rows = 1. Proof. reflexivity. Qed.
Lemma src_min_max_cols : min_max_cols = 1. Proof. reflexivity. Qed.
Lemma src_term_rows_cap : term_rows_cap = 256. Proof. reflexivity. Qed.
Lemma src_final_min_cols : final_min_cols = 1. Proof. reflexivity. Qed.
Lemma src_final_min_rows : final_min_rows = 1. Proof. reflexivity. Qed.
(* the source caps explicitly given dimensions (fixes/C15-explicit-over-limit.patch is applied) *)
Lemma src_caps_explicit : caps_explicit = true. Proof. reflexivity. Qed.
Lemma src_aspect_unscaled : aspect_unscaled = true. Proof. reflexivity. Qed.

Lemma bind_ok {A B} (x : res A) (f : A -> res B) v :
  bind x f = Ok v -> exists a, x = Ok a /\ f a = Ok v.
Proof. destruct x; cbn [bind]; intros E; [eauto | discriminate]. Qed.

(* ================================================================ Part 1: any instance *)
Lemma max_limits cmc cmr t amc amr mc mr :
  get_max_cols_and_rows cmc cmr t amc amr = Ok (mc, mr) -> 1 <= mc /\ 1 <= mr <= 256.
Proof.
  unfold get_max_cols_and_rows. intros E. apply bind_ok in E. destruct E as [[c r] [_ E]].
  rewrite src_min_max_rows, src_min_max_cols, src_hard_max_rows in E. injection E as <- <-. lia.
Qed.

Section Generic.
  Variable num : Type.
  Variable of_Z : Z -> num.
  Variables mul div : num -> num -> num.
  Variable is_zero : num -> bool.
  Variable ceil : num -> ceil_res.
  Variable one : num.
  Notation core := (optimal_core num of_Z mul div is_zero ceil).
  Notation rfc := (rows_from_cols num of_Z mul div is_zero ceil).
  Notation cfr := (cols_from_rows num of_Z mul div is_zero ceil).
  Notation opt := (optimal_with num of_Z mul div is_zero ceil one).
  Notation eff := (effective_scale num mul is_zero one).

  Lemma core_bounds W H Wa Ha cw ch cols rows mc mr C R :
    1 <= mc -> 1 <= mr -> core W H Wa Ha cw ch cols rows mc mr = Ok (C, R) -> 1 <= C <= mc /\ 1 <= R <= mr.
  Proof.
    intros Hmc Hmr E. unfold optimal_core in E.
    apply bind_ok in E. destruct E as [[c1 r1] [_ E]].
    apply bind_ok in E. destruct E as [[c2 r2] [_ E]].
    apply bind_ok in E. destruct E as [[c3 r3] [_ E]].
    rewrite src_final_min_cols, src_final_min_rows in E. injection E as <- <-. lia.
  Qed.

  (* what optimal_with does when at most one dimension is explicit and the call succeeds *)
  Lemma opt_unfold cap asp (cfg : config num) t w h cols rows amc amr scale v :
    ~ (is_some cols = true /\ is_some rows = true) ->
    opt cap asp cfg t w h cols rows amc amr scale = Ok v ->
    (forall c, cols = Some c -> 1 <= c) /\ (forall r, rows = Some r -> 1 <= r) /\
    exists mc mr, get_max_cols_and_rows (cfg_max_cols _ cfg) (cfg_max_rows _ cfg) t amc amr = Ok (mc, mr) /\
      core (mul (of_Z w) (eff cfg scale)) (mul (of_Z h) (eff cfg scale))
           (if asp then of_Z w else mul (of_Z w) (eff cfg scale)) (if asp then of_Z h else mul (of_Z h) (eff cfg scale))
           (fst (get_cell_size (cfg_cell_size _ cfg) (cfg_default_cell_size _ cfg) t))
           (snd (get_cell_size (cfg_cell_size _ cfg) (cfg_default_cell_size _ cfg) t))
           (if cap then option_map (fun c => Z.min c mc) cols else cols)
           (if cap then option_map (fun r => Z.min r mr) rows else rows) mc mr = Ok v.
  Proof.
    intros NB E. unfold optimal_with in E.
    assert (E' : (if match cols with Some c => c <=? 0 | None => false end then Err EValue else
                  if match rows with Some r => r <=? 0 | None => false end then Err EValue else
                  bind (get_max_cols_and_rows (cfg_max_cols _ cfg) (cfg_max_rows _ cfg) t amc amr) (fun '(mc, mr) =>
                    let cols := if cap then option_map (fun c => Z.min c mc) cols else cols in
                    let rows := if cap then option_map (fun r => Z.min r mr) rows else rows in
                    let '(cw, ch) := get_cell_size (cfg_cell_size _ cfg) (cfg_default_cell_size _ cfg) t in
                    core (mul (of_Z w) (eff cfg scale)) (mul (of_Z h) (eff cfg scale))
                         (if asp then of_Z w else mul (of_Z w) (eff cfg scale)) (if asp then of_Z h else mul (of_Z h) (eff cfg scale))
                         cw ch cols rows mc mr)) = Ok v).
    { destruct cols, rows; try exact E. exfalso. apply NB. split; reflexivity. }
    clear E.
    destruct (match cols with Some c => c <=? 0 | None => false end) eqn:E1; [discriminate|].
    destruct (match rows with Some r => r <=? 0 | None => false end) eqn:E2; [discriminate|].
    split; [intros c ->; lia|]. split; [intros r ->; lia|].
    apply bind_ok in E'. destruct E' as [[mc mr] [EM E']].
    exists mc, mr. split; [exact EM|].
    cbv zeta in E'. destruct (get_cell_size _ _ t) as [cw ch]. exact E'.
  Qed.

  Lemma bounds cap asp (cfg : config num) t w h cols rows amc amr scale C R :
    ~ (is_some cols = true /\ is_some rows = true) ->
    opt cap asp cfg t w h cols rows amc amr scale = Ok (C, R) ->
    exists mc mr, get_max_cols_and_rows (cfg_max_cols _ cfg) (cfg_max_rows _ cfg) t amc amr = Ok (mc, mr) /\
                  1 <= C <= mc /\ 1 <= R <= mr /\ mr <= 256.
  Proof.
    intros NB E. apply opt_unfold in E; [|exact NB]. destruct E as (_ & _ & mc & mr & EM & E).
    exists mc, mr. split; [exact EM|]. pose proof (max_limits _ _ _ _ _ _ _ EM) as HM.
    apply core_bounds in E; lia.
  Qed.

  Lemma explicit_verbatim cap asp (cfg : config num) t w h c r amc amr scale :
    opt cap asp cfg t w h (Some c) (Some r) amc amr scale = Ok (c, r).
  Proof. reflexivity. Qed.

  (* explicit cols within the limit: kept, unless the rows derived from it exceeded the row limit *)
  Lemma cols_kept asp (cfg : config num) t w h c amc amr scale C R mc mr :
    get_max_cols_and_rows (cfg_max_cols _ cfg) (cfg_max_rows _ cfg) t amc amr = Ok (mc, mr) ->
    c <= mc ->
    opt true asp cfg t w h (Some c) None amc amr scale = Ok (C, R) ->
    C = c \/
    exists r0, rfc (if asp then of_Z w else mul (of_Z w) (eff cfg scale)) (if asp then of_Z h else mul (of_Z h) (eff cfg scale))
                   (fst (get_cell_size (cfg_cell_size _ cfg) (cfg_default_cell_size _ cfg) t))
                   (snd (get_cell_size (cfg_cell_size _ cfg) (cfg_default_cell_size _ cfg) t)) c = Ok r0 /\
               mr < r0 /\ R = mr.
  Proof.
    intros EM Hc E. apply opt_unfold in E; [|cbn; intros [_ X]; discriminate X].
    destruct E as (Hc1 & _ & mc' & mr' & EM' & E). rewrite EM in EM'. injection EM' as <- <-.
    specialize (Hc1 c eq_refl). pose proof (max_limits _ _ _ _ _ _ _ EM) as HM.
    cbn [option_map] in E. replace (Z.min c mc) with c in E by lia.
    unfold optimal_core in E. cbn [is_none andb] in E.
    apply bind_ok in E. destruct E as [[c1 r1] [E1 E]].
    apply bind_ok in E1. destruct E1 as [r0 [E0 E1]]. injection E1 as <- <-.
    cbn [bind] in E. rewrite src_final_min_cols, src_final_min_rows in E.
    destruct (mr <? r0) eqn:E2.
    - right. exists r0. split; [exact E0|]. split; [lia|].
      apply bind_ok in E. destruct E as [[c2 r2] [E3 E]].
      apply bind_ok in E3. destruct E3 as [c' [_ E3]]. injection E3 as <- <-. injection E as _ <-. lia.
    - left. cbn [bind] in E. injection E as <- _. lia.
  Qed.

  Lemma rows_kept asp (cfg : config num) t w h r amc amr scale C R mc mr :
    get_max_cols_and_rows (cfg_max_cols _ cfg) (cfg_max_rows _ cfg) t amc amr = Ok (mc, mr) ->
    r <= mr ->
    opt true asp cfg t w h None (Some r) amc amr scale = Ok (C, R) ->
    R = r \/
    exists c0, cfr (if asp then of_Z w else mul (of_Z w) (eff cfg scale)) (if asp then of_Z h else mul (of_Z h) (eff cfg scale))
                   (fst (get_cell_size (cfg_cell_size _ cfg) (cfg_default_cell_size _ cfg) t))
                   (snd (get_cell_size (cfg_cell_size _ cfg) (cfg_default_cell_size _ cfg) t)) r = Ok c0 /\
               mc < c0 /\ C = mc.
  Proof.
    intros EM Hr E. apply opt_unfold in E; [|cbn; intros [X _]; discriminate X].
    destruct E as (_ & Hr1 & mc' & mr' & EM' & E). rewrite EM in EM'. injection EM' as <- <-.
    specialize (Hr1 r eq_refl). pose proof (max_limits _ _ _ _ _ _ _ EM) as HM.
    cbn [option_map] in E. replace (Z.min r mr) with r in E by lia.
    unfold optimal_core in E. cbn [is_none andb] in E.
    apply bind_ok in E. destruct E as [[c1 r1] [E1 E]].
    apply bind_ok in E1. destruct E1 as [c0 [E0 E1]]. injection E1 as <- <-.
    rewrite src_final_min_cols, src_final_min_rows in E.
    destruct (mc <? c0) eqn:E2.
    - right. exists c0. split; [exact E0|]. split; [lia|].
      apply bind_ok in E. destruct E as [[c2 r2] [E3 E]].
      apply bind_ok in E3. destruct E3 as [r' [_ E3]]. injection E3 as <- <-.
      cbn [bind] in E. injection E as <- _. lia.
    - left. cbn [bind] in E. injection E as _ <-. lia.
  Qed.
End Generic.

(* ================================================================ Part 2: the rational instance *)

Lemma Qceiling_cdiv q a b : 0 < b -> (q * inject_Z b == inject_Z a)%Q -> Qceiling q = cdiv a b.
Proof.
  intros Hb E. destruct q as [n d]. unfold Qeq, Qmult, inject_Z in E. cbn [Qnum Qden] in E.
  unfold Qceiling, Qfloor, Qopp. cbn [Qnum Qden].
  rewrite Pos.mul_1_r, Z.mul_1_r in E.
  assert (Hd : 0 < Z.pos d) by lia. set (D := Z.pos d) in *. clearbody D.
  symmetry. apply cdiv_unique; [assumption|].
  pose proof (Z.div_mod (- n) D ltac:(lia)) as E1. pose proof (Z.mod_pos_bound (-n) D Hd) as E2.
  set (q1 := - n / D) in *. set (m := (- n) mod D) in *. clearbody q1 m.
  split; [apply (Z.mul_lt_mono_pos_r D) | apply (Z.mul_le_mono_pos_r _ _ D)]; try lia; nia.
Qed.

Lemma Qmake_div (n : Z) (d : positive) : (n # d == inject_Z n / inject_Z (Z.pos d))%Q.
Proof. apply Qmake_Qdiv. Qed.

Lemma inj_nz z : z <> 0 -> ~ (inject_Z z == 0)%Q.
Proof. intros H E. apply H. unfold Qeq, inject_Z in E. cbn in E. lia. Qed.

Lemma ceil_auto (wn : Z) (wd : positive) cw : 0 < cw ->
  Qceiling ((wn # wd) / inject_Z cw) = cdiv wn (Z.pos wd * cw).
Proof.
  intros Hc. apply Qceiling_cdiv; [lia|].
  rewrite inject_Z_mult, Qmake_div. field. split; apply inj_nz; lia.
Qed.

Lemma ceil_cross (an : Z) (ad : positive) (bn : Z) (bd : positive) x y k : 0 < bn -> 0 < y ->
  Qceiling (inject_Z (k * x) * (an # ad) / ((bn # bd) * inject_Z y)) =
  cdiv (k * (x * an * Z.pos bd)) (y * bn * Z.pos ad).
Proof.
  intros Hb Hy. apply Qceiling_cdiv; [nia|].
  rewrite !inject_Z_mult, !Qmake_div. field. repeat split; apply inj_nz; lia.
Qed.


Section QCore.
  Variables (wn hn : Z) (wd hd : positive) (cw ch : Z).
  Hypothesis Hwn : 0 < wn.
  Hypothesis Hhn : 0 < hn.
  Hypothesis Hcw : 0 < cw.
  Hypothesis Hch : 0 < ch.
  Let W : Q := wn # wd.
  Let H : Q := hn # hd.
  Let K := cw * hn * Z.pos wd.
  Let L := ch * wn * Z.pos hd.

  Lemma q_rows_from_cols c :
    rows_from_cols Q inject_Z Qmult Qdiv q_is_zero q_ceil W H cw ch c = Ok (cdiv (c * K) L).
  Proof.
    unfold rows_from_cols, pydiv, pyceil, q_ceil, q_is_zero, W, H, K, L.
    replace (Qnum ((wn # wd) * inject_Z ch) =? 0) with false by (cbn [Qnum Qmult inject_Z]; nia).
    cbn [bind]. rewrite ceil_cross by assumption. reflexivity.
  Qed.

  Lemma q_cols_from_rows r :
    cols_from_rows Q inject_Z Qmult Qdiv q_is_zero q_ceil W H cw ch r = Ok (cdiv (r * L) K).
  Proof.
    unfold cols_from_rows, pydiv, pyceil, q_ceil, q_is_zero, W, H, K, L.
    replace (Qnum ((hn # hd) * inject_Z cw) =? 0) with false by (cbn [Qnum Qmult inject_Z]; nia).
    cbn [bind]. rewrite ceil_cross by assumption. reflexivity.
  Qed.

  Lemma q_auto_cols :
    bind (pydiv Q Qdiv q_is_zero W (inject_Z cw)) (pyceil Q q_ceil) = Ok (cdiv wn (Z.pos wd * cw)).
  Proof.
    unfold pydiv, pyceil, q_ceil, q_is_zero, W.
    replace (Qnum (inject_Z cw) =? 0) with false by (cbn [Qnum inject_Z]; lia).
    cbn [bind]. rewrite ceil_auto by assumption. reflexivity.
  Qed.
  Lemma q_auto_rows :
    bind (pydiv Q Qdiv q_is_zero H (inject_Z ch)) (pyceil Q q_ceil) = Ok (cdiv hn (Z.pos hd * ch)).
  Proof.
    unfold pydiv, pyceil, q_ceil, q_is_zero, H.
    replace (Qnum (inject_Z ch) =? 0) with false by (cbn [Qnum inject_Z]; lia).
    cbn [bind]. rewrite ceil_auto by assumption. reflexivity.
  Qed.

  Lemma q_core_eq cols rows mc mr :
    q_optimal_core W H W H cw ch cols rows mc mr =
    Ok (optimalZ (cdiv wn (Z.pos wd * cw)) (cdiv hn (Z.pos hd * ch)) K L cols rows mc mr).
  Proof.
    unfold q_optimal_core, optimal_core, optimalZ. rewrite src_final_min_cols, src_final_min_rows.
    destruct cols as [c|], rows as [r|]; cbn [is_none andb];
      rewrite ?q_auto_cols, ?q_auto_rows, ?q_rows_from_cols, ?q_cols_from_rows; cbn [bind].
    - reflexivity.
    - destruct (mr <? _); rewrite ?q_cols_from_rows; cbn [bind]; reflexivity.
    - destruct (mc <? _); rewrite ?q_rows_from_cols; cbn [bind]; reflexivity.
    - destruct (mc <? _); rewrite ?q_rows_from_cols; cbn [bind];
      destruct (mr <? _); rewrite ?q_cols_from_rows; cbn [bind]; reflexivity.
  Qed.
End QCore.

Lemma cross_le (x y wn hn : Z) (wd hd : positive) :
  (inject_Z x * (hn # hd) <= inject_Z y * (wn # wd))%Q <-> x * hn * Z.pos wd <= y * wn * Z.pos hd.
Proof. unfold Qle, Qmult, inject_Z. cbn [Qnum Qden]. rewrite !Pos.mul_1_l. split; intros; nia. Qed.
Lemma cross_lt (x y wn hn : Z) (wd hd : positive) :
  (inject_Z x * (wn # wd) < inject_Z y * (hn # hd))%Q <-> x * wn * Z.pos hd < y * hn * Z.pos wd.
Proof. unfold Qlt, Qmult, inject_Z. cbn [Qnum Qden]. rewrite !Pos.mul_1_l. split; intros; nia. Qed.

(* the rational core of the fitting argument *)
Lemma fit_reaches (W H BW BH BW' BH' f : Q) :
  (0 < W -> 0 < H -> BW' < BW -> BH' < BH ->
   (BW * H <= BH * W -> BH' * W < BW * H) ->
   (~ BW * H <= BH * W -> BW' * H < BH * W) ->
   is_fit W H BW BH f -> BW' < f * W /\ BH' < f * H)%Q.
Proof.
  intros HW HH HBW HBH T1 T2 (F1 & F2 & F3).
  set (a := (f * W)%Q) in *. set (b := (f * H)%Q) in *.
  assert (E : (a * H == b * W)%Q) by (unfold a, b; ring).
  clearbody a b.
  destruct (Qlt_le_dec (BH * W) (BW * H)) as [D|D].
  - assert (T : (BW' * H < BH * W)%Q) by (apply T2; lra).
    destruct F3 as [F3|F3]; split; try nra.
  - specialize (T1 D). destruct F3 as [F3|F3]; split; try nra.
Qed.

(* ================================================================ Part 3: integer tightness -> Spec *)
Lemma Qpos_num (n : Z) (d : positive) : (0 < n # d)%Q -> 0 < n.
Proof. unfold Qlt. cbn [Qnum Qden]. lia. Qed.

Section QSpec.
  Variables (wn hn : Z) (wd hd : positive) (cw ch : Z).
  Hypothesis Hwn : 0 < wn.
  Hypothesis Hhn : 0 < hn.
  Hypothesis Hcw : 0 < cw.
  Hypothesis Hch : 0 < ch.
  Let W : Q := wn # wd.
  Let H : Q := hn # hd.
  Let K := cw * hn * Z.pos wd.
  Let L := ch * wn * Z.pos hd.

  Lemma tightZ_no_unused C R : tightZ K L C R -> no_unused_row_or_col W H cw ch C R.
  Proof.
    intros T f Fit. unfold tightZ in T.
    apply (fit_reaches W H (box_w cw C) (box_h ch R)); try exact Fit.
    - unfold W, Qlt. cbn [Qnum Qden]. lia.
    - unfold H, Qlt. cbn [Qnum Qden]. lia.
    - unfold box_w. rewrite <- Zlt_Qlt. nia.
    - unfold box_h. rewrite <- Zlt_Qlt. nia.
    - unfold box_w, box_h, W, H. intros D. apply cross_le in D. apply cross_lt.
      destruct (C * K <=? R * L) eqn:E; unfold K, L in *; nia.
    - unfold box_w, box_h, W, H. intros D. apply cross_lt.
      assert (D' : ~ C * cw * hn * Z.pos wd <= R * ch * wn * Z.pos hd) by (intros X; apply D, cross_le, X).
      destruct (C * K <=? R * L) eqn:E; unfold K, L in *; nia.
  Qed.

  Lemma smallest_box_cdiv :
    smallest_containing_box W H cw ch (cdiv wn (Z.pos wd * cw)) (cdiv hn (Z.pos hd * ch)).
  Proof.
    pose proof (cdiv_spec wn (Z.pos wd * cw) ltac:(nia)) as S1.
    pose proof (cdiv_spec hn (Z.pos hd * ch) ltac:(nia)) as S2.
    set (C := cdiv wn (Z.pos wd * cw)) in *. set (R := cdiv hn (Z.pos hd * ch)) in *. clearbody C R.
    unfold smallest_containing_box, contains, box_w, box_h, W, H, Qle, inject_Z. cbn [Qnum Qden].
    split; [nia|]. intros C' R' [X Y]. nia.
  Qed.

  Lemma smallest_box_unique C R :
    smallest_containing_box W H cw ch C R -> C = cdiv wn (Z.pos wd * cw) /\ R = cdiv hn (Z.pos hd * ch).
  Proof.
    intros [S1 S2]. destruct smallest_box_cdiv as [T1 T2].
    apply S2 in T1. apply T2 in S1. lia.
  Qed.
End QSpec.

(* ================================================================ the scale cancels in exact arithmetic
   deriving a dimension from the UNSCALED size x : y (what the source does since the repair of F-C15b) gives exactly
   what deriving it from the scaled size x*s : y*s gives *)
Lemma q_ratio_unscaled (k x y c : Z) (s : Q) : 0 < x -> 0 < y -> 0 < c -> (0 < s)%Q ->
  bind (pydiv Q Qdiv q_is_zero (Qmult (inject_Z k) (inject_Z x)) (Qmult (inject_Z y) (inject_Z c))) (pyceil Q q_ceil) =
  bind (pydiv Q Qdiv q_is_zero (Qmult (inject_Z k) (inject_Z x * s)) (Qmult (inject_Z y * s) (inject_Z c))) (pyceil Q q_ceil).
Proof.
  intros Hx Hy Hc Hs. unfold pydiv, q_is_zero.
  assert (Hn : 0 < Qnum s) by (revert Hs; unfold Qlt; cbn [Qnum Qden]; lia).
  replace (Qnum (inject_Z y * inject_Z c) =? 0) with false by (cbn [Qnum Qmult inject_Z]; nia).
  replace (Qnum (inject_Z y * s * inject_Z c) =? 0) with false by (cbn [Qnum Qmult inject_Z]; nia).
  cbn [bind]. unfold pyceil, q_ceil. cbv iota beta. f_equal. apply Qceiling_comp.
  assert (~ inject_Z y == 0)%Q by (apply inj_nz; lia).
  assert (~ inject_Z c == 0)%Q by (apply inj_nz; lia).
  assert (~ s == 0)%Q by lra.
  field. repeat split; assumption.
Qed.

(* ================================================================ Part 4: the rational instance meets the Spec *)
Section QTheorems.
  Variable cfg : q_config.
  Variable t : term.
  Variables w h : Z.
  Variables amc amr : option Z.
  Variable scale : option Q.
  Variables mc mr cw ch : Z.
  Hypothesis Hw : 0 < w.
  Hypothesis Hh : 0 < h.
  Hypothesis HM : get_max_cols_and_rows (cfg_max_cols _ cfg) (cfg_max_rows _ cfg) t amc amr = Ok (mc, mr).
  Hypothesis HC : get_cell_size (cfg_cell_size _ cfg) (cfg_default_cell_size _ cfg) t = (cw, ch).
  Hypothesis Hcw : 0 < cw.
  Hypothesis Hch : 0 < ch.
  Hypothesis Hs : (0 < q_effective_scale cfg scale)%Q.
  Let W : Q := (inject_Z w * q_effective_scale cfg scale)%Q.
  Let H : Q := (inject_Z h * q_effective_scale cfg scale)%Q.

  Lemma W_pos : (0 < W)%Q.
  Proof. unfold W. apply Qmult_lt_0_compat; [|exact Hs]. replace 0%Q with (inject_Z 0) by reflexivity. rewrite <- Zlt_Qlt. exact Hw. Qed.
  Lemma H_pos : (0 < H)%Q.
  Proof. unfold H. apply Qmult_lt_0_compat; [|exact Hs]. replace 0%Q with (inject_Z 0) by reflexivity. rewrite <- Zlt_Qlt. exact Hh. Qed.

  Lemma q_core_unscaled cols rows :
    q_optimal_core W H (inject_Z w) (inject_Z h) cw ch cols rows mc mr = q_optimal_core W H W H cw ch cols rows mc mr.
  Proof.
    unfold q_optimal_core, optimal_core, cols_from_rows, rows_from_cols, W, H.
    destruct cols as [c|], rows as [r|]; rewrite <- !q_ratio_unscaled by assumption; reflexivity.
  Qed.

  (* with the limits and the cell size resolved, the call is the integer function *)
  Lemma q_opt_eq cols rows v :
    ~ (is_some cols = true /\ is_some rows = true) ->
    q_optimal_with true true cfg t w h cols rows amc amr scale = Ok v ->
    (forall c, cols = Some c -> 1 <= c) /\ (forall r, rows = Some r -> 1 <= r) /\
    v = optimalZ (cdiv (Qnum W) (Z.pos (Qden W) * cw)) (cdiv (Qnum H) (Z.pos (Qden H) * ch))
                 (cw * Qnum H * Z.pos (Qden W)) (ch * Qnum W * Z.pos (Qden H))
                 (option_map (fun c => Z.min c mc) cols) (option_map (fun r => Z.min r mr) rows) mc mr.
  Proof.
    intros NB E. apply opt_unfold in E; [|exact NB].
    destruct E as (H1 & H2 & mc' & mr' & EM & E). rewrite HM in EM. injection EM as <- <-.
    split; [exact H1|]. split; [exact H2|]. rewrite HC in E. cbn [fst snd] in E.
    fold (q_effective_scale cfg scale) in E. fold W in E. fold H in E.
    change (q_optimal_core W H (inject_Z w) (inject_Z h) cw ch (option_map (fun c => Z.min c mc) cols)
              (option_map (fun r => Z.min r mr) rows) mc mr = Ok v) in E.
    rewrite q_core_unscaled in E.
    pose proof W_pos as PW. pose proof H_pos as PH.
    destruct W as [wn wd], H as [hn hd]. apply Qpos_num in PW, PH.
    rewrite q_core_eq in E by assumption. injection E as <-. reflexivity.
  Qed.

  (* clause 3: both automatic, and the smallest cell box containing the scaled image is within the limits *)
  Lemma auto_minimal C0 R0 :
    smallest_containing_box W H cw ch C0 R0 -> C0 <= mc -> R0 <= mr ->
    q_optimal_with true true cfg t w h None None amc amr scale = Ok (C0, R0).
  Proof.
    intros S HC0 HR0.
    unfold q_optimal_with, optimal_with. rewrite HM. cbn [bind option_map]. rewrite HC.
    fold (q_effective_scale cfg scale). fold W. fold H.
    change (q_optimal_core W H (inject_Z w) (inject_Z h) cw ch None None mc mr = Ok (C0, R0)).
    rewrite q_core_unscaled.
    pose proof W_pos as PW. pose proof H_pos as PH.
    destruct W as [wn wd], H as [hn hd]. apply Qpos_num in PW, PH.
    rewrite q_core_eq by assumption.
    apply smallest_box_unique in S; try assumption. destruct S as [-> ->].
    rewrite optimalZ_auto_within; [reflexivity| |].
    - split; [apply cdiv_pos; nia | exact HC0].
    - split; [apply cdiv_pos; nia | exact HR0].
  Qed.

  (* clause 4: no entirely unused row or column, unless both dimensions are explicit *)
  Lemma no_unused cols rows C R :
    ~ (is_some cols = true /\ is_some rows = true) ->
    q_optimal_with true true cfg t w h cols rows amc amr scale = Ok (C, R) ->
    no_unused_row_or_col W H cw ch C R.
  Proof.
    intros NB E. apply q_opt_eq in E; [|exact NB]. destruct E as (H1 & H2 & E).
    pose proof W_pos as PW. pose proof H_pos as PH.
    pose proof (max_limits _ _ _ _ _ _ _ HM) as HL.
    destruct W as [wn wd], H as [hn hd]. apply Qpos_num in PW, PH. cbn [Qnum Qden] in E.
    apply tightZ_no_unused; try assumption.
    assert (HK : 0 < cw * hn * Z.pos wd) by nia. assert (HLL : 0 < ch * wn * Z.pos hd) by nia.
    destruct cols as [c|], rows as [r|]; cbn [option_map] in E.
    - exfalso. apply NB. split; reflexivity.
    - specialize (H1 c eq_refl).
      pose proof (tightZ_cols_given (cdiv wn (Z.pos wd * cw)) (cdiv hn (Z.pos hd * ch)) _ _ (Z.min c mc) mc mr HK HLL) as T.
      rewrite <- E in T. apply T; lia.
    - specialize (H2 r eq_refl).
      pose proof (tightZ_rows_given (cdiv wn (Z.pos wd * cw)) (cdiv hn (Z.pos hd * ch)) _ _ (Z.min r mr) mc mr HK HLL) as T.
      rewrite <- E in T. apply T; lia.
    - pose proof (tightZ_auto (cdiv wn (Z.pos wd * cw)) (cdiv hn (Z.pos hd * ch)) _ _ (wn * hn) mc mr HK HLL) as T.
      rewrite <- E in T.
      pose proof (cdiv_spec wn (Z.pos wd * cw) ltac:(nia)) as [A1 A2].
      pose proof (cdiv_spec hn (Z.pos hd * ch) ltac:(nia)) as [B1 B2].
      set (C0 := cdiv wn (Z.pos wd * cw)) in *. set (R0 := cdiv hn (Z.pos hd * ch)) in *. clearbody C0 R0.
      apply (Z.mul_lt_mono_pos_r hn) in A1; [|lia]. apply (Z.mul_le_mono_pos_r _ _ hn) in A2; [|lia].
      apply (Z.mul_lt_mono_pos_r wn) in B1; [|lia]. apply (Z.mul_le_mono_pos_r _ _ wn) in B2; [|lia].
      apply T; try lia; nia.
  Qed.
End QTheorems.

(* ================================================================ the statements of Props/C15.v *)
(* [get_optimal_cols_and_rows] is [optimal_with caps_explicit]; the source has caps_explicit = true *)
Definition one_auto (cols rows : option Z) : Prop := ~ (is_some cols = true /\ is_some rows = true).

Theorem thm_limits : forall cmc cmr t amc amr mc mr,
  get_max_cols_and_rows cmc cmr t amc amr = Ok (mc, mr) -> 1 <= mc /\ 1 <= mr <= 256.
Proof. exact max_limits. Qed.

(* where the limits come from: a positive call-time value wins, then the configured one, then the terminal *)
Theorem thm_limit_sources : forall cmc cmr t amc amr mc mr,
  get_max_cols_and_rows cmc cmr t amc amr = Ok (mc, mr) ->
  (forall v, amc = Some v -> 1 <= v -> mc = v) /\
  (forall v, amr = Some v -> 1 <= v -> mr = Z.min 256 v) /\
  (forall v, amc = None -> cmc = Some v -> 1 <= v -> mc = v) /\
  (forall v, amr = None -> cmr = Some v -> 1 <= v -> mr = Z.min 256 v) /\
  (forall tc tl, amc = None -> cmc = None -> t_size t = Ok (Some (tc, tl)) -> 1 <= tc -> mc = tc) /\
  (forall tc tl, amr = None -> cmr = None -> t_size t = Ok (Some (tc, tl)) -> 1 <= tl -> mr = Z.min 256 tl).
Proof.
  intros cmc cmr t amc amr mc mr E. unfold get_max_cols_and_rows in E.
  rewrite src_min_max_rows, src_min_max_cols, src_hard_max_rows, src_term_rows_cap in E.
  repeat split; intros; subst; cbn [arg_or_config is_none orb] in E;
    repeat match type of E with
    | context [arg_or_config ?a ?b] => destruct a; cbn [arg_or_config is_none orb] in E
    | context [is_none ?a] => destruct a; cbn [is_none orb] in E
    end;
    repeat match type of E with
    | bind (bind (t_size t) _) _ = _ => destruct (t_size t) as [[[? ?]|]|] eqn:?; cbn [bind] in E
    | context [py_or] => unfold py_or in E
    | context [if ?b then _ else _] => destruct b eqn:?
    end; cbn [bind] in E; try discriminate; try (injection E as <- <-); try congruence; try lia;
    repeat match goal with
    | X : t_size t = _, Y : t_size t = _ |- _ => rewrite X in Y
    | X : Ok (Some (_, _)) = Ok (Some (_, _)) |- _ => injection X as ? ?; subst
    end; try lia.
Qed.

Section Final.
  Variable num : Type.
  Variable of_Z : Z -> num.
  Variables mul div : num -> num -> num.
  Variable is_zero : num -> bool.
  Variable ceil : num -> ceil_res.
  Variable one : num.
  Notation gopt := (get_optimal_cols_and_rows num of_Z mul div is_zero ceil one).
  Notation eff := (effective_scale num mul is_zero one).

  Theorem thm_bounds : forall (cfg : config num) t w h cols rows amc amr scale C R,
    one_auto cols rows ->
    gopt cfg t w h cols rows amc amr scale = Ok (C, R) ->
    exists mc mr, get_max_cols_and_rows (cfg_max_cols _ cfg) (cfg_max_rows _ cfg) t amc amr = Ok (mc, mr) /\
                  1 <= C <= mc /\ 1 <= R <= mr /\ mr <= 256.
  Proof. intros. eapply bounds; eassumption. Qed.

  Theorem thm_explicit_verbatim : forall (cfg : config num) t w h c r amc amr scale,
    gopt cfg t w h (Some c) (Some r) amc amr scale = Ok (c, r).
  Proof. reflexivity. Qed.

  Theorem thm_cols_kept : forall (cfg : config num) t w h c amc amr scale C R mc mr,
    get_max_cols_and_rows (cfg_max_cols _ cfg) (cfg_max_rows _ cfg) t amc amr = Ok (mc, mr) ->
    c <= mc ->
    gopt cfg t w h (Some c) None amc amr scale = Ok (C, R) ->
    C = c \/
    exists r0, rows_from_cols num of_Z mul div is_zero ceil
                 (of_Z w) (of_Z h)
                 (fst (get_cell_size (cfg_cell_size _ cfg) (cfg_default_cell_size _ cfg) t))
                 (snd (get_cell_size (cfg_cell_size _ cfg) (cfg_default_cell_size _ cfg) t)) c = Ok r0 /\
               mr < r0 /\ R = mr.
  Proof. unfold get_optimal_cols_and_rows. rewrite src_caps_explicit, src_aspect_unscaled. exact (cols_kept num of_Z mul div is_zero ceil one true). Qed.

  Theorem thm_rows_kept : forall (cfg : config num) t w h r amc amr scale C R mc mr,
    get_max_cols_and_rows (cfg_max_cols _ cfg) (cfg_max_rows _ cfg) t amc amr = Ok (mc, mr) ->
    r <= mr ->
    gopt cfg t w h None (Some r) amc amr scale = Ok (C, R) ->
    R = r \/
    exists c0, cols_from_rows num of_Z mul div is_zero ceil
                 (of_Z w) (of_Z h)
                 (fst (get_cell_size (cfg_cell_size _ cfg) (cfg_default_cell_size _ cfg) t))
                 (snd (get_cell_size (cfg_cell_size _ cfg) (cfg_default_cell_size _ cfg) t)) r = Ok c0 /\
               mc < c0 /\ C = mc.
  Proof. unfold get_optimal_cols_and_rows. rewrite src_caps_explicit, src_aspect_unscaled. exact (rows_kept num of_Z mul div is_zero ceil one true). Qed.
End Final.

(* rational instance; W x H is the scaled image *)
Definition scaled (cfg : q_config) (scale : option Q) (x : Z) : Q := (inject_Z x * q_effective_scale cfg scale)%Q.

Theorem thm_auto_minimal : forall (cfg : q_config) t w h amc amr scale mc mr cw ch,
  0 < w -> 0 < h ->
  get_max_cols_and_rows (cfg_max_cols _ cfg) (cfg_max_rows _ cfg) t amc amr = Ok (mc, mr) ->
  get_cell_size (cfg_cell_size _ cfg) (cfg_default_cell_size _ cfg) t = (cw, ch) -> 0 < cw -> 0 < ch ->
  (0 < q_effective_scale cfg scale)%Q ->
  forall C0 R0, smallest_containing_box (scaled cfg scale w) (scaled cfg scale h) cw ch C0 R0 ->
    C0 <= mc -> R0 <= mr ->
    q_get_optimal_cols_and_rows cfg t w h None None amc amr scale = Ok (C0, R0).
Proof.
  unfold q_get_optimal_cols_and_rows, get_optimal_cols_and_rows. rewrite src_caps_explicit, src_aspect_unscaled.
  exact auto_minimal.
Qed.

Theorem thm_no_unused : forall (cfg : q_config) t w h amc amr scale mc mr cw ch,
  0 < w -> 0 < h ->
  get_max_cols_and_rows (cfg_max_cols _ cfg) (cfg_max_rows _ cfg) t amc amr = Ok (mc, mr) ->
  get_cell_size (cfg_cell_size _ cfg) (cfg_default_cell_size _ cfg) t = (cw, ch) -> 0 < cw -> 0 < ch ->
  (0 < q_effective_scale cfg scale)%Q ->
  forall cols rows C R, one_auto cols rows ->
    q_get_optimal_cols_and_rows cfg t w h cols rows amc amr scale = Ok (C, R) ->
    no_unused_row_or_col (scaled cfg scale w) (scaled cfg scale h) cw ch C R.
Proof.
  unfold q_get_optimal_cols_and_rows, get_optimal_cols_and_rows. rewrite src_caps_explicit, src_aspect_unscaled.
  exact no_unused.
Qed.

(* deriving from the unscaled or from the scaled size: the same rational answer *)
Theorem thm_scale_free : forall (cfg : q_config) t w h cols rows amc amr scale,
  0 < w -> 0 < h -> (0 < q_effective_scale cfg scale)%Q ->
  (let '(cw, ch) := get_cell_size (cfg_cell_size _ cfg) (cfg_default_cell_size _ cfg) t in 0 < cw /\ 0 < ch) ->
  q_optimal_with true true cfg t w h cols rows amc amr scale = q_optimal_with true false cfg t w h cols rows amc amr scale.
Proof.
  intros cfg t w h cols rows amc amr scale Hw Hh Hs Hcell.
  unfold q_optimal_with, optimal_with.
  destruct cols as [c|], rows as [r|]; try reflexivity;
    repeat match goal with |- (if ?b then _ else _) = (if ?b then _ else _) => destruct b; [reflexivity|] end;
    destruct (get_max_cols_and_rows _ _ t amc amr) as [[mc mr]|e] eqn:EM; cbn [bind]; try reflexivity;
    destruct (get_cell_size _ _ t) as [cw ch] eqn:EC; destruct Hcell as [Hcw Hch];
    fold (q_effective_scale cfg scale);
    apply (q_core_unscaled cfg w h scale mc mr cw ch Hw Hh Hcw Hch Hs).
Qed.

(* the smallest containing box always exists (so thm_auto_minimal is not vacuous) *)
Theorem thm_smallest_box_exists : forall (W H : Q) cw ch, (0 < W)%Q -> (0 < H)%Q -> 0 < cw -> 0 < ch ->
  exists C R, smallest_containing_box W H cw ch C R.
Proof.
  intros [wn wd] [hn hd] cw ch PW PH Hcw Hch. apply Qpos_num in PW, PH.
  eexists _, _. apply smallest_box_cdiv; assumption.
Qed.

(* the fit factor of the Spec exists and is unique (so no_unused_row_or_col is not vacuous) *)
Theorem thm_fit_exists : forall (W H BW BH : Q), (0 < W)%Q -> (0 < H)%Q ->
  is_fit W H BW BH (fit_factor W H BW BH).
Proof.
  intros W H BW BH PW PH. unfold is_fit, fit_factor.
  destruct (Qle_bool (BW / W) (BH / H)) eqn:E.
  - apply Qle_bool_iff in E.
    assert (E1 : (BW / W * W == BW)%Q) by (field; lra).
    split; [lra|]. split; [|left; exact E1].
    apply (Qmult_le_r _ _ H PH) in E. assert (E2 : (BH / H * H == BH)%Q) by (field; lra). lra.
  - assert (E' : (BH / H < BW / W)%Q) by (apply Qnot_le_lt; intros X; apply Qle_bool_iff in X; congruence).
    assert (E2 : (BH / H * H == BH)%Q) by (field; lra).
    split; [|split; [lra|right; exact E2]].
    apply (Qmult_lt_r _ _ W PW) in E'. assert (E1 : (BW / W * W == BW)%Q) by (field; lra). lra.
Qed.

(* the sizing of the unrepaired source (explicit dimensions not capped) violates clause 4:
   1x1 image, 8x16 cells, rows=3 with max_rows=1 on an 80-column terminal -> 6 x 1 *)
Definition refute_cfg : q_config := Build_config Q None (8, 16) (Some 1%Q) 1%Q None None.
Definition refute_term : term := term_of_winsize (Build_winsize 24 80 640 384).
Theorem thm_uncapped_refuted :
  q_optimal_with false true refute_cfg refute_term 1 1 None (Some 3) None (Some 1) None = Ok (6, 1) /\
  ~ no_unused_row_or_col 1 1 8 16 6 1.
Proof.
  split; [vm_compute; reflexivity|]. intros N.
  specialize (N (16 # 1)%Q). destruct N as [N _].
  - unfold is_fit, box_w, box_h. cbn. split; [|split; [|right]]; unfold Qle, Qeq; cbn; lia.
  - revert N. unfold box_w, Qlt. cbn. lia.
Qed.
