(* Proofs/IdEnumFacts.v — all_ids enumerates exactly the members, once each; subspace_size counts them. *)
From Coq Require Import ZArith NArith List Bool Lia ZifyN ZifyBool ZifyNat.
From Tup Require Import Lib.IdSpaceTy Gen.IdSpaceGen Spec.IdLayoutSpec Model.IdSpace Proofs.IdBits Proofs.IdLayoutFacts.
Import ListNotations.
Open Scope N_scope.
Ltac Zify.zify_post_hook ::= Z.to_euclidean_division_equations.

(* ---- ranges ---- *)
Lemma in_nrange n : forall a x, In x (nrange a n) <-> a <= x < a + N.of_nat n.
Proof. induction n as [|n IH]; intros a x; cbn [nrange In]; [lia|]. rewrite IH. lia. Qed.
Lemma nrange_length a n : length (nrange a n) = n.
Proof. revert a; induction n as [|n IH]; intros a; cbn [nrange length]; [reflexivity|]. rewrite IH. reflexivity. Qed.
Lemma nrange_nodup n : forall a, NoDup (nrange a n).
Proof. induction n as [|n IH]; intros a; cbn [nrange]; constructor; [rewrite in_nrange; lia|apply IH]. Qed.

Lemma in_range a b x : In x (range a b) <-> a <= x < b.
Proof. unfold range. rewrite in_nrange. lia. Qed.
Lemma range_length a b : N.of_nat (length (range a b)) = b - a.
Proof. unfold range. rewrite nrange_length. lia. Qed.
Lemma range_nodup a b : NoDup (range a b).
Proof. apply nrange_nodup. Qed.
Lemma range_cons a b : a < b -> range a b = a :: range (a + 1) b.
Proof.
  intros H. unfold range. replace (N.to_nat (b - a)) with (S (N.to_nat (b - (a + 1)))) by lia. reflexivity.
Qed.

(* ---- generic list facts ---- *)
Lemma nodup_flat_map {A B} (f : A -> list B) (l : list A) :
  NoDup l -> (forall a, In a l -> NoDup (f a)) ->
  (forall a a' b, In a l -> In a' l -> In b (f a) -> In b (f a') -> a = a') ->
  NoDup (flat_map f l).
Proof.
  induction 1 as [|a l Hna Hnd IH]; intros H1 H2; cbn [flat_map]; [constructor|].
  assert (Hd : forall b, In b (f a) -> ~ In b (flat_map f l)).
  { intros b Hb Hb'. apply in_flat_map in Hb' as (a' & Ha' & Hb'').
    assert (a = a') by (apply (H2 a a' b); cbn; auto). subst. contradiction. }
  assert (Hl : NoDup (flat_map f l)).
  { apply IH; [intros; apply H1; cbn; auto|]. intros a1 a2 b Ha1 Ha2. apply H2; cbn; auto. }
  revert Hd. generalize (H1 a (or_introl eq_refl)). generalize (f a) as fa.
  induction fa as [|b fa IHfa]; intros Hnf Hd; cbn [app]; [exact Hl|].
  inversion_clear Hnf as [|? ? Hb Hfa]. constructor.
  - rewrite in_app_iff. intros [Hin|Hin]; [contradiction|]. apply (Hd b); cbn; auto.
  - apply IHfa; [exact Hfa|]. intros b' Hb'. apply Hd. cbn. auto.
Qed.

Lemma nodup_map_inj_on {A B} (f : A -> B) (l : list A) :
  NoDup l -> (forall x y, In x l -> In y l -> f x = f y -> x = y) -> NoDup (map f l).
Proof.
  induction 1 as [|a l Hna Hnd IH]; intros Hinj; cbn [map]; constructor.
  - intros Hin. apply in_map_iff in Hin as (y & Hy & Hin). apply Hna.
    assert (y = a) by (apply Hinj; cbn; auto). subst. exact Hin.
  - apply IH. intros x y Hx Hy. apply Hinj; cbn; auto.
Qed.

Lemma flat_map_len {A B} (f : A -> list B) (l : list A) (n : N) :
  (forall x, In x l -> N.of_nat (length (f x)) = n) ->
  N.of_nat (length (flat_map f l)) = N.of_nat (length l) * n.
Proof.
  induction l as [|x l IH]; intros H; cbn [flat_map length]; [lia|].
  rewrite app_length, Nat2N.inj_add, IH, (H x) by (intros; try apply H; cbn; auto). lia.
Qed.

(* ---- the triple loop ---- *)
Lemma compose_id_sum b3 b12 b0 : b12 < 65536 -> b0 < 256 ->
  compose_id b3 b12 b0 = b3 * 16777216 + b12 * 256 + b0.
Proof. intros H1 H0. apply (compose3_sum b3 b12 b0 H1 H0). Qed.   (* ai_sh3 = 24, ai_sh12 = 8 by conversion *)

Lemma compose_id_inj b3 b12 b0 b3' b12' b0' :
  b12 < 65536 -> b0 < 256 -> b12' < 65536 -> b0' < 256 ->
  compose_id b3 b12 b0 = compose_id b3' b12' b0' -> b3 = b3' /\ b12 = b12' /\ b0 = b0'.
Proof. intros H1 H2 H3 H4. rewrite !compose_id_sum by assumption. lia. Qed.

Section Loop.
  Variables r3 r12 r0 : list N.
  Hypothesis H12 : forall x, In x r12 -> x < 65536.
  Hypothesis H0 : forall x, In x r0 -> x < 256.

  Lemma in_ids_loop id :
    In id (ids_loop r3 r12 r0) <->
    In (id / 16777216) r3 /\ In (id / 256 mod 65536) r12 /\ In (id mod 256) r0.
  Proof.
    unfold ids_loop. rewrite in_flat_map. split.
    - intros (b3 & Hb3 & H). apply in_flat_map in H as (b12 & Hb12 & H). apply in_map_iff in H as (b0 & <- & Hb0).
      pose proof (H12 _ Hb12). pose proof (H0 _ Hb0). rewrite compose_id_sum by assumption.
      replace ((b3 * 16777216 + b12 * 256 + b0) / 16777216) with b3 by lia.
      replace ((b3 * 16777216 + b12 * 256 + b0) / 256 mod 65536) with b12 by lia.
      replace ((b3 * 16777216 + b12 * 256 + b0) mod 256) with b0 by lia.
      auto.
    - intros (Hb3 & Hb12 & Hb0). exists (id / 16777216). split; [exact Hb3|].
      apply in_flat_map. exists (id / 256 mod 65536). split; [exact Hb12|].
      apply in_map_iff. exists (id mod 256). split; [|exact Hb0].
      rewrite compose_id_sum by lia. lia.
  Qed.

  Lemma nodup_ids_loop : NoDup r3 -> NoDup r12 -> NoDup r0 -> NoDup (ids_loop r3 r12 r0).
  Proof.
    intros N3 N12 N0. unfold ids_loop. apply nodup_flat_map; [exact N3| |].
    - intros b3 _. apply nodup_flat_map; [exact N12| |].
      + intros b12 Hb12. apply nodup_map_inj_on; [exact N0|].
        intros x y Hx Hy Heq. pose proof (H12 _ Hb12). pose proof (H0 _ Hx). pose proof (H0 _ Hy).
        apply compose_id_inj in Heq; lia.
      + intros b12 b12' id Hb Hb' Hi Hi'.
        apply in_map_iff in Hi as (x & <- & Hx). apply in_map_iff in Hi' as (y & Heq & Hy).
        pose proof (H12 _ Hb). pose proof (H12 _ Hb'). pose proof (H0 _ Hx). pose proof (H0 _ Hy).
        apply compose_id_inj in Heq; lia.
    - intros b3 b3' id _ _ Hi Hi'.
      apply in_flat_map in Hi as (b12 & Hb12 & Hi). apply in_flat_map in Hi' as (b12' & Hb12' & Hi').
      apply in_map_iff in Hi as (x & <- & Hx). apply in_map_iff in Hi' as (y & Heq & Hy).
      pose proof (H12 _ Hb12). pose proof (H12 _ Hb12'). pose proof (H0 _ Hx). pose proof (H0 _ Hy).
      apply compose_id_inj in Heq; lia.
  Qed.
End Loop.

Lemma ids_loop_length r3 r12 r0 :
  N.of_nat (length (ids_loop r3 r12 r0)) = N.of_nat (length r3) * N.of_nat (length r12) * N.of_nat (length r0).
Proof.
  unfold ids_loop. rewrite (flat_map_len _ _ (N.of_nat (length r12) * N.of_nat (length r0))); [lia|].
  intros b3 _. rewrite (flat_map_len _ _ (N.of_nat (length r0))); [reflexivity|].
  intros b12 _. rewrite map_length. reflexivity.
Qed.

(* ---- the value generators of a valid subspace ---- *)
Section Sub.
  Variable s : subspace.
  Hypothesis Hv : valid_sub s.

  Lemma in_all_byte_values x : In x (all_byte_values s) <-> fst s <= x < snd s.
  Proof. unfold all_byte_values, sub_begin, sub_end. apply in_range. Qed.

  Lemma in_all_nonzero x : In x (all_nonzero_byte_values s) <-> 1 <= x /\ fst s <= x < snd s.
  Proof.
    unfold all_nonzero_byte_values, sub_begin, sub_end. destruct Hv as (H1 & H2 & H3).
    destruct (fst s <=? 0) eqn:E; rewrite in_range; lia.
  Qed.
  Lemma nodup_all_nonzero : NoDup (all_nonzero_byte_values s).
  Proof. unfold all_nonzero_byte_values. destruct (sub_begin s <=? 0); apply range_nodup. Qed.
  Lemma all_nonzero_length : N.of_nat (length (all_nonzero_byte_values s)) = num_nonzero_byte_values s.
  Proof.
    unfold all_nonzero_byte_values, num_nonzero_byte_values. destruct (sub_begin s <=? 0); apply range_length.
  Qed.
  Lemma num_nonzero_spec : num_nonzero_byte_values s = nonzero_values s.
  Proof.
    unfold num_nonzero_byte_values, nonzero_values, sub_begin, sub_end.
    destruct (fst s <=? 0) eqn:E; destruct (fst s =? 0) eqn:E'; lia.
  Qed.

  (* byte_1_2 of the 24bit space: (b2 << 8) | b1 for b2 in [b,e), b1 in [1 if b2 == 0 else 0, 256) *)
  Definition b12_24 : list N := byte12_vals Sp24 s.
  Lemma b12_24_eq : b12_24 =
    flat_map (fun b2 => map (fun b1 => N.lor (N.shiftl b2 8) b1) (range (if b2 =? 0 then 1 else 0) 256)) (all_byte_values s).
  Proof. reflexivity. Qed.

  Lemma in_b12_24 x : In x b12_24 <-> x < 65536 /\ fst s <= x / 256 < snd s /\ x <> 0.
  Proof.
    rewrite b12_24_eq, in_flat_map. destruct Hv as (H1 & H2 & H3). split.
    - intros (b2 & Hb2 & H). apply in_map_iff in H as (b1 & <- & Hb1).
      rewrite in_all_byte_values in Hb2. rewrite in_range in Hb1. rewrite compose2_sum by lia.
      destruct (b2 =? 0) eqn:E; lia.
    - intros (Hx & Hr & Hnz). exists (x / 256). split; [rewrite in_all_byte_values; exact Hr|].
      apply in_map_iff. exists (x mod 256). split; [rewrite compose2_sum by lia; lia|].
      rewrite in_range. destruct (x / 256 =? 0) eqn:E; lia.
  Qed.
  Lemma nodup_b12_24 : NoDup b12_24.
  Proof.
    rewrite b12_24_eq. apply nodup_flat_map; [apply range_nodup| |].
    - intros b2 _. apply nodup_map_inj_on; [apply range_nodup|].
      intros x y Hx Hy. rewrite in_range in Hx, Hy. rewrite !compose2_sum by lia. lia.
    - intros b2 b2' x _ _ Hi Hi'.
      apply in_map_iff in Hi as (b1 & <- & Hb1). apply in_map_iff in Hi' as (b1' & Heq & Hb1').
      rewrite in_range in Hb1, Hb1'. rewrite !compose2_sum in Heq by lia. lia.
  Qed.
  Lemma b12_24_length :
    N.of_nat (length b12_24) = (if fst s <=? 0 then num_byte_values s * 256 - 1 else num_byte_values s * 256).
  Proof.
    rewrite b12_24_eq. unfold all_byte_values, num_byte_values, sub_begin, sub_end. destruct Hv as (H1 & H2 & H3).
    assert (Hpos : forall a b, 1 <= a ->
      N.of_nat (length (flat_map (fun b2 => map (fun b1 => N.lor (N.shiftl b2 8) b1) (range (if b2 =? 0 then 1 else 0) 256)) (range a b)))
      = (b - a) * 256).
    { intros a b Ha. rewrite (flat_map_len _ _ 256); [rewrite range_length; reflexivity|].
      intros x Hx. rewrite in_range in Hx. rewrite map_length.
      destruct (x =? 0) eqn:E; [lia|]. apply range_length. }
    destruct (fst s <=? 0) eqn:E.
    - replace (fst s) with 0 by lia. rewrite range_cons by lia. cbn [flat_map].
      rewrite app_length, Nat2N.inj_add, map_length. change (0 =? 0) with true. cbv iota.
      rewrite range_length, Hpos by lia. lia.
    - apply Hpos. lia.
  Qed.
End Sub.

(* ---- all_ids ---- *)
Lemma lt_of_in_range a b c x : b <= c -> In x (range a b) -> x < c.
Proof. rewrite in_range. lia. Qed.

Ltac vals_cases sp s :=
  destruct sp;
  [ change (byte3_vals Sp8d s) with (all_nonzero_byte_values s); change (byte12_vals Sp8d s) with [0]; change (byte0_vals Sp8d s) with [0]
  | change (byte3_vals Sp16 s) with (all_nonzero_byte_values s); change (byte12_vals Sp16 s) with [0]; change (byte0_vals Sp16 s) with (range 1 256)
  | change (byte3_vals Sp32 s) with (all_nonzero_byte_values s); change (byte12_vals Sp32 s) with (range 1 65536); change (byte0_vals Sp32 s) with (range 0 256)
  | change (byte3_vals Sp8 s) with [0]; change (byte12_vals Sp8 s) with [0]; change (byte0_vals Sp8 s) with (all_nonzero_byte_values s)
  | change (byte3_vals Sp24 s) with [0]; change (byte12_vals Sp24 s) with (b12_24 s); change (byte0_vals Sp24 s) with (range 0 256) ].

Lemma byte12_vals_bound sp s x : valid_sub s -> In x (byte12_vals sp s) -> x < 65536.
Proof.
  intros Hv. vals_cases sp s; cbn [In]; rewrite ?in_range, ?(in_b12_24 s Hv); lia.
Qed.
Lemma byte0_vals_bound sp s x : valid_sub s -> In x (byte0_vals sp s) -> x < 256.
Proof.
  intros Hv. pose proof Hv as (H1 & H2 & H3). vals_cases sp s; cbn [In]; rewrite ?in_range, ?(in_all_nonzero s Hv); lia.
Qed.

Theorem all_ids_member sp s id : valid_sub s -> In id (all_ids sp s) <-> in_sub sp s id.
Proof.
  intros Hv. pose proof Hv as (H1 & H2 & H3). unfold all_ids.
  rewrite in_ids_loop; [|intros x; apply byte12_vals_bound; exact Hv|intros x; apply byte0_vals_bound; exact Hv].
  unfold in_sub, in_space, is_id.
  vals_cases sp s; cbn [sub_byte In]; byte_arith;
    rewrite ?(in_all_nonzero s Hv), ?in_range, ?(in_b12_24 s Hv); lia.
Qed.

Theorem all_ids_nodup sp s : valid_sub s -> NoDup (all_ids sp s).
Proof.
  intros Hv. unfold all_ids.
  apply nodup_ids_loop; [intros x; apply byte12_vals_bound; exact Hv|intros x; apply byte0_vals_bound; exact Hv| | |];
  vals_cases sp s; try apply range_nodup; try apply (nodup_all_nonzero s); try apply nodup_b12_24;
  (constructor; [cbn [In]; tauto|constructor]).
Qed.

Lemma subspace_size_cases sp s : subspace_size sp s =
  match sp with
  | Sp8d => num_nonzero_byte_values s * 1 * 1
  | Sp16 => num_nonzero_byte_values s * 1 * 255
  | Sp32 => num_nonzero_byte_values s * 65535 * 256
  | Sp8 => 1 * 1 * num_nonzero_byte_values s
  | Sp24 => 1 * (if fst s <=? 0 then num_byte_values s * 256 - 1 else num_byte_values s * 256) * 256
  end.
Proof. destruct sp; reflexivity. Qed.

Theorem all_ids_length sp s : valid_sub s -> N.of_nat (length (all_ids sp s)) = subspace_size sp s.
Proof.
  intros Hv. unfold all_ids. rewrite ids_loop_length, subspace_size_cases.
  vals_cases sp s; rewrite ?(all_nonzero_length s), ?range_length, ?(b12_24_length s Hv); cbn [length]; lia.
Qed.

(* the count as the Spec sees it *)
Theorem subspace_size_pos sp s : valid_sub s -> 1 <= nonzero_values s <= subspace_size sp s.
Proof.
  intros Hv. pose proof (valid_sub_nonzero s Hv). pose proof Hv as (H1 & H2 & H3).
  rewrite subspace_size_cases, (num_nonzero_spec s). unfold num_byte_values, nonzero_values, sub_begin, sub_end in *.
  destruct sp; destruct (fst s <=? 0) eqn:E; destruct (fst s =? 0) eqn:E'; nia.
Qed.
