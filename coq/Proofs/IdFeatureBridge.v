(* Proofs/IdFeatureBridge.v — the feature spaces of Spec/IdFeatureSpec.v (C14) are the ID spaces of
   Spec/IdLayoutSpec.v (C10/C01): both are written from the byte layout, independently; here they are proved equal. *)
From Coq Require Import ZArith NArith List Bool Lia ZifyN ZifyBool.
From Tup Require Import Lib.IdSpaceTy Model.IdSpace Spec.IdLayoutSpec Spec.IdFeatureSpec Proofs.IdLayoutFacts.
Import ListNotations.
Open Scope N_scope.

Definition feature_of (sp : space) : feature_space := mkspace (color_bits sp) (use_3rd sp).

Lemma feature_of_legal sp : legal_space (feature_of sp) = true.
Proof. destruct sp; reflexivity. Qed.

Lemma pow32 : 2 ^ 32 = 4294967296.  Proof. reflexivity. Qed.

Lemma id_in_space_eq sp id : id_in_space (feature_of sp) id = in_space_b sp id.
Proof.
  unfold id_in_space, in_space_b, is_id_b, id_byte, byte, nz. rewrite pow32.
  destruct sp; cbn [feature_of colour_bits uses_3rd color_bits use_3rd];
  change (0 =? 0) with true; change (8 =? 0) with false; change (8 =? 8) with true; change (24 =? 0) with false; change (24 =? 8) with false; cbv iota;
  destruct (0 <? id); destruct (id <? 4294967296); cbn [andb];
  destruct (id / 256 ^ 3 mod 256 =? 0); destruct (id / 256 ^ 2 mod 256 =? 0); destruct (id / 256 ^ 1 mod 256 =? 0); destruct (id / 256 ^ 0 mod 256 =? 0);
  reflexivity.
Qed.

Theorem feature_space_is_id_space sp id : id_in_space (feature_of sp) id = true <-> in_space sp id.
Proof. rewrite id_in_space_eq. apply in_space_b_iff. Qed.
