From Coq Require Import ZArith NArith List Bool Lia ZifyN ZifyBool ZifyNat.
From Tup Require Import Model.UploadModel Model.UploadFlow Gen.UploadFlowGen Proofs.UploadProofs.
Import ListNotations.
Open Scope Z_scope.

(* the repaired source forgets the previous upload before transmitting *)
Lemma src_unmarks_first : upload_unmarks_first = true.  Proof. reflexivity. Qed.

Lemma exec_fault acts : forall j, (j < length acts)%nat -> exec acts (Some j) = (firstn j acts, false).
Proof.
  induction acts as [|a r IH]; intros j Hj; cbn [length] in Hj; [lia|].
  destruct j as [|j]; cbn [exec firstn]; [reflexivity|]. rewrite IH by lia. reflexivity.
Qed.
Lemma exec_ok acts : exec acts None = (acts, true).
Proof. induction acts as [|a r IH]; cbn [exec]; [reflexivity|]. rewrite IH. reflexivity. Qed.
Lemma exec_late acts : forall j, (length acts <= j)%nat -> exec acts (Some j) = (acts, true).
Proof.
  induction acts as [|a r IH]; intros j Hj; [reflexivity|]. cbn [length] in Hj.
  destruct j as [|j]; [lia|]. cbn [exec]. rewrite IH by lia. reflexivity.
Qed.

Lemma find_unmarked up id t : find_row (unmark_uploaded up id t) id t = None.
Proof.
  unfold find_row, unmark_uploaded. induction up as [|x up IH]; [reflexivity|]. cbn [filter].
  destruct (same_key id t x) eqn:E; cbn [negb]; [exact IH|]. cbn [find]. rewrite E. exact IH.
Qed.

Definition wants (cur : N -> option N) (up : utable) (q : request) : bool :=
  q_force q || needs_uploading cur up (q_id q) (q_term q) (q_now q) (q_nmax q) (q_bmax q) (q_tmax q).

(* 1. a fault at ANY write/flush call of the transmission: the failure is reported, the calls before the fault are
      exactly what happened, and the upload table has NO row for (id, terminal) — neither a new one nor a stale one *)
Theorem failed_upload_not_recorded cur up q ws j :
  wants cur up q = true -> (j < length (send_actions ws))%nat ->
  exists up', upload cur up q ws (Some j) = (Failed, up', firstn j (send_actions ws)) /\
              find_row up' (q_id q) (q_term q) = None /\
              (forall x, In x up' <-> In x up /\ same_key (q_id q) (q_term q) x = false).
Proof.
  intros Hw Hj. unfold upload. rewrite src_unmarks_first. unfold wants in Hw. rewrite Hw. rewrite (exec_fault _ j Hj).
  eexists. split; [reflexivity|]. split; [apply find_unmarked|].
  intro x. unfold unmark_uploaded. rewrite filter_In. destruct (same_key (q_id q) (q_term q) x); cbn [negb]; intuition congruence.
Qed.

(* 2. hence the next request for the same (still assigned) id on that terminal transmits again, in full *)
Theorem next_request_retransmits cur up q ws j q' ws' :
  wants cur up q = true -> (j < length (send_actions ws))%nat ->
  q_id q' = q_id q -> q_term q' = q_term q -> cur (q_id q) <> None ->
  exists up' up'', upload cur up q ws (Some j) = (Failed, up', firstn j (send_actions ws)) /\
                   upload cur up' q' ws' None = (Uploaded, up'', send_actions ws') /\
                   written (send_actions ws') = ws'.
Proof.
  intros Hw Hj Hid Ht Hc. destruct (failed_upload_not_recorded cur up q ws j Hw Hj) as (up' & H1 & H2 & _).
  exists up'. eexists. split; [exact H1|].
  assert (Hn : needs_uploading cur up' (q_id q') (q_term q') (q_now q') (q_nmax q') (q_bmax q') (q_tmax q') = true).
  { unfold needs_uploading. rewrite Hid, Ht. destruct (cur (q_id q)); [|congruence]. rewrite H2. reflexivity. }
  split.
  - unfold upload. rewrite src_unmarks_first, Hn, orb_true_r, exec_ok. reflexivity.
  - clear. unfold send_actions. cbn [written]. induction ws' as [|w r IH]; [reflexivity|]. cbn [flat_map app written]. rewrite IH. reflexivity.
Qed.

(* 3. without a fault: every call happens, the record is written after them, and the last call is the flush that
      follows the last write *)
Theorem mark_after_last_flush cur up q ws :
  wants cur up q = true ->
  upload cur up q ws None =
    (Uploaded, mark_uploaded cur (unmark_uploaded up (q_id q) (q_term q)) (q_id q) (q_term q) (q_size q) (q_mark_time q),
     send_actions ws) /\
  last (send_actions ws) Flush = Flush.
Proof.
  intro Hw. split; [unfold upload; rewrite src_unmarks_first; unfold wants in Hw; rewrite Hw, exec_ok; reflexivity|].
  unfold send_actions. induction ws as [|c r IH]; [reflexivity|].
  cbn [flat_map app]. destruct (flat_map (fun c0 => [Write c0; Flush]) r) eqn:E; [reflexivity|].
  change (last (Flush :: Write c :: Flush :: i :: l) Flush) with (last (i :: l) Flush).
  change (last (Flush :: i :: l) Flush) with (last (i :: l) Flush) in IH. exact IH.
Qed.

(* 4. a recorded upload implies that every write and every flush of the transmission completed: for every fault
      position, if the outcome is Uploaded then the completed calls are all of send_actions *)
Theorem recorded_only_after_complete cur up q ws fail up' done :
  upload cur up q ws fail = (Uploaded, up', done) -> done = send_actions ws.
Proof.
  unfold upload. destruct (q_force q || needs_uploading _ _ _ _ _ _ _ _); [|discriminate].
  destruct fail as [j|].
  - destruct (Nat.lt_ge_cases j (length (send_actions ws))) as [Hlt|Hge].
    + rewrite (exec_fault _ j Hlt). discriminate.
    + rewrite (exec_late _ j Hge). intro H; inversion H; reflexivity.
  - rewrite exec_ok. intro H; inversion H; reflexivity.
Qed.

(* 5. when no upload is wanted nothing is written and nothing changes *)
Theorem skipped_writes_nothing cur up q ws fail : wants cur up q = false -> upload cur up q ws fail = (Skipped, up, []).
Proof. intro H. unfold upload. unfold wants in H. rewrite H. reflexivity. Qed.
