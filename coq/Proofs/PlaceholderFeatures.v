(* Proofs/PlaceholderFeatures.v — C14: the display path (TupimageTerminal.display_only for an integer
   ID: get_image_placeholder_mode + get_formatting + print_placeholder) uses a true-colour
   foreground only for IDs whose middle bytes are not both zero, the 256-colour form otherwise, and
   a third diacritic only for IDs with a non-zero most significant byte; with the feature reading of
   the ID spaces (Spec/IdFeatureSpec.v) this is "only the features the ID's space allows". *)
From Coq Require Import ZArith NArith List Bool Lia ZifyN ZifyBool ZifyNat.
From Tup Require Import Lib.Dec Lib.PyFmtD Lib.Utf8 Gen.DiacriticsGen Model.PlaceholderModel
  Spec.TermSpec Spec.PlaceholderSpec Spec.IdFeatureSpec Proofs.DiacriticsFacts Proofs.TermLexFacts Proofs.TermPaintFacts
  Proofs.TermChorFacts Proofs.PlaceholderToks Proofs.PlaceholderStreams Proofs.PlaceholderDecode
  Proofs.PlaceholderStmt Proofs.PlaceholderMain Proofs.PlaceholderLines.
Import ListNotations.
Open Scope N_scope.
Ltac Zify.zify_post_hook ::= Z.to_euclidean_division_equations.

(* ---- the display path as an instance of the stream theorems *)
Inductive simple_bg := SNone | SRgb (r g b : N) | SInt (n : N).
Definition to_background (s : simple_bg) : background :=
  match s with SNone => BgNoneStr | SRgb r g b => BgColorStr r g b | SInt n => BgInt n end.
Definition bgfmt_of (s : simple_bg) : bgfmt :=
  match s with SNone => BNone | SRgb r g b => BBytes [BgR r g b] | SInt n => BBytes [BgI n] end.

Lemma src_get_formatting s : get_formatting (to_background s) = fmt_of (bgfmt_of s).
Proof.
  destruct s as [|r g b|n]; cbn [to_background get_formatting bgfmt_of fmt_of]; [reflexivity| |]; f_equal;
    unfold ser_bgs, ser_toks; cbn [map flat_map]; rewrite app_nil_r; unfold bg_tok, bg_params.
  - rewrite ser_csi5. reflexivity.
  - rewrite ser_csi3. reflexivity.
Qed.
Lemma src_display_mode fewer ph : display_mode fewer ph = mkmode true false true 4 (if fewer then 0 else 4) ph.
Proof. destruct fewer; reflexivity. Qed.

(* the styles display_only can produce: abs_pos=None (save/restore or line feeds) / abs_pos=(x,y) *)
Definition display_style (st : style) : Prop :=
  match st with StSaveRestore => True | StLineFeeds us => us = true | StAbsolute _ _ us => us = true | StRelative => False end.
Definition display_args (st : style) : option (N * N) * bool :=
  match st with
  | StAbsolute px py _ => (Some (px, py), false)
  | StLineFeeds _ => (None, true)
  | _ => (None, false)
  end.

Lemma display_only_stream st id c0 r0 c1 r1 fewer s ph : display_style st ->
  display_only id c0 r0 c1 r1 fewer (to_background s) (fst (display_args st)) (snd (display_args st)) ph
  = stream_of st (mkph id 0 c0 r0 c1 r1) (display_mode fewer ph) (fmt_of (bgfmt_of s)).
Proof.
  intros Hst. unfold display_only, print_placeholder. cbn [ov image_id placement_id start_col start_row end_col end_row].
  rewrite src_get_formatting. destruct st as [| |us|px py us]; cbn [display_style] in Hst; try contradiction; subst; reflexivity.
Qed.

(* ---- which tokens select a foreground *)
Definition no_fg (k : tok) : Prop := forall kind, tok_has_fg kind k = false.
Definition fg_or_plain (fg : tok) (k : tok) : Prop := k = fg \/ no_fg k.

Lemma no_fg_reset : no_fg reset_tok. Proof. intros kind. reflexivity. Qed.
Lemma no_fg_bg s : no_fg (bg_tok s). Proof. intros kind. destruct s; reflexivity. Qed.
Lemma no_fg_char cp : no_fg (TChar cp). Proof. intros kind. reflexivity. Qed.

Lemma Forall_flat_map' (A B : Type) (Q : B -> Prop) (f : A -> list B) l :
  (forall a, In a l -> Forall Q (f a)) -> Forall Q (flat_map f l).
Proof.
  intros H. induction l as [|a l IH]; cbn [flat_map]; [constructor|].
  apply Forall_app. split; [apply H; left; reflexivity|apply IH; intros a' Ha'; apply H; right; exact Ha'].
Qed.

Lemma item_toks_plain fg it : Forall (fg_or_plain fg) (item_toks it).
Proof.
  unfold item_toks. apply Forall_app. split.
  - apply Forall_forall. intros k Hk. apply in_map_iff in Hk as (s & <- & _). right. apply no_fg_bg.
  - constructor; [right; apply no_fg_char|]. apply Forall_forall. intros k Hk. apply in_map_iff in Hk as (c & <- & _). right. apply no_fg_char.
Qed.

Lemma row_toks_plain p m b row : ul_toks m (placement_id p) = [] ->
  Forall (fg_or_plain (fg_tok m (image_id p))) (row_toks p m b row).
Proof.
  intros Hul. rewrite row_toks_shape. repeat (apply Forall_app; split).
  - constructor; [right; apply no_fg_reset|constructor].
  - apply Forall_forall. intros k Hk. apply in_map_iff in Hk as (s & <- & _). right. apply no_fg_bg.
  - unfold line_colours. rewrite Hul. destruct (row <? 297); [|constructor]. constructor; [left; reflexivity|constructor].
  - apply Forall_flat_map'. intros it _. apply item_toks_plain.
  - constructor; [right; apply no_fg_reset|constructor].
Qed.

Lemma chor_toks_forall (Q : tok -> Prop) pre post : Forall Q pre -> Forall Q post -> forall lines,
  Forall (Forall Q) lines -> Forall Q (chor_toks pre post lines).
Proof.
  intros Hpre Hpost. induction lines as [|l rest IH]; intros Hall; [constructor|].
  inversion_clear Hall as [|zz1 zz2 Hl Hrest]. destruct rest as [|l2 rest'].
  - exact Hl.
  - rewrite chor_toks_cons. repeat (apply Forall_app; split); try assumption. apply IH. exact Hrest.
Qed.
Lemma abs_toks_forall (Q : tok -> Prop) px py : (forall r c, Q (TCsi [r; c] 72)) -> forall lines idx,
  Forall (Forall Q) lines -> Forall Q (abs_toks px py idx lines).
Proof.
  intros Hq. induction lines as [|l rest IH]; intros idx Hall; [constructor|].
  inversion_clear Hall as [|zz1 zz2 Hl Hrest]. cbn [abs_toks]. constructor; [apply Hq|].
  apply Forall_app. split; [exact Hl|apply IH; exact Hrest].
Qed.

Lemma style_toks_plain st p m b : ul_toks m (placement_id p) = [] ->
  Forall (fg_or_plain (fg_tok m (image_id p))) (style_toks st p m b).
Proof.
  intros Hul.
  assert (Hl : Forall (Forall (fg_or_plain (fg_tok m (image_id p)))) (lines_toks p m b)).
  { unfold lines_toks. apply Forall_forall. intros l Hl. apply in_map_iff in Hl as (row & <- & _). apply row_toks_plain. exact Hul. }
  destruct st as [| |us|px py us]; cbn [style_toks].
  - apply chor_toks_forall; [| |exact Hl]; repeat constructor; right; intros kind; reflexivity.
  - apply chor_toks_forall; [| |exact Hl]; repeat constructor; right; intros kind; reflexivity.
  - apply chor_toks_forall; [| |exact Hl]; repeat constructor; right; intros kind; reflexivity.
  - apply abs_toks_forall; [|exact Hl]. intros r c. right. intros kind. reflexivity.
Qed.

Lemma existsb_plain kind fg ks : Forall (fg_or_plain fg) ks ->
  existsb (tok_has_fg kind) ks = true -> tok_has_fg kind fg = true.
Proof.
  intros Hall He. apply existsb_exists in He as (k & Hk & Hf). rewrite Forall_forall in Hall.
  destruct (Hall k Hk) as [->|Hn]; [exact Hf|]. rewrite (Hn kind) in Hf. discriminate.
Qed.

Lemma fg_tok_kind m id :
  tok_has_fg 2 (fg_tok m id) = negb (allow256_id m && mid_zero id) /\
  tok_has_fg 5 (fg_tok m id) = allow256_id m && mid_zero id.
Proof. unfold fg_tok, col_params. destruct (allow256_id m && mid_zero id); split; reflexivity. Qed.

(* the colour token is there as soon as the first row is an image row *)
Lemma chor_toks_incl pre post l : forall lines, In l lines -> incl l (chor_toks pre post lines).
Proof.
  induction lines as [|l1 rest IH]; intros Hin; [contradiction|]. destruct rest as [|l2 rest'].
  - destruct Hin as [->|[]]. apply incl_refl.
  - rewrite chor_toks_cons. destruct Hin as [->|Hin].
    + intros k Hk. apply in_or_app. left. apply in_or_app. right. apply in_or_app. left. exact Hk.
    + intros k Hk. apply in_or_app. right. apply (IH Hin k Hk).
Qed.
Lemma abs_toks_incl px py l : forall lines idx, In l lines -> incl l (abs_toks px py idx lines).
Proof.
  induction lines as [|l1 rest IH]; intros idx Hin; [contradiction|]. cbn [abs_toks]. destruct Hin as [->|Hin].
  - intros k Hk. right. apply in_or_app. left. exact Hk.
  - intros k Hk. right. apply in_or_app. right. apply (IH (idx + 1) Hin k Hk).
Qed.
Lemma fg_tok_in_style st p m b : start_row p < end_row p -> start_row p < 297 ->
  In (fg_tok m (image_id p)) (style_toks st p m b).
Proof.
  intros Hr Hr0.
  assert (Hin : In (row_toks p m b (start_row p)) (lines_toks p m b)).
  { unfold lines_toks. apply in_map. unfold rows_of, range. apply in_map_iff. exists (N.to_nat (start_row p)). split; [lia|]. apply in_seq. lia. }
  assert (Hk : In (fg_tok m (image_id p)) (row_toks p m b (start_row p))).
  { rewrite row_toks_shape. unfold line_colours. replace (start_row p <? 297) with true by lia.
    apply in_or_app. right. apply in_or_app. right. apply in_or_app. left. left. reflexivity. }
  destruct st as [| |us|px py us]; cbn [style_toks].
  - apply (chor_toks_incl _ _ _ _ Hin _ Hk).
  - apply (chor_toks_incl _ _ _ _ Hin _ Hk).
  - apply (chor_toks_incl _ _ _ _ Hin _ Hk).
  - apply (abs_toks_incl _ _ _ _ _ Hin _ Hk).
Qed.

(* ---- counting diacritics *)
Definition cur_val (cur : option N) : N := match cur with Some c => c | None => 0 end.
Definition bounded (M : N) (ks : list tok) : Prop :=
  forall cur best, best <= M -> cur_val cur <= M -> max_diacritics_go cur best ks <= M.
Definition nonchar (k : tok) : Prop := match k with TChar _ => False | _ => True end.

Lemma bounded_nil M : bounded M [].
Proof. intros cur best Hb Hc. destruct cur; cbn [max_diacritics_go cur_val] in *; lia. Qed.
Lemma bounded_nonchar M k r : nonchar k -> bounded M r -> bounded M (k :: r).
Proof.
  intros Hk Hr cur best Hb Hc. destruct k; cbn [nonchar] in Hk; try contradiction; cbn [max_diacritics_go];
    apply Hr; destruct cur; cbn [cur_val] in *; lia.
Qed.
Lemma bounded_nonchars M ks r : Forall nonchar ks -> bounded M r -> bounded M (ks ++ r).
Proof. induction 1 as [|k ks Hk _ IH]; intros Hr; [exact Hr|]. cbn [app]. apply bounded_nonchar; [exact Hk|apply IH; exact Hr]. Qed.
Lemma bounded_space M r : bounded M r -> bounded M (TChar 32 :: r).
Proof.
  intros Hr cur best Hb Hc. cbn [max_diacritics_go].
  change (32 =? placeholder_cp) with false. cbv iota.
  assert (E : diacritic_value 32 = None) by (vm_compute; reflexivity).
  destruct cur as [c|]; rewrite ?E; apply Hr; cbn [cur_val] in *; lia.
Qed.
Lemma go_dias : forall ds c best r, Forall (fun d => d < 297) ds ->
  max_diacritics_go (Some c) best (map TChar (map dia ds) ++ r) = max_diacritics_go (Some (c + N.of_nat (length ds))) best r.
Proof.
  induction ds as [|d ds IH]; intros c best r Hd; cbn [map app length].
  - replace (c + N.of_nat 0) with c by lia. reflexivity.
  - inversion_clear Hd as [|zz1 zz2 Hd1 Hd2]. cbn [max_diacritics_go].
    destruct (dia_range d Hd1) as [_ Hne]. destruct (dia d =? placeholder_cp) eqn:E; [lia|].
    rewrite (dia_value d Hd1). rewrite IH by exact Hd2. f_equal. f_equal. lia.
Qed.
Lemma bounded_ph_item M bgs ds r : Forall (fun d => d < 297) ds -> N.of_nat (length ds) <= M ->
  bounded M r -> bounded M (item_toks (ph_item bgs ds) ++ r).
Proof.
  intros Hd Hlen Hr. unfold item_toks, ph_item. cbn [it_bg it_ch it_comb]. rewrite <- app_assoc.
  apply bounded_nonchars.
  - apply Forall_forall. intros k Hk. apply in_map_iff in Hk as (s & <- & _). exact I.
  - intros cur best Hb Hc. cbn [app max_diacritics_go]. rewrite N.eqb_refl. rewrite go_dias by exact Hd.
    apply Hr; destruct cur; cbn [cur_val] in *; lia.
Qed.

Lemma bounded_items M (A : Type) (f : A -> item) r : forall l,
  (forall a, exists bgs ds, f a = ph_item bgs ds /\ Forall (fun d => d < 297) ds /\ N.of_nat (length ds) <= M) ->
  bounded M r -> bounded M (flat_map item_toks (map f l) ++ r).
Proof.
  induction l as [|a l IH]; intros Hf Hr; [exact Hr|]. cbn [map flat_map]. rewrite <- app_assoc.
  destruct (Hf a) as (bgs & ds & -> & Hd & Hl). apply bounded_ph_item; [exact Hd|exact Hl|]. apply IH; assumption.
Qed.
Lemma bounded_blank_items M p b row r : bounded M r -> bounded M (flat_map item_toks (blank_items p b row) ++ r).
Proof.
  intros Hr. unfold blank_items. induction (range (start_col p) (end_col p)) as [|col cols IH]; [exact Hr|].
  cbn [map flat_map]. rewrite <- app_assoc. unfold item_toks at 1. cbn [it_bg it_ch it_comb map]. rewrite <- app_assoc.
  apply bounded_nonchars.
  - apply Forall_forall. intros k Hk. apply in_map_iff in Hk as (s & <- & _). exact I.
  - cbn [app]. apply bounded_space. exact IH.
Qed.

Lemma diacs_first_count fc r c0 msb : fc <= 3 -> N.of_nat (length (diacs_first fc r c0 msb)) <= fc.
Proof. intros H. unfold diacs_first. destruct (1 <=? fc) eqn:E1, (2 <=? fc) eqn:E2, (3 <=? fc) eqn:E3; cbn [length]; lia. Qed.
Lemma diacs_other_count oc r col msb : oc <= 3 -> N.of_nat (length (diacs_other oc r col msb)) <= oc.
Proof.
  intros H. unfold diacs_other.
  destruct (1 <=? oc) eqn:E1, ((2 <=? oc) && (col <? 297)) eqn:E2, (3 <=? oc) eqn:E3; cbn [length]; lia.
Qed.

Lemma bounded_row M p m b row r : start_col p < 297 -> msb_of p < 297 ->
  first_count p m <= M -> other_count p m <= M -> first_count p m <= 3 -> other_count p m <= 3 ->
  bounded M r -> bounded M (row_toks p m b row ++ r).
Proof.
  intros Hc Hm Hf Ho Hf3 Ho3 Hr. rewrite row_toks_shape. rewrite <- !app_assoc.
  apply bounded_nonchars; [repeat constructor|].
  apply bounded_nonchars; [apply Forall_forall; intros k Hk; apply in_map_iff in Hk as (s & <- & _); exact I|].
  apply bounded_nonchars.
  { unfold line_colours. destruct (row <? 297); [|constructor]. constructor; [exact I|].
    unfold ul_toks. destruct (pid_shown m (placement_id p)); repeat constructor. }
  unfold line_cells. destruct (row <? 297) eqn:E.
  - unfold line_items. cbn [flat_map]. rewrite <- app_assoc.
    apply bounded_ph_item.
    + apply diacs_first_lt; lia.
    + pose proof (diacs_first_count (first_count p m) row (start_col p) (msb_of p) Hf3). lia.
    + apply bounded_items.
      * intros col. eexists _, _. split; [reflexivity|]. split; [apply diacs_other_lt; lia|].
        pose proof (diacs_other_count (other_count p m) row col (msb_of p) Ho3). lia.
      * apply bounded_nonchars; [repeat constructor|exact Hr].
  - apply bounded_blank_items. apply bounded_nonchars; [repeat constructor|exact Hr].
Qed.

Lemma bounded_chor M pre post : Forall nonchar pre -> Forall nonchar post -> forall lines,
  (forall l r, In l lines -> bounded M r -> bounded M (l ++ r)) -> bounded M (chor_toks pre post lines).
Proof.
  intros Hpre Hpost. induction lines as [|l rest IH]; intros Hl; [apply bounded_nil|]. destruct rest as [|l2 rest'].
  - cbn [chor_toks]. rewrite <- (app_nil_r l). apply Hl; [left; reflexivity|apply bounded_nil].
  - rewrite chor_toks_cons, <- !app_assoc. apply bounded_nonchars; [exact Hpre|].
    apply Hl; [left; reflexivity|]. apply bounded_nonchars; [exact Hpost|].
    apply IH. intros l' r Hin. apply Hl. right. exact Hin.
Qed.
Lemma bounded_abs M px py : forall lines idx,
  (forall l r, In l lines -> bounded M r -> bounded M (l ++ r)) -> bounded M (abs_toks px py idx lines).
Proof.
  induction lines as [|l rest IH]; intros idx Hl; [apply bounded_nil|]. cbn [abs_toks].
  apply bounded_nonchar; [exact I|]. apply Hl; [left; reflexivity|]. apply IH. intros l' r Hin. apply Hl. right. exact Hin.
Qed.

Lemma bounded_style M st p m b : start_col p < 297 -> msb_of p < 297 ->
  first_count p m <= M -> other_count p m <= M -> first_count p m <= 3 -> other_count p m <= 3 ->
  max_diacritics (style_toks st p m b) <= M.
Proof.
  intros Hc Hm Hf Ho Hf3 Ho3.
  assert (Hl : forall l r, In l (lines_toks p m b) -> bounded M r -> bounded M (l ++ r)).
  { intros l r Hin Hr. unfold lines_toks in Hin. apply in_map_iff in Hin as (row & <- & _). apply bounded_row; assumption. }
  assert (B : bounded M (style_toks st p m b)).
  { destruct st as [| |us|px py us]; cbn [style_toks].
    - apply bounded_chor; [repeat constructor|repeat constructor|exact Hl].
    - apply bounded_chor; [repeat constructor|repeat constructor|exact Hl].
    - apply bounded_chor; [repeat constructor|repeat constructor|exact Hl].
    - apply bounded_abs. exact Hl. }
  unfold max_diacritics. apply B; cbn [cur_val]; lia.
Qed.

(* ---- the theorem *)
Lemma id_bytes_mid id : mid_zero id = (id_byte 1 id =? 0) && (id_byte 2 id =? 0).
Proof.
  unfold mid_zero, id_byte. change (256 ^ 1) with 256. change (256 ^ 2) with 65536.
  replace (id / 65536) with (id / 256 / 256) by (rewrite N.div_div by lia; reflexivity).
  generalize (id / 256) as q. intros q.
  assert (E: q mod 65536 = (q / 256) mod 256 * 256 + q mod 256).
  { symmetry. apply (N.mod_unique q 65536 (q / 256 / 256)); lia. }
  rewrite E.
  destruct (q mod 256 =? 0) eqn:A; destruct ((q / 256) mod 256 =? 0) eqn:B; cbn [andb]; lia.
Qed.
Lemma id_byte3 id : id < 4294967296 -> id_byte 3 id = id / 16777216.
Proof. intros H. unfold id_byte. change (256 ^ 3) with 16777216. lia. Qed.

Theorem display_features st sp id c0 r0 c1 r1 fewer s :
  legal_space sp = true -> id_in_space sp id = true ->
  c0 < c1 -> r0 < r1 -> c0 < 297 -> display_style st ->
  let p := mkph id 0 c0 r0 c1 r1 in
  blank_reset_ok p ->
  exists ws,
    display_only id c0 r0 c1 r1 fewer (to_background s) (fst (display_args st)) (snd (display_args st)) [placeholder_cp] = Ok ws /\
    let ks := tokens (wire st (concat ws)) in
    (uses_truecolor_fg ks = true -> colour_bits sp = 24) /\
    (r0 < 297 -> colour_bits sp <> 24 -> uses_256_fg ks = true) /\
    (3 <= max_diacritics ks -> uses_3rd sp = true).
Proof.
  intros Hlegal Hin Hc Hr Hc0 Hst p Hbr.
  assert (Hid : 1 <= id < 4294967296) by (unfold id_in_space in Hin; lia).
  assert (Hp : rect_ok p) by (unfold rect_ok, p; cbn [image_id placement_id start_col start_row end_col end_row]; lia).
  set (m := display_mode fewer [placeholder_cp]).
  assert (Hmode : mode_ok m) by (unfold m; rewrite src_display_mode; unfold mode_ok; cbn [lvl_first lvl_other ph_char]; destruct fewer; repeat split; lia).
  rewrite (display_only_stream st id c0 r0 c1 r1 fewer s [placeholder_cp] Hst). fold p. fold m.
  destruct (stream_tokens st p m (bgfmt_of s) Hp Hbr Hmode) as (ws & Hws & Htoks).
  exists ws. split; [exact Hws|]. cbv zeta. rewrite Htoks.
  assert (Hul : ul_toks m (placement_id p) = []) by (unfold m; rewrite src_display_mode; reflexivity).
  assert (Hallow : allow256_id m = true) by (unfold m; rewrite src_display_mode; reflexivity).
  pose proof (style_toks_plain st p m (bgfmt_of s) Hul) as Hplain.
  destruct (fg_tok_kind m (image_id p)) as [K2 K5]. rewrite Hallow in K2, K5. cbn [andb] in K2, K5.
  change (image_id p) with id in *.
  split; [|split].
  - intros Ht. unfold uses_truecolor_fg in Ht. apply (existsb_plain 2 _ _ Hplain) in Ht. rewrite K2 in Ht.
    rewrite id_bytes_mid in Ht. unfold id_in_space in Hin.
    destruct (colour_bits sp =? 0) eqn:E0; [lia|]. destruct (colour_bits sp =? 8) eqn:E8; [lia|].
    unfold legal_space in Hlegal. lia.
  - intros Hr0 Hne. unfold uses_256_fg. apply existsb_exists. exists (fg_tok m id). split.
    + apply (fg_tok_in_style st p m (bgfmt_of s)); assumption.
    + rewrite K5, id_bytes_mid. unfold id_in_space in Hin. unfold legal_space in Hlegal.
      destruct (colour_bits sp =? 0) eqn:E0; [lia|]. destruct (colour_bits sp =? 8) eqn:E8; lia.
  - intros H3. destruct (rect_ok_msb p Hp) as [Hmsb Hm297]. change (image_id p) with id in Hmsb.
    destruct (uses_3rd sp) eqn:E3; [reflexivity|exfalso].
    assert (Hz : msb_of p = 0).
    { rewrite Hmsb, <- id_byte3 by lia. unfold id_in_space in Hin. rewrite E3 in Hin. lia. }
    assert (Hf : first_count p m = 2).
    { unfold first_count. rewrite Hz. unfold m. rewrite src_display_mode. cbn [lvl_first]. reflexivity. }
    assert (Ho : other_count p m <= 2).
    { unfold other_count. rewrite Hz. unfold m. rewrite src_display_mode. cbn [lvl_other]. destruct fewer; vm_compute; discriminate. }
    pose proof (bounded_style 2 st p m (bgfmt_of s) Hc0 Hm297 ltac:(lia) Ho ltac:(lia) ltac:(lia)). lia.
Qed.
