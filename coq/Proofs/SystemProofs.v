(* Proofs/SystemProofs.v — the invariant "every upload row describes what its terminal holds" and the C08 theorems *)
From Coq Require Import ZArith NArith List Bool Lia ZifyN ZifyBool ZifyNat.
From Tup Require Import Lib.IdSpaceTy Lib.CommandTypes Lib.SystemTypes Gen.SystemGen Gen.UploadFlowGen
  Model.IdSpace Model.IdManager Model.UploadModel Model.UploadFlow Model.SystemModel
  Spec.IdLayoutSpec Spec.SystemSpec Proofs.IdSpaceFacts Proofs.IdManagerFacts Proofs.IdManagerProofs
  Proofs.UploadProofs Proofs.SystemStmt Proofs.SystemFacts.
Import ListNotations.
Open Scope N_scope.

(* ---- playing events *)
Definition no_print (evs : list event) : Prop := forall t id r c, ~ In (EPrint t id r c) evs.

Lemma after_app ufs evs1 : forall tmp st evs2,
  after ufs tmp st (evs1 ++ evs2) = after ufs (fst (after ufs tmp st evs1)) (snd (after ufs tmp st evs1)) evs2.
Proof.
  induction evs1 as [|e evs1 IH]; intros tmp st evs2; [reflexivity|].
  destruct e; cbn [app after]; apply IH.
Qed.

Lemma prints_ok_no_print ufs want evs : forall tmp st, no_print evs -> prints_ok ufs tmp st want evs.
Proof.
  induction evs as [|e evs IH]; intros tmp st Hn; [exact I|].
  assert (Hn' : no_print evs) by (intros t id r c Hi; apply (Hn t id r c); right; exact Hi).
  destruct e; cbn [prints_ok]; try (apply IH; exact Hn').
  exfalso. apply (Hn t id rows cols). left. reflexivity.
Qed.

Lemma prints_ok_app_print ufs want evs t id r c : forall tmp st, no_print evs ->
  (exists im, want im /\ shows (snd (after ufs tmp st evs)) t id im r c) ->
  prints_ok ufs tmp st want (evs ++ [EPrint t id r c]).
Proof.
  induction evs as [|e evs IH]; intros tmp st Hn Hs.
  - cbn [app prints_ok]. split; [exact Hs|exact I].
  - assert (Hn' : no_print evs) by (intros t' id' r' c' Hi; apply (Hn t' id' r' c'); right; exact Hi).
    destruct e; cbn [app prints_ok]; cbn [after] in Hs; try (apply IH; assumption).
    exfalso. apply (Hn t0 id0 rows cols). left. reflexivity.
Qed.

Lemma put_same st t id v : put st t id v t id = v.
Proof. unfold put. rewrite !N.eqb_refl. reflexivity. Qed.
Lemma put_other st t id v t' id' : (t', id') <> (t, id) -> put st t id v t' id' = st t' id'.
Proof.
  intro H. unfold put. destruct ((t' =? t) && (id' =? id)) eqn:E; [|reflexivity].
  exfalso. apply H. f_equal; lia.
Qed.

(* the store after the events of a successful upload_by *)
Lemma emitted_after s o i um evs c tmp st : emitted s o i um evs (Some c) ->
  snd (after (s_fs s) tmp st evs) =
  put st (o_term o) (n_id i) (Some {| e_content := c; e_rows := n_rows i; e_cols := n_cols i |}) /\ no_print evs.
Proof.
  intro H. remember (Some c) as oc eqn:Eoc. destruct H as [p fi Hum Hsrc Hfs|p fi Hum Hsrc Hfs|c' Hum|c' Hum]; inversion Eoc; subst c;
    cbn [after snd]; unfold receive, tx_of, payload_content, view, write_tmp; cbn [x_term x_id x_payload x_rows x_cols].
  - rewrite Hfs. cbn [option_map]. split; [reflexivity|]. intros t id r c0 [Hi|[]]. discriminate.
  - split; [reflexivity|]. intros t id r c0 [Hi|[]]. discriminate.
  - rewrite N.eqb_refl. cbn [option_map]. split; [reflexivity|]. intros t id r c0 [Hi|[Hi|[]]]; discriminate.
  - split; [reflexivity|]. intros t id r c0 [Hi|[]]. discriminate.
Qed.

Section World.
Variable C : N -> Z -> option img.
Variable cd : codec.
Hypothesis HC : world_ok C.
Hypothesis Hcd : codec_ok cd.

Definition FsOk (s : sys) : Prop := forall p fi, s_fs s p = Some fi -> C p (f_mtime fi) = Some (f_img fi).
Definition RowOk (st : store) (x : urow) : Prop :=
  exists d e, rdesc x = enc cd d /\ st (rterm x) (rid x) = Some e /\
              describes C key_of d (c_img (e_content e)) /\ e_rows e = d_rows d /\ e_cols e = d_cols d.
Definition SInv (s : sys) (st : store) : Prop := WF (s_db s) /\ FsOk s /\ Forall (RowOk st) (s_up s).

(* the pixels an instance stands for *)
Definition inst_img (i : instance) (im : img) : Prop := requested C key_of (dec cd) (fun _ => None) (fun _ => None) (SInst i) im.

Lemma inst_describes i im : inst_img i im -> describes C key_of (descr_of i) im.
Proof.
  unfold inst_img, requested, descr_of. destruct (n_src i) as [p m|m|k]; cbn [describes]; intro H; auto. subst. reflexivity.
Qed.
Lemma descr_rows_cols i : d_rows (descr_of i) = n_rows i /\ d_cols (descr_of i) = n_cols i.
Proof. unfold descr_of. destruct (n_src i); split; reflexivity. Qed.

Lemma rowok_other st t id v x : RowOk st x -> (rterm x, rid x) <> (t, id) -> RowOk (put st t id v) x.
Proof. intros (d & e & H1 & H2 & H3) Hk. exists d, e. split; [exact H1|]. rewrite put_other by exact Hk. split; assumption. Qed.

Lemma forall_rowok_unmark st up t id v : Forall (RowOk st) up -> Forall (RowOk (put st t id v)) (unmark_uploaded up id t).
Proof.
  intro H. unfold unmark_uploaded. rewrite Forall_forall in *. intros x Hx. apply filter_In in Hx. destruct Hx as [Hx Hk].
  apply rowok_other; [apply H; exact Hx|]. unfold same_key in Hk. intro E. inversion E. lia.
Qed.
Lemma forall_rowok_filter st up (p : urow -> bool) : Forall (RowOk st) up -> Forall (RowOk st) (filter p up).
Proof. intro H. rewrite Forall_forall in *. intros x Hx. apply filter_In in Hx. apply H. tauto. Qed.

(* upload_tail: the invariant is kept; a completed call leaves the instance's pixels under its id whenever it
   transmitted, or the id was still bound to the instance's description *)
Lemma upload_tail_spec s o i st tmp s' evs ok :
  SInv s st -> upload_tail cd s o i = (s', evs, ok) ->
  SInv s' (snd (after (s_fs s) tmp st evs)) /\ s_fs s' = s_fs s /\ no_print evs /\
  (ok = true -> o_force o = true \/
                needs_uploading (cur_of (s_db s)) (s_up s) (n_id i) (o_term o) (o_check_now o) (o_nmax o) (o_bmax o) (o_tmax o) = true \/
                bound cd s i ->
   exists im, inst_img i im /\ shows (snd (after (s_fs s) tmp st evs)) (o_term o) (n_id i) im (n_rows i) (n_cols i)).
Proof.
  intros (Hw & Hfs & Hrows) H. unfold upload_tail in H.
  destruct (o_force o || needs_uploading (cur_of (s_db s)) (s_up s) (n_id i) (o_term o) (o_check_now o) (o_nmax o) (o_bmax o) (o_tmax o)) eqn:Edec.
  - rewrite src_unmarks, src_marks_transmitted in H.
    destruct (do_upload_cases s o i) as [(um & Hum & Hres & Hdo)|Hdo]; rewrite Hdo in H.
    + destruct (upload_by s o i um) as [evs0 size nt|evs0 nt] eqn:Eu.
      * inversion H; subst s' evs ok. clear H.
        destruct (upload_by_ok s o i um evs0 size nt Hum Eu) as (c & Hem & _ & Hc).
        destruct (emitted_after s o i um evs0 c tmp st Hem) as [Haft Hnp]. rewrite Haft.
        assert (Himg : inst_img i (c_img c)).
        { unfold inst_img, requested. destruct (n_src i) as [p m|im|k].
          - destruct Hc as (fi & Hf & Hm & [->| ->]); [|rewrite converted_img]; cbn [whole c_img]; rewrite <- Hm; apply Hfs; exact Hf.
          - subst c. rewrite converted_img. reflexivity.
          - contradiction. }
        split; [|split; [reflexivity|split; [exact Hnp|]]].
        -- split; [exact Hw|split; [exact Hfs|]]. cbn [s_up]. unfold mark_described.
           destruct (cur_of (s_db s) (n_id i)).
           ++ constructor.
              ** exists (descr_of i). eexists. cbn [rdesc rterm rid]. split; [reflexivity|]. rewrite put_same. split; [reflexivity|].
                 cbn [e_content e_rows e_cols]. split; [apply inst_describes; exact Himg|]. destruct (descr_rows_cols i) as [-> ->]. auto.
              ** apply forall_rowok_filter. apply forall_rowok_unmark. exact Hrows.
           ++ apply forall_rowok_unmark. exact Hrows.
        -- intros _ _. exists (c_img c). split; [exact Himg|]. eexists. rewrite put_same. split; [reflexivity|]. auto.
      * destruct (upload_by_raise s o i um evs0 nt Hum Eu) as [-> ->]. inversion H; subst s' evs ok. clear H.
        cbn [app after snd]. split; [|split; [reflexivity|split; [|discriminate]]].
        -- split; [exact Hw|split; [exact Hfs|]]. cbn [s_up]. unfold unmark_uploaded. apply forall_rowok_filter. exact Hrows.
        -- intros t id r c [Hi|[]]. discriminate.
    + inversion H; subst s' evs ok. clear H. cbn [app after snd]. split; [|split; [reflexivity|split; [|discriminate]]].
      * split; [exact Hw|split; [exact Hfs|]]. cbn [s_up]. unfold unmark_uploaded. apply forall_rowok_filter. exact Hrows.
      * intros t id r c [Hi|[]]. discriminate.
  - inversion H; subst s' evs ok. clear H. cbn [after snd].
    split; [split; [exact Hw|split; [exact Hfs|exact Hrows]]|]. split; [reflexivity|]. split; [intros t id r c []|].
    intros _ [Hf|[Hn|(dn & Hcur & Hdec)]]; [rewrite Hf in Edec; discriminate|rewrite Hn in Edec; rewrite orb_true_r in Edec; discriminate|].
    apply orb_false_iff in Edec. destruct Edec as [_ Hneed]. unfold needs_uploading in Hneed. rewrite Hcur in Hneed.
    destruct (find_row (s_up s) (n_id i) (o_term o)) as [r|] eqn:Ef; [|discriminate].
    apply orb_false_iff in Hneed. destruct Hneed as [Hd _]. assert (Hrd : rdesc r = dn) by lia.
    destruct (find_row_in _ _ _ _ Ef) as [Hin Hk]. unfold key in Hk. inversion Hk as [[Hid Ht]].
    rewrite Forall_forall in Hrows. destruct (Hrows r Hin) as (d & e & Hde & Hst & Hdesc & Hr & Hc).
    assert (d = descr_of i).
    { rewrite Hrd in Hde. rewrite Hde, Hcd in Hdec. congruence. }
    subst d. exists (c_img (e_content e)). rewrite Hid, Ht in Hst. split.
    + unfold inst_img, requested. unfold descr_of in Hdesc. destruct (n_src i); cbn [describes] in Hdesc; auto.
      apply key_of_injective. exact Hdesc.
    + exists e. destruct (descr_rows_cols i) as [Hr' Hc']. rewrite Hr' in Hr. rewrite Hc' in Hc. rewrite ?Hid, ?Ht. auto.
Qed.

Lemma print_event_eq o i : print_event o i = EPrint (o_term o) (n_id i) (n_rows i) (n_cols i).
Proof. unfold print_event. destruct src_straight as (_ & _ & ->). reflexivity. Qed.

(* upload [+ display] of an instance whose pixels are what the call asks for *)
Lemma finish_spec a s o i st tmp s' evs (want : img -> Prop) :
  SInv s st -> (forall im, inst_img i im -> want im) ->
  (o_force o = true \/
   needs_uploading (cur_of (s_db s)) (s_up s) (n_id i) (o_term o) (o_check_now o) (o_nmax o) (o_bmax o) (o_tmax o) = true \/
   bound cd s i) ->
  finish a o i (upload_tail cd s o i) = (s', evs) ->
  prints_ok (s_fs s) tmp st want evs /\ SInv s' (snd (after (s_fs s) tmp st evs)).
Proof.
  intros Hinv Hwant Hprem H. destruct (upload_tail cd s o i) as [[s1 evs1] ok] eqn:Eu.
  destruct (upload_tail_spec s o i st tmp s1 evs1 ok Hinv Eu) as (Hinv1 & Hfs1 & Hnp & Hshow).
  unfold finish in H.
  assert (Hplain : (s1, evs1) = (s', evs) -> prints_ok (s_fs s) tmp st want evs /\ SInv s' (snd (after (s_fs s) tmp st evs))).
  { intro E. inversion E; subst. split; [apply prints_ok_no_print; exact Hnp|exact Hinv1]. }
  destruct a; try (apply Hplain; exact H).
  destruct ok; [|apply Hplain; exact H].
  inversion H; subst s' evs. clear H Hplain. rewrite print_event_eq.
  destruct (Hshow eq_refl Hprem) as (im & Him & Hsh). split.
  - apply prints_ok_app_print; [exact Hnp|]. exists im. split; [apply Hwant; exact Him|exact Hsh].
  - rewrite after_app. cbn [after snd]. exact Hinv1.
Qed.

Lemma sinv_with_db s st d : SInv s st -> WF d -> SInv (with_db s d) st.
Proof. intros (_ & H2 & H3) Hw. split; [exact Hw|split; assumption]. Qed.

Lemma raise_only s st tmp want : SInv s st -> prints_ok (s_fs s) tmp st want [ERaise] /\ SInv s (snd (after (s_fs s) tmp st [ERaise])).
Proof. intro H. split; [exact I|exact H]. Qed.

(* calls with an ImageInstance *)
Lemma call_inst_spec rb s a o i st tmp s' evs (want : img -> Prop) :
  SInv s st -> (forall im, inst_img i im -> want im) ->
  (rb = true \/
   o_force o = true \/
   needs_uploading (cur_of (s_db s)) (s_up s) (n_id i) (o_term o) (o_check_now o) (o_nmax o) (o_bmax o) (o_tmax o) = true \/
   bound cd s i) ->
  call_inst rb cd s a o i = (s', evs) ->
  prints_ok (s_fs s) tmp st want evs /\ SInv s' (snd (after (s_fs s) tmp st evs)).
Proof.
  intros Hinv Hwant Hprem H. unfold call_inst in H.
  assert (Hraise : (s, [ERaise]) = (s', evs) -> prints_ok (s_fs s) tmp st want evs /\ SInv s' (snd (after (s_fs s) tmp st evs))).
  { intro E. inversion E; subst. apply raise_only. exact Hinv. }
  assert (Hmain : forall s1, SInv s1 st -> s_fs s1 = s_fs s ->
            (o_force o = true \/
             needs_uploading (cur_of (s_db s1)) (s_up s1) (n_id i) (o_term o) (o_check_now o) (o_nmax o) (o_bmax o) (o_tmax o) = true \/
             bound cd s1 i) ->
            finish a o i (upload_tail cd s1 o i) = (s', evs) ->
            prints_ok (s_fs s) tmp st want evs /\ SInv s' (snd (after (s_fs s) tmp st evs))).
  { intros s1 Hinv1 Hfs Hp Hf. rewrite <- Hfs. eapply finish_spec; eauto. }
  destruct a; [apply Hraise; exact H| |];
    (destruct (from_id (n_id i)) as [sp|] eqn:Hfid; [|apply Hraise; exact H];
     destruct rb; cbn [rebind_step] in H;
     [|destruct Hprem as [Hx|Hprem]; [discriminate|]; apply (Hmain s Hinv eq_refl Hprem H)];
     destruct (cur_of (s_db s) (n_id i)) as [dn|] eqn:Hcur;
     [destruct (dn =? enc cd (descr_of i)) eqn:Edn;
      [apply (Hmain s Hinv eq_refl); [|exact H]; right; right; exists dn; split; [exact Hcur|];
       assert (dn = enc cd (descr_of i)) by lia; subst dn; apply Hcd|]|];
     (destruct (set_id (s_db s) (n_id i) (enc cd (descr_of i)) (o_now o)) as [d'|] eqn:Eset; cbn [option_map] in H; [|apply Hraise; exact H];
      apply (Hmain (with_db s d')); [apply sinv_with_db; [exact Hinv|]; eapply set_id_wf; [exact (proj1 Hinv)|exact Eset]|reflexivity| |exact H];
      right; right; exists (enc cd (descr_of i)); split; [cbn [with_db s_db]; eapply set_id_cur; exact Eset|apply Hcd])).
Qed.

Lemma inst_img_of_descr d id im : inst_img (inst_of d id) im <-> describes C key_of d im.
Proof. unfold inst_img, requested. destruct d; cbn [inst_of n_src describes]; tauto. Qed.
Lemma descr_of_inst_of d id : descr_of (inst_of d id) = d.
Proof. destruct d; reflexivity. Qed.

(* one step of a history *)
Lemma step_spec rb s st tmp r :
  SInv s st -> req_ok C r -> (rb = true \/ inst_premise cd s r) ->
  prints_ok (s_fs s) tmp st (want_of C cd s r) (snd (step_gen rb cd s r)) /\
  SInv (fst (step_gen rb cd s r)) (snd (after (s_fs s) tmp st (snd (step_gen rb cd s r)))).
Proof.
  intros Hinv Hreq Hprem. destruct (step_gen rb cd s r) as [s' evs] eqn:Estep. cbn [fst snd].
  destruct r as [p fi|a subj o]; cbn [step_gen] in Estep.
  - inversion Estep; subst s' evs. clear Estep. cbn [after snd prints_ok]. split; [exact I|].
    destruct Hinv as (Hw & Hfs & Hrows). split; [exact Hw|split; [|exact Hrows]].
    intros q fq. cbn [s_fs]. destruct (q =? p) eqn:E.
    + intro Hq. subst fi. cbn [req_ok] in Hreq. assert (q = p) by lia. subst q. exact Hreq.
    + apply Hfs.
  - destruct subj as [src|i|id]; cbn [want_of].
    + (* an image or a file name *)
      cbn [req_ok] in Hreq. destruct Hreq as [Hvs Hss].
      set (isrc := match src with SMem im => IMem im | SFile p => match s_fs s p with Some fi => IFile p (f_mtime fi) | None => IFile p 0%Z end end) in *.
      set (i0 := {| n_src := isrc; n_cols := o_cols o; n_rows := o_rows o; n_id := 0 |}) in *.
      match type of Estep with (if ?b then _ else _) = _ => destruct b end;
        [inversion Estep; subst s' evs; apply (raise_only s st tmp _ Hinv)|].
      destruct (get_id (s_db s) (enc cd (descr_of i0)) (o_space o) (o_sub o) (o_now o) (o_max_ids o) (o_samples o) (o_choice o)) as [res d'] eqn:Eg.
      assert (Hw' : WF d').
      { pose proof (get_id_wf (s_db s) (enc cd (descr_of i0)) (o_space o) (o_sub o) (o_now o) (o_max_ids o) (o_samples o) (o_choice o) (proj1 Hinv) Hvs) as Hx.
        rewrite Eg in Hx. exact Hx. }
      assert (Hinv' : SInv (with_db s d') st) by (apply sinv_with_db; assumption).
      destruct res as [id| |]; try (inversion Estep; subst s' evs; apply (raise_only (with_db s d') st tmp _ Hinv')).
      set (i := {| n_src := isrc; n_cols := o_cols o; n_rows := o_rows o; n_id := id |}) in *.
      assert (Hbound : bound cd (with_db s d') i).
      { exists (enc cd (descr_of i0)). split; [|apply Hcd].
        cbn [with_db s_db n_id i]. eapply get_id_cur; [exact (proj1 Hinv)|exact Hvs|exact Hss|exact Eg]. }
      assert (Hwant : forall im, inst_img i im -> requested C key_of (dec cd) (s_fs s) (cur_of (s_db s)) (SImg src) im).
      { intros im Him. unfold inst_img, requested in *. cbn [n_src i] in Him. unfold isrc in Him. destruct src as [p|m]; [|exact Him].
        destruct (s_fs s p) as [fi|] eqn:Ef.
        - exists fi. split; [reflexivity|]. pose proof (proj1 (proj2 Hinv) p fi Ef) as Hc. congruence.
        - rewrite HC in Him. discriminate. }
      destruct a.
      * inversion Estep; subst s' evs. split; [exact I|exact Hinv'].
      * change (s_fs s) with (s_fs (with_db s d')). eapply finish_spec; [exact Hinv'|exact Hwant| |exact Estep]. right; right; exact Hbound.
      * change (s_fs s) with (s_fs (with_db s d')). eapply finish_spec; [exact Hinv'|exact Hwant| |exact Estep]. right; right; exact Hbound.
    + (* an ImageInstance *)
      eapply call_inst_spec; [exact Hinv| |exact Hprem|exact Estep].
      intros im Him. exact Him.
    + (* an id: get_image_instance *)
      destruct (cur_of (s_db s) id) as [dn|] eqn:Hcur; [|inversion Estep; subst; apply raise_only; exact Hinv].
      destruct (dec cd dn) as [d|] eqn:Hdec; [|inversion Estep; subst; apply raise_only; exact Hinv].
      eapply call_inst_spec; [exact Hinv| | |exact Estep].
      * intros im Him. cbn [requested]. exists dn, d. split; [exact Hcur|split; [exact Hdec|]]. apply inst_img_of_descr in Him. exact Him.
      * right. right. right. exists dn. split; [destruct d; exact Hcur|]. rewrite descr_of_inst_of. exact Hdec.
Qed.

Lemma run_spec rb h : forall s tmp st,
  SInv s st -> Forall (req_ok C) h -> (rb = true \/ (rb = false /\ premise_along cd s h)) -> run_ok rb C cd s tmp st h.
Proof.
  induction h as [|r h IH]; intros s tmp st Hinv Hreq Hprem; [exact I|].
  apply Forall_cons_iff in Hreq. destruct Hreq as [Hr Hreq].
  assert (Hp1 : rb = true \/ inst_premise cd s r).
  { destruct Hprem as [Ht|[_ Hp]]; [left; exact Ht|right; exact (proj1 Hp)]. }
  destruct (step_spec rb s st tmp r Hinv Hr Hp1) as [Hpr Hinv'].
  cbn [run_ok]. split; [exact Hpr|]. apply IH; [exact Hinv'|exact Hreq|].
  destruct Hprem as [Ht|[Hf Hp]]; [left; exact Ht|right]. split; [exact Hf|]. subst rb. exact (proj2 Hp).
Qed.

Lemma init_inv : SInv init_sys empty_store.
Proof. split; [apply empty_wf|split; [intros p fi H; discriminate|constructor]]. Qed.

End World.

(* ---- 1. shown_is_requested, for the repaired upload(ImageInstance) *)
Theorem shown_is_requested C cd h : world_ok C -> codec_ok cd -> Forall (req_ok C) h ->
  run_ok upload_rebinds_stale_instance C cd init_sys (fun _ => None) empty_store h.
Proof.
  intros HC Hcd Hh. rewrite src_rebinds. apply (run_spec C cd HC Hcd); [apply init_inv|exact Hh|left; reflexivity].
Qed.

(* ---- 1'. the unrepaired upload(ImageInstance): true under the premise, false without *)
Theorem shown_is_requested_partial C cd h : world_ok C -> codec_ok cd -> Forall (req_ok C) h ->
  premise_along cd init_sys h -> run_ok false C cd init_sys (fun _ => None) empty_store h.
Proof.
  intros HC Hcd Hh Hp. apply (run_spec C cd HC Hcd); [apply init_inv|exact Hh|right; split; [reflexivity|exact Hp]].
Qed.
