(* Proofs/PlaceholderStreams.v — each to_stream variant of the model is the serialisation of the
   corresponding choreography (Proofs/TermChorFacts.v) of the line token lists; all tokens are
   lexable (ok_tok), so the Spec lexer gives them back. *)
From Coq Require Import ZArith NArith List Bool Lia ZifyN ZifyBool ZifyNat.
From Tup Require Import Lib.Dec Lib.PyFmtD Lib.Utf8 Gen.DiacriticsGen Model.PlaceholderModel
  Spec.TermSpec Spec.PlaceholderSpec Proofs.DiacriticsFacts Proofs.TermLexFacts Proofs.TermPaintFacts
  Proofs.TermChorFacts Proofs.PlaceholderToks.
Import ListNotations.
Open Scope N_scope.

Lemma src_cur_save : cur_save = ser_toks sr_pre. Proof. reflexivity. Qed.
Lemma src_cur_restore_index : cur_restore ++ cur_index = ser_toks sr_post. Proof. reflexivity. Qed.
Lemma src_cur_left w : fmt_d cur_left_t [w] ++ cur_index = ser_toks (rel_post (N.to_nat w)).
Proof.
  unfold rel_post. rewrite N2Nat.id. unfold ser_toks. cbn [flat_map]. rewrite ser_csi1. reflexivity.
Qed.
Lemma src_cur_newline : tty_onlcr cur_newline = ser_toks lf_post. Proof. reflexivity. Qed.
Lemma src_last_offsets : cur_last_off1 = 1 /\ cur_last_off2 = 1. Proof. split; reflexivity. Qed.
Lemma src_abs_cup px py idx :
  fmt_d abs_cup_t [nth (N.to_nat abs_pos_row_idx) [px; py] 0 + idx + abs_row_off; nth (N.to_nat abs_pos_col_idx) [px; py] 0 + abs_col_off]
  = ser (TCsi [py + idx + 1; px + 1] 72).
Proof. rewrite ser_csi2. reflexivity. Qed.

(* ---- save / restore *)
Lemma cursor_go_sr p : forall lines idx n, lines <> [] -> n = idx + N.of_nat (length lines) ->
  concat (cursor_go p true false n idx (map ser_toks lines)) = ser_toks (chor_toks sr_pre sr_post lines).
Proof.
  induction lines as [|l rest IH]; intros idx n Hne Hn; [congruence|].
  destruct src_last_offsets as [O1 O2].
  destruct rest as [|l2 rest'].
  - cbn [map cursor_go length] in *. rewrite O1, O2. replace (idx =? n - 1) with true by lia.
    cbn [negb andb app concat chor_toks]. rewrite app_nil_r. reflexivity.
  - rewrite chor_toks_cons, ser_toks_app.
    change (map ser_toks (l :: l2 :: rest')) with (ser_toks l :: map ser_toks (l2 :: rest')).
    cbn [cursor_go]. rewrite O1, O2. cbn [length] in Hn.
    replace (idx =? n - 1) with false by lia. cbn [negb andb].
    rewrite !concat_app. rewrite (IH (idx + 1) n ltac:(discriminate) ltac:(cbn [length]; lia)).
    cbn [concat]. rewrite !app_nil_r, !ser_toks_app, <- src_cur_save, <- src_cur_restore_index.
    rewrite <- !app_assoc. reflexivity.
Qed.

(* ---- relative moves *)
Lemma cursor_go_rel p : forall lines idx n, lines <> [] -> n = idx + N.of_nat (length lines) ->
  concat (cursor_go p false false n idx (map ser_toks lines))
  = ser_toks (chor_toks [] (rel_post (N.to_nat (end_col p - start_col p))) lines).
Proof.
  induction lines as [|l rest IH]; intros idx n Hne Hn; [congruence|].
  destruct src_last_offsets as [O1 O2].
  destruct rest as [|l2 rest'].
  - cbn [map cursor_go length] in *. rewrite O1, O2. replace (idx =? n - 1) with true by lia.
    cbn [negb andb app concat chor_toks]. rewrite app_nil_r. reflexivity.
  - rewrite chor_toks_cons, ser_toks_app.
    change (map ser_toks (l :: l2 :: rest')) with (ser_toks l :: map ser_toks (l2 :: rest')).
    cbn [cursor_go]. rewrite O1, O2. cbn [length] in Hn.
    replace (idx =? n - 1) with false by lia. cbn [negb andb].
    rewrite !concat_app. rewrite (IH (idx + 1) n ltac:(discriminate) ltac:(cbn [length]; lia)).
    cbn [concat]. rewrite !app_nil_r, !ser_toks_app, <- src_cur_left. cbn [app].
    rewrite <- !app_assoc. reflexivity.
Qed.

(* ---- line feeds, seen through a tty with ONLCR *)
Definition line_tok (k : tok) : Prop :=
  match k with
  | TCsi _ f => f = 109
  | TChar cp => 32 <= cp < 1114112 /\ cp <> 127
  | _ => False
  end.
Lemma line_tok_ok k : line_tok k -> ok_tok k /\ k <> TCtl 10.
Proof. destruct k; cbn [line_tok ok_tok]; intros H; split; try discriminate; try tauto; lia. Qed.
Lemma line_toks_ok ks : Forall line_tok ks -> Forall ok_tok ks /\ Forall (fun k => k <> TCtl 10) ks.
Proof.
  induction 1 as [|k ks Hk _ [IH1 IH2]]; [split; constructor|].
  destruct (line_tok_ok k Hk). split; constructor; assumption.
Qed.

Lemma cursor_go_lf p us : forall lines idx n, lines <> [] -> n = idx + N.of_nat (length lines) ->
  Forall (Forall line_tok) lines ->
  tty_onlcr (concat (cursor_go p us true n idx (map ser_toks lines))) = ser_toks (chor_toks [] lf_post lines).
Proof.
  induction lines as [|l rest IH]; intros idx n Hne Hn Hall; [congruence|].
  destruct src_last_offsets as [O1 O2].
  inversion_clear Hall as [|zz1 zz2 Hl Hrest].
  destruct (line_toks_ok l Hl) as [Hok Hno].
  destruct rest as [|l2 rest'].
  - cbn [map cursor_go length] in *. rewrite O1, O2. replace (idx =? n - 1) with true by lia.
    cbn [negb andb app concat chor_toks]. rewrite ?andb_false_r. cbn [app concat]. rewrite app_nil_r.
    apply tty_onlcr_ser_toks; assumption.
  - rewrite chor_toks_cons, ser_toks_app.
    change (map ser_toks (l :: l2 :: rest')) with (ser_toks l :: map ser_toks (l2 :: rest')).
    cbn [cursor_go]. rewrite O1, O2. cbn [length] in Hn.
    replace (idx =? n - 1) with false by lia. cbn [negb andb]. rewrite ?andb_false_r.
    rewrite !concat_app, !tty_onlcr_app. rewrite (IH (idx + 1) n ltac:(discriminate) ltac:(cbn [length]; lia) Hrest).
    cbn [concat]. rewrite !app_nil_r. cbn [app]. rewrite tty_onlcr_ser_toks by assumption.
    rewrite src_cur_newline, !ser_toks_app. change (tty_onlcr []) with (@nil N). cbn [app].
    rewrite <- !app_assoc. reflexivity.
Qed.

(* ---- absolute position *)
Lemma abs_go_toks px py : forall lines idx,
  concat (abs_go [px; py] idx (map ser_toks lines)) = ser_toks (abs_toks px py idx lines).
Proof.
  induction lines as [|l rest IH]; intros idx; [reflexivity|].
  cbn [map abs_go abs_toks concat]. rewrite src_abs_cup, IH, ser_toks_cons, ser_toks_app. reflexivity.
Qed.

(* ---- every token of a line is lexable *)
Lemma diacs_first_lt fc r c0 msb : r < 297 -> c0 < 297 -> msb < 297 -> Forall (fun d => d < 297) (diacs_first fc r c0 msb).
Proof.
  intros. unfold diacs_first. destruct (1 <=? fc); [|constructor]. constructor; [assumption|].
  destruct (2 <=? fc); [|constructor]. constructor; [assumption|]. destruct (3 <=? fc); repeat constructor; assumption.
Qed.
Lemma diacs_other_lt oc r col msb : r < 297 -> msb < 297 -> Forall (fun d => d < 297) (diacs_other oc r col msb).
Proof.
  intros. unfold diacs_other. destruct (1 <=? oc); [|constructor]. constructor; [assumption|].
  destruct ((2 <=? oc) && (col <? 297)) eqn:E; [|constructor]. constructor; [lia|]. destruct (3 <=? oc); repeat constructor; assumption.
Qed.

Lemma ph_item_toks_ok bgs ds : Forall (fun d => d < 297) ds -> Forall line_tok (item_toks (ph_item bgs ds)).
Proof.
  intros Hd. unfold item_toks, ph_item. cbn [it_bg it_ch it_comb]. apply Forall_app. split.
  - apply Forall_forall. intros k Hk. apply in_map_iff in Hk as (s & <- & _). reflexivity.
  - constructor; [cbn [line_tok]; unfold placeholder_cp; lia|].
    apply Forall_forall. intros k Hk. apply in_map_iff in Hk as (cp & <- & Hcp). apply in_map_iff in Hcp as (d & <- & Hdin).
    rewrite Forall_forall in Hd. pose proof (dia_range d (Hd d Hdin)). cbn [line_tok]. lia.
Qed.

Lemma ul_toks_ok m pid : Forall line_tok (ul_toks m pid).
Proof. unfold ul_toks. destruct (pid_shown m pid); repeat constructor. Qed.

Lemma row_toks_ok p m b row : start_col p < 297 -> msb_of p < 297 -> Forall line_tok (row_toks p m b row).
Proof.
  intros Hc Hm. unfold row_toks. destruct (297 <=? row) eqn:E; unfold line_toks.
  - apply Forall_app. split.
    + constructor; [reflexivity|]. apply Forall_forall. intros k Hk. apply in_map_iff in Hk as (s & <- & _). reflexivity.
    + apply Forall_app. split; [|repeat constructor].
      apply Forall_forall. intros k Hk. apply in_flat_map in Hk as (it & Hit & Hk).
      apply in_map_iff in Hit as (col & <- & _). unfold item_toks in Hk. cbn [it_bg it_ch it_comb map] in Hk.
      apply in_app_or in Hk as [Hk|Hk].
      * apply in_map_iff in Hk as (s & <- & _). reflexivity.
      * destruct Hk as [<-|[]]. cbn [line_tok]. lia.
  - assert (Hr : row < 297) by lia. apply Forall_app. split.
    + unfold line_pre. constructor; [reflexivity|]. apply Forall_app. split.
      * apply Forall_forall. intros k Hk. apply in_map_iff in Hk as (s & <- & _). reflexivity.
      * constructor; [reflexivity|apply ul_toks_ok].
    + apply Forall_app. split; [|repeat constructor].
      unfold line_items. cbn [flat_map]. apply Forall_app. split.
      * apply ph_item_toks_ok. apply diacs_first_lt; assumption.
      * apply Forall_forall. intros k Hk. apply in_flat_map in Hk as (it & Hit & Hk).
        apply in_map_iff in Hit as (col & <- & _). revert k Hk. apply Forall_forall.
        apply ph_item_toks_ok. apply diacs_other_lt; assumption.
Qed.

Lemma lines_toks_ok p m b : start_col p < 297 -> msb_of p < 297 -> Forall (Forall line_tok) (lines_toks p m b).
Proof.
  intros Hc Hm. unfold lines_toks. apply Forall_forall. intros l Hl. apply in_map_iff in Hl as (row & <- & _).
  apply row_toks_ok; assumption.
Qed.

(* ok_tok for the choreographies *)
Lemma chor_toks_ok pre post : Forall ok_tok pre -> Forall ok_tok post -> forall lines,
  Forall (Forall ok_tok) lines -> Forall ok_tok (chor_toks pre post lines).
Proof.
  intros Hpre Hpost. induction lines as [|l rest IH]; intros Hall; [constructor|].
  inversion_clear Hall as [|zz1 zz2 Hl Hrest]. destruct rest as [|l2 rest'].
  - exact Hl.
  - rewrite chor_toks_cons. repeat (apply Forall_app; split); try assumption. apply IH. exact Hrest.
Qed.
Lemma abs_toks_ok px py : forall lines idx, Forall (Forall ok_tok) lines -> Forall ok_tok (abs_toks px py idx lines).
Proof.
  induction lines as [|l rest IH]; intros idx Hall; [constructor|].
  inversion_clear Hall as [|zz1 zz2 Hl Hrest]. cbn [abs_toks]. constructor; [cbn [ok_tok]; lia|].
  apply Forall_app. split; [exact Hl|apply IH; exact Hrest].
Qed.
Lemma sr_pre_ok : Forall ok_tok sr_pre. Proof. repeat constructor; cbn [ok_tok]; lia. Qed.
Lemma sr_post_ok : Forall ok_tok sr_post. Proof. repeat constructor; cbn [ok_tok]; lia. Qed.
Lemma rel_post_ok w : Forall ok_tok (rel_post w). Proof. repeat constructor; cbn [ok_tok]; lia. Qed.
Lemma lf_post_ok : Forall ok_tok lf_post. Proof. repeat constructor; cbn [ok_tok]; lia. Qed.

Lemma lines_ok_of_line_tok lines : Forall (Forall line_tok) lines -> Forall (Forall ok_tok) lines.
Proof.
  intros H. apply Forall_forall. intros l Hl. rewrite Forall_forall in H. apply (line_toks_ok l (H l Hl)).
Qed.
