(* Proofs/TermPaintFacts.v — layer (ii) of C07/C13: what executing the tokens of one placeholder
   line does to the Spec terminal.  Every screen fact is pointwise. *)
From Coq Require Import ZArith NArith List Bool Lia ZifyN ZifyBool ZifyNat.
From Tup Require Import Spec.TermSpec.
Import ListNotations.
Open Scope Z_scope.

(* ---- background-only SGR sequences (what get_formatting produces) *)
Inductive bgspec := BgI (n : N) | BgR (r g b : N).
Definition bg_params (s : bgspec) : list N :=
  match s with BgI n => [48; 5; n]%N | BgR r g b => [48; 2; r; g; b]%N end.
Definition bg_color (s : bgspec) : color :=
  match s with BgI n => CIdx n | BgR r g b => CRgb r g b end.
Definition bg_tok (s : bgspec) : tok := TCsi (bg_params s) 109.
Definition apply_bg (a : attrs) (s : bgspec) : attrs := mkattrs (afg a) (aul a) (bg_color s).
Definition apply_bgs (a : attrs) (l : list bgspec) : attrs := fold_left apply_bg l a.

(* one cell as a token group: background changes, a width-1 character, combining characters *)
Record item := mkitem { it_bg : list bgspec; it_ch : N; it_comb : list N }.
Definition item_toks (it : item) : list tok :=
  map bg_tok (it_bg it) ++ TChar (it_ch it) :: map TChar (it_comb it).
Definition item_ok (it : item) : Prop :=
  zero_width (it_ch it) = false /\ it_ch it <> 0%N /\ Forall (fun c => zero_width c = true) (it_comb it).

Fixpoint cells_of (a : attrs) (its : list item) : list cell :=
  match its with
  | [] => []
  | it :: r => let a' := apply_bgs a (it_bg it) in
               mkcell (it_ch it) (it_comb it) (afg a') (aul a') (abg a') :: cells_of a' r
  end.
Fixpoint attrs_after (a : attrs) (its : list item) : attrs :=
  match its with [] => a | it :: r => attrs_after (apply_bgs a (it_bg it)) r end.

Lemma cells_of_length a its : length (cells_of a its) = length its.
Proof. revert a; induction its as [|it r IH]; intros a; cbn [cells_of length]; [reflexivity|]. rewrite IH. reflexivity. Qed.

Definition frame (t t' : term) : Prop :=
  sx t' = sx t /\ sy t' = sy t /\ spend t' = spend t /\ ssgr t' = ssgr t.
Lemma frame_refl t : frame t t. Proof. repeat split. Qed.
Lemma frame_trans a b c : frame a b -> frame b c -> frame a c.
Proof. unfold frame. intros (A1 & A2 & A3 & A4) (B1 & B2 & B3 & B4). repeat split; congruence. Qed.

(* the screen [s] with [cells] written on line y0 from column x0 *)
Definition painted (s : Z -> Z -> cell) (y0 x0 : Z) (cells : list cell) : Z -> Z -> cell :=
  fun y x => if (y =? y0) && (x0 <=? x) && (x <? x0 + Z.of_nat (length cells))
             then nth (Z.to_nat (x - x0)) cells blank_cell else s y x.

Section Sized.
Variables W H : Z.
Hypothesis HW : 0 < W.
Hypothesis HH : 0 < H.

Notation run := (run W H).
Notation exec := (exec W H).

Lemma run_app t a b : run t (a ++ b) = run (run t a) b.
Proof. unfold TermSpec.run. apply fold_left_app. Qed.
Lemma run_cons t k r : run t (k :: r) = run (exec t k) r.
Proof. reflexivity. Qed.
Lemma run_nil t : run t [] = t.
Proof. reflexivity. Qed.

Lemma exec_sgr t ps : exec t (TCsi ps 109) = set_sgr t (sgr_csi (sgr t) ps).
Proof. reflexivity. Qed.
Lemma exec_save t : exec t (TCsi [] 115) = save_cursor t.
Proof. reflexivity. Qed.
Lemma exec_restore t : exec t (TCsi [] 117) = restore_cursor t.
Proof. reflexivity. Qed.
Lemma exec_ind t : exec t (TEsc 68) = index_down H t.
Proof. reflexivity. Qed.
Lemma exec_lf t : exec t (TCtl 10) = index_down H t.
Proof. reflexivity. Qed.
Lemma exec_cr t : exec t (TCtl 13) = set_cursor t 0 (cy t) false.
Proof. reflexivity. Qed.
Lemma exec_cub t n : exec t (TCsi [n] 68) = set_cursor t (clampx W (cx t - par1 [n] 0)) (cy t) false.
Proof. reflexivity. Qed.
Lemma exec_cup t r c : exec t (TCsi [r; c] 72) = set_cursor t (clampx W (par1 [r; c] 1 - 1)) (clampy H (par1 [r; c] 0 - 1)) false.
Proof. reflexivity. Qed.
Lemma exec_put t cp : zero_width cp = false -> exec t (TChar cp) = put W H t cp.
Proof. intros E. cbn [TermSpec.exec]. rewrite E. reflexivity. Qed.
Lemma exec_attach t cp : zero_width cp = true -> exec t (TChar cp) = attach t cp.
Proof. intros E. cbn [TermSpec.exec]. rewrite E. reflexivity. Qed.

Lemma sgr_bg a s : sgr_csi a (bg_params s) = apply_bg a s.
Proof. destruct s; reflexivity. Qed.

(* SGR tokens touch nothing but the SGR state *)
Lemma run_bgs : forall l t, run t (map bg_tok l) = set_sgr t (apply_bgs (sgr t) l).
Proof.
  induction l as [|s l IH]; intros t.
  - destruct t; reflexivity.
  - cbn [map]. rewrite run_cons. unfold bg_tok at 1. rewrite exec_sgr, sgr_bg, IH. reflexivity.
Qed.

(* combining characters extend the cell left of the cursor *)
Lemma run_combs : forall combs t x0 c0,
  Forall (fun c => zero_width c = true) combs ->
  (if pend t then cx t else cx t - 1) = x0 -> 0 <= x0 -> scr t (cy t) x0 = c0 -> ch c0 <> 0%N ->
  let t' := run t (map TChar combs) in
  cx t' = cx t /\ cy t' = cy t /\ pend t' = pend t /\ sgr t' = sgr t /\ frame t t' /\
  forall y x, scr t' y x = if (y =? cy t) && (x =? x0)
                           then mkcell (ch c0) (comb c0 ++ combs) (cfg c0) (cul c0) (cbg c0) else scr t y x.
Proof.
  induction combs as [|cp combs IH]; intros t x0 c0 Hz Hx0 Hx0' Hc0 Hch; cbv zeta.
  - cbn [map]. rewrite run_nil. repeat split; try reflexivity. intros y x.
    destruct ((y =? cy t) && (x =? x0)) eqn:E; [|reflexivity].
    assert (y = cy t) by lia. assert (x = x0) by lia. subst y x. rewrite Hc0, app_nil_r. destruct c0; reflexivity.
  - inversion_clear Hz as [|? ? Hcp Hrest]. cbn [map]. rewrite run_cons, exec_attach by exact Hcp.
    set (c1 := mkcell (ch c0) (comb c0 ++ [cp]) (cfg c0) (cul c0) (cbg c0)).
    assert (Ha : attach t cp = set_scr t (upd (scr t) (cy t) x0 c1)).
    { unfold attach. rewrite Hx0. destruct (x0 <? 0) eqn:E; [lia|]. rewrite Hc0.
      destruct (ch c0 =? 0)%N eqn:E2; [lia|]. reflexivity. }
    rewrite Ha. set (t1 := set_scr t (upd (scr t) (cy t) x0 c1)).
    specialize (IH t1 x0 c1 Hrest). cbv zeta in IH.
    destruct IH as (I1 & I2 & I3 & I4 & I5 & I6).
    + exact Hx0.
    + exact Hx0'.
    + cbn [t1 set_scr scr cy]. unfold upd. rewrite !Z.eqb_refl. reflexivity.
    + exact Hch.
    + split; [exact I1|]. split; [exact I2|]. split; [exact I3|]. split; [exact I4|]. split; [exact I5|].
      intros y x. rewrite I6. cbn [t1 set_scr scr cy cx]. unfold upd.
      destruct ((y =? cy t) && (x =? x0)) eqn:E; [|reflexivity].
      cbn [c1 ch comb cfg cul cbg]. rewrite <- app_assoc. reflexivity.
Qed.

(* one item from a state without pending wrap *)
Lemma run_item it t : item_ok it -> pend t = false -> 0 <= cx t < W ->
  let t' := run t (item_toks it) in
  let a' := apply_bgs (sgr t) (it_bg it) in
  cy t' = cy t /\ frame t t' /\ sgr t' = a' /\
  (if cx t =? W - 1 then cx t' = cx t /\ pend t' = true else cx t' = cx t + 1 /\ pend t' = false) /\
  forall y x, scr t' y x = if (y =? cy t) && (x =? cx t)
                           then mkcell (it_ch it) (it_comb it) (afg a') (aul a') (abg a') else scr t y x.
Proof.
  intros (Hzw & Hnz & Hcomb) Hp Hx. cbv zeta. unfold item_toks.
  rewrite run_app, run_bgs, run_cons, exec_put by exact Hzw.
  set (a' := apply_bgs (sgr t) (it_bg it)).
  set (c := mkcell (it_ch it) [] (afg a') (aul a') (abg a')).
  set (t1 := put W H (set_sgr t a') (it_ch it)).
  assert (P : cy t1 = cy t /\ frame t t1 /\ sgr t1 = a' /\
              (if cx t =? W - 1 then cx t1 = cx t /\ pend t1 = true else cx t1 = cx t + 1 /\ pend t1 = false) /\
              forall y x, scr t1 y x = if (y =? cy t) && (x =? cx t) then c else scr t y x).
  { unfold t1, put, wrap. cbn [set_sgr pend]. rewrite Hp. cbn [set_sgr cx cy sgr scr].
    destruct (cx t =? W - 1) eqn:E; cbn [set_scr set_cursor cx cy pend sgr scr sx sy spend ssgr]; unfold frame;
      cbn [sx sy spend ssgr]; repeat split; reflexivity. }
  destruct P as (P1 & P2 & P3 & P4 & P5).
  pose proof (run_combs (it_comb it) t1 (cx t) c Hcomb) as R. cbv zeta in R.
  destruct R as (R1 & R2 & R3 & R4 & R5 & R6).
  - destruct (cx t =? W - 1) eqn:E; destruct P4 as [Q1 Q2]; rewrite Q2, Q1; lia.
  - lia.
  - rewrite P1, P5, !Z.eqb_refl. reflexivity.
  - exact Hnz.
  - split; [congruence|]. split; [eapply frame_trans; eassumption|]. split; [congruence|].
    split; [destruct (cx t =? W - 1) eqn:E; destruct P4 as [Q1 Q2]; split; congruence|].
    intros y x. rewrite R6, P1, P5. destruct ((y =? cy t) && (x =? cx t)) eqn:E; reflexivity.
Qed.

(* a run of items *)
Lemma run_items : forall its t, Forall item_ok its -> pend t = false -> 0 <= cx t -> its <> [] ->
  cx t + Z.of_nat (length its) <= W ->
  let t' := run t (flat_map item_toks its) in
  let n := Z.of_nat (length its) in
  cy t' = cy t /\ frame t t' /\ sgr t' = attrs_after (sgr t) its /\
  (if cx t + n =? W then cx t' = W - 1 /\ pend t' = true else cx t' = cx t + n /\ pend t' = false) /\
  forall y x, scr t' y x = painted (scr t) (cy t) (cx t) (cells_of (sgr t) its) y x.
Proof.
  induction its as [|it its IH]; intros t Hok Hp Hx Hne Hfit; [congruence|]. cbv zeta.
  inversion_clear Hok as [|? ? Hit Hrest]. cbn [flat_map]. rewrite run_app.
  cbn [length] in Hfit.
  pose proof (run_item it t Hit Hp ltac:(lia)) as R. cbv zeta in R. destruct R as (R1 & R2 & R3 & R4 & R5).
  set (t1 := run t (item_toks it)) in *.
  destruct its as [|it2 its'].
  - (* last item *)
    cbn [flat_map]. rewrite run_nil. cbn [length attrs_after cells_of].
    split; [exact R1|]. split; [exact R2|]. split; [exact R3|]. split.
    + replace (Z.of_nat 1) with 1 by lia.
      destruct (cx t =? W - 1) eqn:E; destruct (cx t + 1 =? W) eqn:E'; try lia; assumption.
    + intros y x. rewrite R5. unfold painted. cbn [length].
      destruct ((y =? cy t) && (x =? cx t)) eqn:E1.
      * destruct ((y =? cy t) && (cx t <=? x) && (x <? cx t + Z.of_nat 1)) eqn:E2; [|lia].
        replace (x - cx t) with 0 by lia. reflexivity.
      * destruct ((y =? cy t) && (cx t <=? x) && (x <? cx t + Z.of_nat 1)) eqn:E2; [lia|reflexivity].
  - set (its := it2 :: its') in *.
    assert (Hlen : 1 <= Z.of_nat (length its)) by (unfold its; cbn [length]; lia).
    destruct (cx t =? W - 1) eqn:E; [lia|]. destruct R4 as [R4a R4b].
    specialize (IH t1 Hrest R4b ltac:(lia) ltac:(discriminate) ltac:(lia)). cbv zeta in IH.
    destruct IH as (I1 & I2 & I3 & I4 & I5).
    split; [congruence|]. split; [eapply frame_trans; eassumption|]. split; [rewrite I3, R3; reflexivity|]. split.
    + rewrite R4a in I4. cbn [length].
      replace (cx t + Z.of_nat (S (length its))) with (cx t + 1 + Z.of_nat (length its)) by lia. exact I4.
    + intros y x. rewrite I5. unfold painted. rewrite R1, R4a, R3, R5. cbn [cells_of length].
      rewrite !cells_of_length.
      set (a' := apply_bgs (sgr t) (it_bg it)).
      destruct ((y =? cy t) && (cx t + 1 <=? x) && (x <? cx t + 1 + Z.of_nat (length its))) eqn:E1.
      * destruct ((y =? cy t) && (cx t <=? x) && (x <? cx t + Z.of_nat (S (length its)))) eqn:E2; [|lia].
        replace (Z.to_nat (x - cx t)) with (S (Z.to_nat (x - (cx t + 1)))) by lia. reflexivity.
      * destruct ((y =? cy t) && (x =? cx t)) eqn:E3.
        -- destruct ((y =? cy t) && (cx t <=? x) && (x <? cx t + Z.of_nat (S (length its)))) eqn:E2; [|lia].
           replace (x - cx t) with 0 by lia. reflexivity.
        -- destruct ((y =? cy t) && (cx t <=? x) && (x <? cx t + Z.of_nat (S (length its)))) eqn:E2; [lia|reflexivity].
Qed.

(* ---- a whole line: SGR prefix, items, reset *)
Definition is_sgr (k : tok) : Prop := exists ps, k = TCsi ps 109.
Definition sgr_of (k : tok) (a : attrs) : attrs :=
  match k with TCsi ps _ => sgr_csi a ps | _ => a end.
Definition sgrs_after (a : attrs) (pre : list tok) : attrs := fold_left (fun a k => sgr_of k a) pre a.

Lemma run_sgrs : forall pre t, Forall is_sgr pre -> run t pre = set_sgr t (sgrs_after (sgr t) pre).
Proof.
  induction pre as [|k pre IH]; intros t Hs.
  - destruct t; reflexivity.
  - inversion_clear Hs as [|? ? [ps ->] Hrest]. rewrite run_cons, exec_sgr, IH by exact Hrest. reflexivity.
Qed.

Definition reset_tok : tok := TCsi [0%N] 109.
Definition line_toks (pre : list tok) (its : list item) : list tok :=
  pre ++ flat_map item_toks its ++ [reset_tok].

(* [paints l cells]: from any state without pending wrap in which the cells fit, the token list l
   writes exactly [cells] at the cursor, leaves the saved cursor alone and ends with default SGR *)
Definition paints (l : list tok) (cells : list cell) : Prop :=
  cells <> [] /\
  forall t, pend t = false -> 0 <= cx t -> cx t + Z.of_nat (length cells) <= W ->
    let t' := run t l in
    let n := Z.of_nat (length cells) in
    cy t' = cy t /\ frame t t' /\ sgr t' = default_attrs /\
    (if cx t + n =? W then cx t' = W - 1 /\ pend t' = true else cx t' = cx t + n /\ pend t' = false) /\
    forall y x, scr t' y x = painted (scr t) (cy t) (cx t) cells y x.

(* the cells depend on the SGR state only through the prefix when the prefix starts with a reset *)
Lemma line_paints pre its a1 :
  Forall is_sgr pre -> (forall a, sgrs_after a pre = a1) -> Forall item_ok its -> its <> [] ->
  paints (line_toks pre its) (cells_of a1 its).
Proof.
  intros Hpre Ha Hok Hne. split.
  { destruct its; [congruence|]. cbn [cells_of]. discriminate. }
  intros t Hp Hx Hfit. cbv zeta. rewrite cells_of_length in *. unfold line_toks.
  rewrite run_app. rewrite (run_sgrs pre t Hpre). rewrite Ha.
  set (t1 := set_sgr t a1).
  rewrite run_app.
  pose proof (run_items its t1 Hok Hp Hx Hne Hfit) as R. cbv zeta in R.
  destruct R as (R1 & R2 & R3 & R4 & R5).
  set (t2 := run t1 (flat_map item_toks its)) in *.
  rewrite run_cons, run_nil. unfold reset_tok. rewrite exec_sgr.
  cbn [set_sgr cy sgr cx pend scr]. unfold frame in *. cbn [sx sy spend ssgr]. cbn [t1 set_sgr sx sy spend ssgr cx cy scr sgr] in *.
  repeat split; tauto.
Qed.

End Sized.
