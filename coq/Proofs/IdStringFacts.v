(* Proofs/IdStringFacts.v — printing and parsing of spaces and subspaces round-trip. *)
From Coq Require Import ZArith NArith List Bool Lia ZifyN ZifyBool ZifyNat.
From Tup Require Import Lib.IdSpaceTy Spec.IdLayoutSpec Model.IdSpace Proofs.IdLayoutFacts Proofs.IdEnumFacts.
Import ListNotations.
Open Scope N_scope.

Theorem space_string_roundtrip sp : space_from_string (space_to_string sp) = Some sp.
Proof. destruct sp; vm_compute; reflexivity. Qed.

(* the valid subspaces are a finite set (0 <= b < e <= 256): checked one by one *)
Definition rt_ok (s : N * N) : bool :=
  negb (valid_sub_b s) ||
  match sub_from_string (sub_to_string s) with
  | Some s' => (fst s' =? fst s) && (snd s' =? snd s)
  | None => false
  end.
Lemma rt_all : forallb (fun b => forallb (fun e => rt_ok (b, e)) (nrange 0 257)) (nrange 0 257) = true.
Proof. vm_compute. reflexivity. Qed.

Theorem subspace_string_roundtrip s : valid_sub s -> sub_from_string (sub_to_string s) = Some s.
Proof.
  intros Hv. pose proof Hv as (H1 & H2 & H3). destruct s as [b e]. cbn [fst snd] in *.
  pose proof rt_all as H. rewrite forallb_forall in H.
  specialize (H b ltac:(rewrite in_nrange; lia)). rewrite forallb_forall in H.
  specialize (H e ltac:(rewrite in_nrange; lia)). unfold rt_ok in H.
  rewrite (proj2 (valid_sub_b_iff (b, e)) Hv) in H. cbn [negb orb] in H.
  destruct (sub_from_string (sub_to_string (b, e))) as [[b' e']|]; [|discriminate].
  cbn [fst snd] in H. f_equal. f_equal; lia.
Qed.
