From Coq Require Import ZArith NArith List Bool Lia ZifyN ZifyBool ZifyNat.
From Tup Require Import Model.UploadModel Spec.RetentionSpec.
Import ListNotations.
Open Scope Z_scope.

(* ------------------------------------------------------------------ small list facts *)
Lemma total_filter_le s (p : urow -> bool) : Forall (fun x => 0 <= rsize x) s -> total (filter p s) <= total s.
Proof. induction 1 as [|x s Hx _ IH]; cbn [filter total]; [lia|]. destruct (p x); cbn [total]; lia. Qed.
Lemma length_filter_le {A} (p : A -> bool) s : (length (filter p s) <= length s)%nat.
Proof. induction s as [|x s IH]; cbn [filter length]; [lia|]. destruct (p x); cbn [length]; lia. Qed.
Lemma filter_comm {A} (p q : A -> bool) s : filter p (filter q s) = filter q (filter p s).
Proof.
  induction s as [|x s IH]; [reflexivity|]. cbn [filter].
  destruct (q x) eqn:Eq; destruct (p x) eqn:Ep; cbn [filter]; rewrite ?Eq, ?Ep, IH; reflexivity.
Qed.
Lemma forall_filter {A} (P : A -> Prop) p s : Forall P s -> Forall P (filter p s).
Proof. induction 1 as [|x s Hx _ IH]; cbn [filter]; [constructor|]. destruct (p x); [constructor|]; assumption. Qed.
Lemma filter_ext_in_eq {A} (p q : A -> bool) s : (forall x, In x s -> p x = q x) -> filter p s = filter q s.
Proof.
  induction s as [|x s IH]; intro H; [reflexivity|]. cbn [filter]. rewrite (H x (or_introl eq_refl)).
  rewrite IH; [reflexivity|]. intros y Hy. apply H. right. exact Hy.
Qed.

Lemma filter_all_true {A} (p : A -> bool) s : (forall x, In x s -> p x = true) -> filter p s = s.
Proof.
  induction s as [|x s IH]; intro H; [reflexivity|]. cbn [filter]. rewrite (H x (or_introl eq_refl)).
  f_equal. apply IH. intros y Hy. apply H. right. exact Hy.
Qed.

Definition key (x : urow) : N * N := (rid x, rterm x).

Lemma same_key_iff id t x : same_key id t x = true <-> key x = (id, t).
Proof. unfold same_key, key. split; [intro H; f_equal; lia|intro H; inversion H; subst; lia]. Qed.

(* ------------------------------------------------------------------ monotonicity of "expired" *)
Lemma newer_filter s p t time : newer (filter p s) t time = filter p (newer s t time).
Proof. unfold newer. apply filter_comm. Qed.

Lemma expired_mono s p r now Nmax Bmax Tmax : Forall (fun x => 0 <= rsize x) s ->
  expired (filter p s) r now Nmax Bmax Tmax = true -> expired s r now Nmax Bmax Tmax = true.
Proof.
  intros Hs. unfold expired, bytes_ago, uploads_ago. rewrite newer_filter.
  pose proof (total_filter_le (newer s (rterm r) (rtime r)) p ltac:(apply forall_filter; exact Hs)).
  pose proof (length_filter_le p (newer s (rterm r) (rtime r))). lia.
Qed.
Lemma expired_later s r now now' Nmax Bmax Tmax : now <= now' ->
  expired s r now Nmax Bmax Tmax = true -> expired s r now' Nmax Bmax Tmax = true.
Proof. unfold expired. intros. lia. Qed.

(* ------------------------------------------------------------------ upsert *)
Definition remove_key (id t : N) (s : utable) : utable := filter (fun x => negb (same_key id t x)) s.

Lemma in_remove_key id t s x : In x (remove_key id t s) <-> In x s /\ key x <> (id, t).
Proof.
  unfold remove_key. rewrite filter_In. split; intros [H1 H2]; (split; [assumption|]).
  - intros E. apply same_key_iff in E. rewrite E in H2. discriminate.
  - destruct (same_key id t x) eqn:E; [apply same_key_iff in E; contradiction|reflexivity].
Qed.
Lemma remove_key_absent id t s : ~ In (id, t) (map key s) -> remove_key id t s = s.
Proof.
  unfold remove_key. induction s as [|x s IH]; cbn [map filter In]; intros H; [reflexivity|].
  destruct (same_key id t x) eqn:E; [apply same_key_iff in E; tauto|]. cbn [negb]. f_equal. apply IH. tauto.
Qed.
Lemma nodup_remove_key id t s : NoDup (map key s) -> NoDup (map key (remove_key id t s)).
Proof.
  unfold remove_key. induction s as [|x s IH]; cbn [map filter]; intros H; [constructor|].
  inversion_clear H as [|? ? Hx Hs]. destruct (same_key id t x); cbn [negb map]; [apply IH; assumption|].
  constructor; [|apply IH; assumption]. intros Hin. apply Hx. apply in_map_iff in Hin as (y & Hy & Hin).
  apply in_map_iff. exists y. split; [assumption|]. apply filter_In in Hin. tauto.
Qed.

(* replacing the (at most one) row of (id,t) by a row that is not smaller can only increase what the database
   counts "since time" on terminal t, once the new row itself is counted *)
Lemma counts_after_upsert s id t size time :
  NoDup (map key s) -> Forall (fun x => 0 <= rsize x) s -> 0 <= size ->
  (forall x, In x s -> key x = (id, t) -> rsize x <= size) ->
  (length (newer s t time) <= S (length (newer (remove_key id t s) t time)))%nat /\
  total (newer s t time) <= size + total (newer (remove_key id t s) t time).
Proof.
  intros Hnd Hs Hsz Hle. induction s as [|x s IH].
  - cbn. lia.
  - cbn [map] in Hnd. inversion_clear Hnd as [|? ? Hx Hnd']. inversion_clear Hs as [|? ? Hx0 Hs'].
    destruct (same_key id t x) eqn:E.
    + pose proof (proj1 (same_key_iff id t x) E) as Ek.
      assert (Hrm : remove_key id t (x :: s) = s).
      { unfold remove_key. cbn [filter]. rewrite E. cbn [negb]. apply remove_key_absent. rewrite <- Ek. exact Hx. }
      rewrite Hrm. unfold newer. cbn [filter]. specialize (Hle x (or_introl eq_refl) Ek).
      destruct ((rterm x =? t)%N && (time <? rtime x)); cbn [length total]; lia.
    + assert (Hrm : remove_key id t (x :: s) = x :: remove_key id t s).
      { unfold remove_key. cbn [filter]. rewrite E. reflexivity. }
      rewrite Hrm. destruct IH as [IH1 IH2]; [assumption|assumption|intros y Hy; apply Hle; right; exact Hy|].
      unfold newer in *. cbn [filter]. destruct ((rterm x =? t)%N && (time <? rtime x)); cbn [length total]; lia.
Qed.

(* rows of another terminal do not enter the counts *)
Lemma newer_other_terminal s id t t' time e : t' <> t -> rterm e = t ->
  newer (e :: remove_key id t s) t' time = newer s t' time.
Proof.
  intros Hne He. unfold newer. cbn [filter].
  destruct ((rterm e =? t')%N && (time <? rtime e)) eqn:E; [lia|].
  unfold remove_key. rewrite filter_comm. apply filter_all_true. intros x Hx.
  apply filter_In in Hx. destruct Hx as [_ Hx]. unfold same_key.
  destruct ((rid x =? id)%N && (rterm x =? t)%N) eqn:E2; [lia|reflexivity].
Qed.

Section Thresholds.
Variables Nmax Bmax Tmax : Z.

Definition Inv (w : world) : Prop :=
  NoDup (map key (up w)) /\
  NoDup (map rtime (up w)) /\
  Forall (fun x => 0 <= rsize x /\ rtime x <= clock w) (up w) /\
  (* whatever a terminal no longer holds is, by the database's own count, due for re-upload *)
  (forall r, In r (up w) -> held w (rterm r) (rid r) = false -> expired (up w) r (clock w) Nmax Bmax Tmax = true) /\
  (* a row whose image the terminal still holds describes that image *)
  (forall r, In r (up w) -> held w (rterm r) (rid r) = true -> image w (rterm r) (rid r) = Some (rdesc r)).

Lemma nonneg_sizes w : Inv w -> Forall (fun x => 0 <= rsize x) (up w).
Proof. intros (_ & _ & H & _). eapply Forall_impl; [|exact H]. intros x [Hx _]; exact Hx. Qed.

Lemma unique_key s r r' : NoDup (map key s) -> In r s -> In r' s -> key r = key r' -> r = r'.
Proof.
  induction s as [|x s IH]; intros Hnd Hr Hr' Hk; [contradiction|].
  cbn [map] in Hnd. inversion_clear Hnd as [|? ? Hx Hnd'].
  destruct Hr as [->|Hr], Hr' as [->|Hr']; try reflexivity.
  - exfalso. apply Hx. apply in_map_iff. exists r'. split; [congruence|assumption].
  - exfalso. apply Hx. apply in_map_iff. exists r. split; [congruence|assumption].
  - apply IH; assumption.
Qed.

Lemma find_row_in s id t r : find_row s id t = Some r -> In r s /\ key r = (id, t).
Proof. unfold find_row. intro H. apply find_some in H. destruct H as [H1 H2]. split; [exact H1|apply same_key_iff; exact H2]. Qed.

(* cleanup keeps, with every kept row, all rows that are newer *)
Lemma cleanup_keeps_newer s n r y : In r (cleanup_uploads s n) -> In y s -> rtime r < rtime y -> In y (cleanup_uploads s n).
Proof.
  unfold cleanup_uploads. rewrite !filter_In. intros [Hr Hc] Hy Hlt. split; [exact Hy|].
  assert (L : (length (filter (fun z => (rtime y <? rtime z)%Z) s) <= length (filter (fun z => (rtime r <? rtime z)%Z) s))%nat).
  { clear - Hlt. induction s as [|z s IH]; cbn [filter length]; [lia|].
    destruct (rtime y <? rtime z) eqn:E1; destruct (rtime r <? rtime z) eqn:E2; cbn [length]; lia. }
  lia.
Qed.
Lemma newer_cleanup s n r : In r (cleanup_uploads s n) ->
  newer (cleanup_uploads s n) (rterm r) (rtime r) = newer s (rterm r) (rtime r).
Proof.
  intro Hr. unfold newer. unfold cleanup_uploads at 1. rewrite filter_comm.
  set (q := fun x : urow => (rterm x =? rterm r)%N && (rtime r <? rtime x)).
  set (p := fun x : urow => Z.of_nat (length (filter (fun y => rtime x <? rtime y) s)) <? n).
  assert (H : forall x, In x (filter q s) -> p x = true).
  { intros x Hx. apply filter_In in Hx. destruct Hx as [Hx Hq]. unfold q in Hq.
    assert (Hin : In x (cleanup_uploads s n)) by (apply (cleanup_keeps_newer s n r x Hr Hx); lia).
    unfold cleanup_uploads in Hin. apply filter_In in Hin. exact (proj2 Hin). }
  clear - H. induction (filter q s) as [|x l IH]; [reflexivity|]. cbn [filter].
  rewrite (H x (or_introl eq_refl)). f_equal. apply IH. intros y Hy. apply H. right. exact Hy.
Qed.

Lemma nodup_map_filter {A B} (f : A -> B) p (s : list A) : NoDup (map f s) -> NoDup (map f (filter p s)).
Proof.
  induction s as [|x s IH]; cbn [map filter]; intro H; [constructor|]. inversion_clear H as [|? ? Hx Hs].
  destruct (p x); [|apply IH; exact Hs]. cbn [map]. constructor; [|apply IH; exact Hs].
  intro Hin. apply Hx. apply in_map_iff in Hin as (y & Hy & Hin). apply in_map_iff. exists y. split; [exact Hy|].
  apply filter_In in Hin. tauto.
Qed.

Lemma step_inv w e w' :
  Inv w ->
  (match e with Transmit id t size _ => forallb (fun x => rsize x <=? size) (filter (same_key id t) (up w)) = true | _ => True end) ->
  step Nmax Bmax Tmax w e = Some w' -> Inv w'.
Proof.
  intros HI Hshrink Hstep. pose proof (nonneg_sizes w HI) as Hs0.
  destruct HI as (Hnd & Hnt & Hrows & Hexp & Himg).
  destruct e as [id d|id|id t size time|t id now|n]; cbn [step] in Hstep.
  - injection Hstep as <-. repeat split; assumption.
  - injection Hstep as <-. repeat split; assumption.
  - destruct (cur w id) as [d|] eqn:Ecur; [|discriminate].
    destruct ((clock w <? time) && (0 <=? size)) eqn:Ec; [|discriminate].
    injection Hstep as <-. apply andb_true_iff in Ec as [Hclk Hsz].
    rewrite forallb_forall in Hshrink.
    assert (Hle : forall x, In x (up w) -> key x = (id, t) -> rsize x <= size).
    { intros x Hx Hk. specialize (Hshrink x). rewrite filter_In in Hshrink.
      assert (rsize x <=? size = true) by (apply Hshrink; split; [assumption|apply same_key_iff; assumption]). lia. }
    set (e := {| rid := id; rterm := t; rdesc := d; rsize := size; rtime := time |}).
    unfold Inv. cbn [up held image clock cur]. unfold mark_uploaded. rewrite Ecur. fold (remove_key id t (up w)). fold e.
    rewrite Forall_forall in Hrows.
    split; [|split; [|split; [|split]]].
    + cbn [map]. constructor; [|apply nodup_remove_key; exact Hnd].
      intros Hin. apply in_map_iff in Hin as (y & Hy & Hin). apply in_remove_key in Hin. cbn [e key rid rterm] in Hy. tauto.
    + cbn [map]. constructor; [|apply nodup_map_filter; exact Hnt].
      intros Hin. apply in_map_iff in Hin as (y & Hy & Hin). apply in_remove_key in Hin. destruct Hin as [Hin _].
      pose proof (Hrows y Hin). cbn [e rtime] in Hy. lia.
    + constructor; [cbn [e rsize rtime]; lia|].
      apply Forall_forall. intros x Hx. apply in_remove_key in Hx as [Hx _]. specialize (Hrows x Hx). lia.
    + intros r Hr Hheld. destruct Hr as [<-|Hr].
      { cbn [e rid rterm] in Hheld. unfold upd2 in Hheld. rewrite !N.eqb_refl in Hheld. discriminate. }
      apply in_remove_key in Hr as [Hr Hne].
      assert (Hheld0 : held w (rterm r) (rid r) = false).
      { unfold upd2 in Hheld. destruct ((rterm r =? t)%N && (rid r =? id)%N) eqn:E; [discriminate|exact Hheld]. }
      specialize (Hexp r Hr Hheld0). pose proof (Hrows r Hr) as [_ Hrt].
      destruct (N.eq_dec (rterm r) t) as [Et|Et].
      * destruct (counts_after_upsert (up w) id t size (rtime r) Hnd Hs0 ltac:(lia) Hle) as [C1 C2].
        unfold expired, uploads_ago, bytes_ago in *. rewrite Et in *. unfold newer at 1 2. cbn [filter].
        assert (Ht : ((rterm e =? t)%N && (rtime r <? rtime e)) = true) by (cbn [e rterm rtime]; lia). rewrite Ht. cbn [length total].
        fold (newer (remove_key id t (up w)) t (rtime r)). cbn [e rsize]. lia.
      * unfold expired, uploads_ago, bytes_ago in *.
        rewrite (newer_other_terminal (up w) id t (rterm r) (rtime r) e Et eq_refl). lia.
    + intros r Hr Hheld. destruct Hr as [<-|Hr].
      { cbn [e rid rterm rdesc]. unfold upd2. rewrite !N.eqb_refl. reflexivity. }
      apply in_remove_key in Hr as [Hr Hne]. unfold upd2 in *.
      destruct ((rterm r =? t)%N && (rid r =? id)%N) eqn:E.
      { exfalso. apply Hne. unfold key. f_equal; lia. }
      apply Himg; assumption.
  - destruct (find_row (tstore w t) id t) as [r0|] eqn:Ef; [|discriminate].
    destruct ((clock w <=? now) && expired (tstore w t) r0 now Nmax Bmax Tmax) eqn:Ec; [|discriminate].
    injection Hstep as <-. apply andb_true_iff in Ec as [Hclk Hev].
    unfold Inv. cbn [up held image clock cur]. split; [exact Hnd|split; [exact Hnt|split; [|split]]].
    + apply Forall_forall. intros x Hx. rewrite Forall_forall in Hrows. specialize (Hrows x Hx). lia.
    + intros r Hr Hheld. unfold upd2 in Hheld.
      destruct ((rterm r =? t)%N && (rid r =? id)%N) eqn:E.
      * apply find_row_in in Ef. destruct Ef as [Hin0 Hk0]. unfold tstore in Hin0. apply filter_In in Hin0 as [Hin0 _].
        assert (r = r0) by (apply (unique_key (up w)); [exact Hnd|exact Hr|exact Hin0|rewrite Hk0; unfold key; f_equal; lia]).
        subst r0. unfold tstore in Hev. apply (expired_mono _ _ _ _ _ _ _ Hs0 Hev).
      * specialize (Hexp r Hr Hheld). apply (expired_later _ _ (clock w)); [lia|exact Hexp].
    + intros r Hr Hheld. unfold upd2 in Hheld. destruct ((rterm r =? t)%N && (rid r =? id)%N) eqn:E; [discriminate|].
      apply Himg; assumption.
  - destruct (0 <=? n) eqn:En; [|discriminate]. injection Hstep as <-.
    unfold Inv. cbn [up held image clock cur].
    split; [apply nodup_map_filter; exact Hnd|split; [apply nodup_map_filter; exact Hnt|split; [apply forall_filter; exact Hrows|split]]].
    + intros r Hr Hheld. pose proof Hr as Hr'. unfold cleanup_uploads in Hr'. apply filter_In in Hr' as [Hr' _].
      specialize (Hexp r Hr' Hheld). unfold expired, uploads_ago, bytes_ago in *. rewrite (newer_cleanup (up w) n r Hr). exact Hexp.
    + intros r Hr Hheld. unfold cleanup_uploads in Hr. apply filter_In in Hr as [Hr _]. apply Himg; assumption.
Qed.

Lemma run_inv h : forall w w', Inv w -> no_shrink w h Nmax Bmax Tmax = true -> run Nmax Bmax Tmax w h = Some w' -> Inv w'.
Proof.
  induction h as [|e h IH]; intros w w' Hi Hns Hr; cbn [run] in Hr; [injection Hr as <-; exact Hi|].
  cbn [no_shrink] in Hns. apply andb_true_iff in Hns. destruct Hns as [Hs1 Hs2].
  destruct (step Nmax Bmax Tmax w e) as [w1|] eqn:E; [|discriminate].
  apply (IH w1); [eapply step_inv; [exact Hi| |exact E]|exact Hs2|exact Hr].
  destruct e; try exact I. exact Hs1.
Qed.

Lemma init_inv t0 : Inv (init t0).
Proof. unfold Inv, init. cbn [up held image clock]. repeat split; try constructor; intros r []. Qed.

(* the "Hence" sentence, for histories without shrinking re-sends *)
Theorem never_stale_partial t0 h w t id :
  run Nmax Bmax Tmax (init t0) h = Some w ->
  no_shrink (init t0) h Nmax Bmax Tmax = true ->
  cur w id <> None ->
  needs_uploading (cur w) (up w) id t (clock w) Nmax Bmax Tmax = false ->
  shows_current w t id.
Proof.
  intros Hrun Hns Hcur Hneed. pose proof (run_inv h _ _ (init_inv t0) Hns Hrun) as (Hnd & Hnt & Hrows & Hexp & Himg).
  unfold needs_uploading in Hneed. destruct (cur w id) as [d|] eqn:Ecur; [|congruence].
  destruct (find_row (up w) id t) as [r|] eqn:Ef; [|discriminate].
  apply orb_false_iff in Hneed as [Hd He]. apply find_row_in in Ef. destruct Ef as [Hin Hk]. unfold key in Hk. injection Hk as Hid Ht.
  assert (Hh : held w (rterm r) (rid r) = true).
  { destruct (held w (rterm r) (rid r)) eqn:Eh; [reflexivity|]. specialize (Hexp r Hin Eh). congruence. }
  exists d. split; [exact Ecur|]. pose proof (Himg r Hin Hh) as Hi. rewrite Hid, Ht in *. split; [exact Hh|].
  rewrite Hi. f_equal. destruct (rdesc r =? d)%N eqn:E; [lia|discriminate].
Qed.
End Thresholds.

(* ------------------------------------------------------------------ clause 1/2: what "no upload needed" means *)
(* exact characterisation of the library's answer in terms of the rows of the upload table *)
Theorem needs_uploading_iff cur up id t now Nmax Bmax Tmax d :
  cur id = Some d ->
  (needs_uploading cur up id t now Nmax Bmax Tmax = false <->
   exists r, find_row up id t = Some r /\ rdesc r = d /\
             Z.of_nat (length (newer up t (rtime r))) < Nmax /\
             rsize r + total (newer up t (rtime r)) <= Bmax /\
             now - rtime r <= Tmax).
Proof.
  intro Hc. unfold needs_uploading. rewrite Hc. destruct (find_row up id t) as [r|] eqn:Ef.
  - pose proof (find_row_in up id t r Ef) as [_ Hk]. unfold key in Hk. injection Hk as Hid Ht.
    unfold expired, uploads_ago, bytes_ago. rewrite Ht. split.
    + intro H. exists r. split; [reflexivity|]. lia.
    + intros (r' & Hr' & H). inversion Hr'; subst r'. lia.
  - split; [discriminate|]. intros (r & Hr & _). discriminate.
Qed.

(* an unassigned id never needs uploading; an id never sent to the terminal always does *)
Theorem needs_uploading_unassigned cur up id t now Nmax Bmax Tmax : cur id = None ->
  needs_uploading cur up id t now Nmax Bmax Tmax = false.
Proof. intro H. unfold needs_uploading. rewrite H. reflexivity. Qed.

(* with shrinking re-sends allowed the unrestricted "Hence" statement is false: the database flips from
   "needs upload" back to "fine" although a terminal with a 50-byte quota has evicted image 1 (F-C04b) *)
Definition shrink_history : list event :=
  [Bind 1 100; Bind 2 200; Transmit 1 7 10 1; Transmit 2 7 100 2; Evict 7 1 2; Transmit 2 7 1 3].
Theorem never_stale_refuted :
  exists w, run 1024 50 3600 (init 0) shrink_history = Some w /\
            cur w 1%N <> None /\
            needs_uploading (cur w) (up w) 1 7 (clock w) 1024 50 3600 = false /\
            held w 7%N 1%N = false.
Proof. eexists. split; [vm_compute; reflexivity|]. split; [vm_compute; discriminate|split; vm_compute; reflexivity]. Qed.
