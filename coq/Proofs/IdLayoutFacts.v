(* Proofs/IdLayoutFacts.v — facts about Spec/IdLayoutSpec.v alone: the executable predicates decide
   the propositions; subspaces with disjoint byte ranges have no ID in common. *)
From Coq Require Import ZArith NArith List Bool Lia ZifyN ZifyBool ZifyNat.
From Tup Require Import Lib.IdSpaceTy Spec.IdLayoutSpec.
Open Scope N_scope.
Ltac Zify.zify_post_hook ::= Z.to_euclidean_division_equations.

Ltac byte_arith :=
  unfold byte in *;
  change (256 ^ 0) with 1 in *; change (256 ^ 1) with 256 in *;
  change (256 ^ 2) with 65536 in *; change (256 ^ 3) with 16777216 in *;
  change (2 ^ 32) with 4294967296 in *.

Lemma is_id_b_iff id : is_id_b id = true <-> is_id id.
Proof. unfold is_id_b, is_id. change (2 ^ 32) with 4294967296. lia. Qed.

Lemma in_space_b_iff sp id : in_space_b sp id = true <-> in_space sp id.
Proof.
  unfold in_space_b, in_space, is_id_b, is_id, nz. byte_arith.
  destruct sp; rewrite ?andb_true_iff, ?orb_true_iff, ?negb_true_iff, ?N.eqb_eq, ?N.eqb_neq, ?N.ltb_lt; tauto.
Qed.

Lemma valid_sub_b_iff s : valid_sub_b s = true <-> valid_sub s.
Proof. unfold valid_sub_b, valid_sub. lia. Qed.

Lemma in_sub_b_iff sp s id : in_sub_b sp s id = true <-> in_sub sp s id.
Proof.
  unfold in_sub_b, in_sub. rewrite !andb_true_iff, in_space_b_iff, N.leb_le, N.ltb_lt. tauto.
Qed.

Lemma byte_lt k id : byte k id < 256.
Proof. unfold byte. apply N.mod_lt. discriminate. Qed.

(* at most one space *)
Lemma in_space_unique sp sp' id : in_space sp id -> in_space sp' id -> sp = sp'.
Proof.
  unfold in_space. intros [_ H] [_ H'].
  destruct sp, sp'; try reflexivity; exfalso; tauto.
Qed.

(* disjoint byte ranges -> disjoint ID sets *)
Lemma in_sub_disjoint sp s1 s2 id :
  snd s1 <= fst s2 \/ snd s2 <= fst s1 -> ~ (in_sub sp s1 id /\ in_sub sp s2 id).
Proof. unfold in_sub. intros H [[_ H1] [_ H2]]. lia. Qed.

(* a member's subspace byte is never zero unless the space is 24bit; every valid subspace has a
   non-zero byte value *)
Lemma valid_sub_nonzero s : valid_sub s -> 1 <= nonzero_values s.
Proof. unfold valid_sub, nonzero_values. destruct (fst s =? 0) eqn:E; lia. Qed.
