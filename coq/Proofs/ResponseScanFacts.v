(* Proofs/ResponseScanFacts.v — facts about the byte-at-a-time reader and the split functions of
   Model/ResponseModel.v, stated with the Spec's notions [first_at_end] and [absent]. *)
From Coq Require Import ZArith NArith List Bool Lia ZifyN ZifyBool ZifyNat.
From Tup Require Import Lib.ByteStr Lib.ByteStrFacts Model.ResponseModel Spec.ResponseSpec.
Import ListNotations.
Open Scope N_scope.

(* ------------------------------------------------------------------ lists *)
Lemma app_prefix {A} (a b c d : list A) : a ++ b = c ++ d -> (length c <= length a)%nat ->
  exists e, a = c ++ e /\ d = e ++ b.
Proof.
  revert c. induction a as [|x a IH]; intros c H L.
  - destruct c as [|y c]; [|cbn [length] in L; lia]. exists []. cbn [app] in *. auto.
  - destruct c as [|y c].
    + exists (x :: a). cbn [app] in *. auto.
    + cbn [app] in H. injection H as -> H. cbn [length] in L.
      destruct (IH c H ltac:(lia)) as (e & -> & ->). exists e. auto.
Qed.

Lemma length_zero_nil {A} (l : list A) : length l = 0%nat -> l = [].
Proof. destruct l; [reflexivity|discriminate]. Qed.

Lemma starts_with_true p l : starts_with p l = true -> exists r, l = p ++ r.
Proof.
  unfold starts_with. destruct (strip_prefix p l) as [r|] eqn:E; [|discriminate].
  intros _. exists r. apply strip_prefix_some. exact E.
Qed.

Lemma starts_with_app p r : starts_with p (p ++ r) = true.
Proof. unfold starts_with. rewrite strip_prefix_app. reflexivity. Qed.

(* "q ends with pat", read off the reversed buffer *)
Lemma ends_with_rev pat q buf : starts_with (rev pat) (rev q ++ buf) = true ->
  (length pat <= length q)%nat -> exists pre, q = pre ++ pat.
Proof.
  intros H L. apply starts_with_true in H as (r & H).
  destruct (app_prefix (rev q) buf (rev pat) r H ltac:(rewrite !rev_length; exact L)) as (e & He & _).
  exists (rev e). rewrite <- (rev_involutive q), He, rev_app_distr, rev_involutive. reflexivity.
Qed.

Lemma ends_with_rev_nil pat q : starts_with (rev pat) (rev q) = true -> exists pre, q = pre ++ pat.
Proof.
  intros H. apply starts_with_true in H as (r & H).
  exists (rev r). rewrite <- (rev_involutive q), H, rev_app_distr, rev_involutive. reflexivity.
Qed.

(* ------------------------------------------------------------------ first_at_end / absent *)
Lemma first_at_end_nil pat : first_at_end pat [].
Proof.
  intros pre post H. cbn [app] in H. apply (f_equal (@length N)) in H.
  rewrite !app_length in H. apply length_zero_nil. lia.
Qed.

Lemma first_at_end_tail pat b n : first_at_end pat (b :: n) -> first_at_end pat n.
Proof. intros H pre post E. apply (H (b :: pre) post). cbn [app]. f_equal. exact E. Qed.

(* a prefix without the pattern's first byte cannot start an occurrence *)
Lemma first_at_end_app_free c pat a m : Forall (fun b => b <> c) a ->
  first_at_end (c :: pat) m -> first_at_end (c :: pat) (a ++ m).
Proof.
  intros Ha Hm. induction Ha as [|x a Hx _ IH]; [exact Hm|].
  intros pre post E. destruct pre as [|y pre].
  - cbn [app] in E. injection E as E _. congruence.
  - cbn [app] in E. injection E as _ E. exact (IH pre post E).
Qed.

(* ------------------------------------------------------------------ the reader *)
Lemma rev_cons_app (b : N) l buf : rev (b :: l) ++ buf = rev l ++ b :: buf.
Proof. cbn [rev]. rewrite <- app_assoc. reflexivity. Qed.

Lemma read_until_found l : forall pat_rev buf rest, l <> [] ->
  (forall k, (0 < k < length l)%nat -> starts_with pat_rev (rev (firstn k l) ++ buf) = false) ->
  starts_with pat_rev (rev l ++ buf) = true ->
  read_until pat_rev buf (l ++ rest) = Found (rev l ++ buf) rest.
Proof.
  induction l as [|b l IH]; intros pat_rev buf rest Hne Hk Hlast; [congruence|].
  cbn [app read_until]. destruct l as [|c l].
  - cbn [rev app] in Hlast. rewrite Hlast. reflexivity.
  - pose proof (Hk 1%nat ltac:(cbn [length]; lia)) as H1. cbn [firstn rev app] in H1. rewrite H1.
    rewrite (rev_cons_app b (c :: l) buf).
    apply IH.
    + discriminate.
    + intros k Hk'. specialize (Hk (S k) ltac:(cbn [length] in *; lia)).
      rewrite <- rev_cons_app. exact Hk.
    + rewrite <- rev_cons_app. exact Hlast.
Qed.

Lemma read_until_timeout l : forall pat_rev buf,
  (forall k, (0 < k <= length l)%nat -> starts_with pat_rev (rev (firstn k l) ++ buf) = false) ->
  read_until pat_rev buf l = TimedOut (rev l ++ buf).
Proof.
  induction l as [|b l IH]; intros pat_rev buf Hk; [reflexivity|].
  cbn [read_until].
  pose proof (Hk 1%nat ltac:(cbn [length]; lia)) as H1. cbn [firstn rev app] in H1. rewrite H1.
  rewrite (rev_cons_app b l buf). apply IH.
  intros k Hk'. specialize (Hk (S k) ltac:(cbn [length] in *; lia)).
  rewrite <- rev_cons_app. exact Hk.
Qed.

(* phase 1: nothing read yet *)
Lemma read_intro_found pat noise rest : pat <> [] -> first_at_end pat noise ->
  read_until (rev pat) [] (noise ++ pat ++ rest) = Found (rev (noise ++ pat)) rest.
Proof.
  intros Hp Hn. rewrite app_assoc. rewrite read_until_found.
  - rewrite app_nil_r. reflexivity.
  - destruct noise; destruct pat; cbn [app]; congruence.
  - intros k Hk. rewrite app_nil_r.
    destruct (starts_with (rev pat) (rev (firstn k (noise ++ pat)))) eqn:E; [|reflexivity].
    exfalso. apply ends_with_rev_nil in E as (pre & E).
    pose proof (firstn_skipn k (noise ++ pat)) as S. rewrite E, <- app_assoc in S.
    symmetry in S. apply Hn in S.
    apply (f_equal (@length N)) in S. rewrite skipn_length in S. cbn [length] in S. lia.
  - rewrite app_nil_r, rev_app_distr. apply starts_with_app.
Qed.

Lemma read_intro_timeout pat s : absent pat s ->
  read_until (rev pat) [] s = TimedOut (rev s).
Proof.
  intros Ha. rewrite read_until_timeout; [rewrite app_nil_r; reflexivity|].
  intros k Hk. rewrite app_nil_r.
  destruct (starts_with (rev pat) (rev (firstn k s))) eqn:E; [|reflexivity].
  exfalso. apply ends_with_rev_nil in E as (pre & E).
  apply (Ha pre (skipn k s)). rewrite app_assoc, <- E. symmetry. apply firstn_skipn.
Qed.

(* phase 2: a two-byte terminator [a; b]; the buffer ends with a byte different from a *)
Lemma firstn_1_rev (l : list N) buf k : (k = 1)%nat -> l <> [] ->
  exists x, rev (firstn k l) ++ buf = x :: buf.
Proof. intros -> H. destruct l as [|x l]; [congruence|]. exists x. reflexivity. Qed.

Lemma read_term_found a b c buf body rest : c <> a -> first_at_end [a; b] body ->
  read_until (rev [a; b]) (c :: buf) (body ++ [a; b] ++ rest)
  = Found (rev (body ++ [a; b]) ++ c :: buf) rest.
Proof.
  intros Hc Hb. rewrite app_assoc. rewrite read_until_found.
  - reflexivity.
  - destruct body; cbn [app]; congruence.
  - intros k Hk.
    destruct (starts_with (rev [a; b]) (rev (firstn k (body ++ [a; b])) ++ c :: buf)) eqn:E; [|reflexivity].
    exfalso. destruct (Nat.eq_dec k 1) as [K1|K1].
    + destruct (firstn_1_rev (body ++ [a; b]) (c :: buf) k K1 ltac:(destruct body; cbn [app]; congruence)) as (x & Hx).
      rewrite Hx in E. cbn [rev app] in E. unfold starts_with in E. cbn [strip_prefix] in E.
      destruct (b =? x); [|discriminate]. destruct (a =? c) eqn:E2; [lia|discriminate].
    + apply ends_with_rev in E as (pre & E).
      * pose proof (firstn_skipn k (body ++ [a; b])) as S. rewrite E, <- app_assoc in S.
        symmetry in S. apply Hb in S.
        apply (f_equal (@length N)) in S. rewrite skipn_length in S. cbn [length] in S. lia.
      * rewrite firstn_length. cbn [length]. lia.
  - rewrite rev_app_distr, <- app_assoc. apply starts_with_app.
Qed.

Lemma read_term_timeout a b c buf body : c <> a -> absent [a; b] body ->
  read_until (rev [a; b]) (c :: buf) body = TimedOut (rev body ++ c :: buf).
Proof.
  intros Hc Hb. apply read_until_timeout. intros k Hk.
  destruct (starts_with (rev [a; b]) (rev (firstn k body) ++ c :: buf)) eqn:E; [|reflexivity].
  exfalso. destruct (Nat.eq_dec k 1) as [K1|K1].
  - destruct (firstn_1_rev body (c :: buf) k K1 ltac:(destruct body; cbn [length] in *; [lia|congruence])) as (x & Hx).
    rewrite Hx in E. cbn [rev app] in E. unfold starts_with in E. cbn [strip_prefix] in E.
    destruct (b =? x); [|discriminate]. destruct (a =? c) eqn:E2; [lia|discriminate].
  - apply ends_with_rev in E as (pre & E).
    + apply (Hb pre (skipn k body)). rewrite app_assoc, <- E. symmetry. apply firstn_skipn.
    + rewrite firstn_length. cbn [length]. lia.
Qed.

(* ------------------------------------------------------------------ the splits *)
Lemma split_sub1_first pat noise : pat <> [] -> first_at_end pat noise -> forall tl cur,
  split_sub1 pat (noise ++ pat ++ tl) cur = Some (rev cur ++ noise, tl).
Proof.
  intros Hp. induction noise as [|b n IH]; intros Hn tl cur.
  - cbn [app]. destruct pat as [|p0 pat]; [congruence|].
    change (split_sub1 (p0 :: pat) ((p0 :: pat) ++ tl) cur)
      with (match strip_prefix (p0 :: pat) ((p0 :: pat) ++ tl) with
            | Some r => Some (rev cur, r)
            | None => split_sub1 (p0 :: pat) (pat ++ tl) (p0 :: cur) end).
    rewrite strip_prefix_app, app_nil_r. reflexivity.
  - cbn [app split_sub1].
    destruct (strip_prefix pat (b :: n ++ pat ++ tl)) as [r|] eqn:E.
    + exfalso. apply strip_prefix_some in E.
      change (b :: n ++ pat ++ tl) with ((b :: n) ++ pat ++ tl) in E. rewrite app_assoc in E.
      destruct (app_prefix ((b :: n) ++ pat) tl pat r E ltac:(rewrite app_length; lia)) as (e & He & _).
      assert (e = []) as -> by (apply (Hn [] e); exact He).
      apply (f_equal (@length N)) in He. rewrite !app_length in He. cbn [length] in He. lia.
    + rewrite IH by (eapply first_at_end_tail; exact Hn).
      cbn [rev]. rewrite <- app_assoc. reflexivity.
Qed.

Lemma split_on_nosep sep p : Forall (fun b => b <> sep) p -> forall cur rest,
  split_on sep (p ++ rest) cur = split_on sep rest (rev p ++ cur).
Proof.
  induction 1 as [|b p Hb _ IH]; intros cur rest; cbn [app split_on rev]; [reflexivity|].
  destruct (b =? sep) eqn:E; [lia|]. rewrite IH, <- app_assoc. reflexivity.
Qed.

Lemma split_on_single sep p : Forall (fun b => b <> sep) p -> split_on sep p [] = [p].
Proof.
  intros Hp. rewrite <- (app_nil_r p) at 1. rewrite split_on_nosep by assumption. cbn [split_on].
  rewrite app_nil_r, rev_involutive. reflexivity.
Qed.

Lemma split_join sep parts : parts <> [] ->
  Forall (Forall (fun b => b <> sep)) parts ->
  split_on sep (join sep parts) [] = parts.
Proof.
  intros Hne Hall. induction Hall as [|p parts Hp Hall IH]; [congruence|].
  destruct parts as [|q parts].
  - cbn [join]. apply split_on_single. assumption.
  - change (join sep (p :: q :: parts)) with (p ++ sep :: join sep (q :: parts)).
    rewrite split_on_nosep by assumption. cbn [split_on]. rewrite N.eqb_refl.
    rewrite app_nil_r, rev_involutive. f_equal. apply IH. discriminate.
Qed.

Lemma split_first_nosep sep p : Forall (fun b => b <> sep) p -> forall cur tl,
  split_first sep (p ++ tl) cur = split_first sep tl (rev p ++ cur).
Proof.
  induction 1 as [|b p Hb _ IH]; intros cur tl; cbn [app split_first rev]; [reflexivity|].
  destruct (b =? sep) eqn:E; [lia|]. rewrite IH, <- app_assoc. reflexivity.
Qed.

Lemma split_first_some sep p rest : Forall (fun b => b <> sep) p ->
  split_first sep (p ++ sep :: rest) [] = (p, Some rest).
Proof.
  intros Hp. rewrite split_first_nosep by assumption. cbn [split_first].
  rewrite N.eqb_refl, app_nil_r, rev_involutive. reflexivity.
Qed.

Lemma split_first_none sep p : Forall (fun b => b <> sep) p -> split_first sep p [] = (p, None).
Proof.
  intros Hp. rewrite <- (app_nil_r p) at 1. rewrite split_first_nosep by assumption.
  cbn [split_first]. rewrite app_nil_r, rev_involutive. reflexivity.
Qed.

Lemma drop_last_app (l t : list N) : drop_last (length t) (l ++ t) = l.
Proof.
  unfold drop_last. rewrite app_length.
  replace (length l + length t - length t)%nat with (length l) by lia.
  rewrite firstn_app, Nat.sub_diag, firstn_all. cbn [firstn]. apply app_nil_r.
Qed.
