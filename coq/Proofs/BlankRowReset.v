(* Proofs/BlankRowReset.v — finding F-C13.  In the pinned source the blank-row branch of to_lines
   (rows >= 297) leaves the loop body before the trailing ESC[0m; the extractor then yields
   reset_blank = [] and this proof fails.  It holds for the repaired source
   (fixes/C13-blank-row-reset.patch), where the branch appends the reset unless no_escape. *)
From Coq Require Import NArith List.
From Tup Require Import Gen.DiacriticsGen Model.PlaceholderModel Spec.TermSpec Proofs.TermLexFacts Proofs.TermPaintFacts Proofs.PlaceholderToks.
Import ListNotations.

Lemma src_reset_blank : reset_blank = ser reset_tok.
Proof. reflexivity. Qed.
Lemma src_blank_row_resets : blank_row_resets = true.
Proof. reflexivity. Qed.
Lemma blank_reset_always p : blank_reset_ok p.
Proof. left. exact src_reset_blank. Qed.
