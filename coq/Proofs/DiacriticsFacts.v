(* Proofs/DiacriticsFacts.v — the source's diacritic table is the protocol's table; index lookups. *)
From Coq Require Import ZArith NArith List Bool Lia ZifyN ZifyBool ZifyNat.
From Tup Require Import Lib.Utf8 Gen.DiacriticsGen Spec.TermSpec Spec.PlaceholderSpec.
Import ListNotations.
Open Scope N_scope.

(* editing one diacritic in the source breaks this proof *)
Lemma src_table_is_protocol_table : rowcolumn_diacritics = protocol_diacritics.
Proof. vm_compute. reflexivity. Qed.

Lemma src_placeholder_char : placeholder_char = [placeholder_cp].
Proof. reflexivity. Qed.

Lemma protocol_table_length : length protocol_diacritics = 297%nat.
Proof. reflexivity. Qed.

(* finite sweep over the 297 table indices (bound stated): value lookup inverts indexing, every entry
   is zero-width for the terminal, is not the placeholder itself, and is a valid scalar *)
Definition entry_ok (i : nat) : bool :=
  let cp := nth i protocol_diacritics 0 in
  match diacritic_value cp with Some v => v =? N.of_nat i | None => false end
  && zero_width cp && negb (cp =? placeholder_cp) && (128 <=? cp) && (cp <? 1114112).

Lemma all_entries_ok : forallb entry_ok (seq 0 297) = true.
Proof. vm_compute. reflexivity. Qed.

Lemma entry_ok_at i : (i < 297)%nat -> entry_ok i = true.
Proof.
  intros H. pose proof all_entries_ok as A. rewrite forallb_forall in A. apply A. apply in_seq. lia.
Qed.

Definition dia (i : N) : N := nth (N.to_nat i) protocol_diacritics 0.

Lemma dia_value i : i < 297 -> diacritic_value (dia i) = Some i.
Proof.
  intros H. pose proof (entry_ok_at (N.to_nat i) ltac:(lia)) as E. unfold entry_ok in E. fold (dia i) in E.
  destruct (diacritic_value (dia i)) as [v|]; [|discriminate]. f_equal. lia.
Qed.
Lemma dia_zero_width i : i < 297 -> zero_width (dia i) = true.
Proof.
  intros H. pose proof (entry_ok_at (N.to_nat i) ltac:(lia)) as E. unfold entry_ok in E. fold (dia i) in E. lia.
Qed.
Lemma dia_range i : i < 297 -> 128 <= dia i < 1114112 /\ dia i <> placeholder_cp.
Proof.
  intros H. pose proof (entry_ok_at (N.to_nat i) ltac:(lia)) as E. unfold entry_ok in E. fold (dia i) in E. lia.
Qed.

Lemma placeholder_not_zero_width : zero_width placeholder_cp = false.
Proof. vm_compute. reflexivity. Qed.
Lemma placeholder_not_diacritic : diacritic_value placeholder_cp = None.
Proof. vm_compute. reflexivity. Qed.
