(* Proofs/PlaceholderProps13.v — as PlaceholderProps.v, for the statements that need the repaired
   blank-row branch (Proofs/BlankRowReset.v, finding F-C13). *)
From Coq Require Import ZArith NArith List Bool.
From Tup Require Import Gen.DiacriticsGen Model.PlaceholderModel Spec.TermSpec Spec.PlaceholderSpec
  Proofs.TermLexFacts Proofs.TermPaintFacts Proofs.PlaceholderToks Proofs.PlaceholderStmt Proofs.PlaceholderMain
  Proofs.PlaceholderLines Proofs.BlankRowReset.
Import ListNotations.
Open Scope N_scope.

Lemma c13_line_shape_stmt : forall p m b, rect_ok p -> mode_ok m ->
  exists lines, to_lines p m (fmt_of b) false = Ok lines /\ length lines = height p /\
    forall i, (i < height p)%nat ->
      let row := start_row p + N.of_nat i in
      nth i lines [] = [27; 91; 48; 109] ++ ser_bgs (row_bgs b row) ++ ser_toks (line_colours p m row)
                       ++ ser_toks (flat_map item_toks (line_cells p m b row)) ++ [27; 91; 48; 109].
Proof. intros p m b Hp Hm. exact (line_shape p m b Hp (blank_reset_always p) Hm). Qed.

Lemma c13_lines_alone_decode_stmt :
  forall (W H : Z) p m b (t0 : term) (sel : list nat) (restn : nat),
    (0 < W)%Z -> (0 < H)%Z -> rect_ok p -> mode_ok m ->
    sel <> [] -> Forall (fun i => (i < height p)%nat) sel ->
    pend t0 = false -> cx t0 = 0%Z -> (0 <= cy t0 < H)%Z -> W = Z.of_nat (width p + restn) ->
    (forall y x, scr t0 y x = blank_cell) ->
    exists lines, to_lines p m (fmt_of b) false = Ok lines /\
      let t' := feed W H t0 (tty_onlcr (selected_bytes lines sel)) in
      sgr t' = default_attrs /\
      forall x y, (0 <= x < W)%Z -> (0 <= y < H)%Z ->
        decode_at (scr t') (Z.to_nat W) (Z.to_nat x) y = expected_selected H p sel (cy t0) x y.
Proof.
  intros W H p m b t0 sel restn HW HH Hp Hm.
  exact (lines_alone W H HW HH p m b t0 sel restn Hp (blank_reset_always p) Hm).
Qed.

Lemma c13_attrs_reset_after_line_stmt : forall (W H : Z) p m b (t0 : term), rect_ok p -> mode_ok m ->
  exists lines, to_lines p m (fmt_of b) false = Ok lines /\
    forall i, (i < height p)%nat ->
      sgr (feed W H t0 (nth i lines [])) = default_attrs /\
      sgr (feed W H t0 (tty_onlcr (nth i lines [] ++ [10]))) = default_attrs /\
      sgr (feed W H t0 (nth i lines [] ++ [10])) = default_attrs.
Proof. intros W H p m b t0 Hp Hm. exact (attrs_reset_line W H p m b t0 Hp (blank_reset_always p) Hm). Qed.

Lemma c13_attrs_reset_after_stream_stmt : forall (W H : Z) st p m b (t0 : term), rect_ok p -> mode_ok m ->
  exists ws, stream_of st p m (fmt_of b) = Ok ws /\ sgr (feed W H t0 (wire st (concat ws))) = default_attrs.
Proof. intros W H st p m b t0 Hp Hm. exact (attrs_reset_stream W H st p m b t0 Hp (blank_reset_always p) Hm). Qed.

Lemma c13_bg_confined_stmt : forall (W H : Z) st p m b (t0 : term), (0 < W)%Z -> (0 < H)%Z ->
  rect_ok p -> mode_ok m -> start_ok W H t0 -> fits W H st t0 (width p) (height p) ->
  (forall y x, cbg (scr t0 y x) = CDefault) ->
  exists ws, stream_of st p m (fmt_of b) = Ok ws /\
    forall x y, (0 <= y < H)%Z -> in_rect H p (origin_x st t0) (origin_y st t0) x y = false ->
      cbg (scr (feed W H t0 (wire st (concat ws))) y x) = CDefault.
Proof.
  intros W H st p m b t0 HW HH Hp Hm. exact (bg_confined W H HW HH st p m b t0 Hp (blank_reset_always p) Hm).
Qed.

Lemma c13_decodes_formatted_stmt :
  forall (W H : Z) (p : placeholder) (m : mode) (b : bgfmt) (st : style) (t0 : term),
    (0 < W)%Z -> (0 < H)%Z -> rect_ok p -> mode_ok m ->
    start_ok W H t0 -> fits W H st t0 (width p) (height p) -> (forall y x, scr t0 y x = blank_cell) ->
    exists ws, stream_of st p m (fmt_of b) = Ok ws /\
      let t' := feed W H t0 (wire st (concat ws)) in
      forall x y, (0 <= x < W)%Z -> (0 <= y < H)%Z ->
        decode_at (scr t') (Z.to_nat W) (Z.to_nat x) y = expected_at H p (origin_x st t0) (origin_y st t0) x y.
Proof.
  intros W H p m b st t0 HW HH Hp Hm. exact (stream_decodes_all W H HW HH st p m b t0 Hp (blank_reset_always p) Hm).
Qed.

