(* Proofs/FaultProofs.v — a transmission that stops under way (I/O error, interrupt, a raising callback): what has
   reached the command stream with n tmux layers configured is, write for write, the n-fold wrapping of what reaches
   it with no tmux configured.  The size limit is given net of the template's length, so that both runs cut the
   payload at the same places (send() subtracts the template's length from max_size). *)
From Coq Require Import ZArith NArith List Bool Lia.
From Tup Require Import Lib.ByteStr Lib.PyFmt Lib.CommandTypes Gen.TmuxGen Gen.CommandGen Model.GraphicsCommand
  Model.SendModel Model.TmuxTemplate Spec.TmuxSpec Proofs.TmuxProofs Proofs.CommandProofs Proofs.SendProofs.
Import ListNotations.

Lemma send_cmds_net c (t t0 : list N) (m : Z) :
  send_cmds c t (m + Z.of_nat (length t)) = send_cmds c t0 (m + Z.of_nat (length t0)).
Proof.
  destruct c as [tr| | |]; try reflexivity. unfold send_cmds, max_payload.
  replace (m + Z.of_nat (length t) - Z.of_nat (length t))%Z with m by lia.
  replace (m + Z.of_nat (length t0) - Z.of_nat (length t0))%Z with m by lia. reflexivity.
Qed.

Lemma Forall2_firstn {A B} (R : A -> B -> Prop) l l' : Forall2 R l l' -> forall j, Forall2 R (firstn j l) (firstn j l').
Proof.
  induction 1 as [|x y l l' Hxy Hl IH]; intro j; [rewrite !firstn_nil; constructor|].
  destruct j as [|j]; [constructor|]. cbn [firstn]. constructor; [exact Hxy|apply IH].
Qed.

Lemma wrapped_writes n cmds : Forall payload_ok cmds ->
  Forall2 (fun w w0 => layers_ok n w w0 = true)
          (map (fun x => pre n ++ content_bytes x ++ post n) cmds)
          (map (fun x => pre 0 ++ content_bytes x ++ post 0) cmds).
Proof.
  induction 1 as [|x l Hx Hl IH]; [constructor|]. cbn [map]. constructor; [|exact IH].
  destruct (layers_ok_emit n (content_bytes x) (content_no_esc x Hx)) as (out & out0 & H1 & H2 & H3).
  rewrite emit_closed in H1, H2. inversion H1; inversion H2; subst. exact H3.
Qed.

Lemma split_payloads_ok c k : inline c -> bytes_ok (t_data c) -> (0 < k)%nat -> Forall payload_ok (split c k).
Proof.
  intros Hi Hb Hk. pose proof (split_all_payloads c k Hi Hk) as Hp. pose proof (split_lossless c k Hi Hk) as Hl.
  assert (Hbs : Forall bytes_ok (map data_of (split c k))) by (apply bytes_ok_concat; rewrite Hl; exact Hb).
  rewrite Forall_map in Hbs. revert Hp Hbs. generalize (split c k). intro l.
  induction l as [|x l IH]; intros Hp Hbs; [constructor|].
  apply Forall_cons_iff in Hp. destruct Hp as [Hx Hp]. apply Forall_cons_iff in Hbs. destruct Hbs as [Hbx Hbs].
  constructor; [unfold payload_ok; rewrite Hx; exact Hbx|exact (IH Hp Hbs)].
Qed.

Theorem interrupted_transmission n tn t0 c m wsn ws0 :
  template n = Some tn -> template 0 = Some t0 -> inline c -> bytes_ok (t_data c) ->
  send (CTransmit c) tn (m + Z.of_nat (length tn)) = SendOk wsn ->
  send (CTransmit c) t0 (m + Z.of_nat (length t0)) = SendOk ws0 ->
  length wsn = length ws0 /\
  forall j, Forall2 (fun w w0 => layers_ok n w w0 = true) (firstn j wsn) (firstn j ws0).
Proof.
  intros Htn Ht0 Hi Hb Hsn Hs0.
  destruct (template_ok n) as (t' & Ht' & Hokn). rewrite Htn in Ht'. inversion Ht'; subst t'. clear Ht'.
  destruct (template_ok 0) as (t' & Ht' & Hok0). rewrite Ht0 in Ht'. inversion Ht'; subst t'. clear Ht'.
  destruct (send_cmds (CTransmit c) tn (m + Z.of_nat (length tn))) as [cmds|] eqn:Hc;
    [|unfold send in Hsn; rewrite Hc in Hsn; discriminate].
  pose proof Hc as Hc0. rewrite (send_cmds_net _ tn t0 m) in Hc0.
  rewrite (send_ok_writes tn _ _ _ _ cmds Hokn Hc) in Hsn. inversion Hsn; subst wsn. clear Hsn.
  rewrite (send_ok_writes t0 _ _ _ _ cmds Hok0 Hc0) in Hs0. inversion Hs0; subst ws0. clear Hs0.
  assert (Hall : Forall payload_ok cmds).
  { unfold send_cmds in Hc. rewrite src_minp in Hc.
    destruct (max_payload c tn (m + Z.of_nat (length tn)) <? 1)%Z eqn:E; [discriminate|]. inversion Hc; subst cmds.
    apply split_payloads_ok; [exact Hi|exact Hb|lia]. }
  split; [rewrite !map_length; reflexivity|].
  intro j. apply Forall2_firstn. apply wrapped_writes. exact Hall.
Qed.

(* and the same limit is refused, or accepted, with and without tmux *)
Theorem rejection_independent_of_layers tn t0 c m :
  send_cmds (CTransmit c) tn (m + Z.of_nat (length tn)) = None <-> send_cmds (CTransmit c) t0 (m + Z.of_nat (length t0)) = None.
Proof. rewrite (send_cmds_net _ tn t0 m). reflexivity. Qed.
