(* Proofs/CellSizeFacts.v — integer core of C15.
   [optimalZ] is lines 538-565 of tupimage_terminal.py with every ceil(p/q) replaced by the exact
   integer ceiling [cdiv] of the cross-multiplied quantities
        K = cw * H   (a box C x R is "width-limited" iff C*K <= R*L)
        L = ch * W
   (both scaled to integers), and with the two fully automatic values C0 = ceil(W/cw),
   R0 = ceil(H/ch) given.  Proofs/CellSizeProofs.v shows that the rational instance of the model
   computes exactly this.  Everything here is closed by nia once K and L are opaque positives. *)
From Coq Require Import ZArith List Bool Lia ZifyBool.
From Tup Require Import Model.CellSize.
Open Scope Z_scope.
Ltac Zify.zify_post_hook ::= Z.to_euclidean_division_equations.

(* exact ceiling of a/b *)
Definition cdiv (a b : Z) : Z := (a + b - 1) / b.
Lemma cdiv_spec a b : 0 < b -> (cdiv a b - 1) * b < a <= cdiv a b * b.
Proof. unfold cdiv. intros. nia. Qed.
Lemma cdiv_unique a b q : 0 < b -> (q - 1) * b < a <= q * b -> cdiv a b = q.
Proof. unfold cdiv. intros. nia. Qed.
Lemma cdiv_pos a b : 0 < a -> 0 < b -> 1 <= cdiv a b.
Proof. unfold cdiv. intros. nia. Qed.

Definition optimalZ (C0 R0 K L : Z) (cols rows : option Z) (mc mr : Z) : Z * Z :=
  let '(c, r) :=
    match cols, rows with
    | None, None => (C0, R0)
    | None, Some r => (cdiv (r * L) K, r)
    | Some c, None => (c, cdiv (c * K) L)
    | Some c, Some r => (c, r)
    end in
  let '(c, r) := if is_none cols && (mc <? c) then (mc, cdiv (mc * K) L) else (c, r) in
  let '(c, r) := if is_none rows && (mr <? r) then (cdiv (mr * L) K, mr) else (c, r) in
  (Z.max 1 (Z.min c mc), Z.max 1 (Z.min r mr)).

(* fitted into C x R preserving the aspect ratio, the image touches the last row (when the width
   is the binding side) resp. the last column (when the height is) *)
Definition tightZ (K L C R : Z) : Prop :=
  if C * K <=? R * L then (R - 1) * L < C * K else (C - 1) * K < R * L.

Ltac name_cdiv a b q H :=
  assert (H : (cdiv a b - 1) * b < a <= cdiv a b * b /\ 1 <= cdiv a b)
    by (split; [apply cdiv_spec; nia | apply cdiv_pos; nia]);
  set (q := cdiv a b) in *; clearbody q.

(* both automatic, any limits.  A stands for W*H: C0 and R0 are the exact ceilings of A/K and A/L. *)
Lemma tightZ_auto C0 R0 K L A mc mr :
  0 < K -> 0 < L -> 0 < A ->
  (C0 - 1) * K < A <= C0 * K -> (R0 - 1) * L < A <= R0 * L ->
  1 <= mc -> 1 <= mr ->
  let '(C, R) := optimalZ C0 R0 K L None None mc mr in tightZ K L C R.
Proof.
  intros HK HL HA F1 F2 Hmc Hmr. unfold optimalZ, tightZ. cbn [is_none andb].
  assert (1 <= C0) by nia. assert (1 <= R0) by nia.
  destruct (mc <? C0) eqn:E1.
  - name_cdiv (mc * K) L R1 H1.
    destruct (mr <? R1) eqn:E2.
    + name_cdiv (mr * L) K C2 H2.
      assert (C2 <= mc) by nia.
      replace (Z.max 1 (Z.min C2 mc)) with C2 by lia. replace (Z.max 1 (Z.min mr mr)) with mr by lia.
      destruct (C2 * K <=? mr * L) eqn:E3; nia.
    + replace (Z.max 1 (Z.min mc mc)) with mc by lia. replace (Z.max 1 (Z.min R1 mr)) with R1 by lia.
      destruct (mc * K <=? R1 * L) eqn:E3; nia.
  - destruct (mr <? R0) eqn:E2.
    + name_cdiv (mr * L) K C2 H2.
      assert (C2 <= C0) by nia.
      replace (Z.max 1 (Z.min C2 mc)) with C2 by lia. replace (Z.max 1 (Z.min mr mr)) with mr by lia.
      destruct (C2 * K <=? mr * L) eqn:E3; nia.
    + replace (Z.max 1 (Z.min C0 mc)) with C0 by lia. replace (Z.max 1 (Z.min R0 mr)) with R0 by lia.
      destruct (C0 * K <=? R0 * L) eqn:E3; nia.
Qed.

Lemma optimalZ_auto_within C0 R0 K L mc mr :
  1 <= C0 <= mc -> 1 <= R0 <= mr -> optimalZ C0 R0 K L None None mc mr = (C0, R0).
Proof.
  intros H1 H2. unfold optimalZ. cbn [is_none andb].
  destruct (mc <? C0) eqn:E1; [lia|]. destruct (mr <? R0) eqn:E2; [lia|]. f_equal; lia.
Qed.

(* explicit cols within the limit, rows automatic *)
Lemma tightZ_cols_given C0 R0 K L c mc mr :
  0 < K -> 0 < L -> 1 <= mc -> 1 <= mr -> 1 <= c <= mc ->
  let '(C, R) := optimalZ C0 R0 K L (Some c) None mc mr in
  tightZ K L C R /\ (cdiv (c * K) L <= mr -> C = c).
Proof.
  intros HK HL Hmc Hmr Hc. unfold optimalZ, tightZ. cbn [is_none andb].
  name_cdiv (c * K) L Rn H0.
  destruct (mr <? Rn) eqn:E1.
  - name_cdiv (mr * L) K C1 H1.
    assert (HC : C1 <= c) by nia.
    replace (Z.max 1 (Z.min C1 mc)) with C1 by lia. replace (Z.max 1 (Z.min mr mr)) with mr by lia.
    split; [|lia]. destruct (C1 * K <=? mr * L) eqn:E2; nia.
  - replace (Z.max 1 (Z.min c mc)) with c by lia. replace (Z.max 1 (Z.min Rn mr)) with Rn by lia.
    split; [|reflexivity]. destruct (c * K <=? Rn * L) eqn:E2; nia.
Qed.

(* explicit rows within the limit, cols automatic *)
Lemma tightZ_rows_given C0 R0 K L r mc mr :
  0 < K -> 0 < L -> 1 <= mc -> 1 <= mr -> 1 <= r <= mr ->
  let '(C, R) := optimalZ C0 R0 K L None (Some r) mc mr in
  tightZ K L C R /\ (cdiv (r * L) K <= mc -> R = r).
Proof.
  intros HK HL Hmc Hmr Hr. unfold optimalZ, tightZ. cbn [is_none andb].
  name_cdiv (r * L) K Cn H0.
  destruct (mc <? Cn) eqn:E1.
  - name_cdiv (mc * K) L R1 H1.
    assert (HR : R1 <= r) by nia.
    destruct (mr <? R1) eqn:E3; [lia|].
    replace (Z.max 1 (Z.min mc mc)) with mc by lia. replace (Z.max 1 (Z.min R1 mr)) with R1 by lia.
    split; [|lia]. destruct (mc * K <=? R1 * L) eqn:E2; nia.
  - destruct (mr <? r) eqn:E3; [lia|].
    replace (Z.max 1 (Z.min Cn mc)) with Cn by lia. replace (Z.max 1 (Z.min r mr)) with r by lia.
    split; [|reflexivity]. destruct (Cn * K <=? r * L) eqn:E2; nia.
Qed.

(* The formula without the cap of explicit values is not tight beyond the limits:
   rows = 3 explicit, max_rows = 1, a square image in 8x16 cells (K = 8, L = 16) -> 6 x 1,
   although a 1-row box of 8x16 cells shows a square image in 2 columns. *)
Lemma optimalZ_uncapped_refuted :
  optimalZ 1 1 8 16 None (Some 3) 80 1 = (6, 1) /\ ~ tightZ 8 16 6 1.
Proof. split; [vm_compute; reflexivity|]. vm_compute. intros H; discriminate H. Qed.
