(* Proofs/ShellScriptProofs.v — the script written by the (repaired) exporter, run by the POSIX sh
   of Spec/PosixShSpec.v, prints exactly the data. *)
From Coq Require Import ZArith NArith List Bool Lia ZifyN ZifyBool ZifyNat.
From Tup Require Import Lib.ByteStr Lib.ByteStrFacts Lib.Base64 Lib.Base64Facts Gen.ShellScriptGen
  Model.ShellScript Spec.PosixShSpec Proofs.PosixShFacts.
Import ListNotations.
Open Scope N_scope.
Ltac Zify.zify_post_hook ::= Z.to_euclidean_division_equations.

(* ------------------------------------------------------------------ the literals of the source *)
Lemma src_lo : esc_printable_lo = 32. Proof. reflexivity. Qed.
Lemma src_hi : esc_printable_hi = 126. Proof. reflexivity. Qed.
Lemma src_excluded : esc_excluded = [92; 37; 39]. Proof. reflexivity. Qed.
Lemma src_table : esc_table = [(10, [92; 110]); (92, [92; 92]); (37, [37; 37])]. Proof. reflexivity. Qed.
Lemma src_octal_prefix : esc_octal_prefix = [92]. Proof. reflexivity. Qed.
Lemma src_dash : dash_char = 45. Proof. reflexivity. Qed.
Lemma src_dash_replacement : dash_replacement = [92; 48; 53; 53]. Proof. reflexivity. Qed.
Lemma src_directive : fmt_directive = [37; 115]. Proof. reflexivity. Qed.
Lemma src_cmd_pre : cmd_pre = cmd_open. Proof. reflexivity. Qed.
Lemma src_cmd_post : cmd_post = [39]. Proof. reflexivity. Qed.
Lemma src_param : forall b, args_sep ++ param_pre ++ b ++ param_post = param b.
Proof. intro b. reflexivity. Qed.
Lemma src_args : args_lead = args_sep. Proof. reflexivity. Qed.
Lemma src_plain : plain_0 = [] /\ plain_1 = [10]. Proof. split; reflexivity. Qed.
Lemma src_inline : inline_0 = [] /\ inline_1 = [32; 35; 32] /\ inline_2 = [10]. Proof. repeat split; reflexivity. Qed.
Lemma src_separate : separate_0 = [35; 32] /\ separate_1 = [10] /\ separate_2 = [10]. Proof. repeat split; reflexivity. Qed.

(* ------------------------------------------------------------------ _escape_bytes *)
Lemma escape_byte_eq b : escape_byte b =
  if (32 <=? b) && (b <=? 126) && negb ((b =? 92) || (b =? 37) || (b =? 39)) then [b]
  else if b =? 10 then [92; 110]
  else if b =? 92 then [92; 92]
  else if b =? 37 then [37; 37]
  else 92 :: oct3 b.
Proof.
  unfold escape_byte. rewrite src_lo, src_hi, src_excluded, src_table, src_octal_prefix.
  cbn [has_byte assoc_esc app].
  replace ((92 =? b) || ((37 =? b) || ((39 =? b) || false))) with ((b =? 92) || (b =? 37) || (b =? 39)) by lia.
  destruct (b =? 10); [reflexivity|]. destruct (b =? 92); [reflexivity|]. destruct (b =? 37); reflexivity.
Qed.

Lemma printf_escape_byte b rest args : b < 256 ->
  printf_fmt (escape_byte b ++ rest) args = emit' b (printf_fmt rest args).
Proof.
  intro Hb. rewrite escape_byte_eq.
  destruct ((32 <=? b) && (b <=? 126) && negb ((b =? 92) || (b =? 37) || (b =? 39))) eqn:E1.
  - cbn [app]. rewrite printf_fmt_plain by lia. apply emit_byte. exact Hb.
  - destruct (b =? 10) eqn:E2.
    { assert (b = 10) by lia. subst b. cbn [app].
      rewrite (printf_fmt_escape 110 10) by reflexivity. reflexivity. }
    destruct (b =? 92) eqn:E3.
    { assert (b = 92) by lia. subst b. cbn [app].
      rewrite (printf_fmt_escape 92 92) by reflexivity. reflexivity. }
    destruct (b =? 37) eqn:E4.
    { assert (b = 37) by lia. subst b. cbn [app]. rewrite printf_fmt_percent. reflexivity. }
    unfold oct3. cbn [app].
    rewrite printf_fmt_oct3 by (unfold is_oct; lia).
    unfold ov.
    replace ((48 + b / 64 - 48) * 64 + (48 + (b / 8) mod 8 - 48) * 8 + (48 + b mod 8 - 48)) with b by lia.
    apply emit_byte. exact Hb.
Qed.

Definition prepend (l : list N) (k : option (list N * list (list N))) : option (list N * list (list N)) :=
  match k with Some (o, u) => Some (l ++ o, u) | None => None end.

Lemma printf_escape l : bytes_ok l -> forall rest args,
  printf_fmt (escape_bytes l ++ rest) args = prepend l (printf_fmt rest args).
Proof.
  unfold escape_bytes. induction l as [|b l IH]; intros H rest args; cbn [flat_map app].
  - unfold prepend. destruct (printf_fmt rest args) as [[o u]|]; reflexivity.
  - apply bytes_ok_cons in H. destruct H as [Hb Hl].
    rewrite <- app_assoc, printf_escape_byte by exact Hb. rewrite IH by exact Hl.
    unfold emit', prepend. destruct (printf_fmt rest args) as [[o u]|]; reflexivity.
Qed.

Lemma escape_byte_quotable b : quotable (escape_byte b).
Proof.
  rewrite escape_byte_eq. unfold quotable.
  destruct ((32 <=? b) && (b <=? 126) && negb ((b =? 92) || (b =? 37) || (b =? 39))) eqn:E1.
  - repeat constructor; lia.
  - destruct (b =? 10); [repeat constructor; lia|].
    destruct (b =? 92); [repeat constructor; lia|].
    destruct (b =? 37); [repeat constructor; lia|].
    unfold oct3. repeat constructor; lia.
Qed.

Lemma escape_quotable l : quotable (escape_bytes l).
Proof.
  unfold escape_bytes. induction l as [|b l IH]; cbn [flat_map]; [constructor|].
  apply quotable_app. split; [apply escape_byte_quotable|exact IH].
Qed.

(* ------------------------------------------------------------------ _protect_leading_dash *)
Lemma protect_printf f args : printf_fmt (protect_leading_dash f) args = printf_fmt f args.
Proof.
  unfold protect_leading_dash. destruct f as [|c r]; [reflexivity|].
  rewrite src_dash, src_dash_replacement. destruct (c =? 45) eqn:E; [|reflexivity].
  assert (c = 45) by lia. subst c. cbn [app].
  rewrite printf_fmt_oct3 by reflexivity. rewrite printf_fmt_plain by lia. reflexivity.
Qed.

Lemma protect_no_dash f : starts_with_dash (protect_leading_dash f) = false.
Proof.
  unfold protect_leading_dash. destruct f as [|c r]; [reflexivity|].
  rewrite src_dash, src_dash_replacement. destruct (c =? 45) eqn:E; [reflexivity|].
  cbn [starts_with_dash]. exact E.
Qed.

Lemma protect_quotable f : quotable f -> quotable (protect_leading_dash f).
Proof.
  intro H. unfold protect_leading_dash. destruct f as [|c r]; [exact H|].
  rewrite src_dash_replacement. destruct (c =? dash_char); [|exact H].
  apply Forall_cons_iff in H. destruct H as [_ H]. apply quotable_app. split; [|exact H].
  unfold quotable. repeat constructor; lia.
Qed.

(* ------------------------------------------------------------------ _split_data_into_chunks *)
Lemma concat_flush cur : concat (flush_chunk cur) = cur.
Proof. destruct cur; [reflexivity|]. cbn [flush_chunk concat]. apply app_nil_r. Qed.

Lemma split_go_concat l : forall cur kind, concat (split_go l cur kind) = cur ++ l.
Proof.
  induction l as [|b r IH]; intros cur kind; cbn [split_go].
  - rewrite concat_flush, app_nil_r. reflexivity.
  - destruct (Bool.eqb _ _).
    + rewrite IH, <- app_assoc. reflexivity.
    + rewrite concat_app, concat_flush, IH. reflexivity.
Qed.

Theorem split_chunks_concat data : concat (split_chunks data) = data.
Proof. unfold split_chunks. rewrite split_go_concat. reflexivity. Qed.

Lemma bytes_ok_concat cs : bytes_ok (concat cs) -> Forall bytes_ok cs.
Proof.
  induction cs as [|c r IH]; cbn [concat]; intro H; [constructor|].
  apply bytes_ok_app in H. destruct H as [H1 H2]. constructor; [exact H1|apply IH; exact H2].
Qed.

(* ------------------------------------------------------------------ base64 decoding yields bytes *)
Lemma list_ind4 {A} (P : list A -> Prop) :
  P [] -> (forall a, P [a]) -> (forall a b, P [a; b]) -> (forall a b c, P [a; b; c]) ->
  (forall a b c d r, P r -> P (a :: b :: c :: d :: r)) -> forall l, P l.
Proof.
  intros H0 H1 H2 H3 H4. fix IH 1.
  intros [|a [|b [|c [|d r]]]]; [exact H0|apply H1|apply H2|apply H3|apply H4; apply IH].
Qed.

Lemma of_char_range c s : of_char c = Some s -> s <= 64.
Proof.
  unfold of_char, PAD.
  repeat match goal with |- context [if ?b then _ else _] => destruct b eqn:? end;
  intro H; inversion H; subst; lia.
Qed.

Lemma sequence_range l : forall t, sequence (map of_char l) = Some t -> Forall (fun s => s <= 64) t.
Proof.
  induction l as [|c l IH]; intros t; cbn [map sequence].
  - intro H. inversion H. constructor.
  - destruct (of_char c) as [s|] eqn:E; [|discriminate].
    destruct (sequence (map of_char l)) as [t'|]; [|discriminate].
    intro H. inversion H. subst. constructor; [exact (of_char_range c s E)|apply IH; reflexivity].
Qed.

Lemma dec6_py_bytes l : forall d, Forall (fun s => s <= 64) l -> dec6_py l = Some d -> bytes_ok d.
Proof.
  induction l as [| | | |s0 s1 s2 s3 r IH] using list_ind4; intros dd HF; cbn [dec6_py]; try discriminate.
  - intro H. inversion H. apply bytes_ok_nil.
  - apply Forall_cons_iff in HF. destruct HF as [B0 HF]. apply Forall_cons_iff in HF. destruct HF as [B1 HF].
    apply Forall_cons_iff in HF. destruct HF as [B2 HF]. apply Forall_cons_iff in HF. destruct HF as [B3 HF].
    unfold PAD in *.
    destruct ((s0 =? 64) || (s1 =? 64)) eqn:E01; [discriminate|].
    destruct (s2 =? 64) eqn:E2.
    { destruct (s3 =? 64); [|discriminate]. destruct r; [|discriminate].
      intro H. inversion H. unfold bytes_ok. repeat constructor. lia. }
    destruct (s3 =? 64) eqn:E3.
    { destruct r; [|discriminate]. intro H. inversion H. unfold bytes_ok. repeat constructor; lia. }
    destruct (all_pad r).
    { intro H. inversion H. unfold bytes_ok. repeat constructor; lia. }
    destruct (dec6_py r) as [d'|] eqn:ED; [|discriminate].
    intro H. inversion H. specialize (IH d' HF eq_refl).
    unfold bytes_ok in *. repeat (constructor; [lia|]). exact IH.
Qed.

Lemma b64decode_py_bytes s d : b64decode_py s = Some d -> bytes_ok d.
Proof.
  unfold b64decode_py. destruct (sequence (map of_char s)) as [l|] eqn:E; [|discriminate].
  apply dec6_py_bytes. exact (sequence_range s l E).
Qed.

(* ------------------------------------------------------------------ _try_base64 *)
Lemma try_base64_spec ch b : try_base64 ch = Some b ->
  exists dec, bytes_ok dec /\ b = escape_bytes dec /\ b64encode dec = ch.
Proof.
  unfold try_base64. destruct (_ || _); [discriminate|].
  destruct (b64decode_py ch) as [dec|] eqn:ED; [|discriminate].
  destruct (beq_bytes (b64encode dec) ch) eqn:EC; cbn [negb]; [|discriminate].
  destruct (_ <? _); [discriminate|]. intro H. inversion H.
  exists dec. split; [exact (b64decode_py_bytes ch dec ED)|]. split; [reflexivity|].
  apply beq_bytes_eq. exact EC.
Qed.

(* ------------------------------------------------------------------ the loop of write_to_shellscript *)
Fixpoint bodies_of (chunks : list (list N)) : list (list N) :=
  match chunks with
  | [] => []
  | ch :: r => match try_base64 ch with
               | Some b => protect_leading_dash b :: bodies_of r
               | None => bodies_of r
               end
  end.
(* the arguments the outer printf receives: the base64-looking chunks themselves *)
Fixpoint outs_of (chunks : list (list N)) : list (list N) :=
  match chunks with
  | [] => []
  | ch :: r => match try_base64 ch with
               | Some _ => ch :: outs_of r
               | None => outs_of r
               end
  end.

Lemma build_snd chunks : snd (build chunks) = map (fun b => param_pre ++ b ++ param_post) (bodies_of chunks).
Proof.
  induction chunks as [|ch r IH]; cbn [build bodies_of]; [reflexivity|].
  destruct (build r) as [f ps]. cbn [snd] in IH.
  destruct (try_base64 ch); cbn [snd map]; [rewrite IH; reflexivity|exact IH].
Qed.

Lemma build_quotable chunks : quotable (fst (build chunks)).
Proof.
  induction chunks as [|ch r IH]; cbn [build]; [constructor|].
  destruct (build r) as [f ps]. cbn [fst] in IH.
  destruct (try_base64 ch); cbn [fst]; apply quotable_app; split; try exact IH.
  - rewrite src_directive. unfold quotable. repeat constructor; lia.
  - apply escape_quotable.
Qed.

Lemma build_printf chunks : Forall bytes_ok chunks -> forall rest args,
  printf_fmt (fst (build chunks) ++ rest) (outs_of chunks ++ args) =
  prepend (concat chunks) (printf_fmt rest args).
Proof.
  induction chunks as [|ch r IH]; intros HF rest args; cbn [build outs_of concat].
  - cbn [fst app]. unfold prepend. destruct (printf_fmt rest args) as [[o u]|]; reflexivity.
  - apply Forall_cons_iff in HF. destruct HF as [Hc Hr]. specialize (IH Hr rest args).
    destruct (build r) as [f ps]. cbn [fst] in IH.
    destruct (try_base64 ch) as [b|] eqn:ET; cbn [fst].
    + rewrite src_directive. cbn [app]. rewrite printf_fmt_s, IH.
      unfold prepend. destruct (printf_fmt rest args) as [[o u]|]; [|reflexivity].
      rewrite <- app_assoc. reflexivity.
    + rewrite <- app_assoc, printf_escape by exact Hc. rewrite IH.
      unfold prepend. destruct (printf_fmt rest args) as [[o u]|]; [|reflexivity].
      rewrite <- app_assoc. reflexivity.
Qed.

Lemma b64_text_clean dec : bytes_ok dec -> ~ In 0 (b64encode dec) /\ ~ In 10 (b64encode dec).
Proof.
  intro H. split; apply (b64_chars_not _ _ (b64encode_chars dec H)); reflexivity.
Qed.

Lemma bodies_outs chunks : Forall2 param_ok (bodies_of chunks) (outs_of chunks).
Proof.
  induction chunks as [|ch r IH]; cbn [bodies_of outs_of]; [constructor|].
  destruct (try_base64 ch) as [b|] eqn:ET; [|exact IH].
  constructor; [|exact IH].
  destruct (try_base64_spec ch b ET) as [dec [Hd [Hb He]]]. subst b.
  split; [apply protect_quotable, escape_quotable|].
  exists dec. split.
  - unfold printf_utility. rewrite protect_no_dash, protect_printf.
    rewrite <- (app_nil_r (escape_bytes dec)), printf_escape by exact Hd.
    cbn [printf_fmt prepend]. rewrite app_nil_r. reflexivity.
  - rewrite rfc_b64_encode by exact Hd. split; [symmetry; exact He|].
    rewrite <- He. apply b64_text_clean. exact Hd.
Qed.

Lemma bodies_quotable chunks : Forall quotable (bodies_of chunks).
Proof.
  pose proof (bodies_outs chunks) as H. induction H as [|b o bs os [Hq _] _ IH]; constructor; assumption.
Qed.

Lemma join_args ps : match ps with [] => [] | _ => args_lead ++ join args_sep ps end =
                     flat_map (fun p => args_sep ++ p) ps.
Proof.
  rewrite src_args. destruct ps as [|p r]; [reflexivity|].
  revert p. induction r as [|q r IH]; intros p.
  - cbn [join flat_map]. rewrite app_nil_r. reflexivity.
  - change (join args_sep (p :: q :: r)) with (p ++ args_sep ++ join args_sep (q :: r)).
    change (flat_map (fun p0 => args_sep ++ p0) (p :: q :: r))
      with ((args_sep ++ p) ++ flat_map (fun p0 => args_sep ++ p0) (q :: r)).
    rewrite <- (IH q). rewrite <- !app_assoc. reflexivity.
Qed.

(* the command line has the shape the Spec-side lemmas talk about *)
Lemma command_of_shape data :
  command_of data = cmdline (protect_leading_dash (fst (build (split_chunks data)))) (bodies_of (split_chunks data)).
Proof.
  unfold command_of, cmdline. pose proof (build_snd (split_chunks data)) as HS.
  destruct (build (split_chunks data)) as [f ps]. cbn [fst snd] in *. subst ps.
  rewrite join_args. rewrite src_cmd_pre, src_cmd_post. do 3 f_equal.
  induction (bodies_of (split_chunks data)) as [|b l IH]; cbn [map flat_map]; [reflexivity|].
  rewrite IH. rewrite <- (src_param b). rewrite <- !app_assoc. reflexivity.
Qed.

(* ------------------------------------------------------------------ one line: the command prints the data *)
Theorem eval_line_command data tail : bytes_ok data -> comment_tail tail ->
  eval_line (command_of data ++ tail) = Some data.
Proof.
  intros HD HT. rewrite command_of_shape.
  rewrite (eval_line_cmdline _ _ (outs_of (split_chunks data))).
  - unfold printf_utility. rewrite protect_no_dash, protect_printf.
    pose proof (build_printf (split_chunks data)) as HB.
    rewrite split_chunks_concat in HB.
    specialize (HB (bytes_ok_concat _ ltac:(rewrite split_chunks_concat; exact HD)) [] []).
    rewrite !app_nil_r in HB. rewrite HB. cbn [printf_fmt prepend]. rewrite app_nil_r. reflexivity.
  - apply protect_quotable, build_quotable.
  - apply bodies_outs.
  - exact HT.
Qed.

Lemma command_no_nl data : ~ In 10 (command_of data).
Proof.
  rewrite command_of_shape. apply cmdline_no_nl.
  - apply protect_quotable, build_quotable.
  - apply bodies_quotable.
Qed.

(* comment text: no newline (it would end the comment) and no NUL (not a text file any more) *)
Definition comment_ok (c : list N) : Prop := ~ In 10 c /\ ~ In 0 c.

Lemma write_ends_nl data comment : exists a, write_to_shellscript data comment = a ++ [10].
Proof.
  unfold write_to_shellscript. destruct src_plain as [P0 P1]. destruct src_inline as [I0 [I1 I2]].
  destruct src_separate as [S0 [S1 S2]]. rewrite P0, P1, I0, I1, I2, S0, S1, S2.
  destruct comment as [|c0 cr].
  - exists (command_of data). reflexivity.
  - destruct (_ <=? _).
    + exists (command_of data ++ [32; 35; 32] ++ c0 :: cr). rewrite <- !app_assoc. reflexivity.
    + exists ([35; 32] ++ (c0 :: cr) ++ [10] ++ command_of data). rewrite <- !app_assoc. reflexivity.
Qed.

Theorem script_reproduces data comment : bytes_ok data -> comment_ok comment ->
  eval (write_to_shellscript data comment) = Some data.
Proof.
  intros HD [HC10 HC0]. unfold write_to_shellscript.
  destruct src_plain as [P0 P1]. destruct src_inline as [I0 [I1 I2]]. destruct src_separate as [S0 [S1 S2]].
  rewrite P0, P1, I0, I1, I2, S0, S1, S2.
  destruct comment as [|c0 cr].
  - cbn [app]. rewrite eval_single_line by apply command_no_nl.
    rewrite <- (app_nil_r (command_of data)). apply eval_line_command; [exact HD|left; reflexivity].
  - set (comment := c0 :: cr) in *. destruct (_ <=? _).
    + cbn [app]. replace (command_of data ++ 32 :: 35 :: 32 :: comment ++ [10])
        with ((command_of data ++ [32; 35] ++ 32 :: comment) ++ [10]) by (rewrite <- !app_assoc; reflexivity).
      rewrite eval_single_line.
      * apply eval_line_command; [exact HD|]. right. exists (32 :: comment). split; [reflexivity|].
        intros [H|H]; [discriminate|exact (HC0 H)].
      * rewrite !in_app_iff. intros [H|[H|H]].
        -- exact (command_no_nl data H).
        -- cbn in H. intuition discriminate.
        -- destruct H as [H|H]; [discriminate|exact (HC10 H)].
    + replace ([35; 32] ++ comment ++ [10] ++ command_of data ++ [10])
        with ((35 :: 32 :: comment) ++ 10 :: (command_of data ++ [10])) by reflexivity.
      rewrite eval_first_line.
      * rewrite eval_line_comment by (intros [H|H]; [discriminate|exact (HC0 H)]).
        rewrite eval_single_line by apply command_no_nl.
        rewrite <- (app_nil_r (command_of data)).
        rewrite eval_line_command; [reflexivity|exact HD|left; reflexivity].
      * intros [H|[H|H]]; [discriminate|discriminate|exact (HC10 H)].
Qed.

(* ------------------------------------------------------------------ sessions *)
Definition raw_ok (t : list N) : Prop := (exists a, t = a ++ [10]) /\ eval t = Some [].
Definition event_ok (e : event) : Prop :=
  match e with
  | Write d c => bytes_ok d /\ comment_ok c
  | Raw t => raw_ok t
  end.

Lemma raw_ok_comment descr : comment_ok descr -> raw_ok (placeholder_comment descr).
Proof.
  intros [H10 H0]. unfold placeholder_comment. split.
  - exists ([35; 32] ++ descr). rewrite <- app_assoc. reflexivity.
  - replace ([35; 32] ++ descr ++ [10]) with ((35 :: 32 :: descr) ++ [10]) by reflexivity.
    rewrite eval_single_line by (intros [H|[H|H]]; [discriminate|discriminate|exact (H10 H)]).
    apply eval_line_comment. intros [H|H]; [discriminate|exact (H0 H)].
Qed.

Lemma raw_ok_blank : raw_ok blank_line.
Proof. split; [exists []; reflexivity|reflexivity]. Qed.

Theorem session_reproduces es : Forall event_ok es -> eval (script_of es) = Some (terminal_of es).
Proof.
  unfold script_of, terminal_of. induction 1 as [|e es He _ IH]; cbn [flat_map]; [reflexivity|].
  assert (HE : exists a, script_of_event e = a ++ [10] /\ eval (script_of_event e) = Some (terminal_of_event e)).
  { destruct e as [d c|t]; cbn [script_of_event terminal_of_event event_ok] in *.
    - destruct He as [Hd Hc]. destruct (write_ends_nl d c) as [a Ha]. exists a. split; [exact Ha|].
      apply script_reproduces; assumption.
    - destruct He as [[a Ha] Ht]. exists a. split; [exact Ha|exact Ht]. }
  destruct HE as [a [Ha Hev]]. rewrite Ha in *. rewrite eval_app_nl, Hev, IH. reflexivity.
Qed.

(* ------------------------------------------------------------------ why the two repairs are needed *)
(* the exporter as it was before the repairs, on the two witness inputs, written out by hand:
   data "QR==" was exported as  printf '%s' "$(printf 'A' | base64 -w0)"  and prints "QQ==";
   data "-f" was exported as  printf '-f'  whose format operand starts with "-". *)
Definition old_script_noncanonical : list N :=
  cmd_open ++ [37; 115] ++ [39] ++ param [65] ++ [10].
Definition old_script_dash : list N := cmd_open ++ [45; 102] ++ [39; 10].

Lemma old_noncanonical_prints_other : eval old_script_noncanonical = Some [81; 81; 61; 61].
Proof. vm_compute. reflexivity. Qed.
Lemma old_dash_unspecified : eval old_script_dash = None.
Proof. vm_compute. reflexivity. Qed.

(* ------------------------------------------------------------------ statements as used in Props/C18.v *)
Theorem script_reproduces' data comment : bytes_ok data -> ~ In 10 comment -> ~ In 0 comment ->
  eval (write_to_shellscript data comment) = Some data.
Proof. intros H1 H2 H3. apply script_reproduces; [exact H1|split; assumption]. Qed.

Theorem comments_do_not_matter data c1 c2 : bytes_ok data ->
  ~ In 10 c1 -> ~ In 0 c1 -> ~ In 10 c2 -> ~ In 0 c2 ->
  eval (write_to_shellscript data c1) = eval (write_to_shellscript data c2).
Proof. intros. rewrite !script_reproduces' by assumption. reflexivity. Qed.

Definition event_wf (e : event) : Prop :=
  match e with
  | Write d c => bytes_ok d /\ ~ In 10 c /\ ~ In 0 c
  | Raw t => (exists descr, t = placeholder_comment descr /\ ~ In 10 descr /\ ~ In 0 descr) \/ t = blank_line
  end.

Theorem session_reproduces' es : Forall event_wf es -> eval (script_of es) = Some (terminal_of es).
Proof.
  intro H. apply session_reproduces. eapply Forall_impl; [|exact H].
  intros [d c|t]; cbn [event_wf event_ok].
  - intros [H1 [H2 H3]]. split; [exact H1|split; assumption].
  - intros [[descr [-> [H1 H2]]]| ->]; [apply raw_ok_comment; split; assumption|apply raw_ok_blank].
Qed.

Theorem printf_escape_inverse x : bytes_ok x ->
  printf_fmt (escape_bytes x) [] = Some (x, []) /\
  Forall (fun c => c <> 39 /\ c <> 0 /\ c <> 10) (escape_bytes x).
Proof.
  intro H. split; [|apply escape_quotable].
  rewrite <- (app_nil_r (escape_bytes x)), printf_escape by exact H.
  cbn [printf_fmt prepend]. rewrite app_nil_r. reflexivity.
Qed.

Theorem try_base64_canonical ch b : try_base64 ch = Some b ->
  exists dec, bytes_ok dec /\ b = escape_bytes dec /\ rfc_b64 dec = ch.
Proof.
  intro H. destruct (try_base64_spec ch b H) as [dec [H1 [H2 H3]]]. exists dec.
  split; [exact H1|]. split; [exact H2|]. rewrite rfc_b64_encode by exact H1. exact H3.
Qed.
