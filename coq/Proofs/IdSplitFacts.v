(* Proofs/IdSplitFacts.v — IDSubspace.split: k contiguous valid parts covering the subspace. *)
From Coq Require Import ZArith NArith List Bool Lia ZifyN ZifyBool ZifyNat.
From Tup Require Import Lib.IdSpaceTy Gen.IdSpaceGen Spec.IdLayoutSpec Model.IdSpace Proofs.IdLayoutFacts Proofs.IdEnumFacts.
Import ListNotations.
Open Scope N_scope.
Ltac Zify.zify_post_hook ::= Z.to_euclidean_division_equations.

(* consecutive parts abut *)
Fixpoint abut (l : list (N * N)) : Prop :=
  match l with
  | a :: ((b :: _) as r) => snd a = fst b /\ abut r
  | _ => True
  end.

Lemma mk_subspace_ok b e : b < e -> e <= 256 -> e <> 1 -> mk_subspace (Z.of_N b) (Z.of_N e) = Some (b, e).
Proof.
  intros H1 H2 H3. unfold mk_subspace.
  change (Z.of_N sub_min) with 0%Z. change (Z.of_N sub_max) with 256%Z. change (Z.of_N sub_bad_end) with 1%Z.
  destruct (negb ((0 <=? Z.of_N b) && (Z.of_N b <? Z.of_N e) && (Z.of_N e <=? 256))%Z) eqn:E; [lia|].
  destruct (Z.of_N e =? 1)%Z eqn:E'; [lia|]. rewrite !N2Z.id. reflexivity.
Qed.
Lemma mk_subspace_some b e s : mk_subspace b e = Some s <->
  (0 <= b < e)%Z /\ (e <= 256)%Z /\ e <> 1%Z /\ s = (Z.to_N b, Z.to_N e).
Proof.
  unfold mk_subspace.
  change (Z.of_N sub_min) with 0%Z. change (Z.of_N sub_max) with 256%Z. change (Z.of_N sub_bad_end) with 1%Z.
  destruct (negb ((0 <=? b) && (b <? e) && (e <=? 256))%Z) eqn:E; [split; [discriminate|lia]|].
  destruct (e =? 1)%Z eqn:E'; [split; [discriminate|lia]|].
  split; [intros H; injection H as <-; repeat split; lia|intros (_ & _ & _ & ->); reflexivity].
Qed.
Lemma valid_subspace_iff s : valid_subspace s = true <-> valid_sub s.
Proof.
  unfold valid_subspace, valid_sub, sub_begin, sub_end. destruct (mk_subspace _ _) eqn:E.
  - apply mk_subspace_some in E. split; [lia|reflexivity].
  - split; [discriminate|]. intros (H1 & H2 & H3). rewrite mk_subspace_ok in E by assumption. discriminate.
Qed.

(* range(start, stop, step) when stop - start is a multiple of step *)
Lemma range_step_exact size count : (0 < size)%Z -> forall a fuel start stop,
  stop = (start + size * Z.of_nat (a + count))%Z -> (Z.to_nat (size * Z.of_nat count) <= fuel)%nat ->
  range_step fuel (start + Z.of_nat a * size)%Z stop size = map (fun i => (start + Z.of_nat i * size)%Z) (seq a count).
Proof.
  intros Hs. induction count as [|count IH]; intros a fuel start stop Hstop Hf.
  - cbn [seq map]. destruct fuel; cbn [range_step]; [reflexivity|].
    destruct (start + Z.of_nat a * size <? stop)%Z eqn:E; [lia|reflexivity].
  - destruct fuel as [|fuel]; [nia|]. cbn [range_step seq map].
    destruct (start + Z.of_nat a * size <? stop)%Z eqn:E; [|nia]. f_equal.
    replace (start + Z.of_nat a * size + size)%Z with (start + Z.of_nat (S a) * size)%Z by lia.
    apply IH; [rewrite Hstop; f_equal; lia|nia].
Qed.

Section Split.
  Variables (s : subspace) (k : Z).
  Hypothesis Hv : valid_sub s.
  Hypothesis Hk : (2 <= k <= Z.of_N (nonzero_values s))%Z.

  Let kN := Z.to_N k.
  Let count := Z.to_nat k.
  Let size := nonzero_values s / kN.
  Let rem := (snd s - fst s) - size * kN.
  Let B := fst s + rem.
  Let g (i : nat) : N * N := (B + N.of_nat i * size, B + N.of_nat i * size + size).
  Definition split_parts : list (N * N) := (fst s, B + size) :: map g (seq 1 (count - 1)).

  Lemma split_size_facts : 1 <= size /\ size * kN <= nonzero_values s /\ (fst s = 0 -> 1 <= rem) /\ B + size * kN = snd s
                           /\ fst s < snd s /\ snd s <= 256.
  Proof.
    destruct Hv as (H1 & H2 & H3). unfold B, rem, size, kN, nonzero_values in *.
    destruct (fst s =? 0) eqn:E; nia.
  Qed.

  Lemma mk_subspaces_g n : forall a, (1 <= a)%nat \/ 1 <= B -> (a + n <= count)%nat ->
    mk_subspaces (map (fun i => (Z.of_N B + Z.of_nat i * Z.of_N size)%Z) (seq a n)) (Z.of_N size) = Some (map g (seq a n)).
  Proof.
    pose proof split_size_facts as (F1 & F2 & F3 & F4 & F5 & F6).
    assert (Hc : N.of_nat count = kN) by (unfold count, kN; lia).
    induction n as [|n IH]; intros a Ha Hn; cbn [seq map mk_subspaces]; [reflexivity|].
    rewrite IH by lia.
    replace (Z.of_N B + Z.of_nat a * Z.of_N size)%Z with (Z.of_N (B + N.of_nat a * size)) by lia.
    replace (Z.of_N (B + N.of_nat a * size) + Z.of_N size)%Z with (Z.of_N (B + N.of_nat a * size + size)) by lia.
    rewrite mk_subspace_ok; [reflexivity|lia|nia|nia].
  Qed.

  Theorem split_eq : split s k = SplitOk split_parts.
  Proof.
    pose proof split_size_facts as (F1 & F2 & F3 & F4 & F5 & F6).
    assert (Hc : N.of_nat count = kN) by (unfold count, kN; lia).
    assert (Hk' : k = Z.of_N kN) by (unfold kN; lia).
    unfold split. rewrite (num_nonzero_spec s). unfold num_byte_values, sub_begin, sub_end.
    destruct (k <=? 0)%Z eqn:E1; [lia|]. destruct (k =? 1)%Z eqn:E2; [lia|].
    destruct (Z.of_N (nonzero_values s) <? k)%Z eqn:E3; [lia|]. cbv zeta.
    assert (Hsz : (Z.of_N (nonzero_values s) / k)%Z = Z.of_N size) by (unfold size; rewrite Hk'; lia).
    rewrite Hsz.
    destruct (Z.of_N size =? 0)%Z eqn:E4; [lia|].
    assert (Hrem : (Z.of_N (snd s - fst s) - Z.of_N size * k)%Z = Z.of_N rem) by (unfold rem; rewrite Hk'; nia).
    rewrite Hrem.
    replace (Z.of_N (fst s) + Z.of_N rem)%Z with (Z.of_N B + Z.of_nat 0 * Z.of_N size)%Z by (unfold B; lia).
    rewrite (range_step_exact (Z.of_N size) count ltac:(lia) 0%nat _ (Z.of_N B) (Z.of_N (snd s))); [| nia | nia].
    rewrite mk_subspaces_g by (destruct (N.eq_dec (fst s) 0); unfold B; lia).
    assert (Hcnt : count = S (count - 1)) by lia. rewrite Hcnt at 1. cbn [seq map].
    unfold g at 1. cbn [sub_end snd]. 
    replace (B + N.of_nat 0 * size + size) with (B + size) by lia.
    rewrite mk_subspace_ok; [reflexivity|unfold B; lia|nia|].
    destruct (N.eq_dec (fst s) 0); unfold B; lia.
  Qed.
End Split.

(* ---- properties of the parts ---- *)
Section Parts.
  Variables (B size : N).
  Let g (i : nat) : N * N := (B + N.of_nat i * size, B + N.of_nat i * size + size).

  Lemma abut_g n : forall a, abut (map g (seq a n)).
  Proof.
    induction n as [|n IH]; intros a; [exact I|]. cbn [seq map]. destruct n as [|n]; [exact I|].
    specialize (IH (S a)). cbn [seq map] in IH |- *. split; [unfold g; cbn [fst snd]; lia|exact IH].
  Qed.
  Lemma last_g n : forall a d, snd (last (map g (seq a (S n))) d) = B + N.of_nat (a + n) * size + size.
  Proof.
    induction n as [|n IH]; intros a d.
    - cbn [seq map last]. unfold g. cbn [snd]. replace (a + 0)%nat with a by lia. reflexivity.
    - change (seq a (S (S n))) with (a :: seq (S a) (S n)). cbn [map].
      change (last (g a :: map g (seq (S a) (S n))) d) with (last (map g (seq (S a) (S n))) d).
      rewrite IH. replace (S a + n)%nat with (a + S n)%nat by lia. reflexivity.
  Qed.
  Lemma forall_g (P : N * N -> Prop) n : forall a,
    (forall i, (a <= i < a + n)%nat -> P (g i)) -> Forall P (map g (seq a n)).
  Proof.
    induction n as [|n IH]; intros a H; cbn [seq map]; constructor; [apply H; lia|apply IH; intros; apply H; lia].
  Qed.
End Parts.

Theorem split_many s k : valid_sub s -> (2 <= k <= Z.of_N (nonzero_values s))%Z ->
  exists parts, split s k = SplitOk parts /\
    Z.of_nat (length parts) = k /\
    (exists p rest, parts = p :: rest /\ fst p = fst s) /\
    snd (last parts (0, 0)) = snd s /\
    abut parts /\
    Forall (fun p => valid_sub p /\ 1 <= nonzero_values p) parts.
Proof.
  intros Hv Hk. exists (split_parts s k). split; [apply split_eq; assumption|].
  pose proof (split_size_facts s k Hv Hk) as (F1 & F2 & F3 & F4 & F5 & F6).
  unfold split_parts.
  set (size := nonzero_values s / Z.to_N k) in *.
  set (B := fst s + (snd s - fst s - size * Z.to_N k)) in *.
  set (g := fun i : nat => (B + N.of_nat i * size, B + N.of_nat i * size + size)).
  assert (Hn : exists n, (Z.to_nat k - 1 = S n)%nat) by (exists (Z.to_nat k - 2)%nat; lia).
  destruct Hn as (n & Hn). rewrite Hn.
  assert (HkN : Z.to_N k = N.of_nat (S (S n))) by lia.
  split; [|split; [|split; [|split]]].
  - cbn [length]. rewrite map_length, seq_length. lia.
  - eexists. eexists. split; reflexivity.
  - change (last ((fst s, B + size) :: map g (seq 1 (S n))) (0, 0)) with (last (map g (seq 1 (S n))) (0, 0)).
    unfold g. rewrite last_g. rewrite <- F4, HkN. lia.
  - change (abut ((fst s, B + size) :: map g (seq 1 (S n)))).
    change (seq 1 (S n)) with (1%nat :: seq 2 n). cbn [map abut]. split; [unfold g; cbn [fst snd]; lia|].
    apply (abut_g B size (S n) 1%nat).
  - assert (Hval : forall p, fst s <= fst p -> 1 <= fst p \/ (fst s = 0 /\ fst p = 0 /\ 2 <= snd p) -> fst p < snd p -> snd p <= snd s ->
                   valid_sub p /\ 1 <= nonzero_values p).
    { intros p P1 P2 P3 P4. assert (V : valid_sub p) by (unfold valid_sub; lia). split; [exact V|apply valid_sub_nonzero, V]. }
    constructor.
    + apply Hval; cbn [fst snd]; [lia| |lia|nia].
      destruct (N.eq_dec (fst s) 0) as [E|E]; [right; specialize (F3 E); unfold B in *; lia|left; lia].
    + apply forall_g. intros i Hi. apply Hval; cbn [fst snd]; [unfold B; lia| |lia|nia].
      left. destruct (N.eq_dec (fst s) 0) as [E|E]; [specialize (F3 E)|]; unfold B; lia.
Qed.

Theorem split_one s : split s 1 = SplitOk [s].
Proof. reflexivity. Qed.

Theorem split_spec s k : valid_sub s -> (1 <= k <= Z.of_N (nonzero_values s))%Z ->
  exists parts, split s k = SplitOk parts /\
    Z.of_nat (length parts) = k /\
    (exists p rest, parts = p :: rest /\ fst p = fst s) /\
    snd (last parts (0, 0)) = snd s /\
    abut parts /\
    Forall (fun p => valid_sub p /\ 1 <= nonzero_values p) parts.
Proof.
  intros Hv Hk. destruct (Z.eq_dec k 1) as [->|Hk1].
  - exists [s]. split; [reflexivity|]. cbn [length last abut]. repeat split; try reflexivity.
    + eexists. eexists. split; reflexivity.
    + constructor; [|constructor]. split; [exact Hv|apply valid_sub_nonzero, Hv].
  - apply split_many; [exact Hv|lia].
Qed.

Theorem split_errors s k : valid_sub s -> (k <= 0 \/ Z.of_N (nonzero_values s) < k)%Z -> split s k = SplitValueError.
Proof.
  intros Hv Hk. pose proof (valid_sub_nonzero s Hv). unfold split. rewrite (num_nonzero_spec s).
  destruct (k <=? 0)%Z eqn:E1; [reflexivity|]. destruct (k =? 1)%Z eqn:E2; [lia|].
  destruct (Z.of_N (nonzero_values s) <? k)%Z eqn:E3; [reflexivity|lia].
Qed.

(* what "contiguous, non-overlapping, covering" means pointwise: a chain of non-empty abutting
   ranges from b to e contains every byte of [b, e) in exactly one part *)
Lemma chain_last_gt (l : list (N * N)) : forall q, abut (q :: l) -> Forall (fun p => fst p < snd p) (q :: l) ->
  fst q < snd (last (q :: l) (0, 0)).
Proof.
  induction l as [|r l IHl]; intros q Hab Hf.
  - inversion_clear Hf. cbn [last]. lia.
  - destruct Hab as [Hqr Hab]. inversion_clear Hf as [|? ? Hq Hf''].
    change (last (q :: r :: l) (0,0)) with (last (r :: l) (0,0)). specialize (IHl r Hab Hf''). lia.
Qed.

Lemma chain_cover (l : list (N * N)) : forall b e x,
  (exists p rest, l = p :: rest /\ fst p = b) -> snd (last l (0, 0)) = e -> abut l ->
  Forall (fun p => fst p < snd p) l ->
  (b <= x < e <-> exists p, In p l /\ fst p <= x < snd p).
Proof.
  induction l as [|p l IH]; intros b e x (p0 & rest & Hl & Hb) He Hab Hf; [discriminate|].
  injection Hl as <- <-. inversion_clear Hf as [|? ? Hp Hf'].
  destruct l as [|q l].
  - cbn [last] in He. split.
    + intros H. exists p. split; [left; reflexivity|lia].
    + intros (p' & [<-|[]] & H). lia.
  - destruct Hab as [Hpq Hab]. change (last (p :: q :: l) (0,0)) with (last (q :: l) (0,0)) in He.
    specialize (IH (fst q) e x ltac:(eexists; eexists; split; reflexivity) He Hab Hf').
    assert (Hqe : fst q < e) by (subst e; apply chain_last_gt; assumption).
    split.
    + intros H. destruct (N.ltb_spec x (snd p)) as [L|L].
      * exists p. split; [left; reflexivity|lia].
      * destruct (proj1 IH ltac:(lia)) as (p' & Hin & Hr). exists p'. split; [right; exact Hin|exact Hr].
    + intros (p' & [<-|Hin] & Hr); [lia|].
      assert (fst q <= x < e) by (apply IH; exists p'; split; assumption). lia.
Qed.

Lemma chain_ordered (l : list (N * N)) : abut l -> Forall (fun p => fst p < snd p) l ->
  forall i j p q, nth_error l i = Some p -> nth_error l j = Some q -> (i < j)%nat -> snd p <= fst q.
Proof.
  induction l as [|a l IH]; intros Hab Hf i j p q Hi Hj Hij; [destruct i; discriminate|].
  inversion_clear Hf as [|? ? Ha Hf'].
  assert (Hab' : abut l) by (destruct l; [exact I|apply Hab]).
  destruct j as [|j]; [lia|]. cbn [nth_error] in Hj.
  destruct i as [|i].
  - cbn [nth_error] in Hi. injection Hi as <-.
    (* a abuts the head of l; everything later starts at or after that head's end *)
    destruct l as [|b l]; [destruct j; discriminate|]. destruct Hab as [Hab0 _].
    destruct j as [|j]; [cbn [nth_error] in Hj; injection Hj as <-; lia|].
    assert (Hb : fst b < snd b) by (inversion_clear Hf'; assumption).
    assert (snd b <= fst q) by (apply (IH Hab' Hf' 0%nat (S j) b q); [reflexivity|exact Hj|lia]).
    lia.
  - cbn [nth_error] in Hi. apply (IH Hab' Hf' i j p q Hi Hj). lia.
Qed.

Theorem split_cover s k parts : valid_sub s -> split s k = SplitOk parts ->
  (forall x, fst s <= x < snd s <-> exists p, In p parts /\ fst p <= x < snd p) /\
  (forall i j p q, nth_error parts i = Some p -> nth_error parts j = Some q -> (i < j)%nat -> snd p <= fst q).
Proof.
  intros Hv Hs.
  assert (Hk : (1 <= k <= Z.of_N (nonzero_values s))%Z).
  { destruct (Z_le_gt_dec k 0); [rewrite split_errors in Hs by (auto; lia); discriminate|].
    destruct (Z_lt_le_dec (Z.of_N (nonzero_values s)) k); [rewrite split_errors in Hs by (auto; lia); discriminate|lia]. }
  destruct (split_spec s k Hv Hk) as (parts' & E & _ & Hhd & Hlast & Hab & Hf). rewrite Hs in E. injection E as <-.
  assert (Hf' : Forall (fun p => fst p < snd p) parts).
  { eapply Forall_impl; [|exact Hf]. intros p [(H1 & _) _]. exact H1. }
  split.
  - intros x. apply chain_cover; assumption.
  - apply chain_ordered; assumption.
Qed.
