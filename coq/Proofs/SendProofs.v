From Coq Require Import ZArith NArith List Bool Lia ZifyN ZifyBool ZifyNat.
From Tup Require Import Lib.ByteStr Lib.ByteStrFacts Lib.Dec Lib.DecFacts Lib.Base64 Lib.Base64Facts
  Lib.SplitJoin Lib.SplitJoinFacts Lib.PyFmt Lib.PyFmtFacts Lib.CommandTypes Gen.CommandGen Gen.TmuxGen
  Model.GraphicsCommand Model.SendModel Model.TmuxTemplate Spec.KittyProtoSpec Spec.TmuxSpec
  Proofs.CommandProofs Proofs.TmuxProofs.
Import ListNotations.
Ltac Zify.zify_post_hook ::= Z.to_euclidean_division_equations.

(* ---------------------------------------------------------------- source-derived constants *)
Lemma src_reserve : send_reserve = 4%Z.  Proof. reflexivity. Qed.
Lemma src_b64q : send_b64_quantum = 4%Z.  Proof. reflexivity. Qed.
Lemma src_rawq : send_raw_quantum = 3%Z.  Proof. reflexivity. Qed.
Lemma src_minp : send_min_payload = 1%Z.  Proof. reflexivity. Qed.
(* with the repaired split(), an absent medium is chunked like the direct medium *)
Lemma src_split_absent : split_when_medium_absent = true.  Proof. reflexivity. Qed.

Definition inline (c : transmit) : Prop := t_medium c = Some MDirect \/ t_medium c = None.
Lemma is_split_inline c : inline c -> is_split c = true.
Proof. unfold is_split. intros [H|H]; rewrite H; [reflexivity|exact src_split_absent]. Qed.

Definition data_of (c : command) : list N :=
  match c with CTransmit t => t_data t | CMore m => m_data m | _ => [] end.
Definition more_of (c : command) : option bool :=
  match c with CTransmit t => t_more t | CMore m => m_more m | _ => None end.

(* ---------------------------------------------------------------- the continuation loop *)
Section Loop.
Variable k : nat.
Variable c : transmit.
Hypothesis Hk : (0 < k)%nat.

Definition mc (fuel : nat) (X : list N) : list command := more_chunks fuel k c (firstn k X) (skipn k X).

Lemma firstn_nil_iff (X : list N) : firstn k X = [] <-> X = [].
Proof. destruct X as [|x X]; [rewrite firstn_nil; tauto|]. destruct k as [|k']; [lia|]. cbn [firstn]. split; discriminate. Qed.

Lemma mc_step fuel X : X <> [] ->
  mc (S fuel) X = CMore {| m_image_id := t_image_id c; m_image_number := t_image_number c; m_data := firstn k X;
                           m_more := more_flag (t_more c) (firstn k (skipn k X)) |} :: mc fuel (skipn k X).
Proof.
  intro HX. unfold mc. cbn [more_chunks]. destruct (firstn k X) as [|a l] eqn:E; [apply (proj1 (firstn_nil_iff X)) in E; congruence|reflexivity].
Qed.
Lemma mc_nil fuel : mc fuel [] = [].
Proof. unfold mc. rewrite firstn_nil. destruct fuel; reflexivity. Qed.

Lemma mc_concat fuel : forall X, (length X < fuel)%nat -> concat (map data_of (mc fuel X)) = X.
Proof.
  induction fuel as [|f IH]; intros X HX; [lia|].
  destruct X as [|x X']; [rewrite mc_nil; reflexivity|].
  rewrite mc_step by discriminate. cbn [map concat data_of m_data].
  rewrite IH; [apply firstn_skipn|]. rewrite skipn_length. cbn [length] in *. lia.
Qed.

(* every continuation: not empty, at most k bytes, is a CMore with the ids of c *)
Definition cont_ok (cmd : command) : Prop :=
  exists d m, cmd = CMore {| m_image_id := t_image_id c; m_image_number := t_image_number c; m_data := d; m_more := m |}
              /\ d <> [] /\ (length d <= k)%nat.
Lemma mc_cont fuel : forall X, Forall cont_ok (mc fuel X).
Proof.
  induction fuel as [|f IH]; intro X; [unfold mc; cbn [more_chunks]; constructor|].
  destruct X as [|x X']; [rewrite mc_nil; constructor|].
  rewrite mc_step by discriminate. constructor; [|apply IH].
  eexists _, _. split; [reflexivity|]. split; [rewrite firstn_nil_iff; discriminate|rewrite firstn_length; lia].
Qed.

(* flags: a chunk followed by more data says m=1 and is full; the final one says m = (requested more) *)
Definition final_flag : option bool := Some (match t_more c with Some true => true | _ => false end).
Lemma more_flag_nil : more_flag (t_more c) [] = final_flag.
Proof. unfold more_flag, final_flag. destruct (t_more c) as [[|]|]; reflexivity. Qed.
Lemma more_flag_cons x l : more_flag (t_more c) (x :: l) = Some true.
Proof. unfold more_flag. destruct (t_more c) as [[|]|]; reflexivity. Qed.

(* the list of flags and sizes along the chunk sequence that starts with a chunk [firstn k X] followed by mc *)
Inductive framed : list command -> Prop :=
| framed_last cmd : more_of cmd = final_flag -> (length (data_of cmd) <= k)%nat -> framed [cmd]
| framed_more cmd rest : more_of cmd = Some true -> length (data_of cmd) = k -> rest <> [] -> framed rest -> framed (cmd :: rest).

Lemma framed_from fuel : forall (X : list N) (head : list N -> option bool -> command),
  (forall d m, data_of (head d m) = d) -> (forall d m, more_of (head d m) = m) ->
  (length X < fuel)%nat ->
  framed (head (firstn k X) (more_flag (t_more c) (firstn k (skipn k X))) :: mc fuel (skipn k X)).
Proof.
  induction fuel as [|f IH]; intros X head Hd Hm HX; [lia|].
  destruct (skipn k X) as [|y Y] eqn:E.
  - rewrite mc_nil, firstn_nil, more_flag_nil. apply framed_last; [apply Hm|rewrite Hd, firstn_length; lia].
  - assert (Hlen : (k < length X)%nat).
    { destruct (Nat.le_gt_cases (length X) k) as [Hle|Hgt]; [rewrite skipn_all2 in E by exact Hle; discriminate|exact Hgt]. }
    assert (Hf : firstn k (y :: Y) <> []) by (rewrite firstn_nil_iff; discriminate).
    destruct (firstn k (y :: Y)) as [|z Z] eqn:E2; [congruence|]. rewrite more_flag_cons.
    apply framed_more; [apply Hm|rewrite Hd, firstn_length; lia| |].
    + rewrite mc_step by discriminate. discriminate.
    + rewrite mc_step by discriminate.
      apply (IH (y :: Y) (fun d m => CMore {| m_image_id := t_image_id c; m_image_number := t_image_number c; m_data := d; m_more := m |}));
        [reflexivity|reflexivity|]. rewrite <- E, skipn_length. lia.
Qed.
End Loop.

(* ---------------------------------------------------------------- split as a whole *)
Definition head_cmd (c : transmit) (d : list N) (m : option bool) : command := CTransmit (with_data_more c d m).

Lemma split_shape c k : inline c ->
  split c k = head_cmd c (firstn k (t_data c)) (more_flag (t_more c) (firstn k (skipn k (t_data c))))
              :: mc k c (S (length (t_data c))) (skipn k (t_data c)).
Proof. intro H. unfold split. rewrite (is_split_inline c H). reflexivity. Qed.

Theorem split_lossless c k : inline c -> (0 < k)%nat -> concat (map data_of (split c k)) = t_data c.
Proof.
  intros Hi Hk. rewrite (split_shape c k Hi). cbn [map concat head_cmd data_of with_data_more t_data].
  rewrite mc_concat; [apply firstn_skipn|exact Hk|]. rewrite skipn_length. lia.
Qed.

Theorem split_framed c k : inline c -> (0 < k)%nat -> framed k c (split c k).
Proof.
  intros Hi Hk. rewrite (split_shape c k Hi).
  apply (framed_from k c Hk _ (t_data c) (head_cmd c)); [reflexivity|reflexivity|lia].
Qed.

Theorem split_continuations c k : inline c -> (0 < k)%nat ->
  exists d m rest, split c k = CTransmit (with_data_more c d m) :: rest /\ (length d <= k)%nat /\ Forall (cont_ok k c) rest.
Proof.
  intros Hi Hk. rewrite (split_shape c k Hi). eexists _, _, _. split; [reflexivity|].
  split; [rewrite firstn_length; lia|apply mc_cont; exact Hk].
Qed.

Theorem split_not_inline c k : is_split c = false -> split c k = [CTransmit c].
Proof. intro H. unfold split. rewrite H. reflexivity. Qed.

(* ---------------------------------------------------------------- header lengths *)
Definition contrib {F} (get : F -> option hval) (kf : N * F) : nat :=
  match get (snd kf) with Some v => 3 + length (ser_val v) | None => 0 end.
Definition hlen (its : list (N * hval)) : nat := fold_right (fun it a => 3 + length (ser_val (snd it)) + a)%nat 0%nat its.

Lemma hlen_app a b : hlen (a ++ b) = (hlen a + hlen b)%nat.
Proof. induction a as [|x a IH]; [reflexivity|]. cbn [app hlen fold_right] in *. fold (hlen (a ++ b)). fold (hlen a). lia. Qed.

Lemma hlen_items {F} (get : F -> option hval) tbl :
  hlen (items get tbl) = fold_right (fun kf a => contrib get kf + a)%nat 0%nat tbl.
Proof.
  induction tbl as [|kf tbl IH]; [reflexivity|]. rewrite items_cons. cbn [fold_right]. unfold contrib at 1.
  destruct (get (snd kf)) as [v|]; [|exact IH]. cbn [hlen fold_right snd]. fold (hlen (items get tbl)). rewrite IH. reflexivity.
Qed.

Lemma header_len its : length (join 44 (map ser_item its)) = (hlen its - 1)%nat.
Proof.
  induction its as [|it [|it2 r] IH]; [reflexivity| |].
  - cbn [map join hlen fold_right ser_item length]. lia.
  - change (map ser_item (it :: it2 :: r)) with (ser_item it :: map ser_item (it2 :: r)).
    change (join 44 (ser_item it :: map ser_item (it2 :: r))) with (ser_item it ++ 44%N :: join 44 (map ser_item (it2 :: r))).
    rewrite app_length. cbn [length]. rewrite IH. unfold ser_item at 1. cbn [length].
    cbn [hlen fold_right]. fold (hlen r). lia.
Qed.

Lemma bool_val_len (b : bool) : length (ser_val (HInt (if b then 1 else 0)%N)) = 1%nat.
Proof. destruct b; reflexivity. Qed.

Lemma transmit_hlen c d b :
  (hlen (header_tuple (CTransmit (with_data_more c d (Some b)))) <= hlen (header_tuple (CTransmit c)) + 4)%nat.
Proof.
  cbn [header_tuple]. rewrite !hlen_app, !hlen_items.
  change (t_placement (with_data_more c d (Some b))) with (t_placement c).
  unfold transmit_keys. cbn [fold_right]. unfold contrib. cbn [snd transmit_field].
  change (transmit_action (with_data_more c d (Some b))) with (transmit_action c).
  cbn [with_data_more t_image_id t_image_number t_medium t_size t_offset t_quiet t_more t_format t_compression t_pix_width t_pix_height].
  unfold hv_bool at 1. cbn [option_map]. rewrite bool_val_len.
  destruct (t_more c) as [b0|]; unfold hv_bool; cbn [option_map]; [rewrite bool_val_len|]; lia.
Qed.

Lemma more_hlen c d b :
  (hlen (header_tuple (CMore {| m_image_id := t_image_id c; m_image_number := t_image_number c; m_data := d; m_more := Some b |}))
   <= hlen (header_tuple (CTransmit c)) + 4)%nat.
Proof.
  cbn [header_tuple]. rewrite !hlen_app, !hlen_items.
  unfold transmit_keys, more_keys. cbn [fold_right]. unfold contrib. cbn [snd transmit_field more_field m_image_id m_image_number m_more].
  unfold hv_bool at 1. cbn [option_map]. rewrite bool_val_len. lia.
Qed.

(* ---------------------------------------------------------------- size of one written escape *)
Lemma b64_len_bound d (mb64 : Z) :
  (1 <= (mb64 / 4) * 3)%Z -> (Z.of_nat (length d) <= (mb64 / 4) * 3)%Z -> (Z.of_nat (length (b64encode d)) <= mb64)%Z.
Proof.
  intros H1 H2. pose proof (b64encode_length d) as HL.
  assert (Z.of_nat (length (b64encode d)) = 4 * ((Z.of_nat (length d) + 2) / 3))%Z by lia. lia.
Qed.

Lemma content_len (cmd : command) d : raw_payload cmd = Some d ->
  length (content_bytes cmd) = (length (header_bytes cmd) + 1 + length (b64encode d))%nat.
Proof. intro H. unfold content_bytes. rewrite H, app_length. cbn [length]. lia. Qed.

(* a template of the library: pre ++ "%b" ++ post with no other '%' *)
Definition tmpl_ok (t pre post : list N) : Prop := t = pre ++ [37; 98]%N ++ post /\ pct_free pre /\ pct_free post.

Lemma to_bytes_tmpl t pre post cmd : tmpl_ok t pre post -> to_bytes t cmd = Some (pre ++ content_bytes cmd ++ post).
Proof. intros (-> & Hp & Hq). unfold to_bytes. apply pyfmt_split; assumption. Qed.

Lemma template_ok n : exists t, template n = Some t /\ tmpl_ok t (pre n) (post n).
Proof. eexists. split; [apply template_closed|]. split; [reflexivity|split; [apply pre_free|apply post_free]]. Qed.

(* the budget inequality of send(): a chunk whose header is at most 4 bytes longer than the original header and
   whose raw payload is at most max_payload bytes fits in max_size *)
Lemma chunk_fits t pre post (c : transmit) (max_size : Z) (cmd : command) d :
  tmpl_ok t pre post ->
  (1 <= max_payload c t max_size)%Z ->
  raw_payload cmd = Some d ->
  (length (header_bytes cmd) <= length (header_bytes (CTransmit c)) + 4)%nat ->
  (Z.of_nat (length d) <= max_payload c t max_size)%Z ->
  (Z.of_nat (length (pre ++ content_bytes cmd ++ post)) <= max_size)%Z.
Proof.
  intros (Ht & _ & _) Hmp Hraw Hh Hd. unfold max_payload in *. rewrite src_reserve, src_b64q, src_rawq in *.
  set (mb64 := (max_size - Z.of_nat (length t) - Z.of_nat (length (header_bytes (CTransmit c))) - 4)%Z) in *.
  pose proof (b64_len_bound d mb64 Hmp Hd) as Hb.
  rewrite !app_length, (content_len cmd d Hraw).
  assert (Hlt : length t = (length pre + 2 + length post)%nat) by (rewrite Ht, !app_length; cbn [length]; lia).
  subst mb64. lia.
Qed.

(* ---------------------------------------------------------------- send: size limit, rejection *)
Lemma all_some_map {A B} (f : A -> option B) (g : A -> B) l : (forall x, In x l -> f x = Some (g x)) -> all_some (map f l) = Some (map g l).
Proof.
  induction l as [|x l IH]; intro H; [reflexivity|]. cbn [map all_some]. rewrite (H x (or_introl eq_refl)).
  rewrite IH; [reflexivity|]. intros y Hy. apply H. right. exact Hy.
Qed.

Theorem send_ok_writes t pre post cmd max_size cmds : tmpl_ok t pre post ->
  send_cmds cmd t max_size = Some cmds ->
  send cmd t max_size = SendOk (map (fun x => pre ++ content_bytes x ++ post) cmds).
Proof.
  intros Ht Hs. unfold send. rewrite Hs.
  rewrite (all_some_map _ (fun x => pre ++ content_bytes x ++ post)); [reflexivity|].
  intros x _. apply (to_bytes_tmpl t pre post x Ht).
Qed.

Theorem send_too_small t c max_size : (max_payload c t max_size < 1)%Z -> send (CTransmit c) t max_size = SendError.
Proof.
  intro H. unfold send, send_cmds. rewrite src_minp. destruct (max_payload c t max_size <? 1)%Z eqn:E; [reflexivity|lia].
Qed.

Theorem send_within_limit t pre post c max_size ws : tmpl_ok t pre post -> inline c ->
  send (CTransmit c) t max_size = SendOk ws -> Forall (fun w => (Z.of_nat (length w) <= max_size)%Z) ws.
Proof.
  intros Ht Hi Hs. unfold send_cmds in *.
  destruct (send_cmds (CTransmit c) t max_size) as [cmds|] eqn:Hc; [|unfold send in Hs; rewrite Hc in Hs; discriminate].
  rewrite (send_ok_writes t pre post _ max_size cmds Ht Hc) in Hs. inversion Hs; subst ws. clear Hs.
  unfold send_cmds in Hc. rewrite src_minp in Hc.
  destruct (max_payload c t max_size <? 1)%Z eqn:E; [discriminate|]. inversion Hc; subst cmds. clear Hc.
  assert (Hmp : (1 <= max_payload c t max_size)%Z) by lia.
  set (k := Z.to_nat (max_payload c t max_size)). assert (Hk : (0 < k)%nat) by lia.
  destruct (split_continuations c k Hi Hk) as (d & m & rest & Hsp & Hd & Hrest).
  pose proof (split_framed c k Hi Hk) as Hfr.
  rewrite Hsp in *. apply Forall_map. constructor.
  - (* the first chunk *)
    assert (Hm : exists b, m = Some b).
    { inversion Hfr as [cmd Hmo _ Heq|cmd r Hmo _ _ _ Heq]; subst; cbn [more_of with_data_more t_more] in Hmo;
      [unfold final_flag in Hmo; eexists; exact Hmo|eexists; exact Hmo]. }
    destruct Hm as [b ->].
    apply (chunk_fits t pre post c max_size _ d Ht Hmp); [reflexivity| |cbn [length]; lia].
    unfold header_bytes. rewrite !header_len. pose proof (transmit_hlen c d b). lia.
  - (* continuations *)
    assert (Hflags : Forall (fun x => exists b, more_of x = Some b) rest).
    { clear - Hfr. remember (CTransmit (with_data_more c d m) :: rest) as l eqn:El. revert d m rest El.
      induction Hfr as [cmd Hmo Hl|cmd r Hmo Hl Hne Hr IH]; intros d m rest El; inversion El; subst; [constructor|].
      clear El. inversion Hr as [x Hx _ Heq|x r' Hx _ _ Hr' Heq]; subst.
      - constructor; [unfold final_flag in Hx; eexists; exact Hx|constructor].
      - constructor; [eexists; exact Hx|].
        assert (G : forall l, framed k c l -> Forall (fun x => exists b, more_of x = Some b) l).
        { clear. induction 1 as [y Hy _|y l Hy _ _ _ IHl]; (constructor; [|]); try (unfold final_flag in Hy; eexists; exact Hy); [constructor|exact IHl]. }
        apply G. exact Hr'. }
    rewrite Forall_forall in *. intros x Hx. destruct (Hrest x Hx) as (dx & mx & -> & Hne & Hlen).
    destruct (Hflags _ Hx) as [b Hb]. cbn [more_of m_more] in Hb. subst mx.
    apply (chunk_fits t pre post c max_size _ dx Ht Hmp); [reflexivity| |lia].
    unfold header_bytes. rewrite !header_len. pose proof (more_hlen c dx b). lia.
Qed.

(* ---------------------------------------------------------------- what a terminal decodes from the writes *)
Definition decodes_to (n : nat) (w : list N) (cmd : command) : Prop :=
  exists esc kvs, unwrapn n w = Some esc /\
                  parse_escape esc = Some (kvs, Some (data_of cmd)) /\
                  NoDup (map fst kvs) /\
                  (forall key, sp_assoc key kvs = expected_fields cmd key).

Lemma unwrapn_closed n content : has_byte 27 content = false ->
  unwrapn n (pre n ++ content ++ post n) = Some ([27; 95; 71]%N ++ content ++ [27; 92]%N).
Proof.
  intro H. destruct (unwrapn_emit n content H) as (out & out0 & H1 & H2 & H3).
  rewrite emit_closed in H1, H2. inversion H1; inversion H2; subst. exact H3.
Qed.

Lemma chunk_decodes n cmd : (exists d, raw_payload cmd = Some d /\ bytes_ok d) ->
  decodes_to n (pre n ++ content_bytes cmd ++ post n) cmd.
Proof.
  intros (d & Hr & Hd).
  assert (Hp : payload_ok cmd) by (unfold payload_ok; rewrite Hr; exact Hd).
  destruct (command_roundtrip cmd Hp) as (esc & kvs & H1 & H2 & H3 & H4 & H5).
  exists esc, kvs. split; [rewrite H2; apply unwrapn_closed; apply content_no_esc; exact Hp|].
  split; [|split; assumption].
  rewrite H3. f_equal. f_equal. destruct cmd; cbn [raw_payload] in Hr; try discriminate; reflexivity.
Qed.

Lemma bytes_ok_concat (ls : list (list N)) : bytes_ok (concat ls) -> Forall bytes_ok ls.
Proof.
  induction ls as [|l ls IH]; intro H; [constructor|]. cbn [concat] in H. apply bytes_ok_app in H. destruct H as [H1 H2].
  constructor; [exact H1|exact (IH H2)].
Qed.

Lemma split_all_payloads c k : inline c -> (0 < k)%nat -> Forall (fun cmd => raw_payload cmd = Some (data_of cmd)) (split c k).
Proof.
  intros Hi Hk. destruct (split_continuations c k Hi Hk) as (d & m & rest & Hsp & _ & Hrest). rewrite Hsp.
  constructor; [reflexivity|]. eapply Forall_impl; [|exact Hrest]. intros x (dx & mx & -> & _). reflexivity.
Qed.

Theorem send_decodes n t c max_size ws : template n = Some t -> inline c -> bytes_ok (t_data c) ->
  send (CTransmit c) t max_size = SendOk ws ->
  exists cmds, Forall2 (decodes_to n) ws cmds /\
               concat (map data_of cmds) = t_data c /\
               framed (Z.to_nat (max_payload c t max_size)) c cmds /\
               (exists d m rest, cmds = CTransmit (with_data_more c d m) :: rest /\
                                 Forall (cont_ok (Z.to_nat (max_payload c t max_size)) c) rest) /\
               (Z.to_nat (max_payload c t max_size) mod 3 = 0)%nat.
Proof.
  intros Htm Hi Hb Hs. destruct (template_ok n) as (t' & Ht' & Hok). rewrite Htm in Ht'. inversion Ht'; subst t'. clear Ht'.
  destruct (send_cmds (CTransmit c) t max_size) as [cmds|] eqn:Hc; [|unfold send in Hs; rewrite Hc in Hs; discriminate].
  rewrite (send_ok_writes t _ _ _ max_size cmds Hok Hc) in Hs. inversion Hs; subst ws. clear Hs.
  unfold send_cmds in Hc. rewrite src_minp in Hc.
  destruct (max_payload c t max_size <? 1)%Z eqn:E; [discriminate|]. inversion Hc; subst cmds. clear Hc.
  set (k := Z.to_nat (max_payload c t max_size)). assert (Hk : (0 < k)%nat) by lia.
  exists (split c k). pose proof (split_lossless c k Hi Hk) as Hl.
  split; [|split; [exact Hl|split; [apply split_framed; assumption|split]]].
  - pose proof (split_all_payloads c k Hi Hk) as Hp.
    assert (Hbs : Forall bytes_ok (map data_of (split c k))) by (apply bytes_ok_concat; rewrite Hl; exact Hb).
    rewrite Forall_map in Hbs. revert Hp Hbs. generalize (split c k). intro l.
    induction l as [|x l IH]; intros Hp Hbs; [constructor|]. cbn [map].
    apply Forall_cons_iff in Hp. destruct Hp as [Hx Hp]. apply Forall_cons_iff in Hbs. destruct Hbs as [Hbx Hbs].
    constructor; [apply chunk_decodes; exists (data_of x); split; assumption|exact (IH Hp Hbs)].
  - destruct (split_continuations c k Hi Hk) as (d & m & rest & Hsp & _ & Hrest). eexists _, _, _. split; [exact Hsp|exact Hrest].
  - subst k. unfold max_payload. rewrite src_rawq.
    set (q := ((max_size - Z.of_nat (length t) - Z.of_nat (length (header_bytes (CTransmit c))) - send_reserve) / send_b64_quantum)%Z).
    unfold max_payload in E. rewrite src_rawq in E. fold q in E.
    assert (0 <= q)%Z by lia. rewrite Z2Nat.inj_mul by lia. change (Z.to_nat 3) with 3%nat. apply Nat.mod_mul. discriminate.
Qed.

(* full chunks of a multiple-of-3 size encode without padding, to a multiple of 4 characters *)
Theorem full_chunk_unpadded d k : bytes_ok d -> length d = k -> (k mod 3 = 0)%nat ->
  ~ In 61%N (b64encode d) /\ (length (b64encode d) mod 4 = 0)%nat.
Proof.
  intros Hd Hl Hk. split.
  - apply b64encode_unpadded; [exact Hd|]. rewrite Hl. clear - Hk.
    assert (H : (N.of_nat k mod 3 = N.of_nat (k mod 3))%N) by (rewrite Nat2N.inj_mod; reflexivity). rewrite H, Hk. reflexivity.
  - pose proof (b64encode_length d) as H.
    assert (H2 : length (b64encode d) = (4 * ((length d + 2) / 3))%nat).
    { apply Nat2N.inj. rewrite H. rewrite Nat2N.inj_mul, Nat2N.inj_div, Nat2N.inj_add. reflexivity. }
    rewrite H2, Nat.mul_comm. apply Nat.mod_mul. discriminate.
Qed.

(* continuation chunks carry at most i, I and m *)
Theorem continuation_keys m key : key <> 105%N -> key <> 73%N -> key <> 109%N -> expected_fields (CMore m) key = None.
Proof.
  intros H1 H2 H3. cbn [expected_fields]. unfold expected_more.
  destruct (key =? 105)%N eqn:E1; [lia|]. destruct (key =? 73)%N eqn:E2; [lia|]. destruct (key =? 109)%N eqn:E3; [lia|]. reflexivity.
Qed.
(* the m key of any chunk is the text of its more flag *)
Theorem m_key_of_chunk cmd : (exists t, cmd = CTransmit t) \/ (exists m, cmd = CMore m) ->
  expected_fields cmd 109%N = e_bool (more_of cmd).
Proof. intros [[t ->]|[m ->]]; reflexivity. Qed.
