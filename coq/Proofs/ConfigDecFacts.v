(* Proofs/ConfigDecFacts.v — str(int) read back by the model's int(): py_int (show_z z) = Some z,
   and splitting "A<sep>B" texts built from decimal numbers. *)
From Coq Require Import ZArith NArith List Bool Lia ZifyN ZifyBool ZifyNat.
From Tup Require Import Lib.ByteStr Lib.ByteStrFacts Lib.Dec Lib.DecFacts Lib.CfgTypes Model.ConfigModel.
Import ListNotations.
Open Scope N_scope.
Ltac Zify.zify_post_hook ::= Z.to_euclidean_division_equations.

Definition ddig (n : N) : list N := rev (digits_rev (S (N.to_nat (N.size n))) n).
Lemma dec_ddig n : dec n = map (fun d => d + 48) (ddig n).
Proof. reflexivity. Qed.

Lemma digits_rev_small fuel n : Forall (fun d => d < 10) (digits_rev fuel n).
Proof.
  revert n. induction fuel as [|f IH]; intro n; cbn [digits_rev]; [constructor|].
  destruct (n <? 10) eqn:E; [repeat constructor; lia|].
  constructor; [lia|apply IH].
Qed.
Lemma ddig_small n : Forall (fun d => d < 10) (ddig n).
Proof. unfold ddig. apply Forall_rev. apply digits_rev_small. Qed.
Lemma ddig_last n : exists pre x, ddig n = pre ++ [x].
Proof.
  unfold ddig. cbn [digits_rev]. destruct (n <? 10).
  - exists [], n. reflexivity.
  - cbn [rev]. eexists _, _. reflexivity.
Qed.
Lemma ddig_val n : fold_left (fun a d => a * 10 + d) (ddig n) 0 = n.
Proof.
  pose proof (undec_dec n) as H. unfold undec in H. rewrite dec_ddig, fold_val in H. exact H.
Qed.

Definition stop (rest : list N) : Prop :=
  match rest with [] => True | b :: _ => is_digit b = false /\ b <> 95 end.

Lemma scan_tail_digits ds : forall rest, Forall (fun d => d < 10) ds -> stop rest ->
  scan_digits_tail (map (fun d => d + 48) ds ++ rest) = (ds, rest).
Proof.
  induction ds as [|d ds IH]; intros rest Hs Hstop.
  - cbn [map app]. destruct rest as [|b r]; [reflexivity|].
    cbn [scan_digits_tail]. destruct Hstop as [Hd H95]. rewrite Hd.
    apply N.eqb_neq in H95. rewrite H95. reflexivity.
  - inversion Hs as [|? ? Hd Hds]; subst. cbn [map app scan_digits_tail].
    assert (is_digit (d + 48) = true) as -> by (unfold is_digit; lia).
    rewrite (IH rest Hds Hstop). f_equal. f_equal. lia.
Qed.
Lemma scan_digits_digits ds rest : Forall (fun d => d < 10) ds -> ds <> [] -> stop rest ->
  scan_digits (map (fun d => d + 48) ds ++ rest) = Some (ds, rest).
Proof.
  intros Hs Hne Hstop. destruct ds as [|d ds]; [congruence|].
  inversion Hs as [|? ? Hd Hds]; subst. cbn [map app scan_digits].
  assert (is_digit (d + 48) = true) as -> by (unfold is_digit; lia).
  rewrite (scan_tail_digits ds rest Hds Hstop). f_equal. f_equal. f_equal. lia.
Qed.

Lemma digits_val_fold ds : forall acc,
  fold_left (fun a d => (a * 10 + Z.of_N d)%Z) ds (Z.of_N acc) = Z.of_N (fold_left (fun a d => a * 10 + d) ds acc).
Proof.
  induction ds as [|d ds IH]; intro acc; cbn [fold_left]; [reflexivity|].
  rewrite <- IH. f_equal. lia.
Qed.
Lemma digits_val_ddig n : digits_val (ddig n) = Z.of_N n.
Proof. unfold digits_val. change 0%Z with (Z.of_N 0). rewrite (digits_val_fold (ddig n) 0). rewrite ddig_val. reflexivity. Qed.

Lemma ddig_nonempty n : ddig n <> [].
Proof. destruct (ddig_last n) as (pre & x & ->). destruct pre; discriminate. Qed.

Lemma scan_digits_dec n rest : stop rest -> scan_digits (dec n ++ rest) = Some (ddig n, rest).
Proof. intro H. rewrite dec_ddig. apply scan_digits_digits; [apply ddig_small|apply ddig_nonempty|exact H]. Qed.

(* characters of a decimal number *)
Definition numchar (b : N) : Prop := b = 45 \/ (48 <= b /\ b <= 57).
Lemma dec_chars n : Forall (fun b => 48 <= b /\ b <= 57) (dec n).
Proof.
  rewrite dec_ddig. pose proof (ddig_small n) as H. induction H as [|d l Hd Hl IH]; cbn [map]; constructor; [lia|exact IH].
Qed.
Lemma show_z_chars z : Forall numchar (show_z z).
Proof.
  unfold show_z. destruct (z <? 0)%Z.
  - constructor; [left; reflexivity|]. eapply Forall_impl; [|apply dec_chars]. intros b H. right. exact H.
  - eapply Forall_impl; [|apply dec_chars]. intros b H. right. exact H.
Qed.
Lemma dec_head_last n : exists a pre b, dec n = a :: pre /\ dec n = (removelast (dec n)) ++ [b] /\ (48 <= a /\ a <= 57) /\ 48 <= b.
Proof.
  pose proof (dec_chars n) as Hc. pose proof (ddig_nonempty n) as Hne.
  rewrite dec_ddig in *. destruct (ddig n) as [|d ds] eqn:E; [congruence|]. clear Hne.
  cbn [map] in *. exists (d + 48), (map (fun d => d + 48) ds).
  assert (Hnn : (d + 48) :: map (fun d0 => d0 + 48) ds <> []) by discriminate.
  pose proof (app_removelast_last 0 Hnn) as Hl.
  exists (last ((d + 48) :: map (fun d0 => d0 + 48) ds) 0). split; [reflexivity|]. split; [|split].
  - exact Hl.
  - inversion Hc; subst; lia.
  - rewrite Forall_forall in Hc. assert (Hin : In (last ((d + 48) :: map (fun d0 => d0 + 48) ds) 0) ((d + 48) :: map (fun d0 => d0 + 48) ds)).
    { rewrite Hl at 2. apply in_or_app. right. left. reflexivity. }
    apply Hc in Hin. lia.
Qed.

Lemma lstrip_head ws a r : ws a = false -> lstrip_by ws (a :: r) = a :: r.
Proof. intro H. cbn [lstrip_by]. rewrite H. reflexivity. Qed.
Lemma strip_by_id ws a r pre b : ws a = false -> ws b = false -> a :: r = pre ++ [b] -> strip_by ws (a :: r) = a :: r.
Proof.
  intros Ha Hb E. unfold strip_by. rewrite (lstrip_head ws a r Ha). rewrite E, rev_app_distr. cbn [rev app].
  rewrite (lstrip_head ws b (rev pre) Hb). cbn [rev]. rewrite rev_involutive. reflexivity.
Qed.

Lemma is_ws_numchar b : 48 <= b \/ b = 45 -> is_ws b = false /\ is_ws_str b = false.
Proof. unfold is_ws_str, is_ws. lia. Qed.

Lemma show_z_shape z : exists a r pre b, show_z z = a :: r /\ a :: r = pre ++ [b] /\ ((48 <= a /\ a <= 57) \/ a = 45) /\ 48 <= b.
Proof.
  unfold show_z. destruct (dec_head_last (Z.to_N (if (z <? 0)%Z then - z else z))) as (a & pre & b & H1 & H2 & Ha & Hb).
  destruct (z <? 0)%Z.
  - exists 45, (dec (Z.to_N (- z))), (45 :: removelast (dec (Z.to_N (- z)))), b. repeat split; [|right; reflexivity|exact Hb].
    cbn [app]. f_equal. exact H2.
  - exists a, pre, (removelast (dec (Z.to_N z))), b. repeat split; [exact H1|rewrite <- H1; exact H2|left; exact Ha|exact Hb].
Qed.

Lemma strip_show_z z : strip (show_z z) = show_z z.
Proof.
  destruct (show_z_shape z) as (a & r & pre & b & -> & E & Ha & Hb).
  apply (strip_by_id is_ws a r pre b); [apply is_ws_numchar; lia|apply is_ws_numchar; left; exact Hb|exact E].
Qed.

Theorem py_int_show_z z : py_int (show_z z) = Some z.
Proof.
  unfold py_int. rewrite strip_show_z. unfold show_z. destruct (z <? 0)%Z eqn:E.
  - cbn [scan_sign]. change (45 =? 45) with true. cbv iota.
    rewrite <- (app_nil_r (dec (Z.to_N (- z)))), scan_digits_dec by exact I.
    rewrite digits_val_ddig. unfold with_sign. f_equal. apply Z.ltb_lt in E. rewrite Z2N.id by lia. lia.
  - destruct (dec_head_last (Z.to_N z)) as (a & pre & b & H1 & _ & Ha & _).
    rewrite H1. cbn [scan_sign]. assert (a =? 45 = false) as -> by lia. assert (a =? 43 = false) as -> by lia.
    rewrite <- H1. rewrite <- (app_nil_r (dec (Z.to_N z))), scan_digits_dec by exact I.
    rewrite digits_val_ddig. unfold with_sign. f_equal. apply Z.ltb_ge in E. rewrite Z2N.id by lia. reflexivity.
Qed.

(* splitting "A<sep>B" *)
Lemma split_on_single c a : has_byte c a = false -> split_on c a = [a].
Proof.
  induction a as [|x a IH]; intro H; [reflexivity|]. cbn [has_byte] in H. apply orb_false_iff in H. destruct H as [Hx Ha].
  cbn [split_on]. rewrite Hx, (IH Ha). reflexivity.
Qed.
Lemma split_on_two c a b : has_byte c a = false -> has_byte c b = false -> split_on c (a ++ c :: b) = [a; b].
Proof.
  intros Ha Hb. induction a as [|x a IH].
  - cbn [app split_on]. rewrite N.eqb_refl, (split_on_single c b Hb). reflexivity.
  - cbn [has_byte] in Ha. apply orb_false_iff in Ha. destruct Ha as [Hx Ha].
    cbn [app split_on]. rewrite Hx, (IH Ha). reflexivity.
Qed.
Lemma show_z_no_byte c z : c <> 45 -> (c < 48 \/ 57 < c) -> has_byte c (show_z z) = false.
Proof.
  intros H45 Hc. pose proof (show_z_chars z) as H. induction H as [|b l Hb Hl IH]; [reflexivity|].
  cbn [has_byte]. rewrite IH. unfold numchar in Hb. lia.
Qed.
Lemma show_z_not_auto z rest : beq_bytes (show_z z ++ rest) s_auto = false.
Proof.
  destruct (show_z_shape z) as (a & r & pre & b & -> & _ & Ha & _). cbn [app beq_bytes s_auto].
  assert (a =? 97 = false) as -> by lia. reflexivity.
Qed.

Lemma validate_size_show w h : (1 <= w)%Z -> (1 <= h)%Z ->
  validate_size (show_z w ++ [120] ++ show_z h) = Some (VTuple [VInt w; VInt h]).
Proof.
  intros Hw Hh. unfold validate_size. cbn [app].
  rewrite split_on_two by (apply show_z_no_byte; lia).
  rewrite !py_int_show_z. assert ((w <? 1)%Z || (h <? 1)%Z = false) as -> by lia. reflexivity.
Qed.
Lemma sub_from_string_show b e : sub_ok b e = true -> sub_from_string (sub_str b e) = Some (VSub b e).
Proof.
  intro H. unfold sub_from_string, sub_str. destruct (show_z_shape b) as (a & r & _ & _ & E & _).
  rewrite E. cbn [app]. change (a :: r ++ 58 :: show_z e) with ((a :: r) ++ 58 :: show_z e). rewrite <- E.
  rewrite split_on_two by (apply show_z_no_byte; lia).
  rewrite !py_int_show_z, H. reflexivity.
Qed.
