(* Proofs/PlaceholderStmt.v — vocabulary of the C07 / C13 / C14 theorem statements (definitions only):
   which inputs are legal, the four output styles and what reaches the terminal for each, the
   horizontal/vertical fit conditions, and the expected decoded cell at a screen position. *)
From Coq Require Import ZArith NArith List Bool.
From Tup Require Import Model.PlaceholderModel Spec.TermSpec Spec.PlaceholderSpec.
Import ListNotations.
Open Scope N_scope.

(* a constructible mode (first level ROW..IF_NONZERO, other level NONE..IF_NONZERO: 2*2*2*4*5 = 160 modes)
   with the protocol's placeholder character *)
Definition mode_ok (m : mode) : Prop :=
  1 <= lvl_first m <= 4 /\ lvl_other m <= 4 /\ ph_char m = [placeholder_cp].
(* 32-bit non-zero image ID, 24-bit placement ID, non-empty rectangle, addressable start column *)
Definition rect_ok (p : placeholder) : Prop :=
  1 <= image_id p < 4294967296 /\ placement_id p < 16777216 /\
  start_col p < end_col p /\ start_row p < end_row p /\ start_col p < 297.
Definition width (p : placeholder) : nat := N.to_nat (end_col p) - N.to_nat (start_col p).
Definition height (p : placeholder) : nat := N.to_nat (end_row p) - N.to_nat (start_row p).

Inductive style :=
| StSaveRestore                          (* to_stream(use_save_cursor=True)            : CSI s ... CSI u ESC D *)
| StRelative                             (* to_stream(use_save_cursor=False)           : ... CSI w D ESC D *)
| StLineFeeds (use_save : bool)          (* to_stream(use_line_feeds=True)             : ... LF, through a tty with ONLCR *)
| StAbsolute (px py : N) (use_save : bool). (* to_stream(pos=(px,py))                  : CSI y;x H ... *)

Definition stream_of (st : style) (p : placeholder) (m : mode) (f : formatting) : result (list (list N)) :=
  match st with
  | StSaveRestore => to_stream p None m f true false
  | StRelative => to_stream p None m f false false
  | StLineFeeds us => to_stream p None m f us true
  | StAbsolute px py us => to_stream p (Some (px, py)) m f us false
  end.
(* what reaches the terminal *)
Definition wire (st : style) (bytes : list N) : list N :=
  match st with StLineFeeds _ => tty_onlcr bytes | _ => bytes end.
(* where the top-left cell of the rectangle is meant to go *)
Definition origin_x (st : style) (t0 : term) : Z := match st with StAbsolute px _ _ => Z.of_N px | _ => cx t0 end.
Definition origin_y (st : style) (t0 : term) : Z := match st with StAbsolute _ py _ => Z.of_N py | _ => cy t0 end.

Section Sized.
Variables W H : Z.
Definition fits (st : style) (t0 : term) (w h : nat) : Prop :=
  (match st with
   | StSaveRestore => cx t0 + Z.of_nat w <= W
   | StRelative => cx t0 + Z.of_nat w < W          (* documented in the source as unreliable at the right margin *)
   | StLineFeeds _ => cx t0 = 0 /\ Z.of_nat w <= W
   | StAbsolute px py _ => Z.of_N px + Z.of_nat w <= W /\ Z.of_N py + Z.of_nat h <= H
   end)%Z.
Definition start_ok (t0 : term) : Prop := (pend t0 = false /\ 0 <= cx t0 < W /\ 0 <= cy t0 < H)%Z.

(* the statement of C07: with sc lines scrolled, the cell (x,y) shows row r / column c of the image
   iff it lies in the rectangle placed at (ox,oy); rows >= 297 of a rectangle are printed as blanks *)
Definition expected_at (p : placeholder) (ox oy : Z) (x y : Z) : option decoded :=
  let sc := Z.max 0 (oy + Z.of_nat (height p) - H) in
  let r := start_row p + Z.to_N (y + sc - oy) in
  if ((oy <=? y + sc) && (y + sc <? oy + Z.of_nat (height p)) && (ox <=? x) && (x <? ox + Z.of_nat (width p)))%Z && (r <? 297)
  then Some (mkdecoded (image_id p) (placement_id p) r (start_col p + Z.to_N (x - ox))) else None.
End Sized.
