(* Proofs/CellSizeFloatFacts.v — evaluations of the binary64 instance (vm_compute on primitive floats) for
   Props/C15float.v, and the Spec judgement of the resulting box. *)
From Coq Require Import ZArith Bool QArith Lia.
From Coq Require PrimFloat.
From Tup Require Import Gen.CellSizeGen Model.CellSize Model.CellSizeFloat Spec.SizingSpec.
Open Scope Z_scope.
Import PrimFloat.

Definition fl_cfg : F.f_config :=
  Build_config PrimFloat.float (Some (1, 1)) (10, 20) (Some 0x1.999999999999ap-4%float) 0x1.999999999999ap-4%float None None.
Definition fl_term : term := {| t_size := Ok (Some (200, 60)); t_cell := None |}.
Definition fl_cfg_everyday : F.f_config :=
  Build_config PrimFloat.float (Some (8, 16)) (8, 16) (Some 0x1.999999999999ap-4%float) 1%float None None.

Theorem thm_float_cascade :
  F.f_optimal_with true false fl_cfg fl_term 8 8 None (Some 255) (Some 255) (Some 256) None = Ok (255, 256) /\
  ~ no_unused_row_or_col (2 # 25) (2 # 25) 1 1 255 256.
Proof.
  split; [vm_compute; reflexivity|]. intros N.
  specialize (N (6375 # 2)%Q). destruct N as [_ N].
  - unfold is_fit, box_w, box_h. cbn. split; [|split; [|left]]; unfold Qle, Qeq; cbn; lia.
  - revert N. unfold box_h, Qlt. cbn. lia.
Qed.

Theorem thm_float_cascade_repaired :
  F.f_optimal_with true true fl_cfg fl_term 8 8 None (Some 255) (Some 255) (Some 256) None = Ok (255, 255).
Proof. vm_compute. reflexivity. Qed.

Theorem thm_float_everyday :
  F.f_optimal_with true false fl_cfg_everyday fl_term 256 256 None (Some 3) None None None = Ok (7, 3) /\
  F.f_optimal_with true true fl_cfg_everyday fl_term 256 256 None (Some 3) None None None = Ok (6, 3).
Proof. split; vm_compute; reflexivity. Qed.
