(* Proofs/ConfigProofs.v — lemmas about Model/ConfigModel.v for C17 (layering, errors, types). *)
From Coq Require Import ZArith NArith List Bool Lia ZifyN ZifyBool ZifyNat.
From Tup Require Import Lib.ByteStr Lib.ByteStrFacts Lib.CfgTypes Gen.ConfigGen Model.ConfigModel Spec.ConfigSpec.
Import ListNotations.
Open Scope N_scope.
Ltac Zify.zify_post_hook ::= Z.to_euclidean_division_equations.

(* ------------------------------------------------------------------ precedence *)
Definition mk (v : value) (p : list N) : entry := {| e_val := v; e_prov := Some p |}.

Lemma apply_assignments_spec pl l : forall c c',
  apply_assignments pl c l = Ok c' ->
  forall o, match in_layer o l with
            | Some (r, p) => exists v, normalize pl o r = Ok v /\ c' o = mk v p
            | None => c' o = c o
            end.
Proof.
  induction l as [|[[o1 r1] p1] rest IH]; intros c c' H o; cbn [apply_assignments in_layer] in *.
  - injection H as <-. reflexivity.
  - destruct (normalize pl o1 r1) as [v1|e] eqn:En; [|discriminate].
    specialize (IH _ _ H o).
    destruct (in_layer o rest) as [[r p]|]; [exact IH|].
    destruct (beq_bytes o o1) eqn:E.
    + apply beq_bytes_eq in E. subst o1. exists v1. split; [exact En|].
      rewrite IH. unfold set, mk. rewrite (proj2 (beq_bytes_eq o o) eq_refl). reflexivity.
    + rewrite IH. unfold set. rewrite E. reflexivity.
Qed.

Definition agrees (pl : platform) (c0 c : config) (layers : list (list assignment)) : Prop :=
  forall o, match effective layers o with
            | Some (r, p) => exists v, normalize pl o r = Ok v /\ c o = mk v p
            | None => c o = c0 o
            end.

Lemma agrees_nil pl c0 : agrees pl c0 c0 [].
Proof. intro o. reflexivity. Qed.

Lemma agrees_step pl c0 c1 c2 L l :
  agrees pl c0 c1 L -> apply_assignments pl c1 l = Ok c2 -> agrees pl c0 c2 (l :: L).
Proof.
  intros A H o. pose proof (apply_assignments_spec pl l c1 c2 H o) as S.
  cbn [effective]. destruct (in_layer o l) as [[r p]|]; [exact S|].
  specialize (A o). destruct (effective L o) as [[r p]|].
  - destruct A as (v & Hn & Hv). exists v. split; [exact Hn|]. rewrite S. exact Hv.
  - rewrite S. exact A.
Qed.

Definition file_layer (file : option (list N * list (list N * value))) : list assignment :=
  match file with Some (path, items) => file_assignments path items | None => [] end.

Lemma apply_file_ok pl c path items c' :
  apply_file pl c path items = Ok c' -> apply_assignments pl c (file_assignments path items) = Ok c'.
Proof.
  unfold apply_file. destruct (apply_assignments pl c (file_assignments path items)) as [c1|e]; [|discriminate].
  destruct (unknown_keys items); [intros [= <-]; reflexivity|].
  destruct (truthy _); [intros [= <-]; reflexivity|discriminate].
Qed.

Theorem precedence pl file env kw ov c :
  layers_pre_expand pl file env kw ov = Ok c ->
  agrees pl (init pl) c [dict_assignments (fst ov) (snd ov); dict_assignments (fst kw) (snd kw);
                         env_assignments env; file_layer file].
Proof.
  unfold layers_pre_expand, bind. intro H.
  destruct (match file with Some (path, items) => apply_file pl (init pl) path items | None => Ok (init pl) end) as [c1|e] eqn:E1; [|discriminate].
  destruct (apply_assignments pl c1 (env_assignments env)) as [c2|e] eqn:E2; [|discriminate].
  destruct (apply_assignments pl c2 (dict_assignments (fst kw) (snd kw))) as [c3|e] eqn:E3; [|discriminate].
  assert (A1 : agrees pl (init pl) c1 [file_layer file]).
  { destruct file as [[path items]|].
    - apply apply_file_ok in E1. eapply agrees_step; [apply agrees_nil|exact E1].
    - injection E1 as <-. eapply agrees_step; [apply agrees_nil|reflexivity]. }
  eapply agrees_step; [|exact H]. eapply agrees_step; [|exact E3]. eapply agrees_step; [|exact E2]. exact A1.
Qed.

(* the provenance recorded with each assignment is the layer's: file path, variable name, dictionary label *)
Lemma file_layer_prov path items a : In a (file_assignments path items) ->
  snd a = prov_file path /\ In (fst (fst a), snd (fst a)) items.
Proof.
  unfold file_assignments. intro H. apply in_map_iff in H. destruct H as ([k v] & <- & Hin).
  apply filter_In in Hin. destruct Hin as [Hin _]. split; [reflexivity|exact Hin].
Qed.
Lemma env_layer_prov env a : In a (env_assignments env) ->
  snd a = prov_env (fst (fst a)) /\ exists t, snd (fst a) = VStr t /\ assoc (fst (fst a)) env = Some t.
Proof.
  unfold env_assignments. intro H. apply in_flat_map in H. destruct H as (o & _ & Hin).
  destruct (assoc o env) as [t|] eqn:E; [|contradiction].
  destruct Hin as [<-|[]]. split; [reflexivity|]. exists t. split; [reflexivity|exact E].
Qed.
Lemma dict_layer_prov label items a : In a (dict_assignments label items) ->
  snd a = label /\ In (fst (fst a), snd (fst a)) items /\ snd (fst a) <> VNone.
Proof.
  unfold dict_assignments. intro H. apply in_map_iff in H. destruct H as ([k v] & <- & Hin).
  apply filter_In in Hin. destruct Hin as [Hin Hn]. cbn [fst snd]. repeat split; [exact Hin|].
  intro E. subst v. discriminate.
Qed.

(* the 'auto' expansion changes nothing but num_tmux_layers, and that only when it is "auto" *)
Lemma expand_auto_spec tmux c o :
  expand_auto tmux c o =
    if beq_bytes o n_num_tmux_layers then
      match e_val (c n_num_tmux_layers) with
      | VStr s => if beq_bytes s s_auto
                  then mk (VInt (if tmux then 1 else 0)%Z) (prov_expanded (get_provenance c n_num_tmux_layers))
                  else c o
      | _ => c o
      end
    else c o.
Proof.
  unfold expand_auto. destruct (e_val (c n_num_tmux_layers)) eqn:E; try (destruct (beq_bytes o n_num_tmux_layers); reflexivity).
  destruct (beq_bytes s s_auto); [|destruct (beq_bytes o n_num_tmux_layers); reflexivity].
  unfold set, mk. destruct (beq_bytes o n_num_tmux_layers); reflexivity.
Qed.

(* construction fails exactly when some layer's application fails *)
Lemma construct_ok_iff pl file env kw ov tmux c :
  construct pl file env kw ov tmux = Ok c <->
  exists c', layers_pre_expand pl file env kw ov = Ok c' /\ c = expand_auto tmux c'.
Proof.
  unfold construct, bind. destruct (layers_pre_expand pl file env kw ov) as [c'|e].
  - split; [intros [= <-]; exists c'; split; reflexivity|intros (c'' & [= <-] & ->); reflexivity].
  - split; [discriminate|intros (c'' & H & _); discriminate].
Qed.

(* ------------------------------------------------------------------ errors name the option *)
Lemma starts_with_app n r : starts_with n (n ++ r) = true.
Proof. unfold starts_with. rewrite strip_prefix_app. reflexivity. Qed.
Lemma contains_sub_mid n : forall a b, contains_sub n (a ++ n ++ b) = true.
Proof.
  induction a as [|x a IH]; intro b.
  - cbn [app]. destruct (n ++ b) eqn:E; cbn [contains_sub]; rewrite <- ?E, starts_with_app; reflexivity.
  - cbn [app contains_sub]. rewrite IH. apply orb_true_r.
Qed.

Lemma normalize_err_names pl name v e :
  normalize pl name v = Err e -> names name (err_text e) = true.
Proof.
  unfold normalize, normalize_core, names. destruct (lookup_opt name options) as [[t d]|].
  - destruct (convert pl name t v) as [v1|].
    + destruct (negb (verify_type t v1)).
      * intros [= <-]. cbn [err_text]. apply contains_sub_mid.
      * destruct (constraints_ok name v1); [discriminate|]. intros [= <-]. cbn [err_text].
        apply (contains_sub_mid name [] m_must_be_positive).
    + intros [= <-]. cbn [err_text]. apply contains_sub_mid.
  - intros [= <-]. cbn [err_text]. rewrite <- (app_nil_r name) at 2. apply contains_sub_mid.
Qed.

Lemma normalize_err_kind pl name v e :
  normalize pl name v = Err e -> e = EKey name \/ exists st, e = EValue name st.
Proof.
  unfold normalize, normalize_core. destruct (lookup_opt name options) as [[t d]|]; [|intros [= <-]; left; reflexivity].
  destruct (convert pl name t v) as [v1|]; [|intros [= <-]; right; eexists; reflexivity].
  destruct (negb (verify_type t v1)); [intros [= <-]; right; eexists; reflexivity|].
  destruct (constraints_ok name v1); [discriminate|intros [= <-]; right; eexists; reflexivity].
Qed.

(* ------------------------------------------------------------------ accepted values have the annotated type *)
Lemma verify_conforms : forall t v, verify_type t v = conforms t v.
Proof.
  (* for each constructor of v the two fixpoints have convertible bodies *)
  intros t v. destruct v; destruct t; reflexivity.
Qed.

Lemma normalize_ok_conforms pl name v r t d :
  lookup_opt name options = Some (t, d) -> normalize pl name v = Ok r -> conforms t r = true.
Proof.
  unfold normalize, normalize_core. intros ->. destruct (convert pl name t v) as [v1|]; [|discriminate].
  destruct (verify_type t v1) eqn:E; cbn [negb]; [|discriminate].
  destruct (constraints_ok name v1); [|discriminate]. intros [= <-]. rewrite <- verify_conforms. exact E.
Qed.

(* a typed (non-string) value that is not of the annotated type — even reading `1` as a float or
   0/1 as a boolean — is rejected by the type check, with a ValueError naming the option *)
Lemma wrong_type_rejected pl name v t d :
  lookup_opt name options = Some (t, d) -> is_string v = false -> conforms_loose t v = false ->
  normalize pl name v = Err (EValue name SType).
Proof.
  unfold normalize, normalize_core, conforms_loose. intros -> Hs Hc.
  apply orb_false_iff in Hc. destruct Hc as [Hc Hl].
  assert (convert pl name t v = Some v) as ->.
  { destruct v; try reflexivity; try discriminate. cbn [convert].
    destruct t; cbn [is_tfloat is_tbool andb]; try reflexivity; try discriminate.
    rewrite Hl. reflexivity. }
  rewrite verify_conforms, Hc. reflexivity.
Qed.
