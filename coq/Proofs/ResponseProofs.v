(* Proofs/ResponseProofs.v — the reader model returns, for every well-formed response of
   Spec/ResponseSpec.v, exactly the report the Spec expects. *)
From Coq Require Import ZArith NArith List Bool Lia ZifyN ZifyBool ZifyNat.
From Tup Require Import Lib.ByteStr Lib.ByteStrFacts Lib.Dec Gen.ResponseGen Model.ResponseModel
  Spec.ResponseSpec Proofs.ResponseScanFacts Proofs.ResponseIntFacts.
Import ListNotations.
Open Scope N_scope.

(* ------------------------------------------------------------------ literals of the source *)
(* The model reads these constants from Gen/ResponseGen.v (extracted from the current source);
   the proofs need them to be the protocol's: a changed literal breaks these lemmas. *)
Lemma src_resp_intro : resp_intro = APC_G. Proof. reflexivity. Qed.
Lemma src_resp_term : resp_term = ST. Proof. reflexivity. Qed.
Lemma src_resp_msg_sep : resp_msg_sep = 59. Proof. reflexivity. Qed.
Lemma src_resp_key_sep : resp_key_sep = 44. Proof. reflexivity. Qed.
Lemma src_resp_kv_sep : resp_kv_sep = 61. Proof. reflexivity. Qed.
Lemma src_resp_ok : resp_ok = OK. Proof. reflexivity. Qed.
Lemma src_key_i : resp_key_image_id = [105; 61]. Proof. reflexivity. Qed.
Lemma src_key_I : resp_key_image_number = [73; 61]. Proof. reflexivity. Qed.
Lemma src_key_p : resp_key_placement_id = [112; 61]. Proof. reflexivity. Qed.
Lemma src_cur_query : cur_query = [27; 91; 54; 110]. Proof. reflexivity. Qed.   (* ESC [ 6 n *)
Lemma src_cur_intro : cur_intro = CSI. Proof. reflexivity. Qed.
Lemma src_cur_final : cur_final = [82]. Proof. reflexivity. Qed.
Lemma src_cur_sep : cur_sep = 59. Proof. reflexivity. Qed.

(* ------------------------------------------------------------------ model result vs Spec report *)
(* A GraphicsResponse agrees with the Spec's expected report: every field, ints as Python ints,
   strings as their UTF-8 bytes, the dict with its entries in insertion order. *)
Definition agrees (r : response) (e : parsed) : Prop :=
  image_id r = option_map Z.of_N (p_image_id e) /\
  image_number r = option_map Z.of_N (p_image_number e) /\
  placement_id r = option_map Z.of_N (p_placement_id e) /\
  additional_data r = p_extras e /\
  message r = p_message e /\
  is_ok r = p_ok e /\
  is_valid r = true /\
  non_response r = p_noise e.

(* the report for "no complete response": invalid, nothing parsed, everything read is returned *)
Definition invalid_with (r : response) (consumed : list N) : Prop :=
  r = mkResponse None None None [] [] false false consumed.

(* ------------------------------------------------------------------ one key *)
Definition apply_item (r : response) (it : item) : response :=
  match it with
  | ImageId n => set_image_id r (Z.of_N n)
  | ImageNumber n => set_image_number r (Z.of_N n)
  | PlacementId n => set_placement_id r (Z.of_N n)
  | Extra k v => set_additional r (dict_set k v (additional_data r))
  end.

Lemma strip_key_extra c k v : c <> 61 -> Forall (fun b => plain b /\ b <> 61) k -> k <> [c] ->
  strip_prefix [c; 61] (enc_item (Extra k v)) = None.
Proof.
  intros Hc Hk Hkc. destruct k as [|a [|b k]].
  - destruct v as [v|]; cbn [enc_item app strip_prefix]; [|reflexivity].
    destruct (c =? 61) eqn:E; [lia|reflexivity].
  - assert (a <> c) by congruence.
    destruct v as [v|]; cbn [enc_item app strip_prefix]; destruct (c =? a) eqn:E; try lia; reflexivity.
  - assert (b <> 61).
    { apply Forall_inv_tail in Hk. apply Forall_inv in Hk. tauto. }
    destruct v as [v|]; cbn [enc_item app strip_prefix]; destruct (c =? a); try reflexivity;
      destruct (61 =? b) eqn:E; try lia; reflexivity.
Qed.

Lemma do_part_item r it : wf_item it -> do_part r (enc_item it) = apply_item r it.
Proof.
  intros W. unfold do_part. rewrite src_key_i, src_key_I, src_key_p, src_resp_kv_sep.
  destruct it as [n|n|n|k v]; cbn [wf_item] in W.
  - cbn [enc_item]. rewrite strip_prefix_app, (py_int_dec n W). reflexivity.
  - cbn [enc_item].
    change (strip_prefix [105; 61] ([73; 61] ++ dec n)) with (@None (list N)).
    rewrite strip_prefix_app, (py_int_dec n W). reflexivity.
  - cbn [enc_item].
    change (strip_prefix [105; 61] ([112; 61] ++ dec n)) with (@None (list N)).
    change (strip_prefix [73; 61] ([112; 61] ++ dec n)) with (@None (list N)).
    rewrite strip_prefix_app, (py_int_dec n W). reflexivity.
  - destruct W as (Hk & Uk & Ki & KI & Kp & Hv).
    rewrite !strip_key_extra by (assumption || lia).
    assert (Hk61 : Forall (fun b => b <> 61) k) by (eapply Forall_impl; [|exact Hk]; cbn beta; tauto).
    destruct v as [v|]; cbn [enc_item apply_item].
    + cbn [app]. rewrite split_first_some by exact Hk61.
      destruct Hv as (_ & Uv). rewrite (utf8_ok_complete k Uk), (utf8_ok_complete v Uv). reflexivity.
    + rewrite split_first_none by exact Hk61. rewrite (utf8_ok_complete k Uk). reflexivity.
Qed.

Lemma fold_parts items : Forall wf_item items -> forall r,
  fold_left do_part (map enc_item items) r = fold_left apply_item items r.
Proof.
  induction 1 as [|it items W _ IH]; intros r; [reflexivity|].
  cbn [map fold_left]. rewrite (do_part_item r it W). apply IH.
Qed.

(* ------------------------------------------------------------------ all keys *)
Lemma fold_apply_rest items : forall r,
  message (fold_left apply_item items r) = message r /\
  is_ok (fold_left apply_item items r) = is_ok r /\
  is_valid (fold_left apply_item items r) = is_valid r /\
  non_response (fold_left apply_item items r) = non_response r.
Proof.
  induction items as [|it items IH]; intros r; [auto|].
  cbn [fold_left]. destruct (IH (apply_item r it)) as (-> & -> & -> & ->).
  destruct it; cbn; auto.
Qed.

Lemma find_image_id_none items : ~ In [105] (map key_name items) -> find_image_id items = None.
Proof.
  induction items as [|it items IH]; [reflexivity|]. cbn [map In]. intros H.
  destruct it; cbn [find_image_id key_name] in *; try (apply IH; tauto). exfalso. apply H. left. reflexivity.
Qed.
Lemma find_image_number_none items : ~ In [73] (map key_name items) -> find_image_number items = None.
Proof.
  induction items as [|it items IH]; [reflexivity|]. cbn [map In]. intros H.
  destruct it; cbn [find_image_number key_name] in *; try (apply IH; tauto). exfalso. apply H. left. reflexivity.
Qed.
Lemma find_placement_id_none items : ~ In [112] (map key_name items) -> find_placement_id items = None.
Proof.
  induction items as [|it items IH]; [reflexivity|]. cbn [map In]. intros H.
  destruct it; cbn [find_placement_id key_name] in *; try (apply IH; tauto). exfalso. apply H. left. reflexivity.
Qed.

Lemma fold_apply_image_id items : forall r, NoDup (map key_name items) ->
  image_id (fold_left apply_item items r)
  = match find_image_id items with Some n => Some (Z.of_N n) | None => image_id r end.
Proof.
  induction items as [|it items IH]; intros r ND; [reflexivity|].
  cbn [map] in ND. apply NoDup_cons_iff in ND as (Hnotin & ND).
  cbn [fold_left]. rewrite IH by exact ND.
  destruct it; cbn [find_image_id key_name] in *.
  - rewrite (find_image_id_none items Hnotin). reflexivity.
  - destruct (find_image_id items); reflexivity.
  - destruct (find_image_id items); reflexivity.
  - destruct (find_image_id items); reflexivity.
Qed.
Lemma fold_apply_image_number items : forall r, NoDup (map key_name items) ->
  image_number (fold_left apply_item items r)
  = match find_image_number items with Some n => Some (Z.of_N n) | None => image_number r end.
Proof.
  induction items as [|it items IH]; intros r ND; [reflexivity|].
  cbn [map] in ND. apply NoDup_cons_iff in ND as (Hnotin & ND).
  cbn [fold_left]. rewrite IH by exact ND.
  destruct it; cbn [find_image_number key_name] in *.
  - destruct (find_image_number items); reflexivity.
  - rewrite (find_image_number_none items Hnotin). reflexivity.
  - destruct (find_image_number items); reflexivity.
  - destruct (find_image_number items); reflexivity.
Qed.
Lemma fold_apply_placement_id items : forall r, NoDup (map key_name items) ->
  placement_id (fold_left apply_item items r)
  = match find_placement_id items with Some n => Some (Z.of_N n) | None => placement_id r end.
Proof.
  induction items as [|it items IH]; intros r ND; [reflexivity|].
  cbn [map] in ND. apply NoDup_cons_iff in ND as (Hnotin & ND).
  cbn [fold_left]. rewrite IH by exact ND.
  destruct it; cbn [find_placement_id key_name] in *.
  - destruct (find_placement_id items); reflexivity.
  - destruct (find_placement_id items); reflexivity.
  - rewrite (find_placement_id_none items Hnotin). reflexivity.
  - destruct (find_placement_id items); reflexivity.
Qed.

Lemma dict_set_fresh k v d : ~ In k (map fst d) -> dict_set k v d = d ++ [(k, v)].
Proof.
  induction d as [|[k' v'] d IH]; intros H; [reflexivity|].
  cbn [dict_set app]. cbn [map fst In] in H.
  destruct (beq_bytes k k') eqn:E.
  - apply beq_bytes_eq in E. subst. exfalso. apply H. left. reflexivity.
  - rewrite IH by tauto. reflexivity.
Qed.

Lemma fold_apply_extras items : forall r,
  NoDup (map fst (additional_data r) ++ map fst (extras_of items)) ->
  additional_data (fold_left apply_item items r) = additional_data r ++ extras_of items.
Proof.
  induction items as [|it items IH]; intros r ND; [cbn [fold_left extras_of]; rewrite app_nil_r; reflexivity|].
  cbn [fold_left]. destruct it as [n|n|n|k v]; cbn [extras_of] in *; try (rewrite IH; [reflexivity|exact ND]).
  cbn [map fst] in ND.
  pose proof (NoDup_remove_2 _ _ _ ND) as Hk.
  rewrite IH; cbn [apply_item set_additional additional_data].
  - rewrite dict_set_fresh by (intro; apply Hk; apply in_or_app; left; assumption).
    rewrite <- app_assoc. reflexivity.
  - rewrite dict_set_fresh by (intro; apply Hk; apply in_or_app; left; assumption).
    rewrite map_app, <- app_assoc. exact ND.
Qed.

Lemma extras_keys_incl items k : In k (map fst (extras_of items)) -> In k (map key_name items).
Proof.
  induction items as [|it items IH]; [auto|]. destruct it; cbn [extras_of map fst key_name In]; intros H; auto.
  destruct H; auto.
Qed.

Lemma extras_nodup items : NoDup (map key_name items) -> NoDup (map fst (extras_of items)).
Proof.
  induction items as [|it items IH]; intros ND; [constructor|].
  cbn [map] in ND. apply NoDup_cons_iff in ND as (Hnotin & ND).
  destruct it; cbn [extras_of map fst key_name] in *; auto.
  constructor; [|auto]. intro H. apply Hnotin. apply extras_keys_incl. exact H.
Qed.

Lemma fold_apply_agrees items noise m ok : NoDup (map key_name items) ->
  let r := fold_left apply_item items (mkResponse None None None [] m ok true noise) in
  image_id r = option_map Z.of_N (find_image_id items) /\
  image_number r = option_map Z.of_N (find_image_number items) /\
  placement_id r = option_map Z.of_N (find_placement_id items) /\
  additional_data r = extras_of items /\
  message r = m /\ is_ok r = ok /\ is_valid r = true /\ non_response r = noise.
Proof.
  intros ND r. subst r.
  rewrite fold_apply_image_id, fold_apply_image_number, fold_apply_placement_id by exact ND.
  rewrite fold_apply_extras by (cbn [additional_data map app]; apply extras_nodup; exact ND).
  destruct (fold_apply_rest items (mkResponse None None None [] m ok true noise)) as (-> & -> & -> & ->).
  cbn [image_id image_number placement_id additional_data message is_ok is_valid non_response app].
  destruct (find_image_id items), (find_image_number items), (find_placement_id items); cbn [option_map]; auto 10.
Qed.

(* ------------------------------------------------------------------ the key list as bytes *)
Lemma enc_item_plain it : wf_item it -> Forall plain (enc_item it).
Proof.
  assert (D : forall n, Forall plain (dec n)).
  { intros n. eapply Forall_impl; [|apply dec_is_digits]. cbn beta. intros b Hb.
    apply digit_plain in Hb. unfold plain. tauto. }
  destruct it as [n|n|n|k v]; cbn [wf_item enc_item]; intros W.
  - apply Forall_app. split; [|apply D]. repeat constructor; lia.
  - apply Forall_app. split; [|apply D]. repeat constructor; lia.
  - apply Forall_app. split; [|apply D]. repeat constructor; lia.
  - destruct W as (Hk & _ & _ & _ & _ & Hv).
    assert (Hk' : Forall plain k) by (eapply Forall_impl; [|exact Hk]; cbn beta; tauto).
    destruct v as [v|]; [|exact Hk'].
    apply Forall_app. split; [exact Hk'|]. apply Forall_app. split; [repeat constructor; lia|tauto].
Qed.

Lemma join_forall (P : N -> Prop) sep parts : P sep -> Forall (Forall P) parts -> Forall P (join sep parts).
Proof.
  intros Hs H. induction H as [|p parts Hp _ IH]; [constructor|].
  destruct parts as [|q parts]; [exact Hp|].
  change (join sep (p :: q :: parts)) with (p ++ sep :: join sep (q :: parts)).
  apply Forall_app. split; [exact Hp|]. constructor; [exact Hs|exact IH].
Qed.

Lemma keys_plain items : Forall wf_item items ->
  Forall (Forall plain) (map enc_item items).
Proof.
  intros H. apply Forall_map. eapply Forall_impl; [|exact H]. exact enc_item_plain.
Qed.

Lemma forall_plain_ne c l : c = 27 \/ c = 44 \/ c = 59 -> Forall plain l -> Forall (fun b => b <> c) l.
Proof. intros Hc H. eapply Forall_impl; [|exact H]. cbn beta. unfold plain. intros b. lia. Qed.

(* ------------------------------------------------------------------ parsing the buffer *)
Definition body_of (items : list item) (msg : option (list N)) : list N :=
  join 44 (map enc_item items) ++ match msg with Some m => 59 :: m | None => [] end.

Lemma enc_response_body items msg : enc_response items msg = APC_G ++ body_of items msg ++ ST.
Proof. unfold enc_response, body_of. rewrite <- !app_assoc. reflexivity. Qed.

Lemma parse_buffer_ok noise items msg :
  first_at_end APC_G noise -> wf_items items -> wf_msg msg ->
  exists r, parse_buffer (noise ++ enc_response items msg) = Got r /\ agrees r (expected noise items msg).
Proof.
  intros Hn (Hne & ND & W) Hm.
  unfold parse_buffer. rewrite src_resp_intro, src_resp_msg_sep, src_resp_key_sep, src_resp_ok.
  rewrite enc_response_body.
  rewrite (split_sub1_first APC_G noise ltac:(discriminate) Hn). cbn [rev app].
  change 2%nat with (length ST). rewrite drop_last_app.
  pose proof (keys_plain items W) as KP.
  assert (K59 : Forall (fun b => b <> 59) (join 44 (map enc_item items))).
  { apply join_forall; [lia|]. eapply Forall_impl; [|exact KP]. intros p. apply forall_plain_ne. auto. }
  assert (Hsplit : split_on 44 (join 44 (map enc_item items)) [] = map enc_item items).
  { apply split_join.
    - destruct items; [congruence|discriminate].
    - eapply Forall_impl; [|exact KP]. intros p. apply forall_plain_ne. auto. }
  unfold body_of. destruct msg as [m|].
  - destruct Hm as (_ & Um).
    rewrite split_first_some by exact K59. rewrite (utf8_ok_complete m Um), Hsplit.
    rewrite fold_parts by exact W. eexists. split; [reflexivity|].
    unfold agrees, expected. cbn [p_image_id p_image_number p_placement_id p_extras p_message p_ok p_noise].
    apply (fold_apply_agrees items noise m (beq_bytes m OK) ND).
  - rewrite app_nil_r. rewrite split_first_none by exact K59. rewrite Hsplit.
    rewrite fold_parts by exact W. eexists. split; [reflexivity|].
    unfold agrees, expected. cbn [p_image_id p_image_number p_placement_id p_extras p_message p_ok p_noise].
    apply (fold_apply_agrees items noise [] false ND).
Qed.

(* the body does not contain the terminator early *)
Lemma body_first_at_end items msg : Forall wf_item items -> wf_msg msg -> first_at_end ST (body_of items msg).
Proof.
  intros W Hm. unfold body_of.
  assert (K27 : Forall (fun b => b <> 27) (join 44 (map enc_item items))).
  { apply join_forall; [lia|]. eapply Forall_impl; [|exact (keys_plain items W)]. intros p. apply forall_plain_ne. auto. }
  destruct msg as [m|].
  - destruct Hm as (Hm & _).
    change (59 :: m) with ([59] ++ m). rewrite app_assoc.
    apply first_at_end_app_free; [|exact Hm].
    apply Forall_app. split; [exact K27|repeat constructor; lia].
  - rewrite app_nil_r. rewrite <- (app_nil_r (join 44 (map enc_item items))).
    apply first_at_end_app_free; [exact K27|apply first_at_end_nil].
Qed.

(* ------------------------------------------------------------------ receive_response *)
Lemma receive_wellformed noise items msg rest :
  first_at_end APC_G noise -> wf_items items -> wf_msg msg ->
  exists r, receive (noise ++ enc_response items msg ++ rest) = (Got r, rest) /\
            agrees r (expected noise items msg).
Proof.
  intros Hn Hi Hm.
  destruct (parse_buffer_ok noise items msg Hn Hi Hm) as (r & Hp & Ha).
  exists r. split; [|exact Ha].
  unfold receive. rewrite src_resp_intro, src_resp_term.
  rewrite enc_response_body in *. rewrite <- !app_assoc.
  rewrite (read_intro_found APC_G noise _ ltac:(discriminate) Hn).
  rewrite rev_app_distr. change (rev APC_G) with [71; 95; 27]. cbn [app].
  change ST with [27; 92] at 1 2.
  rewrite (read_term_found 27 92 71); [|lia|apply body_first_at_end; [apply Hi|exact Hm]].
  replace (rev (rev (body_of items msg ++ [27; 92]) ++ 71 :: 95 :: 27 :: rev noise))
    with (noise ++ APC_G ++ body_of items msg ++ ST).
  - rewrite Hp. reflexivity.
  - rewrite rev_app_distr, rev_involutive. cbn [rev]. rewrite rev_involutive, <- !app_assoc. reflexivity.
Qed.

(* no introducer at all *)
Lemma receive_no_intro s : absent APC_G s ->
  exists r, receive s = (Got r, []) /\ invalid_with r s.
Proof.
  intros Ha. unfold receive. rewrite src_resp_intro, (read_intro_timeout APC_G s Ha).
  eexists. split; [reflexivity|]. unfold invalid_with, response_default. rewrite rev_involutive. reflexivity.
Qed.

(* an introducer that is never followed by a terminator *)
Lemma receive_no_term noise body : first_at_end APC_G noise -> absent ST body ->
  exists r, receive (noise ++ APC_G ++ body) = (Got r, []) /\ invalid_with r (noise ++ APC_G ++ body).
Proof.
  intros Hn Hb. unfold receive. rewrite src_resp_intro, src_resp_term.
  rewrite (read_intro_found APC_G noise _ ltac:(discriminate) Hn).
  rewrite rev_app_distr. change (rev APC_G) with [71; 95; 27]. cbn [app].
  change ST with [27; 92] in *.
  rewrite (read_term_timeout 27 92 71); [|lia|exact Hb].
  eexists. split; [reflexivity|]. unfold invalid_with, response_default.
  rewrite rev_app_distr, rev_involutive. cbn [rev]. rewrite rev_involutive, <- !app_assoc. reflexivity.
Qed.

Lemma receive_incomplete tail : incomplete tail ->
  exists r, receive tail = (Got r, []) /\ invalid_with r tail.
Proof.
  intros [Ha|(noise & body & E & Hn & Hb)].
  - apply receive_no_intro; exact Ha.
  - subst tail. apply receive_no_term; assumption.
Qed.

(* ------------------------------------------------------------------ receive_multiple_responses *)
Lemma enc_unit_nonempty u : enc_unit u <> [].
Proof.
  destruct u as [[noise items] msg]. unfold enc_unit, enc_response.
  destruct noise; cbn [app APC_G]; discriminate.
Qed.

Lemma receive_multiple_fuel_ok us : forall tail fuel,
  Forall wf_unit us -> incomplete tail ->
  (length (enc_stream us ++ tail) < fuel)%nat ->
  exists rs, receive_multiple_fuel fuel (enc_stream us ++ tail) = (Some rs, []) /\
             Forall2 agrees rs (map expected_unit us).
Proof.
  induction us as [|u us IH]; intros tail fuel W Ht Hf.
  - cbn [enc_stream map concat app] in *. destruct fuel as [|f]; [lia|].
    destruct (receive_incomplete tail Ht) as (r & Hr & Hi).
    cbn [receive_multiple_fuel]. rewrite Hr. rewrite Hi. cbn [is_valid].
    exists []. split; [reflexivity|constructor].
  - apply Forall_cons_iff in W as (Wu & W).
    destruct fuel as [|f]; [lia|].
    unfold enc_stream in *. cbn [map concat] in *. rewrite <- app_assoc in *.
    pose proof (enc_unit_nonempty u) as Hne.
    destruct u as [[noise items] msg]. cbn [wf_unit] in Wu. destruct Wu as (Hn & Hi & Hm).
    cbn [enc_unit expected_unit] in *.
    rewrite <- app_assoc in *.
    destruct (receive_wellformed noise items msg (concat (map enc_unit us) ++ tail) Hn Hi Hm) as (r & Hr & Ha).
    cbn [receive_multiple_fuel]. rewrite Hr.
    assert (Hv : is_valid r = true) by apply Ha. rewrite Hv.
    destruct (IH tail f W Ht) as (rs & Hrs & Hall).
    { rewrite !app_length in Hf. rewrite app_length.
      assert (length (noise ++ enc_response items msg) <> 0)%nat.
      { intro Z. apply Hne. apply length_zero_nil. exact Z. }
      rewrite app_length in H. lia. }
    rewrite Hrs. exists (r :: rs). split; [reflexivity|]. constructor; assumption.
Qed.

Lemma receive_multiple_ok us tail : Forall wf_unit us -> incomplete tail ->
  exists rs, receive_multiple (enc_stream us ++ tail) = (Some rs, []) /\
             Forall2 agrees rs (map expected_unit us).
Proof. intros W Ht. unfold receive_multiple. apply receive_multiple_fuel_ok; auto. Qed.

(* one call per response: the k-th call returns the k-th response and leaves the others unread *)
Fixpoint receive_n (n : nat) (s : list N) : list outcome * list N :=
  match n with
  | O => ([], s)
  | S k => let '(o, rest) := receive s in let '(os, rest') := receive_n k rest in (o :: os, rest')
  end.

Lemma receive_n_ok us : forall rest, Forall wf_unit us ->
  exists rs, receive_n (length us) (enc_stream us ++ rest) = (map Got rs, rest) /\
             Forall2 agrees rs (map expected_unit us).
Proof.
  induction us as [|u us IH]; intros rest W.
  - exists []. split; [reflexivity|constructor].
  - apply Forall_cons_iff in W as (Wu & W).
    unfold enc_stream in *. cbn [map concat length receive_n] in *. rewrite <- app_assoc.
    destruct u as [[noise items] msg]. cbn [wf_unit] in Wu. destruct Wu as (Hn & Hi & Hm).
    cbn [enc_unit expected_unit]. rewrite <- app_assoc.
    destruct (receive_wellformed noise items msg (concat (map enc_unit us) ++ rest) Hn Hi Hm) as (r & Hr & Ha).
    rewrite Hr. destruct (IH rest W) as (rs & Hrs & Hall). rewrite Hrs.
    exists (r :: rs). split; [reflexivity|]. constructor; assumption.
Qed.

(* ------------------------------------------------------------------ get_cursor_position *)
Lemma dec_ne c n : ~ (48 <= c <= 57) -> Forall (fun b => b <> c) (dec n).
Proof.
  intros Hc. eapply Forall_impl; [|apply dec_is_digits]. cbn beta. unfold is_digit. intros b Hb. lia.
Qed.

Lemma cursor_report_ok junk row col rest :
  first_at_end CSI junk -> num_ok row -> num_ok col ->
  cursor_report (junk ++ enc_cpr row col ++ rest)
  = (CursorAt (Z.of_N col - 1) (Z.of_N row - 1), rest).
Proof.
  intros Hj Hr Hc. unfold cursor_report, enc_cpr.
  rewrite src_cur_intro, src_cur_final, src_cur_sep.
  rewrite <- !app_assoc.
  rewrite (read_intro_found CSI junk _ ltac:(discriminate) Hj).
  set (body := dec row ++ [59] ++ dec col).
  replace (dec row ++ [59] ++ dec col ++ [82] ++ rest) with (body ++ [82] ++ rest)
    by (unfold body; rewrite <- !app_assoc; reflexivity).
  assert (B82 : Forall (fun b => b <> 82) body).
  { unfold body. apply Forall_app. split; [apply dec_ne; lia|].
    apply Forall_app. split; [repeat constructor; lia|apply dec_ne; lia]. }
  rewrite app_assoc. rewrite read_until_found.
  - rewrite app_nil_r, rev_involutive.
    change 1%nat with (length [82]). rewrite drop_last_app.
    unfold body. rewrite split_on_nosep by (apply dec_ne; lia).
    cbn [app split_on]. rewrite N.eqb_refl, app_nil_r, rev_involutive.
    rewrite split_on_single by (apply dec_ne; lia).
    rewrite (py_int_dec col Hc), (py_int_dec row Hr). reflexivity.
  - destruct body; discriminate.
  - intros k Hk. rewrite app_nil_r.
    destruct (starts_with (rev [82]) (rev (firstn k (body ++ [82])))) eqn:E; [|reflexivity].
    exfalso. apply ends_with_rev_nil in E as (pre & E).
    rewrite app_length in Hk. cbn [length] in Hk.
    rewrite firstn_app in E. replace (k - length body)%nat with 0%nat in E by lia.
    cbn [firstn] in E. rewrite app_nil_r in E.
    assert (In 82 (firstn k body)) by (rewrite E; apply in_or_app; right; left; reflexivity).
    assert (H' : In 82 body) by (rewrite <- (firstn_skipn k body); apply in_or_app; left; exact H).
    rewrite Forall_forall in B82. apply (B82 82 H'). reflexivity.
  - rewrite app_nil_r, rev_app_distr. apply starts_with_app.
Qed.

Lemma cursor_report_no_intro s : absent CSI s -> cursor_report s = (CursorRaised TimeoutError, []).
Proof.
  intros Ha. unfold cursor_report. rewrite src_cur_intro, (read_intro_timeout CSI s Ha). reflexivity.
Qed.

Lemma cursor_report_no_final junk body : first_at_end CSI junk -> ~ In 82 body ->
  cursor_report (junk ++ CSI ++ body) = (CursorRaised TimeoutError, []).
Proof.
  intros Hj Hb. unfold cursor_report. rewrite src_cur_intro, src_cur_final.
  rewrite (read_intro_found CSI junk _ ltac:(discriminate) Hj).
  rewrite (read_intro_timeout [82] body); [reflexivity|].
  intros pre post E. apply Hb. rewrite E. apply in_or_app. right. left. reflexivity.
Qed.

(* ------------------------------------------------------------------ OK flag *)
Lemma expected_ok_iff noise items msg : p_ok (expected noise items msg) = true <-> msg = Some OK.
Proof.
  unfold expected. cbn [p_ok]. destruct msg as [m|]; split; intros H; try discriminate.
  - apply beq_bytes_eq in H. subst. reflexivity.
  - injection H as ->. apply beq_bytes_eq. reflexivity.
Qed.

(* ------------------------------------------------------------------ truncation *)
(* every proper prefix of (noise ++ one well-formed response) contains no complete response *)
Lemma truncated_incomplete noise items msg p q :
  first_at_end APC_G noise -> wf_items items -> wf_msg msg ->
  q <> [] -> p ++ q = noise ++ enc_response items msg -> incomplete p.
Proof.
  intros Hn Hi Hm Hq E. rewrite enc_response_body in E.
  pose proof (body_first_at_end items msg ltac:(apply Hi) Hm) as Hb.
  set (body := body_of items msg) in *.
  replace (noise ++ APC_G ++ body ++ ST) with ((noise ++ APC_G) ++ (body ++ ST)) in E
    by (rewrite <- !app_assoc; reflexivity).
  destruct (Nat.le_gt_cases (length (noise ++ APC_G)) (length p)) as [L|L].
  - right. destruct (app_prefix p q (noise ++ APC_G) (body ++ ST) E L) as (e & Hp & Hbody).
    exists noise, e. split; [rewrite Hp, <- app_assoc; reflexivity|]. split; [exact Hn|].
    intros pre post He. subst e. rewrite <- !app_assoc in Hbody.
    apply Hb in Hbody. apply app_eq_nil in Hbody. destruct Hbody. congruence.
  - left. symmetry in E.
    destruct (app_prefix (noise ++ APC_G) (body ++ ST) p q E ltac:(lia)) as (e & Hp & _).
    assert (Len : length (noise ++ APC_G) = (length p + length e)%nat) by (rewrite Hp, app_length; reflexivity).
    intros pre post He. subst p. rewrite <- !app_assoc in Hp.
    apply Hn in Hp. apply app_eq_nil in Hp. destruct Hp as (_ & ->).
    cbn [length] in Len. lia.
Qed.

Lemma receive_truncated noise items msg p q :
  first_at_end APC_G noise -> wf_items items -> wf_msg msg ->
  q <> [] -> p ++ q = noise ++ enc_response items msg ->
  exists r, receive p = (Got r, []) /\ invalid_with r p.
Proof. intros. apply receive_incomplete. eapply truncated_incomplete; eauto. Qed.

(* ------------------------------------------------------------------ conservation, all inputs *)
Lemma read_until_sound pat_rev l : forall buf,
  match read_until pat_rev buf l with
  | Found b r => rev b ++ r = rev buf ++ l /\ starts_with pat_rev b = true
  | TimedOut b => b = rev l ++ buf
  end.
Proof.
  induction l as [|x l IH]; intros buf; cbn [read_until]; [reflexivity|].
  destruct (starts_with pat_rev (x :: buf)) eqn:E.
  - split; [|exact E]. cbn [rev]. rewrite <- app_assoc. reflexivity.
  - specialize (IH (x :: buf)). destruct (read_until pat_rev (x :: buf) l) as [b r|b].
    + destruct IH as (IH & S). split; [|exact S]. rewrite IH. cbn [rev]. rewrite <- app_assoc. reflexivity.
    + rewrite IH. cbn [rev]. rewrite <- app_assoc. reflexivity.
Qed.

Lemma split_sub1_sound sep l : forall cur a b,
  split_sub1 sep l cur = Some (a, b) -> rev cur ++ l = a ++ sep ++ b.
Proof.
  induction l as [|x l IH]; intros cur a b H; cbn [split_sub1] in H.
  - destruct (strip_prefix sep []) as [r|] eqn:E; [|discriminate].
    injection H as <- <-. apply strip_prefix_some in E. rewrite E. reflexivity.
  - destruct (strip_prefix sep (x :: l)) as [r|] eqn:E.
    + injection H as <- <-. apply strip_prefix_some in E. rewrite E. reflexivity.
    + apply IH in H. cbn [rev] in H. rewrite <- app_assoc in H. exact H.
Qed.

Lemma do_part_keeps r part :
  is_valid (do_part r part) = is_valid r /\ non_response (do_part r part) = non_response r.
Proof.
  unfold do_part.
  repeat match goal with
         | |- context [match ?x with _ => _ end] => destruct x
         end; cbn; auto.
Qed.

Lemma fold_do_part_keeps parts : forall r,
  is_valid (fold_left do_part parts r) = is_valid r /\
  non_response (fold_left do_part parts r) = non_response r.
Proof.
  induction parts as [|p parts IH]; intros r; [auto|].
  cbn [fold_left]. destruct (IH (do_part r p)) as (-> & ->). apply do_part_keeps.
Qed.

Lemma parse_buffer_sound buffer :
  match parse_buffer buffer with
  | Got r => is_valid r = true /\ exists b, buffer = non_response r ++ APC_G ++ b
  | Raised _ => True
  end.
Proof.
  unfold parse_buffer. rewrite src_resp_intro.
  destruct (split_sub1 APC_G buffer []) as [[a b]|] eqn:E; [|exact I].
  apply split_sub1_sound in E. cbn [rev app] in E.
  destruct (split_first resp_msg_sep (drop_last 2 b) []) as [keys omsg].
  destruct omsg as [m|].
  - destruct (utf8_ok m); [|exact I].
    destruct (fold_do_part_keeps (split_on resp_key_sep keys [])
                (set_message (response_default true a) m (beq_bytes m resp_ok))) as (-> & ->).
    cbn. split; [reflexivity|]. exists b. exact E.
  - destruct (fold_do_part_keeps (split_on resp_key_sep keys []) (response_default true a)) as (-> & ->).
    cbn. split; [reflexivity|]. exists b. exact E.
Qed.

(* For EVERY byte stream: an invalid result returns everything that was pending as
   non_response; a valid result accounts for every consumed byte (the bytes before the
   introducer are returned as non_response) and leaves the rest unread: nothing is lost and a
   response is reported only if an introducer actually arrived. *)
Lemma receive_conserves s :
  match receive s with
  | (Got r, rest) =>
      if is_valid r then exists b, s = non_response r ++ APC_G ++ b ++ rest
      else s = non_response r /\ rest = []
  | (Raised _, rest) => exists consumed, s = consumed ++ rest
  end.
Proof.
  unfold receive.
  pose proof (read_until_sound (rev resp_intro) s []) as H1.
  destruct (read_until (rev resp_intro) [] s) as [b1 r1|b1].
  - destruct H1 as (H1 & _). cbn [rev app] in H1.
    pose proof (read_until_sound (rev resp_term) r1 b1) as H2.
    destruct (read_until (rev resp_term) b1 r1) as [b2 r2|b2].
    + destruct H2 as (H2 & _).
      assert (Hs : s = rev b2 ++ r2) by (rewrite H2, H1; reflexivity).
      pose proof (parse_buffer_sound (rev b2)) as P.
      destruct (parse_buffer (rev b2)) as [r|e].
      * destruct P as (-> & bb & P). exists bb. rewrite Hs, P, <- !app_assoc. reflexivity.
      * exists (rev b2). exact Hs.
    + cbn [response_default is_valid non_response]. split; [|reflexivity].
      rewrite H2, rev_app_distr, rev_involutive, <- H1. reflexivity.
  - cbn [response_default is_valid non_response]. split; [|reflexivity].
    rewrite H1, app_nil_r, rev_involutive. reflexivity.
Qed.

(* ------------------------------------------------------------------ cursor report, all inputs *)
Lemma split_on_nonempty sep l : forall cur, split_on sep l cur <> [].
Proof. induction l as [|b r IH]; intros cur; cbn [split_on]; [discriminate|]. destruct (b =? sep); [discriminate|apply IH]. Qed.

Lemma split_on_join sep l : forall cur, join sep (split_on sep l cur) = rev cur ++ l.
Proof.
  induction l as [|b r IH]; intros cur; cbn [split_on].
  - cbn [join]. rewrite app_nil_r. reflexivity.
  - destruct (b =? sep) eqn:E.
    + assert (b = sep) as -> by lia.
      pose proof (split_on_nonempty sep r []) as Hne. specialize (IH []).
      destruct (split_on sep r []) as [|q qs]; [congruence|].
      change (join sep (rev cur :: q :: qs)) with (rev cur ++ sep :: join sep (q :: qs)).
      rewrite IH. reflexivity.
    + rewrite IH. cbn [rev]. rewrite <- app_assoc. reflexivity.
Qed.

(* A position is returned only if a report ESC [ ys ; xs R actually arrived, and it is exactly
   (int(xs) - 1, int(ys) - 1); the bytes after the report are left unread. *)
Lemma cursor_report_sound s :
  match cursor_report s with
  | (CursorAt x y, rest) =>
      exists junk ys xs, s = junk ++ CSI ++ ys ++ [59] ++ xs ++ [82] ++ rest /\
                         py_int xs = Some (x + 1)%Z /\ py_int ys = Some (y + 1)%Z
  | (CursorRaised _, rest) => exists consumed, s = consumed ++ rest
  end.
Proof.
  unfold cursor_report. rewrite src_cur_intro, src_cur_final, src_cur_sep.
  pose proof (read_until_sound (rev CSI) s []) as H1.
  destruct (read_until (rev CSI) [] s) as [b1 r1|b1]; [|exists s; rewrite app_nil_r; reflexivity].
  destruct H1 as (H1 & S1). cbn [rev app] in H1.
  apply starts_with_true in S1 as (t1 & S1). change (rev CSI) with [91; 27] in S1.
  pose proof (read_until_sound (rev [82]) r1 []) as H2.
  destruct (read_until (rev [82]) [] r1) as [b2 r2|b2]; [|exists s; rewrite app_nil_r; reflexivity].
  destruct H2 as (H2 & S2). cbn [rev app] in H2.
  apply starts_with_true in S2 as (t2 & S2). cbn [rev app] in S2.
  assert (Hs : s = (rev b1 ++ rev b2) ++ r2) by (rewrite <- app_assoc, H2, H1; reflexivity).
  assert (Hd : drop_last 1 (rev b2) = rev t2).
  { rewrite S2. cbn [rev]. change 1%nat with (length [82]). apply drop_last_app. }
  rewrite Hd.
  pose proof (split_on_join 59 (rev t2) []) as J. cbn [rev app] in J.
  destruct (split_on 59 (rev t2) []) as [|y [|x [|z zs]]]; try (eexists; exact Hs).
  destruct (py_int x) as [xv|] eqn:Ex; [|eexists; exact Hs].
  destruct (py_int y) as [yv|] eqn:Ey; [|eexists; exact Hs].
  exists (rev t1), y, x. split; [|rewrite Ex, Ey; split; f_equal; lia].
  rewrite Hs, S1, S2. rewrite rev_app_distr. change (rev [91; 27]) with CSI.
  cbn [rev]. rewrite <- J. cbn [join]. rewrite <- !app_assoc. reflexivity.
Qed.

(* ------------------------------------------------------------------ checking hypotheses by computation *)
Lemma contains_sub_mid pat pre r : contains_sub pat (pre ++ pat ++ r) = true.
Proof.
  induction pre as [|x pre IH]; cbn [app].
  - destruct (pat ++ r) eqn:E; cbn [contains_sub]; rewrite <- E, starts_with_app; reflexivity.
  - cbn [contains_sub]. rewrite IH. apply orb_true_r.
Qed.

Definition first_at_end_b (pat noise : list N) : bool := negb (contains_sub pat (removelast (noise ++ pat))).
Definition absent_b (pat l : list N) : bool := negb (contains_sub pat l).

Lemma first_at_end_b_sound pat noise : first_at_end_b pat noise = true -> first_at_end pat noise.
Proof.
  unfold first_at_end_b. intros H pre post E. destruct post as [|x post]; [reflexivity|]. exfalso.
  rewrite E in H. rewrite !app_assoc in H. rewrite removelast_app in H by discriminate.
  rewrite <- !app_assoc in H. rewrite contains_sub_mid in H. discriminate.
Qed.

Lemma absent_b_sound pat l : absent_b pat l = true -> absent pat l.
Proof.
  unfold absent_b. intros H pre post E. rewrite E, contains_sub_mid in H. discriminate.
Qed.

Lemma nonvacuous_hyps :
  first_at_end APC_G [120; 27; 95] /\
  wf_items [ImageId 31; Extra [97] (Some [84]); Extra [113] None; ImageNumber 4294967295] /\
  wf_msg (Some [97; 59; 98; 61; 99; 44; 195; 169]) /\
  wf_msg None /\ incomplete [27; 95; 71; 105; 61] /\ first_at_end CSI [27] /\ num_ok 24.
Proof.
  assert (U1 : forall b, b < 128 -> utf8 [b]) by (intros; apply u_1; [assumption|constructor]).
  split; [apply first_at_end_b_sound; reflexivity|].
  split.
  { split; [discriminate|]. split.
    - cbn [map key_name]. repeat constructor; cbn [In]; intuition discriminate.
    - repeat constructor; try (apply num_ok_32; reflexivity); try (apply U1; reflexivity);
        unfold plain; try discriminate; try (repeat split; discriminate). }
  split.
  { split; [apply first_at_end_b_sound; reflexivity|].
    apply (u_1 97); [reflexivity|]. apply (u_1 59); [reflexivity|]. apply (u_1 98); [reflexivity|].
    apply (u_1 61); [reflexivity|]. apply (u_1 99); [reflexivity|]. apply (u_1 44); [reflexivity|].
    apply (u_2 195 169); [split; discriminate|split; discriminate|constructor]. }
  split; [exact I|].
  split.
  { right. exists [], [105; 61]. split; [reflexivity|]. split; [apply first_at_end_nil|].
    apply absent_b_sound. reflexivity. }
  split; [apply first_at_end_b_sound; reflexivity|].
  apply num_ok_32. reflexivity.
Qed.
