(* Proofs/TermChorFacts.v — layer (iv) of C07: the cursor choreography between lines, including
   scrolling at the bottom of the screen, for the four output styles.
   Generic part: [chor_spec] — lines separated by any "go back to the start column and one line
   down (IND)" token group; instances: save/restore, relative move, CR LF; plus absolute positioning. *)
From Coq Require Import ZArith NArith List Bool Lia ZifyN ZifyBool ZifyNat.
From Tup Require Import Spec.TermSpec Proofs.TermPaintFacts.
Import ListNotations.
Open Scope Z_scope.

Fixpoint chor_toks (pre post : list tok) (lines : list (list tok)) : list tok :=
  match lines with
  | [] => []
  | [l] => l
  | l :: rest => pre ++ l ++ post ++ chor_toks pre post rest
  end.

Lemma chor_toks_cons pre post l l2 rest :
  chor_toks pre post (l :: l2 :: rest) = (pre ++ l ++ post) ++ chor_toks pre post (l2 :: rest).
Proof. cbn [chor_toks]. rewrite <- !app_assoc. reflexivity. Qed.

Section Sized.
Variables W H : Z.
Hypothesis HW : 0 < W.
Hypothesis HH : 0 < H.
Notation run := (run W H).
Notation exec := (exec W H).
Notation paints := (paints W H).

(* the screen after h lines of width w were printed from (x0,y0) on screen s, s lines scrolled *)
Definition shown_screen (s : Z -> Z -> cell) (y0 x0 : Z) (w : nat) (cellss : list (list cell)) (sc : Z) : Z -> Z -> cell :=
  fun y x =>
    let h := Z.of_nat (length cellss) in
    if (y0 <=? y + sc) && (y + sc <? y0 + h) && ((x0 <=? x) && (x <? x0 + Z.of_nat w))
    then nth (Z.to_nat (x - x0)) (nth (Z.to_nat (y + sc - y0)) cellss []) blank_cell
    else if y + sc <? H then s (y + sc) x else blank_cell.
Definition chor_screen (s : Z -> Z -> cell) (y0 x0 : Z) (w : nat) (cellss : list (list cell)) : Z -> Z -> cell :=
  shown_screen s y0 x0 w cellss (Z.max 0 (y0 + Z.of_nat (length cellss) - H)).

Section Generic.
Variables (pre post : list tok) (w : nat) (P : Z -> Prop).
Hypothesis HP : forall x, P x -> x + Z.of_nat w <= W.
(* one line followed by the inter-line movement *)
Hypothesis Hstep : forall l cells, paints l cells -> length cells = w ->
  forall t, pend t = false -> 0 <= cx t -> P (cx t) -> 0 <= cy t < H ->
    let t' := run t (pre ++ l ++ post) in
    cx t' = cx t /\ pend t' = false /\ cy t' = Z.min (cy t + 1) (H - 1) /\
    forall y x, scr t' y x = if cy t =? H - 1 then scroll_up H 1 (painted (scr t) (cy t) (cx t) cells) y x
                             else painted (scr t) (cy t) (cx t) cells y x.

Lemma chor_spec : forall (lcs : list (list tok * list cell)) (t : term),
  lcs <> [] -> Forall (fun lc => paints (fst lc) (snd lc) /\ length (snd lc) = w) lcs ->
  pend t = false -> 0 <= cx t -> P (cx t) -> 0 <= cy t < H ->
  let t' := run t (chor_toks pre post (map fst lcs)) in
  sgr t' = default_attrs /\ cy t' = Z.min (cy t + Z.of_nat (length lcs) - 1) (H - 1) /\
  forall y x, 0 <= y < H -> scr t' y x = chor_screen (scr t) (cy t) (cx t) w (map snd lcs) y x.
Proof.
  induction lcs as [|[l cells] rest IH]; intros t Hne Hall Hp Hx HPx Hy; [congruence|].
  inversion_clear Hall as [|zz1 zz2 [Hl Hlen] Hrest]. cbn [fst snd] in Hl, Hlen.
  pose proof (HP _ HPx) as Hfit.
  destruct rest as [|lc2 rest'].
  - (* last line *)
    cbv zeta. cbn [map chor_toks fst snd].
    destruct Hl as [_ Hl]. specialize (Hl t Hp Hx ltac:(lia)). cbv zeta in Hl.
    destruct Hl as (L1 & _ & L3 & _ & L5). split; [exact L3|]. split; [cbn [length]; lia|].
    intros y x Hyr. rewrite L5. unfold painted, chor_screen, shown_screen. cbn [length nth]. rewrite Hlen.
    replace (Z.max 0 (cy t + Z.of_nat 1 - H)) with 0 by lia. rewrite !Z.add_0_r.
    destruct ((y =? cy t) && (cx t <=? x) && (x <? cx t + Z.of_nat w)) eqn:E1.
    + destruct ((cy t <=? y) && (y <? cy t + Z.of_nat 1) && ((cx t <=? x) && (x <? cx t + Z.of_nat w))) eqn:E2; [|lia].
      replace (y - cy t) with 0 by lia. reflexivity.
    + destruct ((cy t <=? y) && (y <? cy t + Z.of_nat 1) && ((cx t <=? x) && (x <? cx t + Z.of_nat w))) eqn:E2; [lia|].
      destruct (y <? H) eqn:E3; [reflexivity|lia].
  - (* a line followed by more *)
    remember (lc2 :: rest') as rest eqn:Hr.
    assert (Ech : chor_toks pre post (map fst ((l, cells) :: rest)) = (pre ++ l ++ post) ++ chor_toks pre post (map fst rest)).
    { subst rest. cbn [map fst]. apply chor_toks_cons. }
    cbv zeta. rewrite Ech, run_app.
    pose proof (Hstep l cells Hl Hlen t Hp Hx HPx Hy) as S. cbv zeta in S.
    destruct S as (C1 & C2 & C3 & Hs1).
    set (t1 := run t (pre ++ l ++ post)) in *.
    specialize (IH t1 ltac:(subst rest; discriminate) Hrest C2 ltac:(lia) ltac:(rewrite C1; exact HPx) ltac:(lia)).
    cbv zeta in IH. destruct IH as (IHa & IHc & IHb). split; [exact IHa|]. split; [rewrite IHc, C3, Hr; cbn [length]; lia|].
    intros y x Hyr. rewrite (IHb y x Hyr). clear IHa IHb IHc.
    unfold chor_screen, shown_screen. rewrite C1, C3. cbn [length map]. rewrite !map_length. rewrite !Hs1.
    unfold scroll_up, painted. rewrite Hlen.
    set (h' := Z.of_nat (length rest)).
    replace (Z.of_nat (S (length rest))) with (h' + 1) by lia.
    assert (Hh : 1 <= h') by (unfold h'; subst rest; cbn [length]; lia).
    destruct (cy t =? H - 1) eqn:EB.
    + (* at the bottom: one scroll happened *)
      replace (Z.min (cy t + 1) (H - 1)) with (H - 1) by lia.
      replace (Z.max 0 (H - 1 + h' - H)) with (h' - 1) by lia.
      replace (Z.max 0 (cy t + (h' + 1) - H)) with h' by lia.
      destruct ((H - 1 <=? y + (h' - 1)) && (y + (h' - 1) <? H - 1 + h') && ((cx t <=? x) && (x <? cx t + Z.of_nat w))) eqn:E1.
      * destruct ((cy t <=? y + h') && (y + h' <? cy t + (h' + 1)) && ((cx t <=? x) && (x <? cx t + Z.of_nat w))) eqn:E2; [|lia].
        replace (Z.to_nat (y + h' - cy t)) with (S (Z.to_nat (y + (h' - 1) - (H - 1)))) by lia. reflexivity.
      * destruct (y + (h' - 1) <? H) eqn:E3.
        -- destruct (y + (h' - 1) + 1 <? H) eqn:E4.
           ++ destruct ((y + (h' - 1) + 1 =? cy t) && (cx t <=? x) && (x <? cx t + Z.of_nat w)) eqn:E5.
              ** destruct ((cy t <=? y + h') && (y + h' <? cy t + (h' + 1)) && ((cx t <=? x) && (x <? cx t + Z.of_nat w))) eqn:E2; [|lia].
                 replace (y + h' - cy t) with 0 by lia. reflexivity.
              ** destruct ((cy t <=? y + h') && (y + h' <? cy t + (h' + 1)) && ((cx t <=? x) && (x <? cx t + Z.of_nat w))) eqn:E2; [lia|].
                 replace (y + (h' - 1) + 1) with (y + h') by lia.
                 destruct (y + h' <? H) eqn:E6; [reflexivity|lia].
           ++ destruct ((cy t <=? y + h') && (y + h' <? cy t + (h' + 1)) && ((cx t <=? x) && (x <? cx t + Z.of_nat w))) eqn:E2; [lia|].
              destruct (y + h' <? H) eqn:E6; [lia|reflexivity].
        -- destruct ((cy t <=? y + h') && (y + h' <? cy t + (h' + 1)) && ((cx t <=? x) && (x <? cx t + Z.of_nat w))) eqn:E2; [lia|].
           destruct (y + h' <? H) eqn:E6; [lia|reflexivity].
    + (* not at the bottom *)
      replace (Z.min (cy t + 1) (H - 1)) with (cy t + 1) by lia.
      replace (Z.max 0 (cy t + 1 + h' - H)) with (Z.max 0 (cy t + (h' + 1) - H)) by lia.
      set (s := Z.max 0 (cy t + (h' + 1) - H)).
      destruct ((cy t + 1 <=? y + s) && (y + s <? cy t + 1 + h') && ((cx t <=? x) && (x <? cx t + Z.of_nat w))) eqn:E1.
      * destruct ((cy t <=? y + s) && (y + s <? cy t + (h' + 1)) && ((cx t <=? x) && (x <? cx t + Z.of_nat w))) eqn:E2; [|lia].
        replace (Z.to_nat (y + s - cy t)) with (S (Z.to_nat (y + s - (cy t + 1)))) by lia. reflexivity.
      * destruct (y + s <? H) eqn:E3.
        -- destruct ((y + s =? cy t) && (cx t <=? x) && (x <? cx t + Z.of_nat w)) eqn:E5.
           ++ destruct ((cy t <=? y + s) && (y + s <? cy t + (h' + 1)) && ((cx t <=? x) && (x <? cx t + Z.of_nat w))) eqn:E2; [|lia].
              replace (y + s - cy t) with 0 by lia. reflexivity.
           ++ destruct ((cy t <=? y + s) && (y + s <? cy t + (h' + 1)) && ((cx t <=? x) && (x <? cx t + Z.of_nat w))) eqn:E2; [lia|reflexivity].
        -- destruct ((cy t <=? y + s) && (y + s <? cy t + (h' + 1)) && ((cx t <=? x) && (x <? cx t + Z.of_nat w))) eqn:E2; [lia|reflexivity].
Qed.
Corollary chor_spec_scr : forall (lcs : list (list tok * list cell)) (t : term),
  lcs <> [] -> Forall (fun lc => paints (fst lc) (snd lc) /\ length (snd lc) = w) lcs ->
  pend t = false -> 0 <= cx t -> P (cx t) -> 0 <= cy t < H ->
  let t' := run t (chor_toks pre post (map fst lcs)) in
  sgr t' = default_attrs /\
  forall y x, 0 <= y < H -> scr t' y x = chor_screen (scr t) (cy t) (cx t) w (map snd lcs) y x.
Proof.
  intros lcs t A1 A2 A3 A4 A5 A6. destruct (chor_spec lcs t A1 A2 A3 A4 A5 A6) as (B1 & _ & B3). split; assumption.
Qed.
End Generic.

(* ---- the inter-line token groups of the three cursor-relative styles *)
Definition sr_pre : list tok := [TCsi [] 115].
Definition sr_post : list tok := [TCsi [] 117; TEsc 68].
Definition rel_post (w : nat) : list tok := [TCsi [N.of_nat w] 68; TEsc 68].
Definition lf_post : list tok := [TCtl 13; TCtl 10].

Lemma index_down_spec t : 0 <= cy t < H ->
  let t' := index_down H t in
  cx t' = cx t /\ pend t' = false /\ cy t' = Z.min (cy t + 1) (H - 1) /\
  forall y x, scr t' y x = if cy t =? H - 1 then scroll_up H 1 (scr t) y x else scr t y x.
Proof.
  intros Hy. cbv zeta. unfold index_down.
  destruct (cy t =? H - 1) eqn:E; cbn [set_scr set_cursor cx cy pend scr]; repeat split; try lia; reflexivity.
Qed.

Lemma sr_step (w : nat) l cells : paints l cells -> length cells = w ->
  forall t, pend t = false -> 0 <= cx t -> cx t + Z.of_nat w <= W -> 0 <= cy t < H ->
    let t' := run t (sr_pre ++ l ++ sr_post) in
    cx t' = cx t /\ pend t' = false /\ cy t' = Z.min (cy t + 1) (H - 1) /\
    forall y x, scr t' y x = if cy t =? H - 1 then scroll_up H 1 (painted (scr t) (cy t) (cx t) cells) y x
                             else painted (scr t) (cy t) (cx t) cells y x.
Proof.
  intros [_ Hl] Hlen t Hp Hx Hfit Hy. cbv zeta. unfold sr_pre, sr_post.
  rewrite run_app, run_cons, run_nil, exec_save. rewrite run_app.
  set (t0 := save_cursor t).
  specialize (Hl t0 Hp Hx ltac:(rewrite Hlen; exact Hfit)). cbv zeta in Hl.
  destruct Hl as (L1 & (F1 & F2 & F3 & F4) & L3 & L4 & L5).
  set (t1 := run t0 l) in *.
  rewrite run_cons, run_cons, run_nil, exec_restore, exec_ind.
  cbn [t0 save_cursor sx sy spend ssgr cx cy scr] in *.
  set (t2 := restore_cursor t1).
  assert (Q : cx t2 = cx t /\ cy t2 = cy t /\ forall y x, scr t2 y x = scr t1 y x).
  { unfold t2, restore_cursor. cbn [cx cy scr]. repeat split; assumption. }
  destruct Q as (Q1 & Q2 & Q3).
  pose proof (index_down_spec t2 ltac:(lia)) as I. cbv zeta in I. destruct I as (I1 & I2 & I3 & I4).
  repeat split; try congruence.
  intros y x. rewrite I4, Q2. unfold scroll_up.
  destruct (cy t =? H - 1); rewrite ?Q3, ?L5; reflexivity.
Qed.

Lemma rel_step (w : nat) l cells : (0 < w)%nat -> paints l cells -> length cells = w ->
  forall t, pend t = false -> 0 <= cx t -> cx t + Z.of_nat w < W -> 0 <= cy t < H ->
    let t' := run t ([] ++ l ++ rel_post w) in
    cx t' = cx t /\ pend t' = false /\ cy t' = Z.min (cy t + 1) (H - 1) /\
    forall y x, scr t' y x = if cy t =? H - 1 then scroll_up H 1 (painted (scr t) (cy t) (cx t) cells) y x
                             else painted (scr t) (cy t) (cx t) cells y x.
Proof.
  intros Hw [_ Hl] Hlen t Hp Hx Hfit Hy. cbv zeta. unfold rel_post. cbn [app].
  rewrite run_app.
  specialize (Hl t Hp Hx ltac:(lia)). cbv zeta in Hl. rewrite Hlen in Hl.
  destruct Hl as (L1 & _ & L3 & L4 & L5).
  destruct (cx t + Z.of_nat w =? W) eqn:E; [lia|]. destruct L4 as [L4a L4b].
  set (t1 := run t l) in *.
  rewrite run_cons, run_cons, run_nil, exec_cub, exec_ind.
  set (t2 := set_cursor t1 (clampx W (cx t1 - par1 [N.of_nat w] 0)) (cy t1) false).
  assert (Q : cx t2 = cx t /\ cy t2 = cy t /\ forall y x, scr t2 y x = scr t1 y x).
  { unfold t2. cbn [set_cursor cx cy scr]. repeat split; try assumption.
    unfold par1, clampx. cbn [nth]. rewrite N2Z.inj_iff || idtac.
    destruct (Z.of_N (N.of_nat w) =? 0) eqn:E0; lia. }
  destruct Q as (Q1 & Q2 & Q3).
  pose proof (index_down_spec t2 ltac:(lia)) as I. cbv zeta in I. destruct I as (I1 & I2 & I3 & I4).
  repeat split; try congruence.
  intros y x. rewrite I4, Q2. unfold scroll_up.
  destruct (cy t =? H - 1); rewrite ?Q3, ?L5; reflexivity.
Qed.

Lemma lf_step (w : nat) l cells : paints l cells -> length cells = w ->
  forall t, pend t = false -> 0 <= cx t -> (cx t = 0 /\ Z.of_nat w <= W) -> 0 <= cy t < H ->
    let t' := run t ([] ++ l ++ lf_post) in
    cx t' = cx t /\ pend t' = false /\ cy t' = Z.min (cy t + 1) (H - 1) /\
    forall y x, scr t' y x = if cy t =? H - 1 then scroll_up H 1 (painted (scr t) (cy t) (cx t) cells) y x
                             else painted (scr t) (cy t) (cx t) cells y x.
Proof.
  intros [_ Hl] Hlen t Hp Hx [Hx0 Hfit] Hy. cbv zeta. unfold lf_post. cbn [app].
  rewrite run_app.
  specialize (Hl t Hp Hx ltac:(lia)). cbv zeta in Hl.
  destruct Hl as (L1 & _ & L3 & L4 & L5).
  set (t1 := run t l) in *.
  rewrite run_cons, run_cons, run_nil, exec_cr, exec_lf.
  set (t2 := set_cursor t1 0 (cy t1) false).
  assert (Q : cx t2 = cx t /\ cy t2 = cy t /\ forall y x, scr t2 y x = scr t1 y x).
  { unfold t2. cbn [set_cursor cx cy scr]. repeat split; try assumption. lia. }
  destruct Q as (Q1 & Q2 & Q3).
  pose proof (index_down_spec t2 ltac:(lia)) as I. cbv zeta in I. destruct I as (I1 & I2 & I3 & I4).
  repeat split; try congruence.
  intros y x. rewrite I4, Q2. unfold scroll_up.
  destruct (cy t =? H - 1); rewrite ?Q3, ?L5; reflexivity.
Qed.

(* ---- absolute positioning: CUP before every line; no scrolling (the lines must fit vertically) *)
Fixpoint abs_toks (px py : N) (idx : N) (lines : list (list tok)) : list tok :=
  match lines with
  | [] => []
  | l :: rest => TCsi [py + idx + 1; px + 1]%N 72 :: l ++ abs_toks px py (idx + 1) rest
  end.

Definition abs_screen (s : Z -> Z -> cell) (y0 x0 : Z) (w : nat) (cellss : list (list cell)) : Z -> Z -> cell :=
  fun y x =>
    if (y0 <=? y) && (y <? y0 + Z.of_nat (length cellss)) && ((x0 <=? x) && (x <? x0 + Z.of_nat w))
    then nth (Z.to_nat (x - x0)) (nth (Z.to_nat (y - y0)) cellss []) blank_cell
    else s y x.

Lemma abs_spec (w : nat) (px py : N) : (0 < w)%nat -> Z.of_N px + Z.of_nat w <= W ->
  forall (lcs : list (list tok * list cell)) (idx : N) (t : term),
  Forall (fun lc => paints (fst lc) (snd lc) /\ length (snd lc) = w) lcs ->
  Z.of_N py + Z.of_N idx + Z.of_nat (length lcs) <= H ->
  let t' := run t (abs_toks px py idx (map fst lcs)) in
  (lcs <> [] -> sgr t' = default_attrs) /\
  forall y x, scr t' y x = abs_screen (scr t) (Z.of_N py + Z.of_N idx) (Z.of_N px) w (map snd lcs) y x.
Proof.
  intros Hw Hfit. induction lcs as [|[l cells] rest IH]; intros idx t Hall Hv; cbv zeta.
  - cbn [map abs_toks]. rewrite run_nil. split; [congruence|]. intros y x. unfold abs_screen. cbn [length map].
    destruct ((Z.of_N py + Z.of_N idx <=? y) && (y <? Z.of_N py + Z.of_N idx + Z.of_nat 0) &&
              ((Z.of_N px <=? x) && (x <? Z.of_N px + Z.of_nat w))) eqn:E; [lia|reflexivity].
  - inversion_clear Hall as [|zz1 zz2 [[_ Hl] Hlen] Hrest]. cbn [fst snd] in Hl, Hlen. cbn [length] in Hv.
    cbn [map abs_toks fst snd]. rewrite run_cons, exec_cup, run_app.
    set (t0 := set_cursor t _ _ false).
    assert (Q : cx t0 = Z.of_N px /\ cy t0 = Z.of_N py + Z.of_N idx /\ pend t0 = false).
    { unfold t0. cbn [set_cursor cx cy pend]. unfold par1, clampx, clampy. cbn [nth].
      destruct (Z.of_N (px + 1) =? 0) eqn:E1; [lia|]. destruct (Z.of_N (py + idx + 1) =? 0) eqn:E2; [lia|].
      repeat split; lia. }
    destruct Q as (Q1 & Q2 & Q3).
    specialize (Hl t0 Q3 ltac:(lia) ltac:(lia)). cbv zeta in Hl. destruct Hl as (L1 & _ & L3 & L4 & L5).
    set (t1 := run t0 l) in *.
    specialize (IH (idx + 1)%N t1 Hrest ltac:(lia)). cbv zeta in IH. destruct IH as [IHa IHb].
    split.
    + intros _. destruct rest as [|lc2 rest']; [cbn [map abs_toks]; rewrite run_nil; exact L3|apply IHa; discriminate].
    + intros y x. rewrite IHb. unfold abs_screen. cbn [length map]. rewrite !map_length.
      rewrite L5, Q1, Q2. unfold painted. rewrite Hlen. cbn [t0 set_cursor scr].
      replace (Z.of_N py + Z.of_N (idx + 1)) with (Z.of_N py + Z.of_N idx + 1) by lia.
      set (y0 := Z.of_N py + Z.of_N idx). set (x0 := Z.of_N px). set (n := Z.of_nat (length rest)).
      replace (Z.of_nat (S (length rest))) with (n + 1) by lia.
      destruct ((y0 + 1 <=? y) && (y <? y0 + 1 + n) && ((x0 <=? x) && (x <? x0 + Z.of_nat w))) eqn:E1.
      * destruct ((y0 <=? y) && (y <? y0 + (n + 1)) && ((x0 <=? x) && (x <? x0 + Z.of_nat w))) eqn:E2; [|lia].
        replace (Z.to_nat (y - y0)) with (S (Z.to_nat (y - (y0 + 1)))) by lia. reflexivity.
      * destruct ((y =? y0) && (x0 <=? x) && (x <? x0 + Z.of_nat w)) eqn:E3.
        -- destruct ((y0 <=? y) && (y <? y0 + (n + 1)) && ((x0 <=? x) && (x <? x0 + Z.of_nat w))) eqn:E2; [|lia].
           replace (y - y0) with 0 by lia. reflexivity.
        -- destruct ((y0 <=? y) && (y <? y0 + (n + 1)) && ((x0 <=? x) && (x <? x0 + Z.of_nat w))) eqn:E2; [lia|reflexivity].
Qed.

End Sized.
