(* Proofs/IdSpaceTrAllIds.v — IDSpace.all_ids as TRANSLATED from the source (three `lambda:` value generators chosen by
   the space's features, one of them a generator expression, then three nested loops yielding the composed id) equals
   Model/IdSpace.all_ids: the same ids in the same order. *)
From Coq Require Import ZArith NArith List Bool Lia ZifyN ZifyBool ZifyNat.
From Tup Require Import Lib.IdSpaceTy Lib.PySem Gen.IdSpaceGen Gen.IdSpaceTr Spec.IdLayoutSpec Model.IdSpace
  Proofs.IdSplitFacts Proofs.IdSpaceTrEq.
Import ListNotations.
Open Scope Z_scope.

Definition zl (l : list N) : list Z := map Z.of_N l.

(* a loop whose body is pure *)
Lemma for_list_pure {A B} (f : A -> M (list B)) (g : A -> list B) :
  forall (l : list A), (forall a ds, In a l -> f a ds = Ok (g a) ds) ->
  forall ds, py_for_list l f ds = Ok (flat_map g l) ds.
Proof.
  induction l as [|a r IH]; intros H ds; cbn [py_for_list flat_map]; [reflexivity|].
  unfold PySem.bind at 1. rewrite H by (left; reflexivity).
  unfold PySem.bind at 1. rewrite IH by (intros; apply H; right; assumption). reflexivity.
Qed.

Lemma range_list_fuel_nrange n : forall a, range_list_fuel n (Z.of_N a) = zl (nrange a n).
Proof.
  induction n as [|n IH]; intros a; cbn [range_list_fuel nrange zl map]; [reflexivity|].
  f_equal. replace (Z.of_N a + 1) with (Z.of_N (a + 1)) by lia. apply IH.
Qed.
Lemma range_list_of_N a b : py_range_list (Z.of_N a) (Z.of_N b) = zl (range a b).
Proof.
  unfold py_range_list, range. rewrite <- range_list_fuel_nrange. f_equal. lia.
Qed.

Lemma flat_map_zl {B} (g' : Z -> list B) (g : N -> list B) l :
  (forall a, In a l -> g' (Z.of_N a) = g a) -> flat_map g' (zl l) = flat_map g l.
Proof.
  induction l as [|a r IH]; intros H; cbn [zl map flat_map]; [reflexivity|].
  rewrite H by (left; reflexivity). f_equal. apply IH. intros; apply H; right; assumption.
Qed.
Lemma map_zl_map {A} (f : A -> N) l : zl (map f l) = map (fun a => Z.of_N (f a)) l.
Proof. unfold zl. now rewrite map_map. Qed.
Lemma zl_flat_map {A} (f : A -> list N) l : zl (flat_map f l) = flat_map (fun a => zl (f a)) l.
Proof. unfold zl. induction l as [|a r IH]; cbn [flat_map map]; [reflexivity|]. now rewrite map_app, IH. Qed.

Lemma flat_map_singleton {A B} (f : A -> B) l : flat_map (fun x => [f x]) l = map f l.
Proof. induction l as [|x xs IH]; cbn [flat_map map app]; [reflexivity|]. now rewrite IH. Qed.

Lemma compose_id_z b3 b12 b0 :
  Z.lor (Z.lor (py_shiftl (Z.of_N b3) 24) (py_shiftl (Z.of_N b12) 8)) (Z.of_N b0) = Z.of_N (compose_id b3 b12 b0).
Proof. unfold compose_id, py_shiftl. cbv [ai_sh3 ai_sh12]. rewrite !of_N_lor, !of_N_shiftl. reflexivity. Qed.

(* the triple loop over three lists of (embedded) naturals *)
Lemma loops_eq (r3 r12 r0 : list N) ds :
  py_for_list (zl r3) (fun b3 => py_for_list (zl r12) (fun b12 => py_for_list (zl r0) (fun b0 =>
     PySem.ret [Z.lor (Z.lor (py_shiftl b3 24) (py_shiftl b12 8)) b0]))) ds = Ok (zl (ids_loop r3 r12 r0)) ds.
Proof.
  unfold ids_loop.
  rewrite (for_list_pure _ (fun b3 => flat_map (fun b12 => map (fun b0 => Z.lor (Z.lor (py_shiftl b3 24) (py_shiftl b12 8)) b0) (zl r0)) (zl r12))).
  - f_equal. rewrite zl_flat_map. apply flat_map_zl. intros b3 _.
    rewrite zl_flat_map. apply flat_map_zl. intros b12 _.
    rewrite map_zl_map. unfold zl. rewrite map_map. apply map_ext. intros b0. apply compose_id_z.
  - intros b3 ds' _.
    rewrite (for_list_pure _ (fun b12 => map (fun b0 => Z.lor (Z.lor (py_shiftl b3 24) (py_shiftl b12 8)) b0) (zl r0))); [reflexivity|].
    intros b12 ds'' _.
    rewrite (for_list_pure _ (fun b0 => [Z.lor (Z.lor (py_shiftl b3 24) (py_shiftl b12 8)) b0])); [|intros; reflexivity].
    f_equal; try (clear; induction (zl r0) as [|x xs IHx]; cbn [flat_map map app]; [reflexivity|]; now rewrite IHx).
Qed.

Lemma tr_all_nonzero_byte_values_val s ds :
  tr_IDSubspace_all_nonzero_byte_values (zsub s) ds =
  Ok (if N.leb (sub_begin s) 0 then (1, Z.of_N (sub_end s)) else (Z.of_N (sub_begin s), Z.of_N (sub_end s))) ds.
Proof.
  destruct s as [b e]. unfold tr_IDSubspace_all_nonzero_byte_values, PySem.ret. cbn [zsub sub_begin sub_end fst snd].
  destruct (N.leb b 0) eqn:E1; destruct (Z.of_N b <=? 0) eqn:E2; try lia; reflexivity.
Qed.
Lemma nonzero_range s :
  (let '(a, b) := (if N.leb (sub_begin s) 0 then (1, Z.of_N (sub_end s)) else (Z.of_N (sub_begin s), Z.of_N (sub_end s))) in py_range_list a b)
  = zl (all_nonzero_byte_values s).
Proof.
  unfold all_nonzero_byte_values. destruct (N.leb (sub_begin s) 0).
  - change 1 with (Z.of_N 1). apply range_list_of_N.
  - apply range_list_of_N.
Qed.

Theorem tr_all_ids_eq sp s ds : valid_subspace s = true ->
  tr_IDSpace_all_ids (zsp sp) (zsub s) ds = Ok (zl (all_ids sp s)) ds.
Proof.
  intros V. pose proof (valid_sub_facts s V) as F.
  unfold tr_IDSpace_all_ids, all_ids, byte3_vals, byte12_vals, byte0_vals.
  assert (Z0 : [0] = zl [0%N]) by reflexivity.
  destruct sp; cbn [zsp color_bits use_3rd fst snd];
    change (Z.of_N 0) with 0; change (Z.of_N 8) with 8; change (Z.of_N 24) with 24;
    cbn [Z.eqb Pos.eqb N.eqb].
  - (* 8bit_diacritic *)
    unfold PySem.bind. rewrite tr_all_nonzero_byte_values_val.
    pose proof (nonzero_range s) as R. destruct (if N.leb (sub_begin s) 0 then _ else _) as [a b]. cbn [fst snd]. rewrite R.
    rewrite Z0. apply loops_eq.
  - (* 16bit *)
    unfold PySem.bind. rewrite tr_all_nonzero_byte_values_val.
    pose proof (nonzero_range s) as R. destruct (if N.leb (sub_begin s) 0 then _ else _) as [a b]. cbn [fst snd]. rewrite R.
    rewrite Z0. change (py_range_list 1 256) with (py_range_list (Z.of_N ai_16_b0_lo) (Z.of_N ai_16_b0_hi)). rewrite range_list_of_N. apply loops_eq.
  - (* 32bit *)
    unfold PySem.bind. rewrite tr_all_nonzero_byte_values_val.
    pose proof (nonzero_range s) as R. destruct (if N.leb (sub_begin s) 0 then _ else _) as [a b]. cbn [fst snd]. rewrite R.
    change (py_range_list 1 (256 * 256)) with (py_range_list (Z.of_N ai_32_b12_lo) (Z.of_N ai_32_b12_hi)).
    change (py_range_list 0 256) with (py_range_list (Z.of_N ai_32_b0_lo) (Z.of_N ai_32_b0_hi)).
    rewrite !range_list_of_N. apply loops_eq.
  - (* 8bit: the subspace byte is byte 0; its value generator is called inside the two outer (one-element) loops *)
    rewrite Z0.
    rewrite (for_list_pure _ (fun b3 => zl (flat_map (fun b12 => map (fun b0 => compose_id (Z.to_N b3) b12 b0) (all_nonzero_byte_values s)) [0%N]))).
    + unfold ids_loop. cbn [zl map flat_map Z.to_N Z.of_N]. rewrite ?app_nil_r. reflexivity.
    + intros b3 ds1 H3. destruct H3 as [<-|[]].
      rewrite (for_list_pure _ (fun b12 => zl (map (fun b0 => compose_id 0 (Z.to_N b12) b0) (all_nonzero_byte_values s)))).
      * cbn [zl map flat_map Z.to_N Z.of_N]. rewrite ?app_nil_r. reflexivity.
      * intros b12 ds2 H12. destruct H12 as [<-|[]].
        unfold PySem.bind. rewrite tr_all_nonzero_byte_values_val.
        pose proof (nonzero_range s) as R. destruct (if N.leb (sub_begin s) 0 then _ else _) as [a b]. cbn [fst snd]. rewrite R.
        rewrite (for_list_pure _ (fun b0 => [Z.lor (Z.lor (py_shiftl 0 24) (py_shiftl 0 8)) b0])); [|intros; reflexivity].
        f_equal. unfold zl. rewrite flat_map_singleton, !map_map. apply map_ext. intros x.
        rewrite <- compose_id_z. reflexivity.
  - (* 24bit *)
    rewrite Z0.
    rewrite (for_list_pure _ (fun b3 => zl (flat_map (fun b12 => map (fun b0 => compose_id (Z.to_N b3) b12 b0) (range ai_24_b0_lo ai_24_b0_hi))
        (flat_map (fun b2 => map (fun b1 => N.lor (N.shiftl b2 ai_24_sh2) b1) (range (if (b2 =? 0)%N then ai_24_b1_lo_z else ai_24_b1_lo) ai_24_b1_hi)) (all_byte_values s))))).
    + unfold ids_loop. cbn [zl map flat_map Z.to_N Z.of_N]. rewrite ?app_nil_r. reflexivity.
    + intros b3 ds1 H3. destruct H3 as [<-|[]].
      unfold PySem.bind. unfold tr_IDSubspace_all_byte_values, PySem.ret. cbn [fst snd].
      destruct s as [b e]. cbn [zsub sub_begin sub_end fst snd].
      assert (L12 : flat_map (fun b2_v : Z => map (fun b1_v : Z => Z.lor (py_shiftl b2_v 8) b1_v)
                      (py_range_list (if b2_v =? 0 then 1 else 0) 256)) (py_range_list (Z.of_N b) (Z.of_N e))
                    = zl (flat_map (fun b2 => map (fun b1 => N.lor (N.shiftl b2 ai_24_sh2) b1) (range (if (b2 =? 0)%N then ai_24_b1_lo_z else ai_24_b1_lo) ai_24_b1_hi)) (all_byte_values (b, e)))).
      { unfold all_byte_values. cbn [sub_begin sub_end fst snd]. rewrite range_list_of_N, zl_flat_map. apply flat_map_zl. intros b2 _.
        rewrite map_zl_map. rewrite of_N_eqb0.
        replace (py_range_list (if (b2 =? 0)%N then 1 else 0) 256) with (zl (range (if (b2 =? 0)%N then ai_24_b1_lo_z else ai_24_b1_lo) ai_24_b1_hi)).
        - unfold zl. rewrite map_map. apply map_ext. intros b1. unfold py_shiftl. cbv [ai_24_sh2]. now rewrite of_N_lor, of_N_shiftl.
        - rewrite <- range_list_of_N. destruct (b2 =? 0)%N; reflexivity. }
      rewrite L12.
      change (py_range_list 0 256) with (py_range_list (Z.of_N ai_24_b0_lo) (Z.of_N ai_24_b0_hi)). rewrite range_list_of_N.
      pose proof (loops_eq [0%N]) as LE. cbn [zl map py_for_list] in LE.
      specialize (LE (flat_map (fun b2 => map (fun b1 => N.lor (N.shiftl b2 ai_24_sh2) b1) (range (if (b2 =? 0)%N then ai_24_b1_lo_z else ai_24_b1_lo) ai_24_b1_hi)) (all_byte_values (b, e))) (range ai_24_b0_lo ai_24_b0_hi) ds1).
      unfold PySem.bind, PySem.ret in LE.
      destruct (py_for_list _ _ ds1) as [xs rest| | |] eqn:EX; try discriminate LE.
      injection LE as E1 E2. subst rest. rewrite app_nil_r in E1. subst xs.
      unfold ids_loop. cbn [flat_map]. now rewrite app_nil_r.
Qed.
