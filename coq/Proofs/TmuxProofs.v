From Coq Require Import ZArith NArith List Bool Lia ZifyN ZifyBool ZifyNat.
From Tup Require Import Lib.ByteStr Lib.ByteStrFacts Lib.PyFmt Lib.PyFmtFacts Gen.TmuxGen Model.TmuxTemplate Spec.TmuxSpec.
Import ListNotations.
Open Scope N_scope.

(* ---------------------------------------------------------------- source-derived constants *)
(* These are the facts about the *current source* that the proofs consume: if a literal in
   get_graphics_command_template changes, one of them stops being provable by reflexivity. *)
Lemma src_base : base_template = [27; 95; 71] ++ [37; 98] ++ [27; 92].  Proof. reflexivity. Qed.
Lemma src_default : default_template = base_template.  Proof. reflexivity. Qed.
Lemma src_wrapper : tmux_wrapper = dcs_prefix ++ [37; 98] ++ [27; 92].  Proof. reflexivity. Qed.
Lemma src_from : esc_from = 27.  Proof. reflexivity. Qed.
Lemma src_to : esc_to = [27; 27].  Proof. reflexivity. Qed.

(* ---------------------------------------------------------------- ESC doubling *)
Definition dbl : list N -> list N := replace1 27 [27; 27].

Lemma dbl_app a b : dbl (a ++ b) = dbl a ++ dbl b.
Proof. unfold dbl, replace1. apply flat_map_app. Qed.

Lemma dbl_cons b l : dbl (b :: l) = (if b =? 27 then [27; 27] else [b]) ++ dbl l.
Proof. reflexivity. Qed.

Lemma dbl_noesc c : has_byte 27 c = false -> dbl c = c.
Proof.
  induction c as [|b c IH]; intro H; [reflexivity|].
  cbn [has_byte] in H. apply orb_false_iff in H. destruct H as [Hb Hc].
  rewrite dbl_cons. destruct (b =? 27) eqn:E; [lia|]. cbn [app]. rewrite (IH Hc). reflexivity.
Qed.

Lemma dbl_pct_free l : pct_free l -> pct_free (dbl l).
Proof.
  induction l as [|b l IH]; intro H; [exact H|].
  apply pct_free_cons in H. destruct H as [Hb Hl]. rewrite dbl_cons.
  apply pct_free_app. split; [|exact (IH Hl)].
  destruct (b =? 27); [reflexivity|]. apply pct_free_cons. split; [exact Hb|reflexivity].
Qed.

(* ---------------------------------------------------------------- closed form of the template *)
Fixpoint pre (n : nat) : list N :=
  match n with O => [27; 95; 71] | S k => dcs_prefix ++ dbl (pre k) end.
Fixpoint post (n : nat) : list N :=
  match n with O => [27; 92] | S k => dbl (post k) ++ [27; 92] end.

Lemma pre_free n : pct_free (pre n).
Proof. induction n as [|n IH]; [reflexivity|]. cbn [pre]. apply pct_free_app. split; [reflexivity|apply dbl_pct_free; exact IH]. Qed.
Lemma post_free n : pct_free (post n).
Proof. induction n as [|n IH]; [reflexivity|]. cbn [post]. apply pct_free_app. split; [apply dbl_pct_free; exact IH|reflexivity]. Qed.

Lemma template_closed n : template n = Some (pre n ++ [37; 98] ++ post n).
Proof.
  induction n as [|n IH]; [reflexivity|].
  cbn [template]. rewrite IH. unfold layer. rewrite src_wrapper, src_from, src_to.
  fold dbl. rewrite pyfmt_split; [|reflexivity|reflexivity].
  rewrite !dbl_app. change (dbl [37; 98]) with [37; 98]. cbn [pre post]. rewrite <- !app_assoc. reflexivity.
Qed.

Lemma emit_closed n c : emit n c = Some (pre n ++ c ++ post n).
Proof. unfold emit. rewrite template_closed. apply pyfmt_split; [apply pre_free|apply post_free]. Qed.

(* ---------------------------------------------------------------- wrapping = what tmux undoes *)
Definition wrap1 (x : list N) : list N := dcs_prefix ++ dbl x ++ [27; 92].

Lemma emit_succ n c : has_byte 27 c = false -> pre (S n) ++ c ++ post (S n) = wrap1 (pre n ++ c ++ post n).
Proof.
  intro H. unfold wrap1. cbn [pre post]. rewrite !dbl_app, (dbl_noesc c H), <- !app_assoc. reflexivity.
Qed.

Lemma strip_app p : forall r, strip p (p ++ r) = Some r.
Proof. induction p as [|a p IH]; intro r; cbn [strip app]; [reflexivity|]. rewrite N.eqb_refl. apply IH. Qed.

Lemma scan_double x : forall acc rest, scan (dbl x ++ 27 :: 92 :: rest) acc = Some (rev acc ++ x, rest).
Proof.
  induction x as [|b x IH]; intros acc rest.
  - cbn [dbl replace1 flat_map app scan]. change (27 =? 27) with true. cbv iota. change (92 =? 27) with false.
    change (92 =? 92) with true. cbv iota. rewrite app_nil_r. reflexivity.
  - rewrite dbl_cons. destruct (b =? 27) eqn:E.
    + assert (b = 27) by lia; subst b. cbn [app scan]. change (27 =? 27) with true. cbv iota.
      rewrite IH. cbn [rev]. rewrite <- app_assoc. reflexivity.
    + cbn [app scan]. rewrite E. rewrite IH. cbn [rev]. rewrite <- app_assoc. reflexivity.
Qed.

Lemma unwrap_wrap1 x rest : unwrap (wrap1 x ++ rest) = Some (x, rest).
Proof.
  unfold unwrap, wrap1. rewrite <- !app_assoc. rewrite strip_app. change ([27; 92] ++ rest) with (27 :: 92 :: rest). rewrite scan_double. reflexivity.
Qed.

Lemma paired_dbl x : paired (dbl x) = true.
Proof.
  induction x as [|b x IH]; [reflexivity|]. rewrite dbl_cons. destruct (b =? 27) eqn:E.
  - cbn [app paired]. change (27 =? 27) with true. exact IH.
  - cbn [app paired]. rewrite E. exact IH.
Qed.

Lemma body_of_wrap1 x : body_of (wrap1 x) = Some (dbl x).
Proof.
  unfold body_of, wrap1. rewrite strip_app. cbv zeta.
  rewrite app_length. cbn [length]. replace (Nat.leb 2 (length (dbl x) + 2)) with true by (symmetry; apply Nat.leb_le; lia).
  replace (length (dbl x) + 2 - 2)%nat with (length (dbl x) + 0)%nat by lia.
  rewrite skipn_app, firstn_app. rewrite Nat.add_0_r, skipn_all, firstn_all, Nat.sub_diag. cbn [skipn firstn app].
  rewrite app_nil_r. reflexivity.
Qed.

Lemma eqb_refl_list (l : list N) :
  (fix eqb (a b : list N) := match a, b with
     | [], [] => true | x :: a', y :: b' => (x =? y) && eqb a' b' | _, _ => false end) l l = true.
Proof. induction l as [|x l IH]; [reflexivity|]. rewrite N.eqb_refl. exact IH. Qed.

(* ---------------------------------------------------------------- main results *)
Theorem unwrapn_emit n c : has_byte 27 c = false ->
  exists out out0, emit n c = Some out /\ emit 0 c = Some out0 /\ unwrapn n out = Some out0.
Proof.
  intro H. exists (pre n ++ c ++ post n), (pre 0 ++ c ++ post 0).
  split; [apply emit_closed|]. split; [apply emit_closed|].
  induction n as [|n IH]; [reflexivity|].
  rewrite (emit_succ n c H). cbn [unwrapn].
  rewrite <- (app_nil_r (wrap1 _)), unwrap_wrap1. exact IH.
Qed.

Theorem layers_ok_emit n c : has_byte 27 c = false ->
  exists out out0, emit n c = Some out /\ emit 0 c = Some out0 /\ layers_ok n out out0 = true.
Proof.
  intro H. exists (pre n ++ c ++ post n), (pre 0 ++ c ++ post 0).
  split; [apply emit_closed|]. split; [apply emit_closed|].
  induction n as [|n IH]; [apply eqb_refl_list|].
  rewrite (emit_succ n c H). cbn [layers_ok]. rewrite body_of_wrap1.
  rewrite <- (app_nil_r (wrap1 _)) at 1. rewrite unwrap_wrap1. rewrite paired_dbl. exact IH.
Qed.

(* every layer is literally  ESC P tmux; <inner with every ESC doubled> ESC \  *)
Theorem emit_layer_shape n c : has_byte 27 c = false ->
  exists inner, emit n c = Some inner /\
                emit (S n) c = Some (dcs_prefix ++ replace1 27 [27; 27] inner ++ [27; 92]).
Proof.
  intro H. exists (pre n ++ c ++ post n). split; [apply emit_closed|].
  rewrite emit_closed, (emit_succ n c H). reflexivity.
Qed.

(* the default template of GraphicsCommand is the 0-layer template *)
Theorem default_is_zero_layers : template 0 = Some default_template.
Proof. reflexivity. Qed.

(* ---------------------------------------------------------------- detection *)
Definition screen_b : list N := [115; 99; 114; 101; 101; 110].
Definition tmux_b : list N := [116; 109; 117; 120].

Lemma detect_with_iff needles env term :
  needles = [screen_b; tmux_b] ->
  detect_with needles env term = true <->
  (exists v, env = Some v /\ v <> []) /\ (contains_sub screen_b term = true \/ contains_sub tmux_b term = true).
Proof.
  intros ->. unfold detect_with. destruct env as [[|b v]|].
  - split; [discriminate|]. intros [[v [Hv Hn]] _]. injection Hv as <-. congruence.
  - cbn [existsb]. rewrite !orb_true_iff. split.
    + intros [H|[H|H]]; [| |discriminate]; (split; [exists (b :: v); split; [reflexivity|discriminate]|]); tauto.
    + intros [_ [H|H]]; tauto.
  - split; [discriminate|]. intros [[v [Hv _]] _]. discriminate.
Qed.

Theorem detect_terminal_spec env term layers :
  detect_terminal env term layers =
  if detect_with [screen_b; tmux_b] env term then Nat.max 1 layers else 0%nat.
Proof. reflexivity. Qed.

Theorem detect_highlevel_spec env term :
  detect_highlevel env term = if detect_with [screen_b; tmux_b] env term then 1%nat else 0%nat.
Proof. reflexivity. Qed.

(* ------------------------------------------------------------------ re-configuration of a live high-level terminal *)
Lemma src_highlevel_setter_propagates : highlevel_setter_propagates = true.  Proof. reflexivity. Qed.

(* with a propagating setter the two counts agree after every assignment *)
Lemma hl_step_consistent s op : cfg_layers (hl_step true s op) = term_layers (hl_step true s op).
Proof. destruct op; reflexivity. Qed.
Lemma hl_run_consistent ops : forall s, cfg_layers s = term_layers s -> cfg_layers (hl_run true s ops) = term_layers (hl_run true s ops).
Proof.
  unfold hl_run. induction ops as [|op r IH]; intros s H; cbn [fold_left]; [exact H|].
  apply IH. apply hl_step_consistent.
Qed.
Lemma hl_run_last ops op s : hl_run true s (ops ++ [op]) = hl_step true (hl_run true s ops) op.
Proof. unfold hl_run. rewrite fold_left_app. reflexivity. Qed.

(* after `t.num_tmux_layers = n` (whatever was assigned before) every command is wrapped n times: it unwraps, the way tmux
   does, to the bare command *)
Theorem reconfigured_wraps_n ops n s c : has_byte 27 c = false ->
  let s' := hl_run true s (ops ++ [SetLayers n]) in
  cfg_layers s' = n /\
  exists out out0, hl_emit s' c = Some out /\ emit 0 c = Some out0 /\ TmuxSpec.unwrapn n out = Some out0.
Proof.
  intros Hc s'. subst s'. rewrite hl_run_last. cbn [hl_step cfg_layers]. split; [reflexivity|].
  unfold hl_emit. cbn [term_layers]. apply unwrapn_emit. exact Hc.
Qed.
(* the pinned tree: the configuration says 2, the commands are not wrapped at all *)
Theorem unpropagated_setter_refuted :
  let s' := hl_run false {| cfg_layers := 0; term_layers := 0 |} [SetLayers 2] in
  cfg_layers s' = 2%nat /\ hl_emit s' [97] = emit 0 [97] /\ hl_emit s' [97] <> emit 2 [97].
Proof. cbv zeta. split; [reflexivity|]. split; [reflexivity|]. vm_compute. discriminate. Qed.
