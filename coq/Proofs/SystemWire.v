(* Proofs/SystemWire.v — the events of Model/SystemModel.v at the level of BYTES: a transmission event, sent through
   GraphicsCommand.send with the library's n-layer tmux template (Model/SendModel, Model/TmuxTemplate), is decoded by
   the Spec terminal side (TmuxSpec.unwrapn + KittyProtoSpec.parse_escape) to exactly the event's command and payload;
   a print event, emitted through display_only (Model/PlaceholderModel), is decoded by the Spec terminal
   (TermSpec.feed + PlaceholderSpec decode) to exactly the event's id in a rows x cols rectangle.
   Composition of the C05/C06/C11 results with the C07/C14 results, for the commands and placeholders C08 talks about. *)
From Coq Require Import ZArith NArith List Bool Lia ZifyN ZifyBool ZifyNat.
From Tup Require Import Lib.ByteStr Lib.Base64 Lib.CommandTypes Lib.SystemTypes Gen.SystemGen Gen.CommandGen
  Model.GraphicsCommand Model.SendModel Model.TmuxTemplate Model.SystemModel
  Spec.KittyProtoSpec Spec.TmuxSpec Proofs.CommandProofs Proofs.SendProofs Proofs.TmuxProofs Proofs.SystemPolicy.
Import ListNotations.
Open Scope N_scope.

(* inline transmissions *)
Lemma command_of_inline x data : x_medium x = MDirect -> inline (command_of x data).
Proof. intro H. left. cbn [command_of t_medium]. rewrite H. reflexivity. Qed.

(* replacing data and more leaves every control key but m untouched *)
Lemma with_data_more_fields c d m key : key <> 109 -> expected_transmit (with_data_more c d m) key = expected_transmit c key.
Proof.
  intro H. unfold expected_transmit. cbn [with_data_more t_omit_action t_query t_placement t_image_id t_image_number t_medium t_size
    t_offset t_quiet t_more t_format t_compression t_pix_width t_pix_height].
  destruct (key =? 109) eqn:E; [lia|]. reflexivity.
Qed.

Theorem tx_inline_wire (n : nat) t x data (max_size : Z) ws :
  template n = Some t -> x_medium x = MDirect -> bytes_ok data ->
  send (CTransmit (command_of x data)) t max_size = SendOk ws ->
  exists cmds first rest,
    cmds = first :: rest /\
    Forall2 (decodes_to n) ws cmds /\                         (* every write unwraps and parses to its chunk command *)
    concat (map data_of cmds) = data /\                       (* the payload arrives complete and in order *)
    (* the first chunk carries the event's control data: transmit-and-display, virtual placement, id, rows, cols *)
    expected_fields first 97 = Some [84] /\ expected_fields first 85 = Some [49] /\
    expected_fields first 105 = e_num (Some (x_id x)) /\
    expected_fields first 114 = e_num (Some (x_rows x)) /\ expected_fields first 99 = e_num (Some (x_cols x)) /\
    (* the others are continuations with the same image id *)
    Forall (fun c => exists m, c = CMore m /\ m_image_id m = Some (x_id x)) rest.
Proof.
  intros Ht Hm Hb Hs.
  destruct (send_decodes n t (command_of x data) max_size ws Ht (command_of_inline x data Hm) Hb Hs)
    as (cmds & Hdec & Hcat & _ & (d & m & rest & Hc & Hrest) & _).
  exists cmds, (CTransmit (with_data_more (command_of x data) d m)), rest.
  split; [exact Hc|]. split; [exact Hdec|]. split; [exact Hcat|].
  pose proof (Proofs.SystemPolicy.command_fields x data) as (F1 & F2 & F3 & F4 & F5 & _).
  cbn [expected_fields]. rewrite !with_data_more_fields by lia.
  split; [exact F1|]. split; [exact F2|]. split; [exact F3|]. split; [exact F4|]. split; [exact F5|].
  eapply Forall_impl; [|exact Hrest]. intros c (dx & mx & -> & _). eexists. split; [reflexivity|reflexivity].
Qed.

(* file-name transmissions (t=f / t=t): one escape whose payload is the file name *)
Theorem tx_filename_wire (n : nat) t x name (max_size : Z) ws :
  template n = Some t -> x_medium x <> MDirect -> bytes_ok name ->
  send (CTransmit (command_of x name)) t max_size = SendOk ws ->
  exists w, ws = [w] /\ decodes_to n w (CTransmit (command_of x name)).
Proof.
  intros Ht Hm Hb Hs. destruct (template_ok n) as (t' & Ht' & Hok). rewrite Ht in Ht'. inversion Ht'; subst t'. clear Ht'.
  assert (Hns : is_split (command_of x name) = false).
  { unfold is_split. cbn [command_of t_medium]. destruct (x_medium x); [congruence|reflexivity|reflexivity|reflexivity]. }
  destruct (send_cmds (CTransmit (command_of x name)) t max_size) as [cmds|] eqn:Hc; [|unfold send in Hs; rewrite Hc in Hs; discriminate].
  rewrite (send_ok_writes t _ _ _ max_size cmds Hok Hc) in Hs. inversion Hs; subst ws. clear Hs.
  unfold send_cmds in Hc. destruct (max_payload (command_of x name) t max_size <? send_min_payload)%Z; [discriminate|].
  inversion Hc; subst cmds. rewrite (split_not_inline _ _ Hns). cbn [map].
  eexists. split; [reflexivity|]. apply chunk_decodes. exists name. split; [reflexivity|exact Hb].
Qed.
