(* Proofs/SystemFacts.v — source ties, digest injectivity, the shape of what one _upload emits, id-table facts *)
From Coq Require Import ZArith NArith List Bool Lia ZifyN ZifyBool ZifyNat.
From Tup Require Import Lib.IdSpaceTy Lib.CommandTypes Lib.SystemTypes Gen.SystemGen Gen.UploadFlowGen
  Model.IdSpace Model.IdManager Model.UploadModel Model.UploadFlow Model.SystemModel
  Spec.IdLayoutSpec Spec.SystemSpec Proofs.IdSpaceFacts Proofs.IdManagerFacts Proofs.IdManagerProofs Proofs.SystemStmt.
Import ListNotations.
Open Scope N_scope.

(* ---- the literals and branch choices of the source, as consumed by the proofs *)
Lemma src_rebinds : upload_rebinds_stale_instance = true.  Proof. reflexivity. Qed.
Lemma src_digest : digest_covers_shape = true.  Proof. reflexivity. Qed.
Lemma src_user_medium m : user_file_medium m = m.  Proof. reflexivity. Qed.
Lemma src_temp_medium : temp_file_medium = MTemp.  Proof. reflexivity. Qed.
Lemma src_inline_medium : inline_medium = MDirect.  Proof. reflexivity. Qed.
Lemma src_auto : auto_ssh_medium = MDirect /\ auto_plain_medium = MFile.  Proof. split; reflexivity. Qed.
Lemma src_straight : inline_rows_cols_straight = true /\ byname_rows_cols_straight = true /\ print_rows_cols_straight = true.
Proof. repeat split; reflexivity. Qed.
Lemma src_bits : rgb_bits = 24%Z /\ other_bits = 32%Z.  Proof. split; reflexivity. Qed.
Lemma src_prefix : temp_prefix = library_temp_prefix.  Proof. reflexivity. Qed.
Lemma src_ssh_vars : ssh_variables = ssh_variable_names.  Proof. reflexivity. Qed.
Lemma src_tx_fields : tx_quiet = QAlways /\ tx_format = FPng /\ tx_virtual = true.  Proof. repeat split; reflexivity. Qed.
Lemma src_marks_transmitted : mark_records_transmitted = true.  Proof. reflexivity. Qed.
Lemma src_unmarks : upload_unmarks_first = true.  Proof. reflexivity. Qed.

(* ---- descriptions of in-memory images *)
Lemma key_of_gen_injective a b : key_of_gen true a = key_of_gen true b -> a = b.
Proof. destruct a, b. unfold key_of_gen. cbn. intro H. inversion H. reflexivity. Qed.
Lemma key_of_injective a b : key_of a = key_of b -> a = b.
Proof. unfold key_of. rewrite src_digest. apply key_of_gen_injective. Qed.
(* the digest of the original code (bytes only): a 4x1 and a 1x4 RGB image with the same 12 bytes *)
Lemma key_of_old_not_injective : exists a b, a <> b /\ key_of_gen false a = key_of_gen false b.
Proof.
  exists {| pix := 7; iw := 4; ih := 1; imode := 0 |}, {| pix := 7; iw := 1; ih := 4; imode := 0 |}.
  split; [discriminate|reflexivity].
Qed.

Lemma describes_fun C d a b : describes C key_of d a -> describes C key_of d b -> a = b.
Proof.
  destruct d as [p m c r|k c r]; cbn [describes]; intros Ha Hb.
  - congruence.
  - apply key_of_injective. congruence.
Qed.

Lemma codec_inj cd a b : codec_ok cd -> enc cd a = enc cd b -> a = b.
Proof. intros H E. pose proof (H a) as Ha. rewrite E, H in Ha. congruence. Qed.

(* ---- id tables *)
Lemma cur_of_find d id sp : from_id id = Some sp -> cur_of d id = option_map idesc (find_id (d sp) id).
Proof. intro H. unfold cur_of, get_info. rewrite H. destruct (find_id (d sp) id); reflexivity. Qed.

Lemma get_id_cur d desc sp sub now mx samples ch id d' :
  WF d -> valid_sub sub -> sound_samples sp sub samples ->
  get_id d desc sp sub now mx samples ch = (GotId id, d') -> cur_of d' id = Some desc.
Proof.
  intros Hw Hv Hs Hg.
  pose proof (get_id_in_subspace _ _ _ _ _ _ _ _ _ _ Hw Hv Hs Hg) as [Hin _].
  apply from_id_spec in Hin. rewrite (cur_of_find d' id sp Hin).
  rewrite (result_maps_back _ _ _ _ _ _ _ _ _ _ Hw Hv Hs Hg). reflexivity.
Qed.

Lemma set_id_cur d id desc t d' : set_id d id desc t = Some d' -> cur_of d' id = Some desc.
Proof.
  intro H. destruct (from_id id) as [sp|] eqn:Hf; [|unfold set_id in H; rewrite Hf in H; discriminate].
  rewrite (cur_of_find d' id sp Hf).
  destruct (in_dec N.eq_dec id (map iid (d sp))) as [Hin|Hnot].
  - rewrite (set_id_existing d id desc t sp Hf Hin) in H. inversion H; subst d'. rewrite upd_same.
    rewrite (find_rebind (d sp) id desc t Hin). reflexivity.
  - rewrite (set_id_fresh d id desc t sp Hf Hnot) in H. inversion H; subst d'. rewrite upd_same.
    rewrite (find_app_fresh (d sp) id desc t Hnot). reflexivity.
Qed.

Lemma set_id_some d id desc t sp : from_id id = Some sp -> exists d', set_id d id desc t = Some d'.
Proof. intro H. unfold set_id. rewrite H. eexists. reflexivity. Qed.

(* ---- what one _upload emits *)
Definition tx_of (o : opts) (i : instance) (m : medium) (p : payload) : tx :=
  {| x_term := o_term o; x_id := n_id i; x_medium := m; x_payload := p; x_rows := n_rows i; x_cols := n_cols i |}.

Lemma mk_tx_straight o i m p : mk_tx true o i m p = tx_of o i m p.
Proof. reflexivity. Qed.

(* the possible event lists of upload_by, with the content a terminal will decode *)
Inductive emitted (s : sys) (o : opts) (i : instance) (um : medium) : list event -> option content -> Prop :=
| EmUserName p fi : um = MFile -> n_src i = IFile p (f_mtime fi) -> s_fs s p = Some fi ->
    emitted s o i um [ETx (tx_of o i MFile (PName (UserPath p)))] (Some (whole (f_img fi)))
| EmUserInline p fi : um = MDirect -> n_src i = IFile p (f_mtime fi) -> s_fs s p = Some fi ->
    emitted s o i um [ETx (tx_of o i MDirect (PData (whole (f_img fi))))] (Some (whole (f_img fi)))
| EmTemp c : um = MFile -> emitted s o i um [EMkTemp (s_ntemp s) c; ETx (tx_of o i MTemp (PName (TempPath (s_ntemp s))))] (Some c)
| EmInline c : um = MDirect -> emitted s o i um [ETx (tx_of o i MDirect (PData c))] (Some c).

(* the content produced by the conversion path *)
Definition converted (o : opts) (um : medium) (im : img) : content :=
  if over_limit im (max_upload_size o um)
  then {| c_img := im; c_w := fst (o_fit o); c_h := snd (o_fit o) |} else whole im.

Lemma over_limit_exceeds im lim : over_limit im lim = true -> exceeds im lim.
Proof.
  unfold over_limit, exceeds. destruct src_bits as [-> ->]. destruct (imode im =? 0); lia.
Qed.

Lemma converted_img o um im : c_img (converted o um im) = im.
Proof. unfold converted. destruct (over_limit _ _); reflexivity. Qed.

Lemma converted_scaled o um im : resolve_method (o_method o) (o_ssh o) = Some um -> scaled_ok o (converted o um im).
Proof.
  intro Hr. unfold converted. destruct (over_limit im (max_upload_size o um)) eqn:E.
  - right. exists um. split; [exact Hr|]. cbn [c_img]. apply over_limit_exceeds. exact E.
  - left. split; reflexivity.
Qed.

Lemma convert_spec s o i um im own : um = MFile \/ um = MDirect ->
  (exists evs, convert s o i um im own = UpOk evs (o_enc_size o) (if match um with MFile => true | _ => false end then s_ntemp s + 1 else s_ntemp s)
               /\ emitted s o i um evs (Some (converted o um im))).
Proof.
  intros [->| ->]; unfold convert; fold (converted o MFile im); fold (converted o MDirect im).
  - rewrite src_temp_medium. unfold transmit_file. destruct src_straight as (_ & -> & _). rewrite mk_tx_straight.
    eexists. split; [reflexivity|]. apply EmTemp. reflexivity.
  - destruct src_straight as (-> & _ & _). rewrite mk_tx_straight, src_inline_medium.
    eexists. split; [reflexivity|]. apply EmInline. reflexivity.
Qed.

(* every successful upload_by emits one of the four shapes; the content decodes to the instance's pixels, and what
   the library encoded itself is scaled only when over the limit *)
Lemma upload_by_ok s o i um evs size nt : um = MFile \/ um = MDirect ->
  upload_by s o i um = UpOk evs size nt ->
  exists c, emitted s o i um evs (Some c) /\
            (nt = s_ntemp s \/ nt = s_ntemp s + 1) /\
            match n_src i with
            | IMem im => c = converted o um im
            | IFile p m => exists fi, s_fs s p = Some fi /\ f_mtime fi = m /\ (c = whole (f_img fi) \/ c = converted o um (f_img fi))
            | ILost _ => False
            end.
Proof.
  intros Hum H. unfold upload_by in H. destruct (n_src i) as [p m|im|k] eqn:Es.
  - destruct (s_fs s p) as [fi|] eqn:Ef; [|discriminate].
    destruct (f_mtime fi =? m)%Z eqn:Em; [|discriminate]. assert (f_mtime fi = m) by lia. subst m.
    destruct (supported o (f_fmt fi) && (f_size fi <=? max_upload_size o um)%Z).
    + rewrite src_user_medium in H. unfold transmit_file in H. destruct src_straight as (_ & Hs & _). rewrite Hs in H.
      rewrite mk_tx_straight, src_inline_medium in H.
      destruct Hum as [->| ->]; inversion H; subst; exists (whole (f_img fi)).
      * split; [eapply EmUserName; eauto|]. split; [left; reflexivity|]. exists fi. auto.
      * split; [eapply EmUserInline; eauto|]. split; [left; reflexivity|]. exists fi. auto.
    + destruct (convert_spec s o i um (f_img fi) (Some (whole (f_img fi))) Hum) as (evs' & Hc & He).
      rewrite Hc in H. inversion H; subst. eexists. split; [exact He|]. split.
      * destruct Hum as [->| ->]; [right|left]; reflexivity.
      * exists fi. auto.
  - destruct (convert_spec s o i um im None Hum) as (evs' & Hc & He).
    rewrite Hc in H. inversion H; subst. eexists. split; [exact He|]. split.
    + destruct Hum as [->| ->]; [right|left]; reflexivity.
    + reflexivity.
  - discriminate.
Qed.

(* a failing upload_by emits nothing (the model's other UpRaise shape, a temp file written and then an error, does
   not occur with the library's media) *)
Lemma upload_by_raise s o i um evs nt : um = MFile \/ um = MDirect ->
  upload_by s o i um = UpRaise evs nt -> evs = [] /\ nt = s_ntemp s.
Proof.
  intros Hum H. unfold upload_by in H.
  assert (Hconv : forall im own, convert s o i um im own = UpRaise evs nt -> evs = [] /\ nt = s_ntemp s).
  { intros im own Hc. destruct (convert_spec s o i um im own Hum) as (evs' & Hc' & _). rewrite Hc' in Hc. discriminate. }
  destruct (n_src i) as [p m|im|k].
  - destruct (s_fs s p) as [fi|]; [|inversion H; auto].
    destruct (f_mtime fi =? m)%Z; [|inversion H; auto].
    destruct (supported o (f_fmt fi) && (f_size fi <=? max_upload_size o um)%Z).
    + rewrite src_user_medium in H. unfold transmit_file in H. destruct Hum as [->| ->]; discriminate.
    + eapply Hconv; eauto.
  - eapply Hconv; eauto.
  - inversion H; auto.
Qed.

Lemma do_upload_cases s o i :
  (exists um, (um = MFile \/ um = MDirect) /\ resolve_method (o_method o) (o_ssh o) = Some um /\ do_upload s o i = upload_by s o i um) \/
  do_upload s o i = UpRaise [] (s_ntemp s).
Proof.
  unfold do_upload. destruct (resolve_method (o_method o) (o_ssh o)) as [[| | |]|] eqn:E; auto.
  - left. exists MDirect. auto.
  - left. exists MFile. auto.
Qed.

Lemma resolve_file_names_allowed m ssh : resolve_method m ssh = Some MFile -> names_allowed m ssh = true.
Proof.
  destruct m; cbn; try discriminate; auto. destruct src_auto as [-> ->]. destruct ssh; [discriminate|reflexivity].
Qed.
