(* Proofs/SystemCodec.v — a concrete description codec (descr <-> N) with dec (enc d) = Some d: shows that the
   codec_ok hypothesis of the C08 theorems is satisfiable, and lets the refutation witnesses be computed.
   (The library's codec is json.dumps / json.loads; the harness interns the strings.) *)
From Coq Require Import ZArith NArith PArith List Bool Lia ZifyN ZifyBool ZifyNat.
From Tup Require Import Lib.SystemTypes.
Import ListNotations.
Open Scope N_scope.

(* pair a b = 2^a * (2b+1), on binary positives: a times xO over (xH | xI q) *)
Definition base (b : N) : positive := match b with 0 => xH | Npos q => xI q end.
Definition pair (a b : N) : N := Npos (N.iter a xO (base b)).
Fixpoint unp (p : positive) : N * N :=
  match p with
  | xO q => let '(a, b) := unp q in (N.succ a, b)
  | xH => (0, 0)
  | xI q => (0, Npos q)
  end.
Definition unpair (n : N) : N * N := match n with 0 => (0, 0) | Npos p => unp p end.

Lemma unpair_pair a b : unpair (pair a b) = (a, b).
Proof.
  unfold pair, unpair. induction a as [|a IH] using N.peano_ind.
  - cbn [N.iter]. destruct b; reflexivity.
  - rewrite N.iter_succ. cbn [unp]. rewrite IH. reflexivity.
Qed.

Definition zenc (z : Z) : N := pair (if (z <? 0)%Z then 1 else 0) (Z.abs_N z).
Definition zdec (n : N) : Z := let '(s, a) := unpair n in if s =? 1 then (- Z.of_N a)%Z else Z.of_N a.
Lemma zdec_zenc z : zdec (zenc z) = z.
Proof. unfold zdec, zenc. rewrite unpair_pair. destruct (z <? 0)%Z eqn:E; cbn [N.eqb Pos.eqb]; lia. Qed.

Definition enc_descr (d : descr) : N :=
  match d with
  | DFile p m c r => pair 0 (pair p (pair (zenc m) (pair c r)))
  | DMem (a, b, w, e) c r => pair 1 (pair a (pair b (pair w (pair e (pair c r)))))
  end.
Definition dec_descr (n : N) : option descr :=
  let '(tag, rest) := unpair n in
  if tag =? 0 then
    let '(p, r1) := unpair rest in let '(m, r2) := unpair r1 in let '(c, r) := unpair r2 in
    Some (DFile p (zdec m) c r)
  else
    let '(a, r1) := unpair rest in let '(b, r2) := unpair r1 in let '(w, r3) := unpair r2 in
    let '(e, r4) := unpair r3 in let '(c, r) := unpair r4 in
    Some (DMem (a, b, w, e) c r).

Definition the_codec : codec := {| enc := enc_descr; dec := dec_descr |}.

Theorem the_codec_ok : codec_ok the_codec.
Proof.
  intro d. cbn [the_codec enc dec]. destruct d as [p m c r|[[[a b] w] e] c r]; unfold enc_descr, dec_descr.
  - rewrite unpair_pair. cbv beta iota. cbn [N.eqb]. cbv iota. repeat (rewrite unpair_pair; cbv beta iota). rewrite zdec_zenc. reflexivity.
  - rewrite unpair_pair. cbv beta iota. cbn [N.eqb]. cbv iota. repeat (rewrite unpair_pair; cbv beta iota). reflexivity.
Qed.
