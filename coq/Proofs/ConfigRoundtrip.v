(* Proofs/ConfigRoundtrip.v — C17 clause 4: load (dump c) = c. *)
From Coq Require Import ZArith NArith List Bool Lia ZifyN ZifyBool ZifyNat.
From Tup Require Import Lib.ByteStr Lib.ByteStrFacts Lib.CfgTypes Gen.ConfigGen Model.ConfigModel Spec.ConfigSpec
  Proofs.ConfigProofs Proofs.ConfigTextProofs Proofs.ConfigDecFacts.
Import ListNotations.
Open Scope N_scope.

(* objects that exist in Python: IDSpace / IDSubspace validate themselves, enum members are the declared ones *)
Definition wf_value (v : value) : Prop :=
  match v with
  | VSpace bits d3 => space_ok bits d3 = true
  | VSub b e => sub_ok b e = true
  | VMedium l => mem_str l medium_values = true
  | _ => True
  end.
(* strings as they come out of the normalisation *)
Definition wf_str (name : list N) (v : value) : Prop :=
  match v with
  | VStr s => (beq_bytes name n_id_database_dir = true -> s <> []) /\
              (beq_bytes name n_background = true -> beq_bytes s s_auto = true \/ py_int s = None)
  | _ => True
  end.

Lemma space_ok_cases bits d3 : space_ok bits d3 = true ->
  (bits, d3) = (24%Z, true) \/ (bits, d3) = (24%Z, false) \/ (bits, d3) = (8%Z, true) \/ (bits, d3) = (8%Z, false) \/ (bits, d3) = (0%Z, true).
Proof.
  unfold space_ok. cbn [legal_color_bits existsb]. destruct d3; cbn [negb andb]; intro H.
  - assert (Hb : (bits = 0 \/ bits = 8 \/ bits = 24)%Z) by lia. destruct Hb as [Hb|[Hb|Hb]]; subst bits; auto 6.
  - assert (Hb : (bits = 8 \/ bits = 24)%Z) by lia. destruct Hb as [Hb|Hb]; subst bits; auto 6.
Qed.
Lemma medium_cases l : mem_str l medium_values = true -> In l medium_values.
Proof.
  unfold mem_str. intro H. apply existsb_exists in H. destruct H as (x & Hin & Hb). apply beq_bytes_eq in Hb. subst. exact Hin.
Qed.

Ltac str_case Ea :=
  match goal with
  | |- convert ?pl ?n ?t (VStr ?s) = _ =>
      destruct (beq_bytes s s_auto) eqn:Ea;
      [cbn [convert]; rewrite Ea; reflexivity | rewrite (convert_str pl n t s Ea); eval_conds]
  end.

Lemma convert_toml_form pl name t d v :
  In (name, t, d) options -> verify_type t v = true -> constraints_ok name v = true ->
  wf_value v -> wf_str name v -> v <> VNone ->
  convert pl name t (toml_form name v) = Some v.
Proof.
  intros Hin Hver Hcon Hwf Hws Hnn.
  destruct v as [z|m e|b|s|l|l|bits d3|b e|l|]; try congruence.
  - (* VInt *) each_option Hin; try discriminate Hver; reflexivity.
  - (* VFloat *) each_option Hin; try discriminate Hver; reflexivity.
  - (* VBool *) each_option Hin; try discriminate Hver; reflexivity.
  - (* VStr *) cbn [toml_form]. cbn [wf_str] in Hws. destruct Hws as [Hdir Hbg].
    each_option Hin; try discriminate Hver; str_case Ea;
      try reflexivity;
      try (cbn in Hver; unfold s_auto in Ea; rewrite Ea in Hver; discriminate Hver).
    + (* id_database_dir *) destruct s; [elim (Hdir eq_refl); reflexivity|reflexivity].
    + (* background *) destruct (Hbg eq_refl) as [H|H]; [congruence|rewrite H; reflexivity].
  - (* VList *) each_option Hin; try discriminate Hver; reflexivity.
  - (* VTuple *)
    each_option Hin; try discriminate Hver;
      destruct l as [|[w| | | | | | | | |] [|[h| | | | | | | | |] [|]]]; try discriminate Hver;
      cbn [constraints_ok] in Hcon;
      cbn [toml_form beq_bytes N.eqb Pos.eqb orb andb n_cell_size n_default_cell_size size_str];
      (assert (Hna : beq_bytes (show_z w ++ [120] ++ show_z h) s_auto = false) by apply show_z_not_auto);
      rewrite (convert_str _ _ _ _ Hna); eval_conds;
      rewrite validate_size_show by lia; reflexivity.
  - (* VSpace *) cbn [wf_value] in Hwf. apply space_ok_cases in Hwf.
    each_option Hin; try discriminate Hver.
    destruct Hwf as [H|[H|[H|[H|H]]]]; injection H as -> ->; reflexivity.
  - (* VSub *) cbn [wf_value] in Hwf.
    each_option Hin; try discriminate Hver.
    cbn [toml_form beq_bytes N.eqb Pos.eqb andb n_id_subspace].
    assert (Hna : beq_bytes (sub_str b e) s_auto = false) by apply show_z_not_auto.
    rewrite (convert_str _ _ _ _ Hna); eval_conds. rewrite sub_from_string_show by exact Hwf. reflexivity.
  - (* VMedium *) cbn [wf_value] in Hwf. apply medium_cases in Hwf.
    each_option Hin; try discriminate Hver.
    cbn [medium_values In] in Hwf. destruct Hwf as [<-|[<-|[<-|[<-|[]]]]]; reflexivity.
Qed.

(* ------------------------------------------------------------------ assembling the round trip *)
Definition good_value (name : list N) (t : ty) (v : value) : Prop :=
  verify_type t v = true /\ constraints_ok name v = true /\ wf_value v /\ wf_str name v /\ v <> VNone.
Definition good_config (c : config) : Prop :=
  forall name t d, In (name, t, d) options -> good_value name t (e_val (c name)).

Lemma lookup_opt_in name : forall tbl t d, lookup_opt name tbl = Some (t, d) -> In (name, t, d) tbl.
Proof.
  induction tbl as [|[[n t'] d'] r IH]; intros t d H; [discriminate|]. cbn [lookup_opt] in H.
  destruct (beq_bytes name n) eqn:E.
  - apply beq_bytes_eq in E. subst n. injection H as <- <-. left. reflexivity.
  - right. apply IH. exact H.
Qed.
Lemma lookup_opt_name name : forall tbl, In name (map (fun x => fst (fst x)) tbl) -> exists t d, lookup_opt name tbl = Some (t, d).
Proof.
  induction tbl as [|[[n t'] d'] r IH]; intro H; [contradiction|]. cbn [lookup_opt].
  destruct (beq_bytes name n) eqn:E; [eauto|]. cbn [map fst In] in H. destruct H as [H|H].
  - subst n. rewrite (proj2 (beq_bytes_eq name name) eq_refl) in E. discriminate.
  - apply IH. exact H.
Qed.

Lemma normalize_toml_form pl c name : good_config c -> In name option_names ->
  normalize pl name (toml_form name (e_val (c name))) = Ok (e_val (c name)).
Proof.
  intros G Hin. destruct (lookup_opt_name name options Hin) as (t & d & L).
  pose proof (lookup_opt_in name options t d L) as Hin'. destruct (G name t d Hin') as (Hv & Hc & Hw & Hs & Hn).
  unfold normalize, normalize_core. rewrite L, (convert_toml_form pl name t d _ Hin' Hv Hc Hw Hs Hn), Hv, Hc. reflexivity.
Qed.

Lemma toml_form_none name v : is_none (toml_form name v) = is_none v.
Proof.
  destruct v as [| | | | |l| | | |]; cbn [toml_form is_none]; try reflexivity;
    try (repeat match goal with |- context [if ?b then _ else _] => destruct b end; reflexivity).
  destruct l as [|w [|h r]]; try reflexivity.
  repeat match goal with |- context [if ?b then _ else _] => destruct b end; reflexivity.
Qed.

Lemma filter_id {A} (p : A -> bool) l : (forall x, In x l -> p x = true) -> filter p l = l.
Proof.
  induction l as [|x l IH]; intro H; [reflexivity|]. cbn [filter]. rewrite (H x (or_introl eq_refl)), IH; [reflexivity|].
  intros y Hy. apply H. right. exact Hy.
Qed.
Lemma filter_nil {A} (p : A -> bool) l : (forall x, In x l -> p x = false) -> filter p l = [].
Proof.
  induction l as [|x l IH]; intro H; [reflexivity|]. cbn [filter]. rewrite (H x (or_introl eq_refl)), IH; [reflexivity|].
  intros y Hy. apply H. right. exact Hy.
Qed.

Lemma apply_all_ok pl l : forall c,
  (forall a, In a l -> exists v, normalize pl (fst (fst a)) (snd (fst a)) = Ok v) ->
  exists c', apply_assignments pl c l = Ok c'.
Proof.
  induction l as [|[[n r] p] l IH]; intros c H; [eexists; reflexivity|].
  cbn [apply_assignments]. destruct (H (n, r, p) (or_introl eq_refl)) as (v & Hv). cbn [fst snd] in Hv. rewrite Hv.
  apply IH. intros a Ha. apply H. right. exact Ha.
Qed.

Lemma in_layer_map {P} (f : list N -> value) (p : P) o : forall names, In o names ->
  in_layer o (map (fun n => (n, f n, p)) names) = Some (f o, p).
Proof.
  induction names as [|n names IH]; intro H; [contradiction|]. cbn [map in_layer].
  destruct (in_dec (list_eq_dec N.eq_dec) o names) as [Hin|Hnin].
  - rewrite (IH Hin). reflexivity.
  - destruct H as [->|H]; [|contradiction].
    assert (in_layer o (map (fun n => (n, f n, p)) names) = None) as ->.
    { clear IH. induction names as [|m names IH]; [reflexivity|]. cbn [map in_layer].
      rewrite IH by (intro; apply Hnin; right; assumption).
      destruct (beq_bytes o m) eqn:E; [|reflexivity]. apply beq_bytes_eq in E. subst m. elim Hnin. left. reflexivity. }
    rewrite (proj2 (beq_bytes_eq o o) eq_refl). reflexivity.
Qed.

Theorem roundtrip pl c path : good_config c ->
  exists c', load_toml pl path (to_toml c) = Ok c' /\
             forall name, In name option_names -> e_val (c' name) = e_val (c name) /\ e_prov (c' name) = Some (prov_file path).
Proof.
  intro G. set (f := fun name => toml_form name (e_val (c name))).
  assert (Hdump : to_toml c = map (fun name => (name, f name)) option_names).
  { unfold to_toml. apply filter_id. intros [n v] Hin. apply in_map_iff in Hin. destruct Hin as (name & [= <- <-] & Hin).
    cbn [snd]. unfold f. rewrite toml_form_none.
    destruct (lookup_opt_name name options Hin) as (t & d & L).
    destruct (G name t d (lookup_opt_in _ _ _ _ L)) as (_ & _ & _ & _ & Hn). destruct (e_val (c name)); try reflexivity. congruence. }
  assert (Hknown : forall kv, In kv (map (fun name => (name, f name)) option_names) -> known_name (fst kv) = true).
  { intros [n v] Hin. apply in_map_iff in Hin. destruct Hin as (name & [= <- <-] & Hin). cbn [fst].
    unfold known_name. destruct (lookup_opt_name name options Hin) as (t & d & ->). reflexivity. }
  unfold load_toml, apply_file. rewrite Hdump. unfold file_assignments, unknown_keys.
  rewrite (filter_id _ _ Hknown).
  rewrite (filter_nil (fun kv => negb (known_name (fst kv)))) by (intros kv Hkv; rewrite (Hknown kv Hkv); reflexivity).
  rewrite map_map. cbn [fst snd map].
  destruct (apply_all_ok pl (map (fun x => (x, f x, prov_file path)) option_names) (init pl)) as (c' & Hc').
  { intros a Ha. apply in_map_iff in Ha. destruct Ha as (name & <- & Hin). cbn [fst snd].
    eexists. apply (normalize_toml_form pl c name G Hin). }
  rewrite Hc'. exists c'. split; [reflexivity|]. intros name Hin.
  pose proof (apply_assignments_spec pl _ _ _ Hc' name) as S.
  rewrite (in_layer_map f (prov_file path) name option_names Hin) in S.
  destruct S as (v & Hv & Hcv). unfold f in Hv. rewrite (normalize_toml_form pl c name G Hin) in Hv. injection Hv as <-.
  rewrite Hcv. split; reflexivity.
Qed.

(* the defaults form a good configuration (non-vacuity), for any platform with a non-empty state directory *)
Lemma good_init pl : state_dir pl <> [] -> good_config (init pl).
Proof.
  intros Hsd name t d Hin. unfold good_value, init.
  each_option Hin; cbv [lookup_opt options beq_bytes N.eqb Pos.eqb andb e_val default_value];
    repeat split; try reflexivity; try discriminate; try (intro H; discriminate H);
    cbn; try (intros _; exact Hsd); try (intros _; right; reflexivity); try (intros _; left; reflexivity).
Qed.

(* ------------------------------------------------------------------ what the normalisation returns is a good value *)
Lemma sub_from_string_wf s v : sub_from_string s = Some v -> wf_value v /\ wf_str [] v /\ v <> VNone /\ is_string v = false.
Proof.
  unfold sub_from_string. destruct s as [|c r].
  - vm_compute. intros [= <-]. repeat split; discriminate.
  - destruct (split_on 58 (c :: r)) as [|p [|q [|]]]; try discriminate.
    destruct (py_int p) as [b|]; [|discriminate]. destruct (py_int q) as [e|]; [|discriminate].
    destruct (sub_ok b e) eqn:E; [|discriminate]. intros [= <-]. cbn. repeat split; try exact E; discriminate.
Qed.
Lemma space_from_string_wf s v : space_from_string s = Some v -> wf_value v /\ v <> VNone /\ is_string v = false.
Proof.
  unfold space_from_string. destruct (find_names s space_names) as [[bits d3]|]; [|discriminate].
  destruct (space_ok bits d3) eqn:E; [|discriminate]. intros [= <-]. cbn. repeat split; try exact E; discriminate.
Qed.
Lemma medium_from_string_wf s v : medium_from_string s = Some v -> wf_value v /\ v <> VNone /\ is_string v = false.
Proof.
  unfold medium_from_string. cbn [find_names medium_names].
  repeat match goal with |- context [if ?b then _ else _] => destruct b end;
    intros [= <-]; cbn; repeat split; try reflexivity; discriminate.
Qed.
Lemma validate_size_wf s v : validate_size s = Some v -> wf_value v /\ v <> VNone /\ is_string v = false.
Proof.
  unfold validate_size. destruct (split_on 120 s) as [|p [|q [|]]]; try discriminate.
  destruct (py_int p); [|discriminate]. destruct (py_int q); [|discriminate].
  destruct ((z <? 1)%Z || (z0 <? 1)%Z); [discriminate|]. intros [= <-]. cbn. repeat split; discriminate.
Qed.

Lemma convert_good pl name t d raw v :
  In (name, t, d) options -> state_dir pl <> [] -> wf_value raw -> raw <> VNone ->
  convert pl name t raw = Some v -> wf_value v /\ wf_str name v /\ v <> VNone.
Proof.
  intros Hin Hsd Hwf Hnn Hc.
  destruct raw as [z|m e|b|s|l|l|bits d3|b e|l|]; try congruence;
    try (cbn [convert] in Hc; injection Hc as <-; repeat split; try exact Hwf; try exact I; discriminate).
  - (* VInt *) cbn [convert] in Hc. destruct (is_tfloat t); [injection Hc as <-; repeat split; try exact I; discriminate|].
    destruct (is_tbool t && _); injection Hc as <-; repeat split; try exact I; discriminate.
  - (* VStr *) destruct (beq_bytes s s_auto) eqn:Ea.
    + cbn [convert] in Hc. rewrite Ea in Hc. injection Hc as <-. apply beq_bytes_eq in Ea. subst s.
      repeat split; try exact I; try discriminate. intros _. left. reflexivity.
    + rewrite (convert_str pl name t s Ea) in Hc.
      each_option Hin; eval_conds_in Hc;
        try (apply sub_from_string_wf in Hc; destruct Hc as (H1 & _ & H3 & H4); destruct v; try discriminate H4; repeat split; try exact H1; try exact I; exact H3);
        try (apply space_from_string_wf in Hc; destruct Hc as (H1 & H3 & H4); destruct v; try discriminate H4; repeat split; try exact H1; try exact I; exact H3);
        try (apply validate_size_wf in Hc; destruct Hc as (H1 & H3 & H4); destruct v; try discriminate H4; repeat split; try exact H1; try exact I; exact H3);
        try (apply medium_from_string_wf in Hc; destruct Hc as (H1 & H3 & H4); destruct v; try discriminate H4; repeat split; try exact H1; try exact I; exact H3);
        try (destruct (py_int s); [|discriminate Hc]; injection Hc as <-; repeat split; try exact I; discriminate);
        try (destruct (py_float s); [|discriminate Hc]; injection Hc as <-; repeat split; try exact I; discriminate);
        try (destruct (parse_bool s); [|discriminate Hc]; injection Hc as <-; repeat split; try exact I; discriminate);
        try (injection Hc as <-; repeat split; try exact I; try discriminate; intro H; discriminate H).
      * (* id_database_dir *) destruct (beq_bytes s []) eqn:E0; injection Hc as <-; repeat split; try exact I; try discriminate.
        -- intros _. exact Hsd.
        -- intros _ ->. discriminate E0.
      * (* background *) destruct (py_int s) eqn:Ei; injection Hc as <-; repeat split; try exact I; try discriminate.
        intros _. right. exact Ei.
Qed.

Theorem normalize_good pl name t d raw v :
  In (name, t, d) options -> state_dir pl <> [] -> wf_value raw -> raw <> VNone ->
  normalize_core pl name t raw = Ok v -> good_value name t v.
Proof.
  intros Hin Hsd Hwf Hnn. unfold normalize_core.
  destruct (convert pl name t raw) as [v1|] eqn:Ec; [|discriminate].
  destruct (verify_type t v1) eqn:Ev; cbn [negb]; [|discriminate].
  destruct (constraints_ok name v1) eqn:Ek; [|discriminate]. intros [= <-].
  destruct (convert_good pl name t d raw v1 Hin Hsd Hwf Hnn Ec) as (H1 & H2 & H3).
  repeat split; assumption.
Qed.
