From Coq Require Import ZArith NArith List Bool Lia ZifyN ZifyBool ZifyNat.
From Tup Require Import Lib.ByteStr Lib.ByteStrFacts Lib.Dec Lib.DecFacts Lib.Base64 Lib.Base64Facts
  Lib.SplitJoin Lib.SplitJoinFacts Lib.PyFmt Lib.PyFmtFacts Lib.CommandTypes Gen.CommandGen Gen.TmuxGen
  Model.GraphicsCommand Spec.KittyProtoSpec.
Import ListNotations.
Open Scope N_scope.
Ltac Zify.zify_post_hook ::= Z.to_euclidean_division_equations.

(* ================================================================ Spec helpers = Lib helpers *)
Lemma sp_split_eq sep l : forall cur, sp_split sep l cur = split_on sep l cur.
Proof. induction l as [|b r IH]; intro cur; cbn [sp_split split_on]; [reflexivity|]. rewrite !IH. reflexivity. Qed.
Lemma sp_split1_eq sep l : forall cur, sp_split1 sep l cur = split_first sep l cur.
Proof. induction l as [|b r IH]; intro cur; cbn [sp_split1 split_first]; [reflexivity|]. rewrite IH. reflexivity. Qed.

Lemma sp_digits_spec fuel : forall n acc,
  sp_digits fuel n acc = map (fun d => d + 48) (rev (digits_rev fuel n)) ++ acc.
Proof.
  induction fuel as [|f IH]; intros n acc; cbn [sp_digits digits_rev]; [reflexivity|].
  destruct (n <? 10) eqn:E; [reflexivity|].
  rewrite IH. cbn [rev]. rewrite map_app, <- app_assoc. reflexivity.
Qed.
Lemma sp_dec_eq n : sp_dec n = dec n.
Proof. unfold sp_dec, dec. rewrite sp_digits_spec, app_nil_r. reflexivity. Qed.

(* ================================================================ character classes *)
(* header value bytes: letters or digits *)
Definition alnum (b : N) : bool := is_digit b || is_letter b.
Definition val_ok (v : hval) : Prop := ser_val v <> [] /\ Forall (fun b => alnum b = true) (ser_val v).

Lemma val_ok_int n : val_ok (HInt n).
Proof.
  split; [apply dec_nonempty|]. cbn [ser_val]. eapply Forall_impl; [|apply dec_is_digits].
  intros b Hb. unfold alnum. rewrite Hb. reflexivity.
Qed.
Lemma val_ok_letter c : is_letter c = true -> val_ok (HBytes [c]).
Proof. intro H. split; [discriminate|]. cbn [ser_val]. constructor; [|constructor]. unfold alnum. rewrite H. apply orb_true_r. Qed.

Lemma alnum_not_special b : alnum b = true -> b <> 27 /\ b <> 44 /\ b <> 59 /\ b <> 61.
Proof. unfold alnum, is_digit, is_letter. lia. Qed.
Lemma letter_not_special b : is_letter b = true -> b <> 27 /\ b <> 44 /\ b <> 59 /\ b <> 61.
Proof. unfold is_letter. lia. Qed.

(* ================================================================ items: generic facts *)
Section Items.
Context {F : Type} (get : F -> option hval).

Lemma items_cons kf tbl : items get (kf :: tbl) =
  match get (snd kf) with Some v => (fst kf, v) :: items get tbl | None => items get tbl end.
Proof. unfold items. cbn [flat_map]. destruct (get (snd kf)); reflexivity. Qed.

Lemma items_keys_in tbl k : In k (map fst (items get tbl)) -> In k (map fst tbl).
Proof.
  induction tbl as [|kf tbl IH]; [intros []|]. rewrite items_cons. cbn [map In].
  destruct (get (snd kf)); cbn [map In fst]; intros H; [destruct H as [H|H]|]; auto.
Qed.

Lemma items_nodup tbl : NoDup (map fst tbl) -> NoDup (map fst (items get tbl)).
Proof.
  induction tbl as [|kf tbl IH]; intro H; [constructor|]. rewrite items_cons.
  cbn [map] in H. apply NoDup_cons_iff in H. destruct H as [Hn Hd].
  destruct (get (snd kf)); [|exact (IH Hd)]. cbn [map fst]. constructor; [|exact (IH Hd)].
  intro Hin. apply Hn. apply items_keys_in. exact Hin.
Qed.

(* the field selected by key k in a table *)
Fixpoint find_key (k : N) (tbl : list (N * F)) : option F :=
  match tbl with [] => None | (k', f) :: r => if k =? k' then Some f else find_key k r end.

Definition kv (its : list (N * hval)) : list (N * list N) := map (fun it => (fst it, ser_val (snd it))) its.

Lemma find_key_none k tbl : ~ In k (map fst tbl) -> find_key k tbl = None.
Proof.
  induction tbl as [|[k' f] tbl IH]; intro H; [reflexivity|]. cbn [find_key]. cbn [map In fst] in H.
  destruct (k =? k') eqn:E; [exfalso; apply H; left; lia|]. apply IH. tauto.
Qed.

Lemma assoc_items k tbl : NoDup (map fst tbl) ->
  sp_assoc k (kv (items get tbl)) = match find_key k tbl with Some f => option_map ser_val (get f) | None => None end.
Proof.
  induction tbl as [|[k' f] tbl IH]; intro H; [reflexivity|].
  cbn [map fst] in H. apply NoDup_cons_iff in H. destruct H as [Hn Hd].
  rewrite items_cons. cbn [fst snd find_key].
  destruct (k =? k') eqn:E.
  - assert (k = k') by lia; subst k'.
    destruct (get f) as [v|]; [cbn [kv map sp_assoc fst snd]; rewrite N.eqb_refl; reflexivity|].
    cbn [option_map]. rewrite (IH Hd), (find_key_none k tbl Hn). reflexivity.
  - destruct (get f) as [v|]; [cbn [kv map sp_assoc fst snd]; rewrite E|]; apply (IH Hd).
Qed.

Lemma assoc_not_in k its : ~ In k (map fst its) -> sp_assoc k (kv its) = None.
Proof.
  induction its as [|[k' v] its IH]; intro H; [reflexivity|]. cbn [kv map sp_assoc fst snd].
  cbn [map In fst] in H. destruct (k =? k') eqn:E; [exfalso; apply H; left; lia|]. apply IH. tauto.
Qed.

Lemma assoc_app k a b : sp_assoc k (kv (a ++ b)) =
  match sp_assoc k (kv a) with Some v => Some v | None => sp_assoc k (kv b) end.
Proof.
  induction a as [|[k' v] a IH]; [reflexivity|]. cbn [app kv map sp_assoc fst snd].
  destruct (k =? k'); [reflexivity|]. apply IH.
Qed.
End Items.

(* ================================================================ header text parses back *)
Definition item_ok (it : N * hval) : Prop := is_letter (fst it) = true /\ val_ok (snd it).

Lemma ser_item_nocomma it : item_ok it -> Forall (fun b => b <> 44) (ser_item it).
Proof.
  destruct it as [k v]. intros [Hk [_ Hv]]. cbn [fst snd] in *. unfold ser_item. cbn [fst snd].
  constructor; [apply letter_not_special in Hk; tauto|]. constructor; [lia|].
  eapply Forall_impl; [|exact Hv]. intros b Hb. apply alnum_not_special in Hb. tauto.
Qed.

Lemma parse_pair_ser it : item_ok it -> parse_pair (ser_item it) = Some (fst it, ser_val (snd it)).
Proof.
  destruct it as [k v]. intros [Hk [Hne _]]. cbn [fst snd] in *. unfold ser_item, parse_pair. cbn [fst snd].
  rewrite Hk. change (61 =? 61) with true. cbn [andb]. destruct (ser_val v); [congruence|reflexivity].
Qed.

Lemma sp_mem_kv k its : sp_mem k (kv its) = true <-> In k (map fst its).
Proof.
  induction its as [|[k' v] its IH]; cbn [kv map sp_mem In fst snd]; [split; [discriminate|tauto]|].
  rewrite orb_true_iff, IH. split; intros [H|H]; auto; left; lia.
Qed.

Lemma parse_pairs_ser its : Forall item_ok its -> forall seen,
  NoDup (map fst (rev seen ++ its)) ->
  parse_pairs (map ser_item its) (kv seen) = Some (kv (rev seen ++ its)).
Proof.
  induction 1 as [|it its Hit _ IH]; intros seen Hnd.
  - cbn [map parse_pairs]. rewrite app_nil_r. unfold kv. rewrite map_rev. reflexivity.
  - cbn [map parse_pairs]. rewrite (parse_pair_ser it Hit).
    destruct (sp_mem (fst it) (kv seen)) eqn:E.
    + exfalso. apply sp_mem_kv in E. rewrite map_app in Hnd. apply NoDup_remove_2 in Hnd.
      apply Hnd. apply in_or_app. left. rewrite map_rev. apply in_rev. rewrite rev_involutive. exact E.
    + change ((fst it, ser_val (snd it)) :: kv seen) with (kv (it :: seen)).
      rewrite IH; cbn [rev]; rewrite <- app_assoc; [reflexivity|exact Hnd].
Qed.

Lemma join_nonempty its : its <> [] -> join 44 (map ser_item its) <> [].
Proof.
  destruct its as [|it its]; [congruence|]. intros _. cbn [map join].
  destruct (map ser_item its); unfold ser_item; discriminate.
Qed.

Theorem parse_control_header its : Forall item_ok its -> NoDup (map fst its) ->
  parse_control (join 44 (map ser_item its)) = Some (kv its).
Proof.
  intros Hok Hnd. destruct its as [|it its]; [reflexivity|].
  unfold parse_control.
  pose proof (join_nonempty (it :: its) ltac:(discriminate)) as Hne.
  destruct (join 44 (map ser_item (it :: its))) as [|b r] eqn:E; [congruence|]. rewrite <- E.
  rewrite sp_split_eq, split_join.
  - change (@nil (N * list N)) with (kv []). rewrite parse_pairs_ser; [reflexivity|exact Hok|exact Hnd].
  - discriminate.
  - apply Forall_forall. intros p Hp. apply in_map_iff in Hp as (x & <- & Hx).
    apply ser_item_nocomma. rewrite Forall_forall in Hok. apply Hok. exact Hx.
Qed.

(* header text contains neither ';' nor ESC *)
Lemma ser_item_clean it : item_ok it -> Forall (fun b => b <> 59 /\ b <> 27) (ser_item it).
Proof.
  destruct it as [k v]. intros [Hk [_ Hv]]. cbn [fst snd] in *. unfold ser_item. cbn [fst snd].
  constructor; [apply letter_not_special in Hk; tauto|]. constructor; [lia|].
  eapply Forall_impl; [|exact Hv]. intros b Hb. apply alnum_not_special in Hb. tauto.
Qed.
Lemma join_clean (P : N -> Prop) parts : P 44 -> Forall (Forall P) parts -> Forall P (join 44 parts).
Proof.
  intros H44. induction 1 as [|p parts Hp _ IH]; [constructor|].
  destruct parts as [|q parts]; [exact Hp|].
  change (join 44 (p :: q :: parts)) with (p ++ 44 :: join 44 (q :: parts)).
  apply Forall_app. split; [exact Hp|]. constructor; [exact H44|exact IH].
Qed.
Lemma header_clean its : Forall item_ok its -> Forall (fun b => b <> 59 /\ b <> 27) (join 44 (map ser_item its)).
Proof.
  intro H. apply join_clean; [lia|]. apply Forall_forall. intros p Hp. apply in_map_iff in Hp as (x & <- & Hx).
  apply ser_item_clean. rewrite Forall_forall in H. apply H. exact Hx.
Qed.

(* ================================================================ base64 as the Spec decodes it *)
Lemma sextet_to_char s : s < 64 -> sextet (to_char s) = Some s.
Proof.
  intro H. unfold to_char.
  destruct (s <? 26) eqn:E1; [unfold sextet; destruct ((65 <=? 65 + s) && (65 + s <=? 90)) eqn:?; [f_equal; lia|lia]|].
  destruct (s <? 52) eqn:E2.
  { unfold sextet. destruct ((65 <=? 97 + (s - 26)) && (97 + (s - 26) <=? 90)) eqn:?; [lia|].
    destruct ((97 <=? 97 + (s - 26)) && (97 + (s - 26) <=? 122)) eqn:?; [f_equal; lia|lia]. }
  destruct (s <? 62) eqn:E3.
  { unfold sextet. destruct ((65 <=? 48 + (s - 52)) && (48 + (s - 52) <=? 90)) eqn:?; [lia|].
    destruct ((97 <=? 48 + (s - 52)) && (48 + (s - 52) <=? 122)) eqn:?; [lia|].
    destruct ((48 <=? 48 + (s - 52)) && (48 + (s - 52) <=? 57)) eqn:?; [f_equal; lia|lia]. }
  destruct (s =? 62) eqn:E4; [assert (s = 62) by lia; subst s; reflexivity|].
  destruct (s =? 63) eqn:E5; [assert (s = 63) by lia; subst s; reflexivity|]. lia.
Qed.
Lemma to_char_pad : to_char 64 = 61.  Proof. reflexivity. Qed.
Lemma to_char_not_pad s : s < 64 -> (to_char s =? 61) = false.
Proof. intro H. pose proof (to_char_data s H). lia. Qed.

Theorem sp_b64_encode d : bytes_ok d -> sp_b64 (b64encode d) = Some d.
Proof.
  unfold b64encode. induction d as [|a|a b|a b c r IH] using list_ind3; intro HF.
  - reflexivity.
  - apply bytes_ok_cons in HF. destruct HF as [Ha _]. cbn [enc6 map sp_b64]. unfold PAD.
    rewrite !sextet_to_char by lia. rewrite to_char_pad. change (61 =? 61) with true. cbn [andb].
    f_equal. f_equal. lia.
  - apply bytes_ok_cons in HF. destruct HF as [Ha HF]. apply bytes_ok_cons in HF. destruct HF as [Hb _].
    cbn [enc6 map sp_b64]. unfold PAD.
    rewrite !sextet_to_char by lia. rewrite to_char_pad. rewrite (to_char_not_pad (b mod 16 * 4)) by lia.
    cbn [andb]. change (61 =? 61) with true. cbv iota. repeat f_equal; lia.
  - apply bytes_ok_cons in HF. destruct HF as [Ha HF]. apply bytes_ok_cons in HF. destruct HF as [Hb HF].
    apply bytes_ok_cons in HF. destruct HF as [Hc HF].
    cbn [enc6 map sp_b64].
    rewrite !sextet_to_char by lia. rewrite (to_char_not_pad (b mod 16 * 4 + c / 64)) by lia.
    rewrite (to_char_not_pad (c mod 64)) by lia. cbn [andb]. rewrite (IH HF). repeat f_equal; lia.
Qed.

Lemma b64_clean d : bytes_ok d -> Forall (fun b => b <> 27 /\ b <> 59) (b64encode d).
Proof.
  intro H. eapply Forall_impl; [|apply (b64encode_chars d H)].
  intros b Hb. apply is_b64_char_cases in Hb. lia.
Qed.

(* ================================================================ the escape as a whole *)
Lemma has_esc_false l : Forall (fun b => b <> 27) l -> has_esc l = false.
Proof. induction 1 as [|b l Hb _ IH]; [reflexivity|]. cbn [has_esc]. rewrite IH. destruct (b =? 27) eqn:E; [lia|reflexivity]. Qed.

Lemma parse_escape_frame body : parse_escape (27 :: 95 :: 71 :: body ++ [27; 92]) = parse_body body.
Proof.
  cbn [parse_escape]. cbv zeta. rewrite app_length. cbn [length].
  replace (Nat.leb 2 (length body + 2)) with true by (symmetry; apply Nat.leb_le; lia).
  replace (length body + 2 - 2)%nat with (length body + 0)%nat by lia.
  rewrite skipn_app, firstn_app. rewrite Nat.add_0_r, skipn_all, firstn_all, Nat.sub_diag. cbn [skipn firstn app].
  rewrite app_nil_r. reflexivity.
Qed.

Theorem parse_body_content its payload :
  Forall item_ok its -> NoDup (map fst its) ->
  match payload with Some d => bytes_ok d | None => True end ->
  parse_body (join 44 (map ser_item its) ++ match payload with Some d => 59 :: b64encode d | None => [] end)
  = Some (kv its, payload).
Proof.
  intros Hok Hnd Hp. pose proof (header_clean its Hok) as Hc.
  unfold parse_body.
  rewrite has_esc_false.
  2:{ apply Forall_app. split; [eapply Forall_impl; [|exact Hc]; intros b [_ Hb]; exact Hb|].
      destruct payload as [d|]; [|constructor]. constructor; [lia|].
      eapply Forall_impl; [|apply (b64_clean d Hp)]. intros b [Hb _]; exact Hb. }
  rewrite sp_split1_eq.
  assert (Hns : Forall (fun b => b <> 59) (join 44 (map ser_item its))) by (eapply Forall_impl; [|exact Hc]; intros b [Hb _]; exact Hb).
  destruct (split_first_spec 59 _ (match payload with Some d => b64encode d | None => [] end) Hns) as [S1 S2].
  destruct payload as [d|].
  - rewrite S1. rewrite (parse_control_header its Hok Hnd). rewrite (sp_b64_encode d Hp). reflexivity.
  - rewrite app_nil_r, S2. rewrite (parse_control_header its Hok Hnd). reflexivity.
Qed.

(* ================================================================ the concrete tables (source-derived) *)
Fixpoint nodupb (l : list N) : bool :=
  match l with [] => true | x :: r => negb (existsb (N.eqb x) r) && nodupb r end.
Lemma nodupb_sound l : nodupb l = true -> NoDup l.
Proof.
  induction l as [|x r IH]; intro H; [constructor|]. cbn [nodupb] in H. apply andb_true_iff in H. destruct H as [H1 H2].
  constructor; [|exact (IH H2)]. intro Hin. apply negb_true_iff in H1.
  assert (existsb (N.eqb x) r = true) by (apply existsb_exists; exists x; split; [exact Hin|apply N.eqb_refl]). congruence.
Qed.

(* These four facts are about the CURRENT source (Gen/CommandGen.v): if a key letter is changed so that
   two fields of one command share a letter, or a key stops being a letter, they fail to check. *)
Lemma src_transmit_keys_nodup : NoDup (map fst transmit_keys ++ map fst placement_keys).
Proof. apply nodupb_sound. vm_compute. reflexivity. Qed.
Lemma src_put_keys_nodup : NoDup (map fst put_keys ++ map fst placement_keys).
Proof. apply nodupb_sound. vm_compute. reflexivity. Qed.
Lemma src_more_keys_nodup : NoDup (map fst more_keys).
Proof. apply nodupb_sound. vm_compute. reflexivity. Qed.
Lemma src_delete_keys_nodup : NoDup (map fst delete_keys).
Proof. apply nodupb_sound. vm_compute. reflexivity. Qed.
Lemma src_keys_letters :
  forallb is_letter (map fst transmit_keys ++ map fst placement_keys ++ map fst put_keys ++ map fst more_keys ++ map fst delete_keys) = true.
Proof. vm_compute. reflexivity. Qed.

Lemma nodup_app_l {A} (a b : list A) : NoDup (a ++ b) -> NoDup a.
Proof. induction a as [|x a IH]; intro H; [constructor|]. cbn [app] in H. apply NoDup_cons_iff in H. destruct H as [H1 H2].
  constructor; [intro Hi; apply H1; apply in_or_app; left; exact Hi|exact (IH H2)]. Qed.
Lemma nodup_app_r {A} (a b : list A) : NoDup (a ++ b) -> NoDup b.
Proof. induction a as [|x a IH]; intro H; [exact H|]. cbn [app] in H. apply NoDup_cons_iff in H. exact (IH (proj2 H)). Qed.
Lemma nodup_app_sub {A} (a b a' b' : list A) :
  NoDup (a ++ b) -> NoDup a' -> NoDup b' -> (forall x, In x a' -> In x a) -> (forall x, In x b' -> In x b) -> NoDup (a' ++ b').
Proof.
  intros H Ha' Hb' Sa Sb. induction a' as [|x a' IH]; [exact Hb'|].
  cbn [app]. apply NoDup_cons_iff in Ha'. destruct Ha' as [Hx Ha']. constructor.
  - intro Hin. apply in_app_or in Hin. destruct Hin as [Hin|Hin]; [exact (Hx Hin)|].
    assert (Hxa : In x a) by (apply Sa; left; reflexivity). assert (Hxb : In x b) by (apply Sb; exact Hin).
    clear - H Hxa Hxb. induction a as [|y a IH]; [destruct Hxa|]. cbn [app] in H. apply NoDup_cons_iff in H. destruct H as [H1 H2].
    destruct Hxa as [->|Hxa]; [apply H1; apply in_or_app; right; exact Hxb|exact (IH H2 Hxa)].
  - apply IH; [exact Ha'|]. intros y Hy. apply Sa. right. exact Hy.
Qed.

(* ================================================================ values of every field are letters/digits *)
Lemma val_ok_bool (b : bool) : val_ok (HInt (if b then 1 else 0)).  Proof. apply val_ok_int. Qed.

Lemma placement_field_ok p f v : placement_field p f = Some v -> val_ok v.
Proof.
  destruct f; cbn [placement_field]; unfold hv_int, hv_bool, hv_bytes, option_map;
  match goal with |- context [match ?o with _ => _ end] => destruct o end; intro H; inversion H; subst;
  first [apply val_ok_int | apply val_ok_bool].
Qed.

Lemma quietness_value_ok q : val_ok (quietness_value q).  Proof. destruct q; apply val_ok_int. Qed.
Lemma format_value_ok q : val_ok (format_value q).  Proof. destruct q; apply val_ok_int. Qed.
Lemma medium_value_ok q : val_ok (medium_value q).  Proof. destruct q; apply val_ok_letter; reflexivity. Qed.
Lemma compression_value_ok q : val_ok (compression_value q).  Proof. destruct q; apply val_ok_letter; reflexivity. Qed.
Lemma what_value_ok q : val_ok (what_delete_value q) /\ val_ok (upper_hval (what_delete_value q)).
Proof. destruct q; split; apply val_ok_letter; reflexivity. Qed.

Lemma transmit_field_ok c f v : transmit_field c f = Some v -> val_ok v.
Proof.
  destruct f; cbn [transmit_field]; unfold hv_int, hv_bool, hv_bytes, option_map.
  all: try (match goal with |- context [match ?o with _ => _ end] => destruct o end; intro H; inversion H; subst;
            first [apply val_ok_int | apply val_ok_bool | apply quietness_value_ok | apply format_value_ok
                  | apply medium_value_ok | apply compression_value_ok]).
  unfold transmit_action. destruct (t_omit_action c); [discriminate|].
  destruct (t_query c) as [[|]|]; [|destruct (t_placement c)|destruct (t_placement c)]; intro H; inversion H; subst;
  apply val_ok_letter; reflexivity.
Qed.

Lemma more_field_ok c f v : more_field c f = Some v -> val_ok v.
Proof.
  destruct f; cbn [more_field]; unfold hv_int, hv_bool, hv_bytes, option_map;
  match goal with |- context [match ?o with _ => _ end] => destruct o end; intro H; inversion H; subst;
  first [apply val_ok_int | apply val_ok_bool].
Qed.

Lemma put_field_ok c f v : put_field c f = Some v -> val_ok v.
Proof.
  destruct f; cbn [put_field]; unfold hv_int, hv_bool, hv_bytes, option_map.
  - intro H; inversion H; subst. apply val_ok_letter; reflexivity.
  - destruct (u_image_id c); intro H; inversion H; subst; apply val_ok_int.
  - destruct (u_image_number c); intro H; inversion H; subst; apply val_ok_int.
  - destruct (u_quiet c); intro H; inversion H; subst; apply quietness_value_ok.
Qed.

Lemma delete_field_ok c f v : delete_field c f = Some v -> val_ok v.
Proof.
  destruct f; cbn [delete_field]; unfold hv_int, hv_bool, hv_bytes, option_map.
  - intro H; inversion H; subst. apply val_ok_letter; reflexivity.
  - destruct (d_image_id c); intro H; inversion H; subst; apply val_ok_int.
  - destruct (d_image_number c); intro H; inversion H; subst; apply val_ok_int.
  - destruct (d_placement_id c); intro H; inversion H; subst; apply val_ok_int.
  - destruct (d_quiet c); intro H; inversion H; subst; apply quietness_value_ok.
  - unfold delete_what. destruct (d_what c) as [w|]; [|discriminate]. intro H; inversion H; subst.
    destruct (what_value_ok w) as [H1 H2]. destruct (d_delete_data c) as [[|]|]; assumption.
Qed.

Lemma items_ok {F} (get : F -> option hval) tbl :
  forallb is_letter (map fst tbl) = true -> (forall f v, get f = Some v -> val_ok v) -> Forall item_ok (items get tbl).
Proof.
  intros Hl Hv. induction tbl as [|[k f] tbl IH]; [constructor|]. rewrite items_cons. cbn [fst snd].
  cbn [map forallb fst] in Hl. apply andb_true_iff in Hl. destruct Hl as [Hk Hl].
  destruct (get f) as [v|] eqn:E; [|exact (IH Hl)]. constructor; [|exact (IH Hl)].
  split; [exact Hk|exact (Hv f v E)].
Qed.

Lemma letters_split : forallb is_letter (map fst transmit_keys) = true /\ forallb is_letter (map fst placement_keys) = true /\
  forallb is_letter (map fst put_keys) = true /\ forallb is_letter (map fst more_keys) = true /\ forallb is_letter (map fst delete_keys) = true.
Proof. pose proof src_keys_letters as H. rewrite !forallb_app in H. repeat (apply andb_true_iff in H; destruct H as [? H]). tauto. Qed.

Theorem header_items_ok c : Forall item_ok (header_tuple c).
Proof.
  destruct letters_split as (Lt & Lp & Lu & Lm & Ld).
  destruct c as [t|m|u|d]; cbn [header_tuple].
  - apply Forall_app. split; [apply items_ok; [exact Lt|apply transmit_field_ok]|].
    destruct (t_placement t) as [p|]; [apply items_ok; [exact Lp|apply placement_field_ok]|constructor].
  - apply items_ok; [exact Lm|apply more_field_ok].
  - apply Forall_app. split; [apply items_ok; [exact Lu|apply put_field_ok]|apply items_ok; [exact Lp|apply placement_field_ok]].
  - apply items_ok; [exact Ld|apply delete_field_ok].
Qed.

Theorem header_keys_nodup c : NoDup (map fst (header_tuple c)).
Proof.
  destruct c as [t|m|u|d]; cbn [header_tuple].
  - rewrite map_app. destruct (t_placement t) as [p|].
    + apply (nodup_app_sub _ _ _ _ src_transmit_keys_nodup).
      * apply items_nodup. exact (nodup_app_l _ _ src_transmit_keys_nodup).
      * apply items_nodup. exact (nodup_app_r _ _ src_transmit_keys_nodup).
      * intros x. apply items_keys_in.
      * intros x. apply items_keys_in.
    + cbn [map]. rewrite app_nil_r. apply items_nodup. exact (nodup_app_l _ _ src_transmit_keys_nodup).
  - apply items_nodup. exact src_more_keys_nodup.
  - rewrite map_app. apply (nodup_app_sub _ _ _ _ src_put_keys_nodup).
    + apply items_nodup. exact (nodup_app_l _ _ src_put_keys_nodup).
    + apply items_nodup. exact (nodup_app_r _ _ src_put_keys_nodup).
    + intros x. apply items_keys_in.
    + intros x. apply items_keys_in.
  - apply items_nodup. exact src_delete_keys_nodup.
Qed.

(* ================================================================ every key carries the protocol's value *)
Arguments dec : simpl never.
Arguments sp_dec : simpl never.

Lemma num_field o : option_map ser_val (hv_int o) = e_num o.
Proof. destruct o as [n|]; [|reflexivity]. cbn. rewrite sp_dec_eq. reflexivity. Qed.
Lemma bool_field o : option_map ser_val (hv_bool o) = e_bool o.
Proof. destruct o as [[|]|]; reflexivity. Qed.
Lemma quiet_field o : option_map ser_val (option_map quietness_value o) = e_quiet o.
Proof. destruct o as [[| |]|]; reflexivity. Qed.
Lemma medium_field o : option_map ser_val (option_map medium_value o) = e_medium o.
Proof. destruct o as [[| | |]|]; reflexivity. Qed.
Lemma format_field o : option_map ser_val (option_map format_value o) = e_format o.
Proof. destruct o as [[| |]|]; reflexivity. Qed.
Lemma compression_field o : option_map ser_val (option_map compression_value o) = e_compression o.
Proof. destruct o as [[]|]; reflexivity. Qed.

Ltac key_case k n := destruct (k =? n) eqn:?; [assert (k = n) by lia; subst k|].

Lemma placement_expected p k :
  match find_key k placement_keys with Some f => option_map ser_val (placement_field p f) | None => None end
  = expected_placement p k.
Proof.
  unfold placement_keys, expected_placement. cbn [find_key].
  key_case k 112; [cbn [placement_field]; apply num_field|].
  key_case k 85; [cbn [placement_field]; apply bool_field|].
  key_case k 114; [cbn [placement_field]; apply num_field|].
  key_case k 99; [cbn [placement_field]; apply num_field|].
  key_case k 120; [cbn [placement_field]; apply num_field|].
  key_case k 121; [cbn [placement_field]; apply num_field|].
  key_case k 119; [cbn [placement_field]; apply num_field|].
  key_case k 104; [cbn [placement_field]; apply num_field|].
  key_case k 67; [cbn [placement_field]; apply bool_field|].
  reflexivity.
Qed.

Lemma placement_assoc p k : sp_assoc k (kv (placement_items p)) = expected_placement p k.
Proof.
  unfold placement_items. rewrite assoc_items by exact (nodup_app_r _ _ src_transmit_keys_nodup).
  apply placement_expected.
Qed.

Lemma placement_none p k : existsb (N.eqb k) [112; 85; 114; 99; 120; 121; 119; 104; 67] = false -> expected_placement p k = None.
Proof.
  cbn [existsb]. rewrite !orb_false_iff. intros (H1 & H2 & H3 & H4 & H5 & H6 & H7 & H8 & H9 & _).
  unfold expected_placement. rewrite H1, H2, H3, H4, H5, H6, H7, H8, H9. reflexivity.
Qed.
Lemma placement_opt_none (o : option placement) k : existsb (N.eqb k) [112; 85; 114; 99; 120; 121; 119; 104; 67] = false ->
  match o with Some p => expected_placement p k | None => None end = None.
Proof. intro H. destruct o; [apply placement_none; exact H|reflexivity]. Qed.

Lemma action_field c : option_map ser_val (hv_bytes (transmit_action c)) =
  if t_omit_action c then None
  else Some (match t_query c with Some true => [113] | _ => match t_placement c with Some _ => [84] | None => [116] end end).
Proof.
  unfold transmit_action. destruct (t_omit_action c); [reflexivity|].
  destruct (t_query c) as [[|]|]; [reflexivity| |]; destruct (t_placement c); reflexivity.
Qed.

Theorem transmit_expected c k : sp_assoc k (kv (header_tuple (CTransmit c))) = expected_transmit c k.
Proof.
  cbn [header_tuple]. rewrite assoc_app.
  rewrite assoc_items by exact (nodup_app_l _ _ src_transmit_keys_nodup).
  replace (sp_assoc k (kv match t_placement c with Some p => placement_items p | None => [] end))
    with (match t_placement c with Some p => expected_placement p k | None => None end)
    by (destruct (t_placement c); [symmetry; apply placement_assoc|reflexivity]).
  unfold transmit_keys, expected_transmit. cbn [find_key].
  key_case k 105; [cbn [transmit_field]; rewrite num_field; destruct (e_num (t_image_id c)); [reflexivity|first [apply placement_opt_none | apply placement_none]; reflexivity]|].
  key_case k 73; [cbn [transmit_field]; rewrite num_field; destruct (e_num (t_image_number c)); [reflexivity|first [apply placement_opt_none | apply placement_none]; reflexivity]|].
  key_case k 116; [cbn [transmit_field]; rewrite medium_field; destruct (e_medium (t_medium c)); [reflexivity|first [apply placement_opt_none | apply placement_none]; reflexivity]|].
  key_case k 83; [cbn [transmit_field]; rewrite num_field; destruct (e_num (t_size c)); [reflexivity|first [apply placement_opt_none | apply placement_none]; reflexivity]|].
  key_case k 79; [cbn [transmit_field]; rewrite num_field; destruct (e_num (t_offset c)); [reflexivity|first [apply placement_opt_none | apply placement_none]; reflexivity]|].
  key_case k 113; [cbn [transmit_field]; rewrite quiet_field; destruct (e_quiet (t_quiet c)); [reflexivity|first [apply placement_opt_none | apply placement_none]; reflexivity]|].
  key_case k 109; [cbn [transmit_field]; rewrite bool_field; destruct (e_bool (t_more c)); [reflexivity|first [apply placement_opt_none | apply placement_none]; reflexivity]|].
  key_case k 102; [cbn [transmit_field]; rewrite format_field; destruct (e_format (t_format c)); [reflexivity|first [apply placement_opt_none | apply placement_none]; reflexivity]|].
  key_case k 111; [cbn [transmit_field]; rewrite compression_field; destruct (e_compression (t_compression c)); [reflexivity|first [apply placement_opt_none | apply placement_none]; reflexivity]|].
  key_case k 115; [cbn [transmit_field]; rewrite num_field; destruct (e_num (t_pix_width c)); [reflexivity|first [apply placement_opt_none | apply placement_none]; reflexivity]|].
  key_case k 118; [cbn [transmit_field]; rewrite num_field; destruct (e_num (t_pix_height c)); [reflexivity|first [apply placement_opt_none | apply placement_none]; reflexivity]|].
  key_case k 97.
  { cbn [transmit_field]. rewrite action_field. destruct (t_omit_action c); [first [apply placement_opt_none | apply placement_none]; reflexivity|reflexivity]. }
  reflexivity.
Qed.

Theorem more_expected c k : sp_assoc k (kv (header_tuple (CMore c))) = expected_more c k.
Proof.
  cbn [header_tuple]. rewrite assoc_items by exact src_more_keys_nodup.
  unfold more_keys, expected_more. cbn [find_key].
  key_case k 105; [cbn [more_field]; apply num_field|].
  key_case k 73; [cbn [more_field]; apply num_field|].
  key_case k 109; [cbn [more_field]; apply bool_field|].
  reflexivity.
Qed.

Theorem put_expected c k : sp_assoc k (kv (header_tuple (CPut c))) = expected_put c k.
Proof.
  cbn [header_tuple]. rewrite assoc_app.
  rewrite assoc_items by exact (nodup_app_l _ _ src_put_keys_nodup).
  rewrite placement_assoc.
  unfold put_keys, expected_put. cbn [find_key].
  key_case k 97; [reflexivity|].
  key_case k 105; [cbn [put_field]; rewrite num_field; destruct (e_num (u_image_id c)); [reflexivity|first [apply placement_opt_none | apply placement_none]; reflexivity]|].
  key_case k 73; [cbn [put_field]; rewrite num_field; destruct (e_num (u_image_number c)); [reflexivity|first [apply placement_opt_none | apply placement_none]; reflexivity]|].
  key_case k 113; [cbn [put_field]; rewrite quiet_field; destruct (e_quiet (u_quiet c)); [reflexivity|first [apply placement_opt_none | apply placement_none]; reflexivity]|].
  reflexivity.
Qed.

Lemma what_field c : option_map ser_val (delete_what c) =
  option_map (fun w => [match d_delete_data c with Some true => delete_letter w - 32 | _ => delete_letter w end]) (d_what c).
Proof.
  unfold delete_what. destruct (d_what c) as [w|]; [|reflexivity].
  destruct (d_delete_data c) as [[|]|]; destruct w; reflexivity.
Qed.

Theorem delete_expected c k : sp_assoc k (kv (header_tuple (CDelete c))) = expected_delete c k.
Proof.
  cbn [header_tuple]. rewrite assoc_items by exact src_delete_keys_nodup.
  unfold delete_keys, expected_delete. cbn [find_key].
  key_case k 97; [reflexivity|].
  key_case k 105; [cbn [delete_field]; apply num_field|].
  key_case k 73; [cbn [delete_field]; apply num_field|].
  key_case k 112; [cbn [delete_field]; apply num_field|].
  key_case k 113; [cbn [delete_field]; apply quiet_field|].
  key_case k 100; [cbn [delete_field]; apply what_field|].
  reflexivity.
Qed.

Theorem fields_expected c k : sp_assoc k (kv (header_tuple c)) = expected_fields c k.
Proof. destruct c; [apply transmit_expected|apply more_expected|apply put_expected|apply delete_expected]. Qed.

(* ================================================================ main theorem *)
Definition payload_ok (c : command) : Prop :=
  match raw_payload c with Some d => bytes_ok d | None => True end.

Lemma raw_payload_expected c : raw_payload c = expected_payload c.
Proof. destruct c; reflexivity. Qed.

Lemma default_template_shape : default_template = [27; 95; 71] ++ [37; 98] ++ [27; 92].
Proof. reflexivity. Qed.

Lemma content_shape c : content_bytes c =
  join 44 (map ser_item (header_tuple c)) ++ match raw_payload c with Some d => 59 :: b64encode d | None => [] end.
Proof. unfold content_bytes, header_bytes. destruct (raw_payload c); [reflexivity|rewrite app_nil_r; reflexivity]. Qed.

Theorem command_roundtrip c : payload_ok c ->
  exists esc kvs,
    to_bytes default_template c = Some esc /\
    esc = [27; 95; 71] ++ content_bytes c ++ [27; 92] /\
    parse_escape esc = Some (kvs, expected_payload c) /\
    NoDup (map fst kvs) /\
    (forall k, sp_assoc k kvs = expected_fields c k).
Proof.
  intro Hp. exists ([27; 95; 71] ++ content_bytes c ++ [27; 92]), (kv (header_tuple c)).
  split; [unfold to_bytes; rewrite default_template_shape; apply pyfmt_split; reflexivity|].
  split; [reflexivity|]. split.
  - cbn [app]. rewrite parse_escape_frame, content_shape.
    replace (expected_payload c) with (raw_payload c) by apply raw_payload_expected.
    apply parse_body_content; [apply header_items_ok|apply header_keys_nodup|exact Hp].
  - split; [|apply fields_expected].
    unfold kv. rewrite map_map. cbn [fst]. apply header_keys_nodup.
Qed.

(* the executable oracle accepts every emitted escape *)
Lemma bytes_eqb_refl l : bytes_eqb l l = true.
Proof. induction l as [|x l IH]; [reflexivity|]. cbn [bytes_eqb]. rewrite N.eqb_refl. exact IH. Qed.
Lemma opt_bytes_eqb_refl o : opt_bytes_eqb o o = true.
Proof. destruct o; [apply bytes_eqb_refl|reflexivity]. Qed.

Theorem command_conforms c : payload_ok c ->
  exists esc, to_bytes default_template c = Some esc /\ conforms c esc = true.
Proof.
  intro Hp. destruct (command_roundtrip c Hp) as (esc & kvs & H1 & H2 & H3 & H4 & H5).
  exists esc. split; [exact H1|]. unfold conforms. rewrite H3.
  apply andb_true_iff. split; [apply andb_true_iff; split|apply opt_bytes_eqb_refl].
  - apply forallb_forall. intros k _. rewrite H5. apply opt_bytes_eqb_refl.
  - (* keys are letters: kvs is the kv of the header tuple *)
    assert (kvs = kv (header_tuple c)).
    { subst esc. cbn [app] in H3. rewrite parse_escape_frame, content_shape in H3.
      replace (expected_payload c) with (raw_payload c) in H3 by apply raw_payload_expected.
      rewrite parse_body_content in H3; [congruence|apply header_items_ok|apply header_keys_nodup|exact Hp]. }
    subst kvs. apply forallb_forall. intros [k v] Hin. cbn [fst]. unfold kv in Hin. apply in_map_iff in Hin.
    destruct Hin as ([k' v'] & Heq & Hin). inversion Heq; subst. pose proof (header_items_ok c) as Hok.
    rewrite Forall_forall in Hok. destruct (Hok _ Hin) as [Hk _]. exact Hk.
Qed.

(* contents never contain ESC: the hypothesis of the C11 theorems holds for every command *)
Theorem content_no_esc c : payload_ok c -> has_byte 27 (content_bytes c) = false.
Proof.
  intro Hp. rewrite content_shape.
  assert (F : Forall (fun b => b <> 27) (join 44 (map ser_item (header_tuple c)) ++
               match raw_payload c with Some d => 59 :: b64encode d | None => [] end)).
  { apply Forall_app. split.
    - eapply Forall_impl; [|apply (header_clean _ (header_items_ok c))]. intros b [_ Hb]; exact Hb.
    - unfold payload_ok in Hp. destruct (raw_payload c) as [d|]; [|constructor]. constructor; [lia|].
      eapply Forall_impl; [|apply (b64_clean d Hp)]. intros b [Hb _]; exact Hb. }
  revert F. generalize (join 44 (map ser_item (header_tuple c)) ++ match raw_payload c with Some d => 59 :: b64encode d | None => [] end).
  induction 1 as [|b l Hb _ IH]; [reflexivity|]. cbn [has_byte]. rewrite IH. destruct (b =? 27) eqn:E; [lia|reflexivity].
Qed.
