(* Proofs/IdSpaceTrSplit.v — IDSubspace.split as TRANSLATED from the source (a loop over range(start, stop, size)
   appending constructed subspaces, then replacing the first one) equals Model/IdSpace.split. *)
From Coq Require Import ZArith NArith List Bool Lia ZifyN ZifyBool ZifyNat.
From Tup Require Import Lib.IdSpaceTy Lib.PySem Gen.IdSpaceGen Gen.IdSpaceTr Spec.IdLayoutSpec Model.IdSpace
  Proofs.IdSplitFacts Proofs.IdSpaceTrEq.
Import ListNotations.
Open Scope Z_scope.

Definition res_of_split (r : split_result) ds : res (list (Z * Z)) :=
  match r with SplitOk parts => Ok (map zsub parts) ds | SplitValueError => Exc | SplitIndexError => Exc end.

(* the loop: appending IDSubspace(b, b + size) for b in range_step is mk_subspaces *)
Lemma loop_is_mk_subspaces (body : Z -> list (Z * Z) -> M (list (Z * Z))) size :
  (forall b acc ds, body b acc ds =
     PySem.bind (tr_IDSubspace_new b (b + size)) (fun t => PySem.ret (acc ++ [t])) ds) ->
  forall fuel i stop acc ds,
  for_range_up fuel i stop size body acc ds =
  match mk_subspaces (range_step fuel i stop size) size with
  | Some l => Ok (acc ++ map zsub l) ds
  | None => Exc
  end.
Proof.
  intros Hb. induction fuel as [|f IH]; intros i stop acc ds; cbn [for_range_up range_step mk_subspaces].
  - unfold PySem.ret. now rewrite app_nil_r.
  - destruct (i <? stop) eqn:E.
    + cbn [mk_subspaces]. unfold PySem.bind at 1. rewrite Hb. unfold PySem.bind at 1. rewrite tr_sub_new_eq.
      destruct (mk_subspace i (i + size)) as [s0|]; [|reflexivity].
      unfold PySem.ret at 1. rewrite IH.
      destruct (mk_subspaces (range_step f (i + size) stop size) size) as [l|]; [|reflexivity].
      cbn [map]. now rewrite <- app_assoc.
    + cbn [mk_subspaces map]. unfold PySem.ret. now rewrite app_nil_r.
Qed.

Theorem tr_split_eq s (k : Z) ds : valid_subspace s = true ->
  tr_IDSubspace_split (zsub s) k ds = res_of_split (split s k) ds.
Proof.
  intros V. pose proof (valid_sub_facts s V) as F.
  pose proof (tr_num_nonzero_byte_values_eq s) as Hnz. pose proof (tr_num_byte_values_eq s) as Hn.
  unfold tr_IDSubspace_split, split.
  (* the guards and the calls of num_nonzero_byte_values / num_byte_values, in whatever order and however often the source
     makes them (a rewrite may hoist them into a local) *)
  repeat first
    [ progress cbv zeta
    | progress (unfold PySem.bind at 1; rewrite Hnz by exact V)
    | progress (unfold PySem.bind at 1; rewrite Hn by exact V)
    | match goal with |- (if ?c then _ else _) ?d = _ => destruct c eqn:?; [reflexivity|] end ].
  unfold py_floordiv.
  set (size := Z.of_N (num_nonzero_byte_values s) / k).
  set (rem := Z.of_N (num_byte_values s) - size * k).
  unfold PySem.bind at 1. unfold py_for_range.
  destruct s as [b e]. cbn [zsub sub_begin sub_end fst snd] in *.
  destruct (size =? 0) eqn:S0; [reflexivity|].
  assert (Hsz : 0 < size) by (subst size; apply Z.eqb_neq in S0; pose proof (Z.div_pos (Z.of_N (num_nonzero_byte_values (b, e))) k); lia).
  destruct (0 <? size) eqn:S1; [|lia].
  rewrite (loop_is_mk_subspaces _ size); [|intros; reflexivity].
  destruct (mk_subspaces _ size) as [l|]; [|reflexivity].
  cbn [app]. destruct l as [|s0 rest]; cbn [map].
  - reflexivity.
  - unfold PySem.bind at 1. unfold py_getitem. cbn [Z.to_nat nth_error].
    unfold PySem.bind at 1. rewrite tr_sub_new_eq.
    destruct s0 as [b0 e0]. cbn [zsub sub_begin sub_end fst snd].
    destruct (mk_subspace (Z.of_N b) (Z.of_N e0)) as [s0'|]; [|reflexivity].
    unfold PySem.bind at 1. unfold py_setitem. cbn [Z.to_nat set_nth]. reflexivity.
Qed.
