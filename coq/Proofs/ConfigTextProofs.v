(* Proofs/ConfigTextProofs.v — C17 clause 2: the same text from a file (TOML scalar) and from the
   environment (string) is accepted or rejected alike, with the same result. *)
From Coq Require Import ZArith NArith List Bool Lia ZifyN ZifyBool ZifyNat.
From Tup Require Import Lib.ByteStr Lib.ByteStrFacts Lib.CfgTypes Gen.ConfigGen Model.ConfigModel Spec.ConfigSpec.
Import ListNotations.
Open Scope N_scope.

(* ------------------------------------------------------------------ the string block as a function of its ten conditions *)
Definition conds (name : list N) (t : ty) : list bool :=
  [ is_tsub t; is_tspace t; beq_bytes name n_cell_size || beq_bytes name n_default_cell_size;
    beq_bytes name n_id_database_dir; beq_bytes name n_upload_method;
    mem_str name int_conv_names || is_tint t; mem_str name float_conv_names || is_tfloat t;
    is_tbool t; beq_bytes name n_supported_formats; beq_bytes name n_background ].
Definition cnd (bs : list bool) (k : nat) : bool := nth k bs false.
Definition conv_chain (pl : platform) (bs : list bool) (s : list N) : option value :=
  let c := Some (VStr s) in
  let c := step (cnd bs 0) sub_from_string c in
  let c := step (cnd bs 1) space_from_string c in
  let c := step (cnd bs 2) validate_size c in
  let c := step (cnd bs 3) (fun s => if beq_bytes s [] then Some (VStr (state_dir pl)) else Some (VStr s)) c in
  let c := step (cnd bs 4) medium_from_string c in
  let c := step (cnd bs 5) (fun s => match py_int s with Some z => Some (VInt z) | None => None end) c in
  let c := step (cnd bs 6) (fun s => match py_float s with Some f => Some (vfloat f) | None => None end) c in
  let c := step (cnd bs 7) (fun s => match parse_bool s with Some b => Some (VBool b) | None => None end) c in
  let c := step (cnd bs 8) (fun s => Some (VList (map VStr (re_split s)))) c in
  let c := step (cnd bs 9) (fun s => match py_int s with Some z => Some (VInt z) | None => Some (VStr s) end) c in
  c.
Lemma convert_str pl name t s : beq_bytes s s_auto = false ->
  convert pl name t (VStr s) = conv_chain pl (conds name t) s.
Proof. intro H. cbn [convert]. rewrite H. reflexivity. Qed.

(* ------------------------------------------------------------------ facts about the shared number lexer *)
Lemma scan_number_int_like t n : scan_number t = Some n -> n_frac n = None -> n_exp n = None ->
  scan_digits (snd (scan_sign t)) = Some (n_int n, []) /\ fst (scan_sign t) = n_neg n.
Proof.
  unfold scan_number. destruct (scan_sign t) as [neg t1]. cbn [fst snd].
  destruct (scan_digits t1) as [[ds r]|] eqn:Ed.
  - destruct r as [|c r'].
    + cbn. destruct ds; cbn; intros [= <-]; cbn; intros _ _; split; reflexivity.
    + destruct (c =? 46) eqn:E46.
      * destruct (scan_digits r') as [[fd r'']|]; cbn [negb];
          repeat match goal with |- context [match ?x with _ => _ end] => destruct x end;
          try discriminate; intros [= <-]; cbn; discriminate.
      * cbn [negb]. destruct ds; cbn [negb]; try discriminate.
        destruct ((c =? 101) || (c =? 69)); [|discriminate].
        destruct (scan_sign r') as [en r1]. destruct (scan_digits r1) as [[eds [|]]|]; try discriminate.
        intros [= <-]; cbn; discriminate.
  - destruct t1 as [|c r].
    + cbn. discriminate.
    + destruct (c =? 46).
      * destruct (scan_digits r) as [[fd r'']|]; cbn [negb];
          repeat match goal with |- context [match ?x with _ => _ end] => destruct x end;
          try discriminate; intros [= <-]; cbn; discriminate.
      * cbn. discriminate.
Qed.

Lemma scan_number_not_int t n : scan_number t = Some n -> (n_frac n <> None \/ n_exp n <> None) ->
  scan_digits (snd (scan_sign t)) = None \/ exists ds c r, scan_digits (snd (scan_sign t)) = Some (ds, c :: r).
Proof.
  intros Hs Hne. destruct (scan_digits (snd (scan_sign t))) as [[ds r]|] eqn:Ed; [|left; reflexivity].
  destruct r as [|c r]; [|right; eauto].
  exfalso. revert Hs. unfold scan_number. destruct (scan_sign t) as [neg t1]. cbn [snd] in Ed. rewrite Ed.
  cbn. destruct ds; cbn; intros [= <-]; cbn in Hne; destruct Hne as [H|H]; apply H; reflexivity.
Qed.

Lemma py_int_of_scan t n : strip t = t -> scan_number t = Some n ->
  py_int t = match n_frac n, n_exp n with
             | None, None => Some (with_sign (n_neg n) (digits_val (n_int n)))
             | _, _ => None
             end.
Proof.
  intros Hst Hs. unfold py_int. rewrite Hst.
  destruct (n_frac n) eqn:Ef; [|destruct (n_exp n) eqn:Ee].
  - destruct (scan_number_not_int t n Hs) as [H|(ds & c & r & H)]; [left; congruence| |];
      destruct (scan_sign t); cbn [snd] in H; rewrite H; reflexivity.
  - destruct (scan_number_not_int t n Hs) as [H|(ds & c & r & H)]; [right; congruence| |];
      destruct (scan_sign t); cbn [snd] in H; rewrite H; reflexivity.
  - destruct (scan_number_int_like t n Hs Ef Ee) as [H1 H2].
    destruct (scan_sign t); cbn [fst snd] in *. rewrite H1, H2. reflexivity.
Qed.

Lemma py_float_of_scan t n : strip t = t -> scan_number t = Some n -> py_float t = Some (num_value n).
Proof. intros Hst Hs. unfold py_float. rewrite Hst, Hs. reflexivity. Qed.

Lemma num_value_int n : n_frac n = None -> n_exp n = None ->
  num_value n = normf (with_sign (n_neg n) (digits_val (n_int n))) 0.
Proof. intros Hf He. unfold num_value. rewrite Hf, He, app_nil_r. reflexivity. Qed.

(* the words _parse_bool knows start with a letter; a number does not *)
Lemma word_not_number t : mem_str (lower_ascii t) (bool_true_words ++ bool_false_words) = true -> scan_number t = None.
Proof.
  destruct t as [|c r]; [vm_compute; discriminate|].
  intro H.
  assert (Hc : c <> 45 /\ c <> 43 /\ c <> 46 /\ is_digit c = false).
  { unfold mem_str in H. cbn [lower_ascii map bool_true_words bool_false_words app existsb beq_bytes] in H.
    unfold is_digit. destruct ((65 <=? c) && (c <=? 90)) eqn:Eu; lia. }
  destruct Hc as (H45 & H43 & H46 & Hd).
  unfold scan_number, scan_sign.
  apply N.eqb_neq in H45, H43, H46. rewrite H45, H43. unfold scan_digits. rewrite Hd, H46. reflexivity.
Qed.

Lemma parse_bool_number t n : str_strip t = t -> scan_number t = Some n ->
  parse_bool t = match py_int t with
                 | Some z => if (z =? 0)%Z then Some false else if (z =? 1)%Z then Some true else None
                 | None => None
                 end.
Proof.
  intros Hst Hs. unfold parse_bool. rewrite Hst.
  destruct (mem_str (lower_ascii t) bool_true_words) eqn:E1.
  { rewrite word_not_number in Hs; [discriminate|]. unfold mem_str in *. rewrite existsb_app, E1. reflexivity. }
  destruct (mem_str (lower_ascii t) bool_false_words) eqn:E2.
  { rewrite word_not_number in Hs; [discriminate|]. unfold mem_str in *. rewrite existsb_app, E2. apply orb_true_r. }
  reflexivity.
Qed.

(* what toml_read can return *)
Lemma toml_read_cases t v : toml_read t = Some v ->
  (t = s_true /\ v = VBool true) \/ (t = s_false /\ v = VBool false) \/
  (exists n, scan_number t = Some n /\
     ((n_frac n = None /\ n_exp n = None /\ v = VInt (with_sign (n_neg n) (digits_val (n_int n)))) \/
      ((n_frac n <> None \/ n_exp n <> None) /\ v = vfloat (num_value n)))).
Proof.
  unfold toml_read. destruct (beq_bytes t s_true) eqn:E1.
  { apply beq_bytes_eq in E1. intros [= <-]. left. split; [exact E1|reflexivity]. }
  destruct (beq_bytes t s_false) eqn:E2.
  { apply beq_bytes_eq in E2. intros [= <-]. right. left. split; [exact E2|reflexivity]. }
  destruct (scan_number t) as [n|]; [|discriminate]. destruct (toml_strict n); [|discriminate].
  intro H. right. right. exists n. split; [reflexivity|].
  destruct (n_frac n) eqn:Ef; [|destruct (n_exp n) eqn:Ee].
  - right. injection H as <-. split; [left; discriminate|reflexivity].
  - right. injection H as <-. split; [right; discriminate|reflexivity].
  - left. injection H as <-. repeat split.
Qed.

Lemma toml_not_auto t v : toml_read t = Some v -> beq_bytes t s_auto = false.
Proof.
  intro H. destruct (beq_bytes t s_auto) eqn:E; [|reflexivity].
  apply beq_bytes_eq in E. subst t. vm_compute in H. discriminate.
Qed.

(* ------------------------------------------------------------------ per option *)
Ltac each_option H :=
  unfold options in H; cbn [In] in H;
  repeat (destruct H as [H|H]; [injection H as <- <- <-|]); [..|contradiction].

Ltac eval_conds :=
  match goal with
  | |- context [conv_chain ?pl (conds ?n ?t) ?s] =>
      let cs := fresh "cs" in set (cs := conds n t); vm_compute in cs; subst cs;
      cbv beta iota zeta delta [conv_chain cnd nth step]
  end.
Ltac eval_conds_in H :=
  match type of H with
  | context [conv_chain ?pl (conds ?n ?t) ?s] =>
      let cs := fresh "cs" in set (cs := conds n t) in H; vm_compute in cs; subst cs;
      cbv beta iota zeta delta [conv_chain cnd nth step] in H
  end.

(* forward: a typed TOML scalar that is accepted is accepted as the same text, same result *)
Lemma same_text_forward pl name t d text v r :
  In (name, t, d) options -> strip text = text -> str_strip text = text ->
  toml_read text = Some v ->
  normalize_core pl name t v = Ok r -> normalize_core pl name t (VStr text) = Ok r.
Proof.
  intros Hin Hst Hss TR HN.
  pose proof (toml_not_auto _ _ TR) as Hna.
  unfold normalize_core in *. rewrite (convert_str pl name t text Hna).
  apply toml_read_cases in TR.
  destruct TR as [[-> ->]|[[-> ->]|(n & Hs & [(Hf & He & ->)|(Hfe & ->)])]].
  - each_option Hin; vm_compute in HN |- *; first [discriminate HN | exact HN].
  - each_option Hin; vm_compute in HN |- *; first [discriminate HN | exact HN].
  - pose proof (py_int_of_scan text n Hst Hs) as Hi. rewrite Hf, He in Hi.
    pose proof (py_float_of_scan text n Hst Hs) as Hfl. rewrite (num_value_int n Hf He) in Hfl.
    pose proof (parse_bool_number text n Hss Hs) as Hb. rewrite Hi in Hb.
    set (z := with_sign (n_neg n) (digits_val (n_int n))) in *.
    each_option Hin; eval_conds; cbn [convert is_tfloat is_tbool andb] in HN;
      rewrite ?Hi, ?Hfl, ?Hb;
      first [ discriminate HN | exact HN
            | destruct (z =? 0)%Z eqn:E0; [apply Z.eqb_eq in E0; rewrite E0 in *; exact HN|];
              destruct (z =? 1)%Z eqn:E1; [apply Z.eqb_eq in E1; rewrite E1 in *; exact HN|];
              cbn in HN; discriminate HN ].
  - pose proof (py_float_of_scan text n Hst Hs) as Hfl.
    each_option Hin; eval_conds; cbn [convert vfloat] in HN; rewrite ?Hfl;
      first [ discriminate HN | exact HN ].
Qed.

(* backward, for the options whose file form is a bare TOML scalar: text accepted from the
   environment => the typed value a file hands over is accepted, same result *)
Lemma same_text_backward pl name t d text v r :
  In (name, t, d) options -> scalar_ty t = true -> strip text = text -> str_strip text = text ->
  toml_read text = Some v ->
  normalize_core pl name t (VStr text) = Ok r -> normalize_core pl name t v = Ok r.
Proof.
  intros Hin Hsc Hst Hss TR HN.
  pose proof (toml_not_auto _ _ TR) as Hna.
  unfold normalize_core in *. rewrite (convert_str pl name t text Hna) in HN.
  apply toml_read_cases in TR.
  destruct TR as [[-> ->]|[[-> ->]|(n & Hs & [(Hf & He & ->)|(Hfe & ->)])]].
  - each_option Hin; try discriminate Hsc; vm_compute in HN |- *; first [discriminate HN | exact HN].
  - each_option Hin; try discriminate Hsc; vm_compute in HN |- *; first [discriminate HN | exact HN].
  - pose proof (py_int_of_scan text n Hst Hs) as Hi. rewrite Hf, He in Hi.
    pose proof (py_float_of_scan text n Hst Hs) as Hfl. rewrite (num_value_int n Hf He) in Hfl.
    pose proof (parse_bool_number text n Hss Hs) as Hb. rewrite Hi in Hb.
    set (z := with_sign (n_neg n) (digits_val (n_int n))) in *.
    each_option Hin; try discriminate Hsc; eval_conds_in HN; cbn [convert is_tfloat is_tbool andb];
      rewrite ?Hi, ?Hfl, ?Hb in HN;
      first [ discriminate HN | exact HN
            | destruct (z =? 0)%Z eqn:E0; [apply Z.eqb_eq in E0; rewrite E0 in *; exact HN|];
              destruct (z =? 1)%Z eqn:E1; [apply Z.eqb_eq in E1; rewrite E1 in *; exact HN|];
              cbn in HN; discriminate HN ].
  - pose proof (py_float_of_scan text n Hst Hs) as Hfl.
    pose proof (py_int_of_scan text n Hst Hs) as Hi.
    assert (Hi' : py_int text = None).
    { rewrite Hi. destruct (n_frac n); [reflexivity|]. destruct (n_exp n); [reflexivity|]. destruct Hfe as [H|H]; elim H; reflexivity. }
    pose proof (parse_bool_number text n Hss Hs) as Hb. rewrite Hi' in Hb.
    each_option Hin; try discriminate Hsc; eval_conds_in HN; cbn [convert vfloat];
      rewrite ?Hfl, ?Hi', ?Hb in HN;
      first [ discriminate HN | exact HN ].
Qed.
