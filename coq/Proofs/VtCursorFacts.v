(* Proofs/VtCursorFacts.v — facts about Spec/VtCursorSpec.v: parser composition, CSI parameter lemma,
   well-formedness of the terminal state, "effect" combinators used by CursorTrackProofs.v *)
From Coq Require Import ZArith NArith List Bool Lia ZifyN ZifyBool ZifyNat.
From Tup Require Import Lib.ByteStr Lib.Dec Lib.DecFacts Spec.VtCursorSpec.
Import ListNotations.
Ltac Zify.zify_post_hook ::= Z.to_euclidean_division_equations.
Open Scope Z_scope.

(* ------------------------------------------------------------------ composition *)
Lemma parse_app s a b : vt_parse s (a ++ b) =
  let '(s1, e1) := vt_parse s a in let '(s2, e2) := vt_parse s1 b in (s2, e1 ++ e2).
Proof.
  revert s; induction a as [|x a IH]; intros s; cbn [app vt_parse].
  - destruct (vt_parse s b); reflexivity.
  - destruct (vt_step s x) as [s1 e1]. rewrite IH. destruct (vt_parse s1 a) as [s2 e2].
    destruct (vt_parse s2 b) as [s3 e3]. rewrite app_assoc. reflexivity.
Qed.

Lemma run_app t e1 e2 : vt_run t (e1 ++ e2) =
  let '(t1, r1) := vt_run t e1 in let '(t2, r2) := vt_run t1 e2 in (t2, r1 ++ r2).
Proof.
  revert t; induction e1 as [|e e1 IH]; intros t; cbn [app vt_run].
  - destruct (vt_run t e2); reflexivity.
  - destruct (vt_apply t e) as [t1 r1]. rewrite IH. destruct (vt_run t1 e1) as [t2 r2].
    destruct (vt_run t2 e2) as [t3 r3]. rewrite app_assoc. reflexivity.
Qed.

Lemma feed_app st a b : vt_feed st (a ++ b) =
  let '(st1, r1) := vt_feed st a in let '(st2, r2) := vt_feed st1 b in (st2, r1 ++ r2).
Proof.
  destruct st as [s t]. unfold vt_feed. cbn [fst snd]. rewrite parse_app.
  destruct (vt_parse s a) as [s1 e1]. destruct (vt_run t e1) as [t1 r1] eqn:E1. cbn [fst snd].
  destruct (vt_parse s1 b) as [s2 e2]. rewrite run_app, E1.
  destruct (vt_run t1 e2) as [t2 r2]. reflexivity.
Qed.

Lemma feed_nil st : vt_feed st [] = (st, []).
Proof. destruct st; reflexivity. Qed.

(* ------------------------------------------------------------------ decimal digits *)
Lemma digits_rev_digit fuel n : Forall (fun d => (d < 10)%N) (digits_rev fuel n).
Proof.
  revert n; induction fuel as [|f IH]; intros n; cbn [digits_rev]; [constructor|].
  destruct (n <? 10)%N eqn:E.
  - constructor; [lia|constructor].
  - constructor; [apply N.mod_lt; lia|apply IH].
Qed.
Definition is_digit (b : N) : bool := ((48 <=? b) && (b <=? 57))%N.
Lemma dec_is_digits n : Forall (fun b => is_digit b = true) (dec n).
Proof.
  unfold dec. apply Forall_forall. intros b Hb. apply in_map_iff in Hb as (d & <- & Hd).
  apply in_rev in Hd. pose proof (digits_rev_digit (S (N.to_nat (N.size n))) n) as H.
  rewrite Forall_forall in H. specialize (H d Hd). unfold is_digit. lia.
Qed.
Lemma dec_nonempty n : dec n <> [].
Proof.
  unfold dec. cbn [digits_rev]. destruct (n <? 10)%N; cbn [rev]; intros H;
  apply map_eq_nil in H; apply app_eq_nil in H; destruct H; discriminate.
Qed.
Definition acc_digits (cur : option N) (ds : list N) : option N :=
  fold_left (fun c b => Some (match c with Some c => c * 10 + (b - 48) | None => b - 48 end)%N) ds cur.
Lemma acc_none_dec n : acc_digits None (dec n) = Some n.
Proof.
  pose proof (undec_dec n) as H. unfold undec in H. unfold acc_digits.
  destruct (dec n) as [|b r] eqn:E; [exfalso; eapply dec_nonempty; eauto|].
  cbn [fold_left] in *. replace (0 * 10 + (b - 48))%N with (b - 48)%N in H by lia.
  revert H. generalize (b - 48)%N. clear. induction r as [|c r IH]; intros a H; cbn [fold_left] in *.
  - congruence.
  - apply IH. exact H.
Qed.

Lemma parse_digits ok done ds : Forall (fun b => is_digit b = true) ds -> forall cur,
  vt_parse (PCsi ok done cur) ds = (PCsi ok done (acc_digits cur ds), []).
Proof.
  induction 1 as [|b r Hb _ IH]; intros cur; [reflexivity|].
  cbn [vt_parse vt_step]. unfold is_digit in Hb. rewrite Hb. rewrite IH. reflexivity.
Qed.

(* CSI p1 ; p2 ; ... pn <final> *)
Fixpoint csi_params (ps : list N) : list N :=
  match ps with
  | [] => []
  | [p] => dec p
  | p :: r => dec p ++ [59%N] ++ csi_params r
  end.

Definition is_final (f : N) : bool := ((64 <=? f) && (f <? 127))%N.

Lemma step_csi_final ok done c f : is_final f = true ->
  vt_step (PCsi ok done (Some c)) f = (PGround, if ok then [EvCsi (done ++ [c]) f] else []).
Proof.
  intros Hf. unfold is_final in Hf. cbn [vt_step].
  destruct ((48 <=? f) && (f <=? 57))%N eqn:E1; [lia|].
  destruct (f =? 59)%N eqn:E2; [lia|]. destruct (f =? 27)%N eqn:E3; [lia|].
  destruct ((f =? 24) || (f =? 26))%N eqn:E4; [lia|]. destruct (f <? 32)%N eqn:E5; [lia|].
  destruct (f <? 64)%N eqn:E6; [lia|]. destruct (f <? 127)%N eqn:E7; [|lia]. reflexivity.
Qed.

Lemma parse_cons s b r : vt_parse s (b :: r) =
  let '(s1, e1) := vt_step s b in let '(s2, e2) := vt_parse s1 r in (s2, e1 ++ e2).
Proof. reflexivity. Qed.
Lemma step_csi_semi ok done c : vt_step (PCsi ok done (Some c)) 59 = (PCsi ok (done ++ [c]) None, []).
Proof. reflexivity. Qed.

Lemma parse_csi_tail ps : ps <> [] -> forall done f, is_final f = true ->
  vt_parse (PCsi true done None) (csi_params ps ++ [f]) = (PGround, [EvCsi (done ++ ps) f]).
Proof.
  induction ps as [|p r IH]; intros Hne done f Hf; [congruence|].
  destruct r as [|q r'].
  - cbn [csi_params]. rewrite parse_app, parse_digits by apply dec_is_digits. rewrite acc_none_dec.
    cbn [vt_parse]. rewrite step_csi_final by exact Hf. reflexivity.
  - change (csi_params (p :: q :: r')) with (dec p ++ 59%N :: csi_params (q :: r')).
    rewrite <- app_assoc. rewrite parse_app, parse_digits by apply dec_is_digits. rewrite acc_none_dec.
    rewrite <- app_comm_cons. rewrite parse_cons, step_csi_semi. cbv beta iota.
    rewrite IH by (congruence || exact Hf). cbn [app]. rewrite <- app_assoc. reflexivity.
Qed.

Lemma parse_csi ps f : ps <> [] -> is_final f = true ->
  vt_parse PGround ([27; 91]%N ++ csi_params ps ++ [f]) = (PGround, [EvCsi ps f]).
Proof.
  intros Hne Hf. cbn [app]. rewrite parse_cons. change (vt_step PGround 27) with (PEsc, @nil vev). cbv beta iota.
  rewrite parse_cons. change (vt_step PEsc 91) with (PCsi true [] None, @nil vev). cbv beta iota.
  rewrite parse_csi_tail by assumption. reflexivity.
Qed.

(* ------------------------------------------------------------------ state invariants *)
Definition wf (t : vt) : Prop :=
  1 <= vW t /\ 1 <= vH t /\ 0 <= vx t < vW t /\ 0 <= vy t < vH t /\
  0 <= vsx t < vW t /\ 0 <= vsy t < vH t /\ 0 <= vtop t /\ vtop t <= vbot t /\ vbot t < vH t.
Definition full (t : vt) : Prop := vtop t = 0 /\ vbot t = vH t - 1.
Definition same_size (t t' : vt) : Prop := vW t' = vW t /\ vH t' = vH t.
(* t' is again a sane state of the same screen, and margins that were reset stay reset *)
Definition good (t t' : vt) : Prop := wf t' /\ same_size t t' /\ (full t -> full t').

Ltac fields := cbn [vW vH vx vy vpend vsx vsy vspend vtop vbot] in *.
Ltac splitifs := repeat match goal with
  | |- context [if ?c then _ else _] => destruct c eqn:?
  | H : context [if ?c then _ else _] |- _ => destruct c eqn:?
  end.
Ltac crush := unfold good, wf, full, same_size in *; fields; splitifs; fields; lia.

Lemma good_refl t : wf t -> good t t. Proof. intros; crush. Qed.
Lemma good_trans t1 t2 t3 : good t1 t2 -> good t2 t3 -> good t1 t3.
Proof.
  unfold good, same_size. intros (A & (B1 & B2) & C) (D & (E1 & E2) & F).
  split; [exact D|]. split; [split; congruence|]. intro Hf. apply F, C, Hf.
Qed.

Lemma goto_good t x y : wf t -> good t (vt_goto t x y). Proof. intros; unfold vt_goto; crush. Qed.
Lemma set_pend_good t : wf t -> good t (vt_set_pend t). Proof. intros; unfold vt_set_pend; crush. Qed.
Lemma index_good t : wf t -> good t (vt_index t). Proof. intros; unfold vt_index, vt_goto; crush. Qed.
Lemma rindex_good t : wf t -> good t (vt_rindex t). Proof. intros; unfold vt_rindex, vt_goto; crush. Qed.
Lemma up_good t n : wf t -> good t (vt_up t n). Proof. intros; unfold vt_up, vt_goto; crush. Qed.
Lemma down_good t n : wf t -> good t (vt_down t n). Proof. intros; unfold vt_down, vt_goto; crush. Qed.
Lemma right_good t n : wf t -> good t (vt_right t n). Proof. intros; unfold vt_right, vt_goto; crush. Qed.
Lemma left_good t n : wf t -> good t (vt_left t n). Proof. intros; unfold vt_left, vt_goto; crush. Qed.
Lemma cr_good t : wf t -> good t (vt_cr t). Proof. intros; unfold vt_cr, vt_goto; crush. Qed.
Lemma save_good t : wf t -> good t (vt_save t). Proof. intros; unfold vt_save; crush. Qed.
Lemma restore_good t : wf t -> good t (vt_restore t). Proof. intros; unfold vt_restore; crush. Qed.
Lemma blank_good t : wf t -> good t (vt_blank (vW t) (vH t)). Proof. intros; unfold vt_blank; crush. Qed.
Lemma tab_good t : wf t -> good t (vt_tab t). Proof. intros; unfold vt_tab, vt_goto; crush. Qed.
Lemma wrap_good t : wf t -> good t (vt_wrap t).
Proof.
  intros H. unfold vt_wrap. destruct (vpend t); [|apply good_refl; exact H].
  eapply good_trans; [apply index_good; exact H|]. apply cr_good. apply index_good. exact H.
Qed.
Lemma print1_good t : wf t -> good t (vt_print1 t).
Proof.
  intros H. unfold vt_print1. pose proof (wrap_good t H) as G.
  destruct (vx (vt_wrap t) =? vW (vt_wrap t) - 1).
  - eapply good_trans; [exact G|]. apply set_pend_good. apply G.
  - eapply good_trans; [exact G|]. apply goto_good. apply G.
Qed.
(* DECSTBM keeps the state sane (but of course not the margins) *)
Lemma decstbm_wf t p1 p2 : wf t -> 0 <= p1 -> 0 <= p2 -> wf (vt_decstbm t p1 p2) /\ same_size t (vt_decstbm t p1 p2).
Proof. intros; unfold vt_decstbm; crush. Qed.
Lemma decstbm_reset_full t : wf t -> full (vt_decstbm t 0 0) /\ wf (vt_decstbm t 0 0) /\ same_size t (vt_decstbm t 0 0).
Proof. intros; unfold vt_decstbm; crush. Qed.

(* ------------------------------------------------------------------ CSI / ESC / C0 dispatch, by final byte *)
Lemma csi_A t ps : vt_csi t ps 65 = (vt_up t (par1 ps 0), []). Proof. reflexivity. Qed.
Lemma csi_B t ps : vt_csi t ps 66 = (vt_down t (par1 ps 0), []). Proof. reflexivity. Qed.
Lemma csi_C t ps : vt_csi t ps 67 = (vt_right t (par1 ps 0), []). Proof. reflexivity. Qed.
Lemma csi_D t ps : vt_csi t ps 68 = (vt_left t (par1 ps 0), []). Proof. reflexivity. Qed.
Lemma csi_G t ps : vt_csi t ps 71 = (vt_goto t (par1 ps 0 - 1) (vy t), []). Proof. reflexivity. Qed.
Lemma csi_d t ps : vt_csi t ps 100 = (vt_goto t (vx t) (par1 ps 0 - 1), []). Proof. reflexivity. Qed.
Lemma csi_H t ps : vt_csi t ps 72 = (vt_goto t (par1 ps 1 - 1) (par1 ps 0 - 1), []). Proof. reflexivity. Qed.
Lemma csi_S t ps : vt_csi t ps 83 = (t, []). Proof. reflexivity. Qed.
Lemma csi_T t ps : vt_csi t ps 84 = (t, []). Proof. reflexivity. Qed.
Lemma csi_m t ps : vt_csi t ps 109 = (t, []). Proof. reflexivity. Qed.
Lemma csi_r t ps : vt_csi t ps 114 = (vt_decstbm t (par ps 0) (par ps 1), []). Proof. reflexivity. Qed.

(* every event keeps the state sane; events other than DECSTBM and DSR keep reset margins and answer nothing *)
Lemma csi_good t ps f : wf t -> (f =? 114)%N = false -> (f =? 110)%N = false ->
  good t (fst (vt_csi t ps f)) /\ snd (vt_csi t ps f) = [].
Proof.
  intros H Hr Hn. unfold vt_csi, feq. rewrite Hr, Hn.
  repeat match goal with |- context [if ?c then _ else _] => destruct c end; cbn [fst snd]; (split; [|reflexivity]);
  try (apply good_refl; exact H);
  first [ apply up_good | apply down_good | apply right_good | apply left_good | apply goto_good | apply save_good
        | apply restore_good
        | (eapply good_trans; [apply down_good; exact H|apply cr_good; apply down_good; exact H])
        | (eapply good_trans; [apply up_good; exact H|apply cr_good; apply up_good; exact H]) ]; exact H.
Qed.

Lemma esc_good t b : wf t -> good t (vt_esc t b).
Proof.
  intros H. unfold vt_esc.
  repeat match goal with |- context [if ?c then _ else _] => destruct c end;
  first [ apply index_good | apply rindex_good | apply blank_good | apply save_good | apply restore_good | apply good_refl
        | (eapply good_trans; [apply index_good; exact H|apply cr_good; apply index_good; exact H]) ]; exact H.
Qed.

Lemma c0_good t b : wf t -> good t (vt_c0 t b).
Proof.
  intros H. unfold vt_c0.
  repeat match goal with |- context [if ?c then _ else _] => destruct c end;
  first [ apply left_good | apply tab_good | apply index_good | apply cr_good | apply good_refl ]; exact H.
Qed.

Lemma apply_plain_good t e : wf t -> ev_plain e = true -> good t (fst (vt_apply t e)) /\ snd (vt_apply t e) = [].
Proof.
  intros H Hp. destruct e as [cp|b|b|ps f]; cbn [vt_apply fst snd].
  - split; [|reflexivity]. destruct (vt_width cp =? 0); [apply good_refl|apply print1_good]; exact H.
  - split; [apply c0_good; exact H|reflexivity].
  - split; [apply esc_good; exact H|reflexivity].
  - cbn [ev_plain] in Hp. apply csi_good; [exact H|lia|lia].
Qed.

Lemma run_plain_good evs : forall t, wf t -> forallb ev_plain evs = true ->
  good t (fst (vt_run t evs)) /\ snd (vt_run t evs) = [].
Proof.
  induction evs as [|e r IH]; intros t H Hp; cbn [vt_run fst snd].
  - split; [apply good_refl; exact H|reflexivity].
  - cbn [forallb] in Hp. apply andb_true_iff in Hp as [He Hr].
    destruct (apply_plain_good t e H He) as [G1 R1]. destruct (vt_apply t e) as [t1 r1]. cbn [fst snd] in *.
    destruct (IH t1 ltac:(apply G1) Hr) as [G2 R2]. destruct (vt_run t1 r) as [t2 r2]. cbn [fst snd] in *.
    subst. split; [eapply good_trans; eassumption|reflexivity].
Qed.

(* ------------------------------------------------------------------ effects of complete byte strings *)
(* bs, fed in the ground state, has exactly the effect f on the cursor state, returns to the ground state and
   makes the terminal answer nothing *)
Definition Eff (f : vt -> vt) (bs : list N) : Prop := forall t, vt_feed (PGround, t) bs = ((PGround, f t), []).

Lemma Eff_nil : Eff (fun t => t) []. Proof. intro t. reflexivity. Qed.
Lemma Eff_app f g a b : Eff f a -> Eff g b -> Eff (fun t => g (f t)) (a ++ b).
Proof. intros Ha Hb t. rewrite feed_app, Ha, Hb. reflexivity. Qed.
Lemma Eff_ext f g bs : (forall t, f t = g t) -> Eff f bs -> Eff g bs.
Proof. intros E H t. rewrite H, E. reflexivity. Qed.
Lemma Eff_id_app a b : Eff (fun t => t) a -> Eff (fun t => t) b -> Eff (fun t => t) (a ++ b).
Proof. intros Ha Hb. exact (Eff_app _ _ a b Ha Hb). Qed.
Lemma Eff_of_parse bs evs f : vt_parse PGround bs = (PGround, evs) -> (forall t, vt_run t evs = (f t, [])) -> Eff f bs.
Proof. intros Hp Hr t. unfold vt_feed. cbn [fst snd]. rewrite Hp, Hr. reflexivity. Qed.

Lemma run_null evs : forallb ev_null evs = true -> forall t, vt_run t evs = (t, []).
Proof.
  induction evs as [|e r IH]; intros Hn t; [reflexivity|].
  cbn [forallb] in Hn. apply andb_true_iff in Hn as [He Hr]. cbn [vt_run].
  assert (vt_apply t e = (t, [])) as ->.
  { destruct e as [cp|b|b|ps f]; cbn [ev_null] in He; cbn [vt_apply].
    - rewrite He. reflexivity.
    - discriminate.
    - assert (b = 92%N) as -> by lia. reflexivity.
    - assert (f = 109%N) as -> by lia. reflexivity. }
  rewrite IH by exact Hr. reflexivity.
Qed.
Lemma Eff_null bs : vt_null bs = true -> Eff (fun t => t) bs.
Proof.
  unfold vt_null. destruct (vt_parse PGround bs) as [s evs] eqn:E. destruct s; try discriminate.
  intros Hn. eapply Eff_of_parse; [exact E|]. intro t. apply run_null. exact Hn.
Qed.

(* a byte string that is harmless: complete, sane, no answer, reset margins stay reset *)
Definition Ben (bs : list N) : Prop :=
  forall t, wf t -> exists t', vt_feed (PGround, t) bs = ((PGround, t'), []) /\ good t t'.
Lemma Ben_app a b : Ben a -> Ben b -> Ben (a ++ b).
Proof.
  intros Ha Hb t H. destruct (Ha t H) as (t1 & E1 & G1). destruct (Hb t1 ltac:(apply G1)) as (t2 & E2 & G2).
  exists t2. rewrite feed_app, E1, E2. split; [reflexivity|eapply good_trans; eassumption].
Qed.
Lemma Ben_nil : Ben []. Proof. intros t H. exists t. split; [reflexivity|apply good_refl; exact H]. Qed.
Lemma Ben_of_Eff f bs : Eff f bs -> (forall t, wf t -> good t (f t)) -> Ben bs.
Proof. intros He Hg t H. exists (f t). split; [apply He|apply Hg; exact H]. Qed.
Lemma Ben_plain bs : vt_plain bs = true -> Ben bs.
Proof.
  unfold vt_plain. destruct (vt_parse PGround bs) as [s evs] eqn:E. destruct s; try discriminate.
  intros Hp t H. destruct (run_plain_good evs t H Hp) as [G R].
  exists (fst (vt_run t evs)). unfold vt_feed. cbn [fst snd]. rewrite E.
  destruct (vt_run t evs) as [t' r]. cbn [fst snd] in *. subst r. split; [reflexivity|exact G].
Qed.

(* n width-1 characters *)
Fixpoint pn (n : nat) (t : vt) : vt := match n with O => t | S k => pn k (vt_print1 t) end.
Lemma pn_add a b t : pn (a + b) t = pn b (pn a t).
Proof. revert t; induction a as [|a IH]; intros t; cbn [pn Nat.add]; [reflexivity|apply IH]. Qed.
Lemma pn_good n : forall t, wf t -> good t (pn n t).
Proof.
  induction n as [|n IH]; intros t H; cbn [pn]; [apply good_refl; exact H|].
  eapply good_trans; [apply print1_good; exact H|]. apply IH. apply print1_good. exact H.
Qed.

(* painting a run of cells that fits on the line: no wrap, the row, the saved cursor and the margins are untouched *)
Lemma pn_spec n : forall t, wf t -> vpend t = false -> vx t + Z.of_nat n <= vW t ->
  let t' := pn n t in
  vy t' = vy t /\ vsx t' = vsx t /\ vsy t' = vsy t /\ vspend t' = vspend t /\ vtop t' = vtop t /\ vbot t' = vbot t /\
  vW t' = vW t /\ vH t' = vH t /\
  (n = O -> t' = t) /\
  (n <> O -> vx t' = Z.min (vx t + Z.of_nat n) (vW t - 1) /\ vpend t' = (vx t + Z.of_nat n =? vW t)).
Proof.
  induction n as [|n IH]; intros t H Hp Hfit; cbn [pn]; cbv zeta.
  - repeat split; try reflexivity; congruence.
  - unfold vt_print1, vt_wrap. rewrite Hp.
    destruct (vx t =? vW t - 1) eqn:E.
    + assert (n = O) as -> by lia. cbn [pn]. unfold vt_set_pend. fields.
      repeat split; try reflexivity; try congruence; lia.
    + set (t1 := vt_goto t (vx t + 1) (vy t)).
      assert (H1 : wf t1) by (apply goto_good; exact H).
      assert (Hx1 : vx t1 = vx t + 1) by (unfold t1, vt_goto, wf in *; fields; lia).
      assert (Hy1 : vy t1 = vy t) by (unfold t1, vt_goto, wf in *; fields; lia).
      specialize (IH t1 H1 eq_refl). cbv zeta in IH.
      destruct IH as (A1 & A2 & A3 & A4 & A5 & A6 & A7 & A8 & A9 & A10); [unfold t1 at 2; unfold vt_goto; fields; lia|].
      assert (F : vsx t1 = vsx t /\ vsy t1 = vsy t /\ vspend t1 = vspend t /\ vtop t1 = vtop t /\ vbot t1 = vbot t /\
                  vW t1 = vW t /\ vH t1 = vH t) by (repeat split; reflexivity).
      destruct F as (F1 & F2 & F3 & F4 & F5 & F6 & F7).
      split; [congruence|]. split; [congruence|]. split; [congruence|]. split; [congruence|]. split; [congruence|].
      split; [congruence|]. split; [congruence|]. split; [congruence|]. split; [congruence|].
      intros _. destruct n as [|n'].
      * rewrite (A9 eq_refl). rewrite Hx1. split; [lia|]. change (vpend t1) with false. lia.
      * destruct (A10 ltac:(discriminate)) as [B1 B2]. rewrite B1, B2, Hx1, F6. split; lia.
Qed.
