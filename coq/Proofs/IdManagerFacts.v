From Coq Require Import ZArith NArith List Bool Lia ZifyN ZifyBool ZifyNat Permutation.
From Tup Require Import Lib.IdSpaceTy Gen.IdSpaceGen Gen.IdManagerGen Model.IdSpace Model.IdManager
  Spec.IdLayoutSpec Proofs.IdSpaceFacts Proofs.IdEnumFacts Proofs.IdGenFacts.
Import ListNotations.
Open Scope N_scope.

(* ------------------------------------------------------------------ tables *)
Lemma upd_same d sp l : upd_tbl d sp l sp = l.
Proof. unfold upd_tbl. destruct (space_eqb sp sp) eqn:E; [reflexivity|]. assert (sp = sp) by reflexivity. apply space_eqb_eq in H. congruence. Qed.
Lemma upd_other d sp l sp' : sp' <> sp -> upd_tbl d sp l sp' = d sp'.
Proof. intro H. unfold upd_tbl. destruct (space_eqb sp' sp) eqn:E; [apply space_eqb_eq in E; contradiction|reflexivity]. Qed.

Lemma has_id_iff l id : has_id l id = true <-> In id (map iid l).
Proof.
  unfold has_id. rewrite existsb_exists. split.
  - intros (r & Hr & E). apply in_map_iff. exists r. split; [lia|exact Hr].
  - intro H. apply in_map_iff in H. destruct H as (r & E & Hr). exists r. split; [exact Hr|lia].
Qed.
Lemma has_id_false l id : has_id l id = false <-> ~ In id (map iid l).
Proof. rewrite <- has_id_iff. destruct (has_id l id); split; intro H; [discriminate|exfalso; apply H; reflexivity|intro; discriminate|reflexivity]. Qed.

Lemma find_id_some l id r : find_id l id = Some r -> In r l /\ iid r = id.
Proof. unfold find_id. intro H. apply find_some in H. destruct H as [H1 H2]. split; [exact H1|lia]. Qed.

Lemma find_id_unique l r : NoDup (map iid l) -> In r l -> find_id l (iid r) = Some r.
Proof.
  unfold find_id. induction l as [|x l IH]; intros Hnd Hin; [contradiction|].
  cbn [map] in Hnd. apply NoDup_cons_iff in Hnd. destruct Hnd as [Hx Hnd]. cbn [find].
  destruct Hin as [->|Hin]; [rewrite N.eqb_refl; reflexivity|].
  destruct (iid x =? iid r) eqn:E; [|apply IH; assumption].
  exfalso. apply Hx. apply in_map_iff. exists r. split; [lia|exact Hin].
Qed.

Lemma nodup_snoc {A} (l : list A) a : NoDup l -> ~ In a l -> NoDup (l ++ [a]).
Proof.
  induction l as [|x l IH]; intros Hn Ha; [constructor; [intros []|constructor]|].
  apply NoDup_cons_iff in Hn. destruct Hn as [Hx Hn]. cbn [app]. constructor.
  - intro Hin. apply in_app_or in Hin. destruct Hin as [Hin|Hin]; [exact (Hx Hin)|]. destruct Hin as [Hin|Hin]; [|contradiction]. apply Ha. left. symmetry. exact Hin.
  - apply IH; [exact Hn|]. intro H. apply Ha. right. exact H.
Qed.

(* upsert *)
Lemma upsert_ids l r : forall i, In i (map iid (upsert l r)) <-> In i (map iid l) \/ i = iid r.
Proof.
  intro i. unfold upsert. destruct (has_id l (iid r)) eqn:E.
  - apply has_id_iff in E.
    assert (M : map iid (map (fun x => if iid x =? iid r then r else x) l) = map iid l).
    { rewrite map_map. apply map_ext. intro x. destruct (iid x =? iid r) eqn:E2; [lia|reflexivity]. }
    rewrite M. split; [tauto|]. intros [H| ->]; assumption.
  - rewrite map_app, in_app_iff. cbn [map In]. split.
    + intros [H|[H|[]]]; [left; exact H|right; symmetry; exact H].
    + intros [H|H]; [left; exact H|right; left; symmetry; exact H].
Qed.
Lemma upsert_nodup l r : NoDup (map iid l) -> NoDup (map iid (upsert l r)).
Proof.
  intro H. unfold upsert. destruct (has_id l (iid r)) eqn:E.
  - assert (M : map iid (map (fun x => if iid x =? iid r then r else x) l) = map iid l).
    { rewrite map_map. apply map_ext. intro x. destruct (iid x =? iid r) eqn:E2; [lia|reflexivity]. }
    rewrite M. exact H.
  - apply has_id_false in E. rewrite map_app. cbn [map]. apply nodup_snoc; assumption.
Qed.

Lemma upsert_in l r x : NoDup (map iid l) -> In x (upsert l r) <-> (x = r) \/ (In x l /\ iid x <> iid r).
Proof.
  intro Hnd. unfold upsert. destruct (has_id l (iid r)) eqn:E.
  - apply has_id_iff in E. rewrite in_map_iff. split.
    + intros (y & Hy & Hin). destruct (iid y =? iid r) eqn:E2; [left; congruence|right; subst y; split; [exact Hin|lia]].
    + intros [->|[Hin Hne]].
      * apply in_map_iff in E. destruct E as (y & Ey & Hy). exists y. split; [|exact Hy]. destruct (iid y =? iid r) eqn:E2; [reflexivity|lia].
      * exists x. split; [|exact Hin]. destruct (iid x =? iid r) eqn:E2; [lia|reflexivity].
  - apply has_id_false in E. rewrite in_app_iff. cbn [In]. split.
    + intros [H|[H|[]]]; [right; split; [exact H|]|left; congruence].
      intro Heq. apply E. apply in_map_iff. exists x. split; [exact Heq|exact H].
    + intros [->|[H _]]; [right; left; reflexivity|left; exact H].
Qed.

Lemma space_eq_dec (a b : space) : {a = b} + {a <> b}.
Proof. decide equality. Qed.

(* ------------------------------------------------------------------ well-formed databases *)
Definition WF (d : db) : Prop := forall sp, NoDup (map iid (d sp)) /\ (forall r, In r (d sp) -> in_space sp (iid r)).

Lemma wf_upd d sp l : WF d -> NoDup (map iid l) -> (forall r, In r l -> in_space sp (iid r)) -> WF (upd_tbl d sp l).
Proof.
  intros Hw Hn Hs sp'. destruct (space_eq_dec sp' sp) as [->|Hne].
  - rewrite upd_same. split; assumption.
  - rewrite upd_other by exact Hne. apply Hw.
Qed.

Theorem set_id_wf d id desc t d' : WF d -> set_id d id desc t = Some d' -> WF d'.
Proof.
  intros Hw H. unfold set_id in H. destruct (from_id id) as [sp|] eqn:E; [|discriminate]. inversion H; subst d'. clear H.
  apply from_id_spec in E. destruct (Hw sp) as [Hn Hs]. apply wf_upd; [exact Hw|apply upsert_nodup; exact Hn|].
  intros r Hr. apply (upsert_in _ _ _ Hn) in Hr. destruct Hr as [->|[Hr _]]; [exact E|apply Hs; exact Hr].
Qed.

Lemma nodup_map_filter {A B} (f : A -> B) p (s : list A) : NoDup (map f s) -> NoDup (map f (filter p s)).
Proof.
  induction s as [|x s IH]; cbn [map filter]; intro H; [constructor|]. inversion_clear H as [|? ? Hx Hs].
  destruct (p x); [|apply IH; exact Hs]. cbn [map]. constructor; [|apply IH; exact Hs].
  intro Hin. apply Hx. apply in_map_iff in Hin as (y & Hy & Hin). apply in_map_iff. exists y. split; [exact Hy|].
  apply filter_In in Hin. tauto.
Qed.

Lemma wf_filter d sp p : WF d -> WF (upd_tbl d sp (filter p (d sp))).
Proof.
  intro Hw. destruct (Hw sp) as [Hn Hs]. apply wf_upd; [exact Hw|apply nodup_map_filter; exact Hn|].
  intros r Hr. apply filter_In in Hr. apply Hs. tauto.
Qed.

Theorem del_id_wf d id d' : WF d -> del_id d id = Some d' -> WF d'.
Proof. intros Hw H. unfold del_id in H. destruct (from_id id) as [sp|]; [|discriminate]. inversion H; subst. apply wf_filter. exact Hw. Qed.

Theorem cleanup_wf d sp sub mx ch : WF d -> WF (cleanup d sp sub mx ch).
Proof. intro Hw. unfold cleanup. apply wf_filter. exact Hw. Qed.

(* ------------------------------------------------------------------ ORDER BY atime *)
Definition age_le (a b : irow) : Prop := (iatime a <= iatime b)%Z.

Lemma older_total ch a b : older ch a b = true \/ older ch b a = true.
Proof. unfold older. lia. Qed.
Lemma older_age ch a b : older ch a b = true -> age_le a b.
Proof. unfold older, age_le. lia. Qed.

Lemma insert_perm ch r l : Permutation (r :: l) (insert_sorted ch r l).
Proof.
  induction l as [|x l IH]; cbn [insert_sorted]; [apply Permutation_refl|].
  destruct (older ch r x); [apply Permutation_refl|].
  eapply Permutation_trans; [apply perm_swap|]. apply perm_skip. exact IH.
Qed.
Lemma sort_perm ch l : Permutation l (sort_by_age ch l).
Proof.
  induction l as [|x l IH]; [apply Permutation_refl|]. cbn [sort_by_age fold_right].
  eapply Permutation_trans; [apply perm_skip; exact IH|apply insert_perm].
Qed.

(* sorted: every element is age_le every later element *)
Fixpoint sorted (l : list irow) : Prop :=
  match l with [] => True | x :: r => (forall y, In y r -> age_le x y) /\ sorted r end.

Lemma insert_sorted_ok ch r l : sorted l -> sorted (insert_sorted ch r l).
Proof.
  induction l as [|x l IH]; intro Hs; [cbn; split; [intros y []|exact I]|].
  cbn [insert_sorted]. destruct Hs as [Hx Hl]. destruct (older ch r x) eqn:E.
  - cbn [sorted]. split; [|split; assumption]. intros y [<-|Hy]; [apply (older_age ch); exact E|].
    apply older_age in E. specialize (Hx y Hy). unfold age_le in *. lia.
  - cbn [sorted]. split; [|apply IH; exact Hl].
    intros y Hy. apply (Permutation_in _ (Permutation_sym (insert_perm ch r l))) in Hy. destruct Hy as [<-|Hy]; [|apply Hx; exact Hy].
    destruct (older_total ch r x) as [H|H]; [congruence|apply (older_age ch); exact H].
Qed.
Lemma sort_sorted ch l : sorted (sort_by_age ch l).
Proof. induction l as [|x l IH]; [exact I|]. cbn [sort_by_age fold_right]. apply insert_sorted_ok. exact IH. Qed.

Lemma in_skipn {A} (l : list A) n y : In y (skipn n l) -> In y l.
Proof. revert n. induction l as [|a l IH]; intros n H; [rewrite skipn_nil in H; exact H|]. destruct n; [exact H|]. right. exact (IH n H). Qed.
Lemma in_firstn {A} (l : list A) n y : In y (firstn n l) -> In y l.
Proof. revert n. induction l as [|a l IH]; intros n H; [rewrite firstn_nil in H; exact H|]. destruct n; [contradiction|]. destruct H as [H|H]; [left; exact H|right; exact (IH n H)]. Qed.

Lemma sorted_firstn_skipn l n x y : sorted l -> In x (firstn n l) -> In y (skipn n l) -> age_le x y.
Proof.
  revert n. induction l as [|a l IH]; intros n Hs Hx Hy; [rewrite firstn_nil in Hx; contradiction|].
  destruct n as [|n]; [contradiction|]. cbn [firstn skipn] in *. destruct Hs as [Ha Hl].
  destruct Hx as [<-|Hx]; [apply Ha; eapply in_skipn; exact Hy|eapply IH; eassumption].
Qed.
