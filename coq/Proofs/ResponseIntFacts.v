(* Proofs/ResponseIntFacts.v — the model of int(bytes) on canonical decimals and the model of
   bytes.decode("utf-8") on well-formed UTF-8 (Spec's inductive definition). *)
From Coq Require Import ZArith NArith List Bool Lia ZifyN ZifyBool ZifyNat.
From Tup Require Import Lib.ByteStr Lib.Dec Lib.DecFacts Model.ResponseModel Spec.ResponseSpec.
Import ListNotations.
Open Scope N_scope.
Ltac Zify.zify_post_hook ::= Z.to_euclidean_division_equations.

(* ------------------------------------------------------------------ digits of [dec] *)
Lemma digits_rev_digit fuel n : Forall (fun d => d < 10) (digits_rev fuel n).
Proof.
  revert n; induction fuel as [|f IH]; intros n; cbn [digits_rev]; [constructor|].
  destruct (n <? 10) eqn:E.
  - constructor; [lia|constructor].
  - constructor; [apply N.mod_lt; lia|apply IH].
Qed.

Lemma digits_rev_length fuel n : (length (digits_rev fuel n) <= fuel)%nat.
Proof.
  revert n; induction fuel as [|f IH]; intros n; cbn [digits_rev]; [cbn [length]; lia|].
  destruct (n <? 10); cbn [length]; [lia|]. specialize (IH (n / 10)). lia.
Qed.

Lemma dec_is_digits n : Forall (fun b => is_digit b = true) (dec n).
Proof.
  unfold dec. apply Forall_forall. intros b Hb. apply in_map_iff in Hb as (d & <- & Hd).
  apply in_rev in Hd. pose proof (digits_rev_digit (S (N.to_nat (N.size n))) n) as H.
  rewrite Forall_forall in H. specialize (H d Hd). unfold is_digit. lia.
Qed.

Lemma dec_nonempty n : dec n <> [].
Proof.
  unfold dec. cbn [digits_rev]. destruct (n <? 10); cbn [rev]; intros H;
  apply map_eq_nil in H; apply app_eq_nil in H; destruct H; discriminate.
Qed.

Lemma dec_length_size n : (length (dec n) <= S (N.to_nat (N.size n)))%nat.
Proof. unfold dec. rewrite map_length, rev_length. apply digits_rev_length. Qed.

(* every 32-bit number has a decimal form within CPython's limit *)
Lemma num_ok_32 n : n < 2 ^ 32 -> num_ok n.
Proof.
  intros H. unfold num_ok. pose proof (dec_length_size n) as L.
  assert (S : N.size n <= 32).
  { destruct n as [|p]; [cbn; lia|].
    pose proof (N.size_le (N.pos p)) as S.
    assert (2 ^ N.size (N.pos p) < 2 ^ 33) by (change (2 ^ 33) with (2 * 2 ^ 32); lia).
    apply N.pow_lt_mono_r_iff in H0; lia. }
  lia.
Qed.

Lemma digit_plain b : is_digit b = true -> b <> 27 /\ b <> 44 /\ b <> 59 /\ b <> 61.
Proof. unfold is_digit. intros H. repeat split; lia. Qed.

(* ------------------------------------------------------------------ int() on a decimal *)
Lemma int_body_digits ds : Forall (fun b => is_digit b = true) ds -> forall acc nd,
  int_body ds acc nd false
  = Some (fold_left (fun a b => a * 10 + (b - 48)) ds acc, nd + N.of_nat (length ds), []).
Proof.
  induction 1 as [|b r Hb _ IH]; intros acc nd.
  - cbn [int_body fold_left length]. replace (nd + N.of_nat 0) with nd by lia. reflexivity.
  - cbn [int_body fold_left length]. rewrite Hb, IH.
    replace (nd + 1 + N.of_nat (length r)) with (nd + N.of_nat (S (length r))) by lia. reflexivity.
Qed.

Lemma py_int_dec n : num_ok n -> py_int (dec n) = Some (Z.of_N n).
Proof.
  intros Hn. pose proof (dec_is_digits n) as Hd. pose proof (undec_dec n) as Hu.
  unfold undec in Hu. unfold num_ok in Hn.
  destruct (dec n) as [|b r] eqn:E; [exfalso; eapply dec_nonempty; eauto|].
  pose proof (Forall_inv Hd) as Hb. cbn beta in Hb.
  assert (Hs : is_space b = false) by (unfold is_digit, is_space in *; lia).
  unfold py_int. cbn [lstrip]. rewrite Hs.
  destruct (b =? 43) eqn:E1; [unfold is_digit in Hb; lia|].
  destruct (b =? 45) eqn:E2; [unfold is_digit in Hb; lia|].
  unfold int_unsigned. rewrite Hb. rewrite (int_body_digits (b :: r) Hd). cbn [lstrip].
  rewrite Hu.
  destruct (max_str_digits <? 0 + N.of_nat (length (b :: r))) eqn:E3; [unfold max_str_digits in E3; lia|].
  reflexivity.
Qed.

(* ------------------------------------------------------------------ UTF-8 *)
Lemma cont_is_cont c : cont c -> is_cont c = true.
Proof. unfold cont, is_cont. lia. Qed.

Lemma utf8_ok_complete l : utf8 l -> utf8_ok l = true.
Proof.
  induction 1 as [ | b r Hb _ IH | b c1 r Hb H1 _ IH | c1 c2 r H1 H2 _ IH | b c1 c2 r Hb H1 H2 _ IH
                 | c1 c2 r H1 H2 _ IH | c1 c2 c3 r H1 H2 H3 _ IH | b c1 c2 c3 r Hb H1 H2 H3 _ IH
                 | c1 c2 c3 r H1 H2 H3 _ IH ].
  - reflexivity.
  - cbn [utf8_ok]. destruct (b <? 128) eqn:E; [exact IH|lia].
  - cbn [utf8_ok]. destruct (b <? 128) eqn:E; [lia|].
    destruct ((194 <=? b) && (b <=? 223)) eqn:E2; [|lia].
    rewrite (cont_is_cont _ H1), IH. reflexivity.
  - change (utf8_ok (224 :: c1 :: c2 :: r))
      with (((160 <=? c1) && (c1 <=? 191)) && is_cont c2 && utf8_ok r).
    rewrite (cont_is_cont _ H2), IH. destruct ((160 <=? c1) && (c1 <=? 191)) eqn:E; [reflexivity|lia].
  - cbn [utf8_ok]. destruct (b <? 128) eqn:E; [lia|].
    destruct ((194 <=? b) && (b <=? 223)) eqn:E2; [lia|].
    destruct ((224 <=? b) && (b <=? 239)) eqn:E3; [|lia].
    destruct (b =? 224) eqn:E4; [lia|]. destruct (b =? 237) eqn:E5; [lia|].
    rewrite (cont_is_cont _ H1), (cont_is_cont _ H2), IH. reflexivity.
  - change (utf8_ok (237 :: c1 :: c2 :: r))
      with (((128 <=? c1) && (c1 <=? 159)) && is_cont c2 && utf8_ok r).
    rewrite (cont_is_cont _ H2), IH. destruct ((128 <=? c1) && (c1 <=? 159)) eqn:E; [reflexivity|lia].
  - change (utf8_ok (240 :: c1 :: c2 :: c3 :: r))
      with (((144 <=? c1) && (c1 <=? 191)) && is_cont c2 && is_cont c3 && utf8_ok r).
    rewrite (cont_is_cont _ H2), (cont_is_cont _ H3), IH.
    destruct ((144 <=? c1) && (c1 <=? 191)) eqn:E; [reflexivity|lia].
  - cbn [utf8_ok]. destruct (b <? 128) eqn:E; [lia|].
    destruct ((194 <=? b) && (b <=? 223)) eqn:E2; [lia|].
    destruct ((224 <=? b) && (b <=? 239)) eqn:E3; [lia|].
    destruct ((240 <=? b) && (b <=? 244)) eqn:E6; [|lia].
    destruct (b =? 240) eqn:E4; [lia|]. destruct (b =? 244) eqn:E5; [lia|].
    rewrite (cont_is_cont _ H1), (cont_is_cont _ H2), (cont_is_cont _ H3), IH. reflexivity.
  - change (utf8_ok (244 :: c1 :: c2 :: c3 :: r))
      with (((128 <=? c1) && (c1 <=? 143)) && is_cont c2 && is_cont c3 && utf8_ok r).
    rewrite (cont_is_cont _ H2), (cont_is_cont _ H3), IH.
    destruct ((128 <=? c1) && (c1 <=? 143)) eqn:E; [reflexivity|lia].
Qed.
