(* Proofs/SendCommandProofs.v — facts about Model/SendCommand.v (GraphicsTerminal.send_command) *)
From Coq Require Import ZArith NArith List Bool.
From Tup Require Import Lib.ByteStr Lib.CommandTypes Model.GraphicsCommand Model.SendModel Model.SendCommand Proofs.CommandProofs.
Import ListNotations.

Lemma effective_given b a : effective (Some b) a = b.
Proof. reflexivity. Qed.
Lemma effective_default a : effective None a = a.
Proof. reflexivity. Qed.

(* both switches effectively off: the command is sent as the caller built it *)
Theorem rewrite_off tf cp cd pid file c :
  effective cp (tf_placeholders tf) = false -> effective cd (tf_direct tf) = false ->
  rewrite_command tf cp cd pid file c = Some (c, false).
Proof. intros H1 H2. unfold rewrite_command. rewrite H1, H2. reflexivity. Qed.

Theorem send_command_off tf cp cd pid file t m c :
  effective cp (tf_placeholders tf) = false -> effective cd (tf_direct tf) = false ->
  send_command tf cp cd pid file t m c =
    match send c t m with SendError => ScRejected | SendOk ws => ScWritten ws false end.
Proof. intros H1 H2. unfold send_command. rewrite (rewrite_off tf cp cd pid file c H1 H2). reflexivity. Qed.

(* an explicit per-call False wins over whatever the terminal object is set to *)
Theorem per_call_false_wins tf pid file c :
  rewrite_command tf (Some false) (Some false) pid file c = Some (c, false).
Proof. apply rewrite_off; reflexivity. Qed.
(* ... and an explicit per-call True acts whatever the terminal object is set to *)
Theorem per_call_true_acts tf tf' cd pid file c :
  tf_direct tf = tf_direct tf' ->
  rewrite_command tf (Some true) cd pid file c = rewrite_command tf' (Some true) cd pid file c.
Proof. intro H. unfold rewrite_command. rewrite !effective_given. unfold effective. rewrite H. reflexivity. Qed.

(* the `x or y` reading of the switches (a per-call False falls through to the attribute) is a different function *)
Definition effective_or (call : option bool) (attr : bool) : bool :=
  match call with Some true => true | _ => attr end.
Theorem effective_or_refuted : effective (Some false) true <> effective_or (Some false) true.
Proof. discriminate. Qed.

(* what the placeholder rewrite does, exactly *)
Definition same_geometry (p q : placement) : Prop :=
  p_rows q = p_rows p /\ p_cols q = p_cols p /\ p_do_not_move_cursor q = p_do_not_move_cursor p /\
  p_src_x q = p_src_x p /\ p_src_y q = p_src_y p /\ p_src_w q = p_src_w p /\ p_src_h q = p_src_h p.

Theorem rewrite_placeholders_put pid u :
  let '(c', pr) := rewrite_placeholders pid (CPut u) in
  if is_virtual (u_placement u) then c' = CPut u /\ pr = false
  else exists u', c' = CPut u' /\ pr = true /\
        u_image_id u' = u_image_id u /\ u_image_number u' = u_image_number u /\ u_quiet u' = u_quiet u /\
        p_virtual (u_placement u') = Some true /\
        p_placement_id (u_placement u') = Some (match p_placement_id (u_placement u) with Some x => x | None => pid end) /\
        same_geometry (u_placement u) (u_placement u').
Proof.
  cbn [rewrite_placeholders]. destruct (is_virtual (u_placement u)); [split; reflexivity|].
  eexists. split; [reflexivity|]. split; [reflexivity|]. cbn. repeat split.
  destruct (p_placement_id (u_placement u)); reflexivity.
Qed.

Theorem rewrite_placeholders_transmit pid t :
  let '(c', pr) := rewrite_placeholders pid (CTransmit t) in
  match t_placement t with
  | None => c' = CTransmit t /\ pr = false
  | Some p =>
      if is_virtual p then c' = CTransmit t /\ pr = false
      else exists p', c' = CTransmit (with_placement t (Some p')) /\ pr = true /\
             p_virtual p' = Some true /\
             p_placement_id p' = Some (match p_placement_id p with Some x => x | None => pid end) /\
             same_geometry p p'
  end.
Proof.
  cbn [rewrite_placeholders]. destruct (t_placement t) as [p|]; [|split; reflexivity].
  destruct (is_virtual p); [split; reflexivity|].
  eexists. split; [reflexivity|]. split; [reflexivity|]. cbn. repeat split.
  destruct (p_placement_id p); reflexivity.
Qed.

Theorem rewrite_placeholders_other pid c :
  (forall t, c <> CTransmit t) -> (forall u, c <> CPut u) -> rewrite_placeholders pid c = (c, false).
Proof. intros H1 H2. destruct c as [t|m|u|d]; try reflexivity; [elim (H1 t)|elim (H2 u)]; reflexivity. Qed.

(* the rewrite is idempotent: a command it has produced is left alone *)
Theorem rewrite_placeholders_idem pid pid' c :
  rewrite_placeholders pid' (fst (rewrite_placeholders pid c)) = (fst (rewrite_placeholders pid c), false).
Proof.
  destruct c as [t|m|u|d]; try reflexivity.
  - cbn [rewrite_placeholders]. destruct (t_placement t) as [p|] eqn:Hp.
    + destruct (is_virtual p) eqn:Hv; cbn [fst rewrite_placeholders]; [rewrite Hp, Hv; reflexivity|reflexivity].
    + cbn [fst rewrite_placeholders]. rewrite Hp. reflexivity.
  - cbn [rewrite_placeholders]. destruct (is_virtual (u_placement u)) eqn:Hv; cbn [fst rewrite_placeholders]; [rewrite Hv; reflexivity|reflexivity].
Qed.

(* the file rewrite: only file-name transmissions with a non-empty name, and then medium = direct, payload = contents *)
Theorem rewrite_direct_spec file c c' : rewrite_direct file c = Some c' ->
  c' = c \/
  exists t content, c = CTransmit t /\ (t_medium t = Some MFile \/ t_medium t = Some MTemp) /\ t_data t <> [] /\
                    file (t_data t) = Some content /\ c' = CTransmit (with_medium_data t (Some MDirect) content).
Proof.
  destruct c as [t|m|u|d]; cbn [rewrite_direct]; try (intro H; inversion H; left; reflexivity).
  destruct (t_medium t) as [[| | |]|] eqn:Hm; try (intro H; inversion H; left; reflexivity).
  - destruct (t_data t) as [|b r] eqn:Hd; [intro H; inversion H; left; reflexivity|].
    destruct (file (b :: r)) as [content|] eqn:Hf; [|discriminate]. intro H; inversion H. right.
    exists t, content. repeat split; [left; exact Hm|rewrite Hd; discriminate|rewrite Hd; exact Hf].
  - destruct (t_data t) as [|b r] eqn:Hd; [intro H; inversion H; left; reflexivity|].
    destruct (file (b :: r)) as [content|] eqn:Hf; [|discriminate]. intro H; inversion H. right.
    exists t, content. repeat split; [right; exact Hm|rewrite Hd; discriminate|rewrite Hd; exact Hf].
Qed.

(* whatever the switches: the command that is sent has a well-formed payload when the caller's had one and files hold
   bytes — so Props/C06 (C06_roundtrip, C06_conforms) and Props/C05 apply to what send_command writes *)
Lemma payload_ok_placeholders pid c : payload_ok c -> payload_ok (fst (rewrite_placeholders pid c)).
Proof.
  destruct c as [t|m|u|d]; try (intro H; exact H).
  - cbn [rewrite_placeholders]. destruct (t_placement t) as [p|]; [|intro H; exact H].
    destruct (is_virtual p); intro H; exact H.
  - cbn [rewrite_placeholders]. destruct (is_virtual (u_placement u)); intro H; exact H.
Qed.

Theorem rewritten_payload_ok tf cp cd pid file c c' pr :
  (forall name content, file name = Some content -> bytes_ok content) ->
  payload_ok c -> rewrite_command tf cp cd pid file c = Some (c', pr) -> payload_ok c'.
Proof.
  intros Hf Hp. unfold rewrite_command.
  set (r := if effective cp (tf_placeholders tf) then rewrite_placeholders pid c else (c, false)).
  assert (H1 : payload_ok (fst r)).
  { subst r. destruct (effective cp (tf_placeholders tf)); [apply payload_ok_placeholders; exact Hp|exact Hp]. }
  destruct r as [c1 print]. cbn [fst] in H1.
  destruct (effective cd (tf_direct tf)).
  - destruct (rewrite_direct file c1) as [c2|] eqn:Hd; [|discriminate]. intro H; inversion H; subst c2 pr.
    destruct (rewrite_direct_spec file c1 c' Hd) as [->|(t & content & -> & _ & _ & Hfc & ->)]; [exact H1|].
    unfold payload_ok. cbn. exact (Hf _ _ Hfc).
  - intro H; inversion H; subst. exact H1.
Qed.
